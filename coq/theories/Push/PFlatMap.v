(* Engine "Push": flat_map.rs / flatten.rs -- the item buffered across a Pending answer
   (FlatMap.buffer : Option<(iterator, next item)>) is neither lost nor duplicated. *)
From Coq Require Import List NArith Bool Arith Lia.
From HV Require Import Push.Model Push.PBase Push.POne.
Import ListNotations.

Set Implicit Arguments.

Lemma fs_rdy : forall A r (l : list (ev A)), finstarted (ERdy r :: l) = finstarted l.
Proof. reflexivity. Qed.
Lemma fs_send : forall A a (l : list (ev A)), finstarted (ESend a :: l) = finstarted l.
Proof. reflexivity. Qed.
Lemma fs_fin : forall A r (l : list (ev A)), finstarted (EFin r :: l) = true.
Proof. reflexivity. Qed.
Lemma fd_rdy : forall A r (l : list (ev A)), findone (ERdy r :: l) = findone l.
Proof. reflexivity. Qed.
Lemma fd_send : forall A a (l : list (ev A)), findone (ESend a :: l) = findone l.
Proof. reflexivity. Qed.
Lemma fd_fin : forall A r (l : list (ev A)), findone (EFin r :: l) = (r || findone l)%bool.
Proof. intros. destruct r; reflexivity. Qed.

Ltac lsimp :=
  cbn [wf sent rdy fst snd];
  rewrite ?fs_rdy, ?fs_send, ?fs_fin, ?fd_rdy, ?fd_send, ?fd_fin.

Section FM.
  Context {A B : Type} (g : A -> list B).
  Let R := rec_push B.

  Definition pendb (buf : option (list B * B)) : list B :=
    match buf with None => [] | Some (it, item) => item :: it end.
  Definition fm_pend (st : fm_st R) : list B := pendb (fst st).
  Definition fm_lg (st : fm_st R) : list (ev B) := lg (snd st).
  Definition fm_mu (st : fm_st R) : nat := mu_ds (snd st).

  (* the drain loop: sends a prefix of the buffered items, keeps the rest *)
  Lemma fm_drain_spec : forall it item (s : ds B),
      wf (lg s) = true -> finstarted (lg s) = false ->
      match fm_drain R it item s with
      | (buf, ok, s') =>
        wf (lg s') = true /\ finstarted (lg s') = false /\
        sent (lg s') ++ pendb buf = sent (lg s) ++ item :: it /\
        (ok = true -> buf = None) /\
        mu_ds s' + (if ok then 0 else 1) <= mu_ds s
      end.
  Proof.
    induction it as [|nxt it IH]; intros item s W F; cbn [fm_drain R rec_push ready send].
    - pose proof (rec_ready_mu s) as M. pose proof (rec_ready_lg s) as L.
      destruct (rec_ready s) as [r s1]. cbn [fst snd] in *. destruct r.
      + cbn [rec_send lg]. rewrite L. lsimp.
        rewrite F, W, (finstarted_false_findone _ F). cbn. rewrite app_nil_r.
        repeat split; auto. unfold mu_ds, npend in *; cbn [rs fs] in *; lia.
      + rewrite L. lsimp.
        rewrite F, W, (finstarted_false_findone _ F). cbn. repeat split; auto; try discriminate. unfold mu_ds, npend in *; cbn [rs fs] in *; lia.
    - pose proof (rec_ready_mu s) as M. pose proof (rec_ready_lg s) as L.
      destruct (rec_ready s) as [r s1]. cbn [fst snd] in *. destruct r.
      + cbn [rec_send].
        specialize (IH nxt (mkds (rs s1) (fs s1) (ESend item :: lg s1))).
        cbn [lg] in IH. rewrite L in IH. cbn [wf sent rdy] in IH. rewrite ?fs_rdy, ?fs_send, ?fd_rdy, ?fd_send in IH.
        rewrite F, W, (finstarted_false_findone _ F) in IH. cbn [negb andb] in IH.
        specialize (IH eq_refl F). rewrite L.
        destruct (fm_drain R it nxt (mkds (rs s1) (fs s1) (ESend item :: ERdy true :: lg s))) as [[buf ok] s'].
        destruct IH as [W' [F' [S' [O' M']]]]. repeat split; auto.
        * rewrite S'. rewrite <- app_assoc. reflexivity.
        * unfold mu_ds, npend in *; cbn [rs fs] in *; lia.
      + rewrite L. lsimp.
        rewrite F, W, (finstarted_false_findone _ F). cbn. repeat split; auto; try discriminate. unfold mu_ds, npend in *; cbn [rs fs] in *; lia.
  Qed.

  (* poll_ready, in the running and in the finalizing phase *)
  Lemma fm_ready_spec : forall (st : fm_st R) (X : list B),
      wf (fm_lg st) = true -> findone (fm_lg st) = false ->
      (finstarted (fm_lg st) = true -> fm_pend st = []) ->
      sent (fm_lg st) ++ fm_pend st = X ->
      match fm_ready st with
      | (r, st') =>
        wf (fm_lg st') = true /\ findone (fm_lg st') = false /\
        finstarted (fm_lg st') = finstarted (fm_lg st) /\
        (finstarted (fm_lg st') = true -> fm_pend st' = []) /\
        sent (fm_lg st') ++ fm_pend st' = X /\
        (r = true -> rdy (fm_lg st') = true /\ fm_pend st' = []) /\
        fm_mu st' + (if r then 0 else 1) <= fm_mu st
      end.
  Proof.
    intros [buf s] X W D P S. unfold fm_lg, fm_pend, fm_mu, fm_ready in *. cbn [fst snd] in *.
    destruct buf as [[it item]|].
    - assert (F : finstarted (lg s) = false).
      { destruct (finstarted (lg s)); auto. specialize (P eq_refl). discriminate. }
      pose proof (fm_drain_spec it item s W F) as Q.
      destruct (fm_drain R it item s) as [[buf' ok] s1]. destruct Q as [W1 [F1 [S1 [O1 M1]]]].
      destruct ok.
      + cbn [R rec_push ready]. rewrite (O1 eq_refl) in *. cbn [pendb] in *.
        pose proof (rec_ready_mu s1) as M. pose proof (rec_ready_lg s1) as L.
        destruct (rec_ready s1) as [r s2]. cbn [fst snd] in *. rewrite L.
        lsimp.
        rewrite W1, F1, (finstarted_false_findone _ F1), F. cbn [negb andb].
        repeat split; auto; try discriminate; try congruence.
        all: cbn [pendb] in *; try (rewrite S1; exact S); try (destruct r; [reflexivity|discriminate]); try lia.
      + cbn [fst snd]. rewrite W1, F1, F, (finstarted_false_findone _ F1).
        repeat split; auto; try discriminate; try congruence.
        rewrite S1. exact S.
    - cbn [R rec_push ready].
      pose proof (rec_ready_mu s) as M. pose proof (rec_ready_lg s) as L.
      destruct (rec_ready s) as [r s2]. cbn [fst snd pendb] in *. rewrite L.
      lsimp. rewrite W, D.
      cbn [negb andb]. repeat split; auto.
      all: try (destruct r; [reflexivity|discriminate]).
      lia.
  Qed.

  Let p := flat_map_push R g.
  Let I := Inv1 p fm_lg fm_pend (flat_map g).

  Lemma fmap_ready : ready_ok p I.
  Proof.
    intros xs b st [W [F [S Rd]]]. unfold I, Inv1, p. cbn [ready flat_map_push St].
    pose proof (@fm_ready_spec st (flat_map g xs) W (finstarted_false_findone _ F)) as Q.
    rewrite F in Q. specialize (Q (fun e => False_ind _ (diff_false_true e)) S).
    destruct (fm_ready st) as [r st']. cbn [fst snd].
    destruct Q as [W' [D' [F' [P' [S' [R' M']]]]]]. repeat split; auto; apply R'; auto.
  Qed.

  Lemma fmap_send : send_ok p I.
  Proof.
    intros xs a [buf s] [W [F [S Rd]]]. destruct (Rd eq_refl) as [R1 P1].
    unfold I, Inv1, p, fm_lg, fm_pend in *. cbn [send flat_map_push St fm_send fst snd] in *.
    destruct buf as [[it item]|]; [discriminate|]. cbn [pendb] in *. rewrite app_nil_r in S.
    rewrite flat_map_app. cbn [flat_map]. rewrite app_nil_r.
    unfold fm_send. cbn [fst snd].
    destruct (g a) as [|b0 it0]; eexists; (split; [reflexivity|]); cbn [fst snd pendb];
      rewrite S; repeat split; auto; discriminate.
  Qed.

  Lemma fmap_fin : fin_ok p I.
  Proof.
    intros xs st H. unfold I, Inv1, p in *. cbn [fin flat_map_push St] in *. unfold fm_fin.
    assert (G : wf (fm_lg st) = true /\ findone (fm_lg st) = false /\
                (finstarted (fm_lg st) = true -> fm_pend st = []) /\
                sent (fm_lg st) ++ fm_pend st = flat_map g xs).
    { destruct H as [[W [D [S P]]]|[b [W [F [S _]]]]]; repeat split; auto.
      - apply finstarted_false_findone; auto.
      - intro E. congruence. }
    destruct G as [W [D [P S]]].
    destruct st as [buf s]. destruct buf as [bi|]; cbn [fst snd].
    - (* buffer.is_some(): drain through poll_ready first *)
      unfold fm_fin_drain.
      pose proof (@fm_ready_spec (Some bi, s) (flat_map g xs) W D P S) as Q.
      destruct (fm_ready (Some bi, s)) as [r st1]. destruct Q as [W' [D' [F' [P' [S' [R' M']]]]]].
      destruct r; cbn [fst snd].
      + destruct (R' eq_refl) as [_ E1]. rewrite E1, app_nil_r in S'.
        cbn [R rec_push fin]. pose proof (rec_fin_lg (snd st1)) as L.
        destruct (rec_fin (snd st1)) as [r2 s2]. cbn [fst snd] in *. unfold fm_lg, fm_pend in *.
        cbn [fst snd]. rewrite L. rewrite E1.
        destruct r2; cbn [wf finstarted findone existsb is_fin is_findone sent orb];
          rewrite ?W', ?D'; cbn [negb andb]; rewrite ?app_nil_r; repeat split; auto.
      + repeat split; auto.
    - (* empty buffer: next.poll_finalize directly *)
      unfold fm_lg, fm_pend in *. cbn [fst snd pendb] in *. rewrite app_nil_r in S.
      cbn [R rec_push fin]. pose proof (rec_fin_lg s) as L.
      destruct (rec_fin s) as [r2 s2]. cbn [fst snd] in *. rewrite L.
      destruct r2; cbn [wf finstarted findone existsb is_fin is_findone sent orb pendb];
        rewrite ?W, ?D; cbn [negb andb]; rewrite ?app_nil_r; repeat split; auto.
  Qed.

  Theorem flat_map_correct : forall fuel items rs0 fs0,
      match drive p fuel items (None, mkds rs0 fs0 []) [] with
      | (o, _, s') => o <> Panicked /\ down_spec (flat_map g) items o (lg (snd s'))
      end.
  Proof.
    intros. apply (one_spec fmap_ready fmap_send fmap_fin). split; [reflexivity|].
    cbn. repeat split; auto; discriminate.
  Qed.

End FM.

(* flatten.rs: the same machine with the identity closure *)
Theorem flatten_correct : forall B fuel (items : list (list B)) rs0 fs0,
    match drive (flatten_push (rec_push B)) fuel items (None, mkds rs0 fs0 []) [] with
    | (o, _, s') => o <> Panicked /\ down_spec (flat_map (fun l : list B => l)) items o (lg (snd s'))
    end.
Proof. intros. exact (flat_map_correct (fun l : list B => l) fuel items rs0 fs0). Qed.
