(* Engine "Push": case evaluation for the correspondence check of C12.
   A case names a combinator (with closures from a fixed vocabulary shared with
   harness/h_push), the driver's fuel, the item sequence (every item encoded as a list of N)
   and one (ready script, finalize script) per downstream.  [run_case] runs the model;
   [chk12] compares with the implementation's observation (bit 0) and evaluates the
   executable form of property C12 on the implementation's observation (bit 1). *)
From Coq Require Import List NArith Bool Arith.
From HV Require Import Push.Model Push.Model2.
Import ListNotations.

Set Implicit Arguments.

(* ------------------------------------------------------------------ closure vocabulary *)

Inductive fcode := FId | FAdd (k : N) | FMul (k : N).
Inductive pcode := PTrue | PFalse | PModEq (m r : N) | PLt (k : N).
Inductive gcode := GRep (m : N) | GRange (m : N) | GTwo.

Definition fev (f : fcode) (x : N) : N :=
  match f with FId => x | FAdd k => (x + k)%N | FMul k => (x * k)%N end.
Definition pev (q : pcode) (x : N) : bool :=
  match q with
  | PTrue => true | PFalse => false
  | PModEq m r => N.eqb (N.modulo x m) r
  | PLt k => N.ltb x k
  end.
Fixpoint range (x : N) (n : nat) : list N :=
  match n with 0 => [] | S k => x :: range (x + 1)%N k end.
Definition gev (g : gcode) (x : N) : list N :=
  match g with
  | GRep m => repeat x (N.to_nat (N.modulo x m))
  | GRange m => range x (N.to_nat (N.modulo x m))
  | GTwo => [x; (x + 10)%N]
  end.

Inductive ocode := OAdd | OMax | OMin.
Definition oev (o : ocode) (a x : N) : N :=
  match o with OAdd => (a + x)%N | OMax => N.max a x | OMin => N.min a x end.

(* keyed outputs (k, acc) are observed by the recorder as one number *)
Definition enc_kv (kv : N * N) : N := (fst kv * 100000 + snd kv)%N.

Inductive comb :=
| CMap (f : fcode)
| CFilter (q : pcode)
| CFilterMap (q : pcode) (f : fcode)
| CInspect
| CFlatMap (g : gcode)
| CFlatten
| CFanout
| CUnzip
| CDemux
| CFold (o : ocode) (init : N)
| CReduce (o : ocode) (init : option N)
| CSortAcc
| CSort
| CPersist (pre : list N) (replay : bool)
| CForEach
| CFoldKeyed (o : ocode) (init : N) (ord : list N)
| CReduceKeyed (o : ocode) (ord : list N)
| CResolve (waker : bool)
(* pipelines (composition) *)
| CPipeFMFanout (g : gcode)                              (* flat_map -> fanout(rec0, rec1) *)
| CPipeMFF (f : fcode) (g : gcode) (q : pcode)           (* map -> flat_map -> filter -> rec0 *)
| CPipeFFF (q : pcode) (f : fcode) (o : ocode) (init : N). (* filter -> fanout(map -> rec0, fold -> rec1) *)

(* ------------------------------------------------------------------ item decoding *)

Definition it_n (i : list N) : N := hd 0%N i.
Definition it_pair (i : list N) : N * N := (nth 0 i 0%N, nth 1 i 0%N).
Definition it_idx (i : list N) : nat * N := (N.to_nat (nth 0 i 0%N), nth 1 i 0%N).

Definition it_fut (i : list N) : N * nat := (nth 0 i 0%N, N.to_nat (nth 1 i 0%N)).

Definition script := (list bool * list bool)%type.
Definition nthsc (l : list script) (i : nat) : script := nth i l ([], []).

Definition observation := (outcome * list dev * list (list (ev N)))%type.

Definition R := rec_push N.

Definition fmopt (q : pcode) (f : fcode) (x : N) : option N := if pev q x then Some (fev f x) else None.

Definition run1 {A} (p : push A) (s0 : St p) (lgs : St p -> list (list (ev N)))
           (fuel : nat) (items : list A) : observation :=
  match drive p fuel items s0 [] with
  | (o, tr, s) => (o, rev tr, match o with Panicked => [] | _ => map (@rev _) (lgs s) end)
  end.

Definition run_case (c : comb) (fuel : nat) (items : list (list N)) (dn : list script) : observation :=
  let d0 : ds N := ds0 (nthsc dn 0) in
  let d1 : ds N := ds0 (nthsc dn 1) in
  match c with
  | CMap f => run1 (map_push R (fev f)) d0 (fun s => [lg s]) fuel (map it_n items)
  | CFilter q => run1 (filter_push R (pev q)) d0 (fun s => [lg s]) fuel (map it_n items)
  | CFilterMap q f => run1 (filter_map_push R (fmopt q f)) d0 (fun s => [lg s]) fuel (map it_n items)
  | CInspect => run1 (inspect_push R) ([], d0) (fun s => [lg (snd s); map (@ESend N) (fst s)])
                     fuel (map it_n items)
  | CFlatMap g => run1 (flat_map_push R (gev g)) (None, d0) (fun s => [lg (snd s)]) fuel (map it_n items)
  | CFlatten => run1 (flatten_push R) (None, d0) (fun s => [lg (snd s)]) fuel items
  | CFanout => run1 (fanout_push R R) ((false, false), (d0, d1))
                    (fun s => [lg (fst (snd s)); lg (snd (snd s))]) fuel (map it_n items)
  | CUnzip => run1 (unzip_push R R) ((false, false), (d0, d1))
                   (fun s => [lg (fst (snd s)); lg (snd (snd s))]) fuel (map it_pair items)
  | CDemux => run1 (demux_push R) ([], map (@ds0 N) dn) (fun s => map (@lg N) (snd s)) fuel
                   (map it_idx items)
  | CFold o init => run1 (accumulate_push (oev o) (@fold_outf N) R) (Accumulating init, d0)
                         (fun s => [lg (snd s)]) fuel (map it_n items)
  | CReduce o init => run1 (accumulate_push (reduce_accf (oev o)) (@reduce_outf N) R) (Accumulating init, d0)
                           (fun s => [lg (snd s)]) fuel (map it_n items)
  | CSortAcc => run1 (accumulate_push sortst_accf sortN R) (Accumulating [], d0)
                     (fun s => [lg (snd s)]) fuel (map it_n items)
  | CSort => run1 (sort_push R) (([], false), d0) (fun s => [lg (snd s)]) fuel (map it_n items)
  | CPersist pre replay => run1 (persist_push R) (pers_init R pre replay d0)
                                (fun s => [lg (snd s); map (@ESend N) (rev (fst (fst s) ++ snd (fst s)))])
                                fuel (map it_n items)
  | CForEach => run1 (for_each_push N) [] (fun s => [map (@ESend N) s]) fuel (map it_n items)
  | CFoldKeyed o init ord =>
    run1 (keyed_push (map_push R enc_kv) (fold_keyed_upd init (oev o)) ord) (([], [], false), d0)
         (fun s => [lg (snd s)]) fuel (map it_pair items)
  | CReduceKeyed o ord =>
    run1 (keyed_push (map_push R enc_kv) (reduce_keyed_upd (oev o)) ord) (([], [], false), d0)
         (fun s => [lg (snd s)]) fuel (map it_pair items)
  | CPipeFMFanout g =>
    run1 (flat_map_push (fanout_push R R) (gev g)) (None, ((false, false), (d0, d1)))
         (fun s => [lg (fst (snd (snd s))); lg (snd (snd (snd s)))]) fuel (map it_n items)
  | CPipeMFF f g q =>
    run1 (map_push (flat_map_push (filter_push R (pev q)) (gev g)) (fev f)) (None, d0)
         (fun s => [lg (snd s)]) fuel (map it_n items)
  | CPipeFFF q f o init =>
    run1 (filter_push (fanout_push (map_push R (fev f)) (accumulate_push (oev o) (@fold_outf N) R)) (pev q))
         ((false, false), (d0, (Accumulating init, d1)))
         (fun s => [lg (fst (snd s)); lg (snd (snd (snd s)))]) fuel (map it_n items)
  | CResolve w =>
    run1 (resolve_push R w) (false, ([], d0))
         (fun s => [lg (snd (snd s)); map (fun f : N * nat => ESend (fst f)) (rev (fst (snd s)))])
         fuel (map it_fut items)
  end.

(* ------------------------------------------------------------------ reference semantics *)

Definition filter_map_l {A B} (g : A -> option B) (l : list A) : list B :=
  flat_map (fun a => match g a with Some b => [b] | None => [] end) l.

Definition demux_ref {A} (i : nat) (l : list (nat * A)) : list A :=
  filter_map_l (fun ia : nat * A => if Nat.eqb (fst ia) i then Some (snd ia) else None) l.

(* what downstream number i must receive *)
Definition ref_items (c : comb) (items : list (list N)) (i : nat) : list N :=
  match c with
  | CMap f => map (fev f) (map it_n items)
  | CFilter q => filter (pev q) (map it_n items)
  | CFilterMap q f => filter_map_l (fmopt q f) (map it_n items)
  | CInspect => map it_n items
  | CFlatMap g => flat_map (gev g) (map it_n items)
  | CFlatten => concat items
  | CFanout => map it_n items
  | CUnzip => if Nat.eqb i 0 then map fst (map it_pair items) else map snd (map it_pair items)
  | CDemux => demux_ref i (map it_idx items)
  | CFold o init => [fold_left (oev o) (map it_n items) init]
  | CReduce o init => reduce_outf (fold_left (reduce_accf (oev o)) (map it_n items) init)
  | CSortAcc | CSort => sortN (map it_n items)
  | CPersist pre replay => (if replay then pre else []) ++ map it_n items
  | CForEach => map it_n items
  | CFoldKeyed o init ord =>
    map enc_kv (emit_order ord (fold_left (fun m kv => kupd (fst kv) (fold_keyed_upd init (oev o) (snd kv)) m)
                                          (map it_pair items) []))
  | CReduceKeyed o ord =>
    map enc_kv (emit_order ord (fold_left (fun m kv => kupd (fst kv) (reduce_keyed_upd (oev o) (snd kv)) m)
                                          (map it_pair items) []))
  | CResolve _ => map fst (map it_fut items)
  | CPipeFMFanout g => flat_map (gev g) (map it_n items)
  | CPipeMFF f g q => filter (pev q) (flat_map (gev g) (map (fev f) (map it_n items)))
  | CPipeFFF q f o init =>
    if Nat.eqb i 0 then map (fev f) (filter (pev q) (map it_n items))
    else [fold_left (oev o) (filter (pev q) (map it_n items)) init]
  end.



Definition n_down (c : comb) (dn : list script) : nat :=
  match c with
  | CFanout | CUnzip | CPipeFMFanout _ | CPipeFFF _ _ _ _ => 2
  | CDemux => length dn
  | CInspect => 2   (* second "log" is the closure's record of inspected items *)
  | CPersist _ _ => 2   (* second "log": the persisted Vec at the end *)
  | CResolve _ => 2     (* second "log": outputs of the futures still queued *)
  | _ => 1
  end.

(* inputs outside the property's quantifier: a demux index with no downstream (the code panics) *)
Definition in_scope (c : comb) (items : list (list N)) (dn : list script) : bool :=
  match c with
  | CDemux => forallb (fun i => Nat.ltb (fst (it_idx i)) (length dn)) items
  | _ => true
  end.

(* ------------------------------------------------------------------ comparison *)

Definition eqb_ev (x y : ev N) : bool :=
  match x, y with
  | ERdy a, ERdy b => Bool.eqb a b
  | ESend a, ESend b => N.eqb a b
  | EFin a, EFin b => Bool.eqb a b
  | _, _ => false
  end.
Definition eqb_dev (x y : dev) : bool :=
  match x, y with
  | DRdy a, DRdy b => Bool.eqb a b
  | DSend, DSend => true
  | DFin a, DFin b => Bool.eqb a b
  | _, _ => false
  end.
Definition eqb_out (x y : outcome) : bool :=
  match x, y with
  | Finished, Finished | OutOfFuel, OutOfFuel | Panicked, Panicked => true
  | _, _ => false
  end.
Fixpoint eqb_list {A} (e : A -> A -> bool) (x y : list A) : bool :=
  match x, y with
  | [], [] => true
  | a :: x', b :: y' => e a b && eqb_list e x' y'
  | _, _ => false
  end.

Definition obs_agree (i m : observation) : bool :=
  match i, m with
  | (oi, ti, li), (om, tm, lm) =>
    eqb_out oi om &&
    match om with
    | Panicked => true      (* the harness loses the histories when the real code panics *)
    | _ => eqb_list eqb_dev ti tm && eqb_list (eqb_list eqb_ev) li lm
    end
  end.

Fixpoint prefixb (x y : list N) : bool :=
  match x, y with
  | [], _ => true
  | a :: x', b :: y' => N.eqb a b && prefixb x' y'
  | _ :: _, [] => false
  end.

(* ------------------------------------------------------------------ executable form of C12 *)

(* One downstream's history (OLDEST first, as observed) against its reference item list. *)
Definition down_ok (strict : bool) (finished : bool) (ref : list N) (h : list (ev N)) : bool :=
  let l := rev h in
  (if strict then wf l else wfw l) &&
  (if finished then eqb_list N.eqb (sent l) ref && findone l else prefixb (sent l) ref).

Fixpoint downs_ok (strict finished : bool) (c : comb) (items : list (list N)) (i : nat)
         (hs : list (list (ev N))) : bool :=
  match hs with
  | [] => true
  | h :: r => down_ok strict finished (ref_items c items i) h && downs_ok strict finished c items (S i) r
  end.

(* the keys of the final map: the order oracle must be a permutation of them *)
Definition final_keys (c : comb) (items : list (list N)) : list N :=
  match c with
  | CFoldKeyed _ _ _ | CReduceKeyed _ _ =>
    map fst (fold_left (fun m kv => kupd (fst kv) (fun _ : option N => 0%N) m) (map it_pair items) [])
  | _ => []
  end.
Definition oracle_ok (c : comb) (items : list (list N)) : bool :=
  match c with
  | CFoldKeyed _ _ ord | CReduceKeyed _ ord => eqb_list N.eqb (sortN ord) (sortN (final_keys c items))
  | _ => true
  end.

Definition holds_gen (strict : bool) (c : comb) (items : list (list N)) (dn : list script)
           (o : observation) : bool :=
  negb (in_scope c items dn) ||
  match o with
  | (Panicked, _, _) => false
  | (oc, _, hs) =>
    Nat.eqb (length hs) (n_down c dn) &&
    match c, hs with
    | CInspect, [h; q] =>
      (* q: the items the closure saw, in order = exactly the items sent on *)
      down_ok strict (eqb_out oc Finished) (ref_items c items 0) h &&
      eqb_list N.eqb (sent (rev q)) (sent (rev h))
    | CPersist pre _, [h; q] =>
      (* q: the persisted buffer = pre ++ the items accepted so far (all of them when finished) *)
      down_ok strict (eqb_out oc Finished) (ref_items c items 0) h &&
      prefixb pre (sent (rev q)) && prefixb (sent (rev q)) (pre ++ map it_n items) &&
      (negb (eqb_out oc Finished) || eqb_list N.eqb (sent (rev q)) (pre ++ map it_n items))
    | CForEach, [q] =>
      (* terminal: the closure is called with exactly the items, in order *)
      if eqb_out oc Finished then eqb_list N.eqb (sent (rev q)) (map it_n items)
      else prefixb (sent (rev q)) (map it_n items)
    | CResolve w, [h; q] =>
      (* outputs in the order the futures were sent; what is not delivered is still queued
         (only possible with a subgraph waker, which defers pending futures to a later tick) *)
      (if strict then wf (rev h) else wfw (rev h)) &&
      prefixb (sent (rev h)) (ref_items c items 0) &&
      (negb (eqb_out oc Finished) ||
       (findone (rev h) && eqb_list N.eqb (sent (rev h) ++ sent (rev q)) (ref_items c items 0) &&
        (w || match q with [] => true | _ => false end)))
    | _, _ => oracle_ok c items && downs_ok strict (eqb_out oc Finished) c items 0 hs
    end
  end.

Definition C12_holds_b := holds_gen true.
(* the same with "finalized exactly once" weakened to "at least once" *)
Definition C12_weak_holds_b := holds_gen false.

Definition verdict (agree holds : bool) : N :=
  ((if agree then 0 else 1) + (if holds then 0 else 2))%N.

Definition chk12 (c : comb) (fuel : nat) (items : list (list N)) (dn : list script)
           (i : observation) : N :=
  verdict (obs_agree i (run_case c fuel items dn)) (C12_holds_b c items dn i).

Definition chk12w (c : comb) (fuel : nat) (items : list (list N)) (dn : list script)
           (i : observation) : N :=
  verdict (obs_agree i (run_case c fuel items dn)) (C12_weak_holds_b c items dn i).

Fixpoint bad_from (n : N) (l : list N) : list (N * N) :=
  match l with
  | [] => []
  | v :: r => if N.eqb v 0 then bad_from (n + 1) r else (n, v) :: bad_from (n + 1) r
  end.
Definition bad (l : list N) : list (N * N) := bad_from 0 l.
