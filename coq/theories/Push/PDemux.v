(* Engine "Push": demux_var.rs over a list of scripted recorders.
   [demux_push]: after the finalize-once fix -- FULL statement (strict protocol).
   [demux_old_push]: the code before the fix -- weak protocol only (see PTwo.v for the reason). *)
From Coq Require Import List NArith Bool Arith Lia.
From HV Require Import Push.Model Push.Historic Push.PBase Push.PTwo Push.PTwoOnce Push.Run.
Import ListNotations.

Set Implicit Arguments.

(* ------------------------------------------------------------------ driver theorem with an item precondition *)

Section DriveInvP.
  Context {A : Type} (p : push A).
  Variable Inv : phase A -> St p -> Prop.
  Variable Pa : A -> Prop.
  Hypothesis Hr : ready_ok p Inv.
  Hypothesis Hs : forall xs a s, Pa a ->
      Inv (Run xs true) s -> exists s', send p a s = Some s' /\ Inv (Run (xs ++ [a]) false) s'.
  Hypothesis Hf : fin_ok p Inv.

  Theorem drive_inv_P : forall fuel items xs b s tr,
      Forall Pa items -> Inv (Run xs b) s ->
      match drive p fuel items s tr with
      | (Finished, _, s') => Inv (Fini (xs ++ items)) s'
      | (OutOfFuel, _, s') =>
        exists ph rest, Inv ph s' /\ ph_items ph ++ rest = xs ++ items /\ (forall ys, ph <> Fini ys)
      | (Panicked, _, _) => False
      end.
  Proof.
    induction fuel as [|k IH]; intros items xs b s tr FA H.
    - destruct items; cbn.
      + exists (Run xs b), []. repeat split; auto. congruence.
      + exists (Run xs b), (a :: items). repeat split; auto. congruence.
    - destruct items as [|a rest].
      + cbn [drive]. rewrite app_nil_r.
        pose proof (@drive_fin_inv _ p Inv Hf (S k) xs s tr (or_intror (ex_intro _ b H))) as D.
        destruct (drive_fin p (S k) s tr) as [[o tr'] s']. destruct o; auto.
        destruct D as [D|[b' D]].
        * exists (Fing xs), []. rewrite app_nil_r. repeat split; auto. congruence.
        * exists (Run xs b'), []. rewrite app_nil_r. repeat split; auto. congruence.
      + cbn [drive]. pose proof (Hr H) as H1. destruct (ready p s) as [r s1]. cbn in H1.
        inversion FA as [|? ? Pa0 FA']. subst. destruct r.
        * destruct (@Hs xs a s1 Pa0 H1) as [s2 [E H2]]. rewrite E.
          specialize (IH rest (xs ++ [a]) false s2 (DSend :: DRdy true :: tr) FA' H2).
          rewrite <- app_assoc in IH. cbn in IH. exact IH.
        * exact (IH (a :: rest) xs false s1 (DRdy false :: tr) FA H1).
  Qed.
End DriveInvP.

Section DriveTermP.
  Context {A : Type} (p : push A).
  Variable Inv : phase A -> St p -> Prop.
  Variable Pa : A -> Prop.
  Variable mu : St p -> nat.
  Hypothesis Hr : ready_ok p Inv.
  Hypothesis Hs : forall xs a s, Pa a ->
      Inv (Run xs true) s -> exists s', send p a s = Some s' /\ Inv (Run (xs ++ [a]) false) s'.
  Hypothesis Mr : forall s, mu (snd (ready p s)) + (if fst (ready p s) then 0 else 1) <= mu s.
  Hypothesis Ms : forall a s s', send p a s = Some s' -> mu s' <= mu s.
  Hypothesis Mf : forall s, mu (snd (fin p s)) + (if fst (fin p s) then 0 else 1) <= mu s.

  Theorem drive_term_P : forall fuel items xs b s tr,
      Forall Pa items -> Inv (Run xs b) s -> mu s + length items < fuel ->
      fst (fst (drive p fuel items s tr)) = Finished.
  Proof.
    induction fuel as [|k IH]; intros items xs b s tr FA H L; [lia|].
    destruct items as [|a rest].
    - cbn [drive]. apply (@drive_fin_term _ p mu Mf). cbn in L. lia.
    - cbn [drive]. pose proof (Hr H) as H1. pose proof (Mr s) as M.
      destruct (ready p s) as [r s1]. cbn in H1, M. inversion FA as [|? ? Pa0 FA']. subst. destruct r.
      + destruct (@Hs xs a s1 Pa0 H1) as [s2 [E H2]]. rewrite E. pose proof (Ms _ _ E).
        apply IH with (xs := xs ++ [a]) (b := false); auto. cbn in L. lia.
      + apply IH with (xs := xs) (b := false); auto. cbn in L |- *. lia.
  Qed.
End DriveTermP.

(* ------------------------------------------------------------------ reference *)

Lemma demux_ref_app : forall A (j : nat) (xs : list (nat * A)) i a,
    demux_ref j (xs ++ [(i, a)]) = demux_ref j xs ++ (if Nat.eqb i j then [a] else []).
Proof.
  intros. unfold demux_ref, filter_map_l. rewrite flat_map_app. cbn. rewrite app_nil_r.
  destruct (Nat.eqb i j); reflexivity.
Qed.

(* ------------------------------------------------------------------ the fixed DemuxVar: strict protocol *)

Section DemuxOnce.
  Context {A : Type}.
  Let R := rec_push A.

  Fixpoint InvLS (k : nat) (ph : phase (nat * A)) (fl : list bool) (l : list (ds A)) : Prop :=
    match l with
    | [] => True
    | s :: r => InvS (demux_ref k) ph (hd false fl) (lg s) /\ InvLS (S k) ph (tl fl) r
    end.

  Lemma ls_ready : forall l k xs b (b' : bool) fl,
      InvLS k (Run xs b) fl l -> (b' = true -> fst (var_ready R l) = true) ->
      InvLS k (Run xs b') fl (snd (var_ready R l)).
  Proof.
    induction l as [|s r IH]; intros k xs b b' fl H Hb; cbn [var_ready snd InvLS]; auto.
    destruct H as [H0 H1]. cbn [var_ready R rec_push ready] in *.
    pose proof (@invs_ready _ _ (demux_ref k) xs b b' (hd false fl) s H0) as Q0.
    specialize (IH (S k) xs b b' (tl fl) H1).
    destruct (rec_ready s) as [a s']. destruct (var_ready R r) as [c r']. cbn [fst snd] in *.
    split.
    - apply Q0. intro E. specialize (Hb E). apply andb_prop in Hb. tauto.
    - apply IH. intro E. specialize (Hb E). apply andb_prop in Hb. tauto.
  Qed.

  (* an item addressed below this sub-list is skipped by all of it *)
  Lemma ls_skip : forall l k xs i a fl,
      InvLS k (Run xs true) fl l -> i < k -> InvLS k (Run (xs ++ [(i, a)]) false) fl l.
  Proof.
    induction l as [|s r IH]; intros k xs i a fl H Lt; cbn [InvLS] in *; auto.
    destruct H as [H0 H1]. split.
    - apply invs_skip; auto. rewrite demux_ref_app.
      replace (Nat.eqb i k) with false by (symmetry; apply Nat.eqb_neq; lia). apply app_nil_r.
    - apply IH; auto.
  Qed.

  Lemma ls_send : forall l k idx a xs fl,
      InvLS k (Run xs true) fl l -> idx < length l ->
      exists l', var_send R idx a l = Some l' /\ InvLS k (Run (xs ++ [(k + idx, a)]) false) fl l'.
  Proof.
    induction l as [|s r IH]; intros k idx a xs fl H Lt; cbn [length] in Lt; [lia|].
    destruct H as [H0 H1]. destruct idx as [|j]; cbn [var_send R rec_push send rec_send].
    - eexists. split; [reflexivity|]. rewrite Nat.add_0_r. cbn [InvLS]. split.
      + cbn [lg]. apply invs_send; auto. rewrite demux_ref_app, Nat.eqb_refl. reflexivity.
      + apply ls_skip; auto.
    - destruct (IH (S k) j a xs (tl fl) H1) as [r' [E I]]; [lia|]. rewrite E.
      eexists. split; [reflexivity|]. cbn [InvLS]. replace (k + S j) with (S k + j) by lia. split; auto.
      apply invs_skip; auto. rewrite demux_ref_app.
      replace (Nat.eqb (S k + j) k) with false by (symmetry; apply Nat.eqb_neq; lia). apply app_nil_r.
  Qed.

  Definition PreS (k : nat) xs fl (l : list (ds A)) : Prop :=
    InvLS k (Fing xs) fl l \/ exists b, InvLS k (Run xs b) fl l.

  Lemma ls_fin : forall l k xs fl,
      PreS k xs fl l ->
      match var_fin R fl l with
      | (b, (fl', l')) => InvLS k (Fing xs) fl' l' /\ (b = true -> InvLS k (Fini xs) fl' l')
      end.
  Proof.
    induction l as [|s r IH]; intros k xs fl H; cbn [var_fin]; [cbn; auto|].
    assert (G0 : InvS (demux_ref k) (Fing xs) (hd false fl) (lg s) \/
                 exists b, InvS (demux_ref k) (Run xs b) (hd false fl) (lg s)).
    { destruct H as [[H _]|[b [H _]]]; [left|right; exists b]; exact H. }
    assert (G1 : PreS (S k) xs (tl fl) r).
    { destruct H as [[_ H]|[b [_ H]]]; [left|right; exists b]; exact H. }
    destruct (@invs_fin _ _ _ _ _ _ G0) as [F0 D0]. specialize (IH (S k) xs (tl fl) G1).
    unfold fin_once in *. cbn [R rec_push fin].
    destruct (var_fin R (tl fl) r) as [b [fl' r']]. destruct IH as [F1 D1].
    destruct (hd false fl); [|destruct (rec_fin s) as [a s']]; cbn [fst snd] in *;
      cbn [InvLS hd tl]; (split; [split; auto|]);
        intro E; apply andb_prop in E; destruct E as [Ea Eb]; split; auto.
  Qed.

  Let p := demux_push R.
  Definition InvDS (ph : phase (nat * A)) (s : list bool * list (ds A)) : Prop :=
    InvLS 0 ph (fst s) (snd s).
  Definition in_range (n : nat) (ia : nat * A) : Prop := fst ia < n.

  (* every operation keeps the number of downstreams *)
  Lemma var_ready_len : forall l : list (ds A), length (snd (var_ready R l)) = length l.
  Proof.
    induction l as [|s r IH]; cbn [var_ready]; auto. destruct (ready R s). destruct (var_ready R r).
    cbn [snd length] in *. congruence.
  Qed.
  Lemma var_send_len : forall (l : list (ds A)) idx a l', var_send R idx a l = Some l' -> length l' = length l.
  Proof.
    induction l as [|s r IH]; intros idx a l' E; destruct idx as [|j]; cbn in E; try discriminate.
    - inversion E; subst; reflexivity.
    - destruct (var_send R j a r) eqn:E1; inversion E; subst. cbn. f_equal. eapply IH; eauto.
  Qed.
  Lemma var_fin_len : forall (l : list (ds A)) fl, length (snd (snd (var_fin R fl l))) = length l.
  Proof.
    induction l as [|s r IH]; intros fl; cbn [var_fin]; auto.
    specialize (IH (tl fl)). destruct (var_fin R (tl fl) r) as [b0 [fl' r']].
    cbn [R rec_push fin]. destruct (hd false fl); [|destruct (rec_fin s) as [a0 s0]];
      cbn [snd length] in *; f_equal; exact IH.
  Qed.

  (* the invariant carries the number of downstreams so that in-range items never panic *)
  Definition InvN (n : nat) (ph : phase (nat * A)) (s : list bool * list (ds A)) : Prop :=
    length (snd s) = n /\ InvDS ph s.

  Lemma dmo_ready : forall n, ready_ok p (InvN n).
  Proof.
    intros n xs b [fl l] [Ln H]. unfold InvN, InvDS, p in *. cbn [ready demux_push fst snd] in *.
    pose proof (var_ready_len l) as L1. pose proof (@ls_ready l 0 xs b (fst (var_ready R l)) fl H (fun e => e)) as Q.
    destruct (var_ready R l) as [r l']. cbn [fst snd] in *. split; [exact (eq_trans L1 Ln)|exact Q].
  Qed.

  Lemma dmo_send : forall n xs a s, in_range n a ->
      InvN n (Run xs true) s -> exists s', send p a s = Some s' /\ InvN n (Run (xs ++ [a]) false) s'.
  Proof.
    intros n xs [i a] [fl l] Ra [Ln H]. unfold InvN, InvDS, p, in_range in *.
    cbn [send demux_push fst snd] in *.
    destruct (@ls_send l 0 i a xs fl H) as [l' [E I]]; [lia|]. rewrite E.
    eexists. split; [reflexivity|]. cbn [fst snd]. split; auto.
    exact (eq_trans (var_send_len _ _ _ E) Ln).
  Qed.

  Lemma dmo_fin : forall n, fin_ok p (InvN n).
  Proof.
    intros n xs [fl l] H. unfold InvN, InvDS, p in *. cbn [fin demux_push fst snd] in *.
    assert (Ln : length l = n) by (destruct H as [[L _]|[b [L _]]]; auto).
    assert (G : PreS 0 xs fl l) by (destruct H as [[_ H]|[b [_ H]]]; [left|right; exists b]; exact H).
    pose proof (ls_fin G) as Q. pose proof (var_fin_len l fl) as L1.
    destruct (var_fin R fl l) as [b [fl' l']]. cbn [fst snd] in *. destruct Q as [F D].
    destruct b; (split; [exact (eq_trans L1 Ln)|auto]).
  Qed.

  (* what is claimed of downstream number k, k+1, ... *)
  Fixpoint downs_spec (k : nat) (items : list (nat * A)) (o : outcome) (l : list (ds A)) : Prop :=
    match l with
    | [] => True
    | s :: r => down_spec (demux_ref k) items o (lg s) /\ downs_spec (S k) items o r
    end.

  Lemma ls_spec : forall l k items o ph rest fl,
      InvLS k ph fl l -> ph_items ph ++ rest = items -> (o = Finished -> ph = Fini items) ->
      downs_spec k items o l.
  Proof.
    induction l as [|s r IH]; intros k items o ph rest fl H E F; cbn [downs_spec]; auto.
    destruct H as [H0 H1]. split.
    - eapply invs_spec; eauto.
    - eapply IH; eauto.
  Qed.

  Lemma ls_start : forall (scripts : list (list bool * list bool)) k,
      InvLS k (Run [] false) [] (map (@ds0 A) scripts).
  Proof.
    induction scripts as [|sc r IH]; intros k; cbn [map InvLS]; auto. split; auto.
    unfold ds0. apply invs_start. reflexivity.
  Qed.

  (* FULL statement for the fixed DemuxVar: every item whose index is in range is delivered to
     exactly that downstream, in order; strict protocol toward every downstream; no panic. *)
  Theorem demux_once_correct : forall fuel items (scripts : list (list bool * list bool)),
      Forall (in_range (length scripts)) items ->
      match drive p fuel items ([], map (@ds0 A) scripts) [] with
      | (o, _, s') => o <> Panicked /\ length (snd s') = length scripts /\ downs_spec 0 items o (snd s')
      end.
  Proof.
    intros fuel items scripts FA.
    assert (I0 : InvN (length scripts) (Run [] false) ([], map (@ds0 A) scripts)).
    { split; [cbn; apply map_length|apply ls_start]. }
    pose proof (@drive_inv_P _ p (InvN (length scripts)) (in_range (length scripts))
                             (@dmo_ready (length scripts))
                             (fun xs a s Pa I => @dmo_send (length scripts) xs a s Pa I)
                             (@dmo_fin (length scripts)) fuel items [] false _ [] FA I0) as D.
    cbn [app] in D.
    destruct (drive p fuel items ([], map (@ds0 A) scripts) []) as [[o tr] s']. destruct o.
    - destruct D as [L D]. split; [congruence|]. split; auto.
      eapply ls_spec with (rest := []); eauto. apply app_nil_r.
    - destruct D as [ph [rest [[L D] [E N]]]]. split; [congruence|]. split; auto.
      eapply ls_spec; eauto. congruence.
    - contradiction.
  Qed.

  Fixpoint mu_l (l : list (ds A)) : nat := match l with [] => 0 | s :: r => mu_ds s + mu_l r end.

  Lemma var_ready_mu : forall l : list (ds A),
      mu_l (snd (var_ready R l)) + (if fst (var_ready R l) then 0 else 1) <= mu_l l.
  Proof.
    induction l as [|s r IH]; cbn [var_ready mu_l fst snd]; [lia|].
    cbn [R rec_push ready]. pose proof (rec_ready_mu s) as M.
    destruct (rec_ready s) as [a s']. destruct (var_ready R r) as [b r']. cbn [fst snd mu_l] in *.
    destruct a, b; cbn [andb] in *; lia.
  Qed.

  Lemma var_send_mu : forall (l : list (ds A)) idx a l', var_send R idx a l = Some l' -> mu_l l' <= mu_l l.
  Proof.
    induction l as [|s r IH]; intros idx a l' E; destruct idx as [|j]; cbn in E; try discriminate.
    - inversion E; subst. cbn [mu_l]. unfold mu_ds. cbn [rs fs]. lia.
    - destruct (var_send R j a r) eqn:E1; inversion E; subst. cbn [mu_l]. specialize (IH _ _ _ E1). lia.
  Qed.

  Lemma var_fin_mu : forall (l : list (ds A)) fl,
      mu_l (snd (snd (var_fin R fl l))) + (if fst (var_fin R fl l) then 0 else 1) <= mu_l l.
  Proof.
    induction l as [|s r IH]; intros fl; cbn [var_fin mu_l fst snd]; [lia|].
    specialize (IH (tl fl)). destruct (var_fin R (tl fl) r) as [b0 [fl' r']].
    cbn [R rec_push fin]. pose proof (rec_fin_mu s) as M.
    destruct (hd false fl); [|destruct (rec_fin s) as [a0 s0]]; cbn [fst snd mu_l] in *;
      try destruct a0; destruct b0; cbn [andb] in *; lia.
  Qed.

  Theorem demux_once_terminates : forall fuel items (scripts : list (list bool * list bool)),
      Forall (in_range (length scripts)) items ->
      mu_l (map (@ds0 A) scripts) + length items < fuel ->
      fst (fst (drive p fuel items ([], map (@ds0 A) scripts) [])) = Finished.
  Proof.
    intros fuel items scripts FA L.
    apply (@drive_term_P _ p (InvN (length scripts)) (in_range (length scripts)) (fun s => mu_l (snd s))
                         (@dmo_ready (length scripts))
                         (fun xs a s Pa I => @dmo_send (length scripts) xs a s Pa I))
      with (xs := []) (b := false); auto.
    - intros [fl l]. cbn [ready p demux_push fst snd]. pose proof (var_ready_mu l) as M.
      destruct (var_ready R l) as [r l']. cbn [fst snd] in *. exact M.
    - intros [i a] [fl l] s'. cbn [send p demux_push fst snd].
      destruct (var_send R i a l) as [l'|] eqn:E; [|discriminate]. intro X. inversion X. subst.
      cbn [snd]. eapply var_send_mu; eauto.
    - intros [fl l]. cbn [fin p demux_push fst snd]. pose proof (var_fin_mu l fl) as M.
      destruct (var_fin R fl l) as [b [fl' l']]. cbn [fst snd] in *. exact M.
    - split; [cbn; apply map_length|apply ls_start].
  Qed.
End DemuxOnce.

(* ------------------------------------------------------------------ DemuxVar before the fix: weak protocol *)

Section DemuxOld.
  Context {A : Type}.
  Let R := rec_push A.

  Fixpoint InvLW (k : nat) (ph : phase (nat * A)) (l : list (ds A)) : Prop :=
    match l with
    | [] => True
    | s :: r => InvD (demux_ref k) ph (lg s) /\ InvLW (S k) ph r
    end.

  Lemma lw_ready : forall l k xs b (b' : bool),
      InvLW k (Run xs b) l -> (b' = true -> fst (var_ready R l) = true) ->
      InvLW k (Run xs b') (snd (var_ready R l)).
  Proof.
    induction l as [|s r IH]; intros k xs b b' H Hb; cbn [var_ready snd InvLW]; auto.
    destruct H as [H0 H1]. cbn [var_ready R rec_push ready] in *.
    pose proof (@invd_ready _ _ (demux_ref k) xs b b' s H0) as Q0.
    specialize (IH (S k) xs b b' H1).
    destruct (rec_ready s) as [a s']. destruct (var_ready R r) as [c r']. cbn [fst snd] in *.
    split.
    - apply Q0. intro E. specialize (Hb E). apply andb_prop in Hb. tauto.
    - apply IH. intro E. specialize (Hb E). apply andb_prop in Hb. tauto.
  Qed.

  Lemma lw_skip : forall l k xs i a,
      InvLW k (Run xs true) l -> i < k -> InvLW k (Run (xs ++ [(i, a)]) false) l.
  Proof.
    induction l as [|s r IH]; intros k xs i a H Lt; cbn [InvLW] in *; auto.
    destruct H as [H0 H1]. split.
    - apply invd_skip; auto. rewrite demux_ref_app.
      replace (Nat.eqb i k) with false by (symmetry; apply Nat.eqb_neq; lia). apply app_nil_r.
    - apply IH; auto.
  Qed.

  Lemma lw_send : forall l k idx a xs,
      InvLW k (Run xs true) l -> idx < length l ->
      exists l', var_send R idx a l = Some l' /\ InvLW k (Run (xs ++ [(k + idx, a)]) false) l'.
  Proof.
    induction l as [|s r IH]; intros k idx a xs H Lt; cbn [length] in Lt; [lia|].
    destruct H as [H0 H1]. destruct idx as [|j]; cbn [var_send R rec_push send rec_send].
    - eexists. split; [reflexivity|]. rewrite Nat.add_0_r. cbn [InvLW]. split.
      + cbn [lg]. apply invd_send; auto. rewrite demux_ref_app, Nat.eqb_refl. reflexivity.
      + apply lw_skip; auto.
    - destruct (IH (S k) j a xs H1) as [r' [E I]]; [lia|]. rewrite E.
      eexists. split; [reflexivity|]. cbn [InvLW]. replace (k + S j) with (S k + j) by lia. split; auto.
      apply invd_skip; auto. rewrite demux_ref_app.
      replace (Nat.eqb (S k + j) k) with false by (symmetry; apply Nat.eqb_neq; lia). apply app_nil_r.
  Qed.

  Definition PreW (k : nat) xs (l : list (ds A)) : Prop :=
    InvLW k (Fing xs) l \/ exists b, InvLW k (Run xs b) l.

  Lemma lw_fin : forall l k xs,
      PreW k xs l ->
      match var_fin_old R l with
      | (b, l') => InvLW k (Fing xs) l' /\ (b = true -> InvLW k (Fini xs) l')
      end.
  Proof.
    induction l as [|s r IH]; intros k xs H; cbn [var_fin_old]; [cbn; auto|].
    assert (G0 : InvD (demux_ref k) (Fing xs) (lg s) \/ exists b, InvD (demux_ref k) (Run xs b) (lg s)).
    { destruct H as [[H _]|[b [H _]]]; [left|right; exists b]; exact H. }
    assert (G1 : PreW (S k) xs r).
    { destruct H as [[_ H]|[b [_ H]]]; [left|right; exists b]; exact H. }
    destruct (@invd_fin _ _ _ _ _ G0) as [F0 D0]. specialize (IH (S k) xs G1).
    cbn [R rec_push fin].
    destruct (var_fin_old R r) as [b r']. destruct IH as [F1 D1].
    destruct (rec_fin s) as [a s']. cbn [fst snd] in *. cbn [InvLW]. split; [split; auto|].
    intro E. apply andb_prop in E. destruct E as [Ea Eb]. split; auto.
  Qed.

  Let p := demux_old_push R.

  Lemma var_fin_old_len : forall (l : list (ds A)), length (snd (var_fin_old R l)) = length l.
  Proof.
    induction l as [|s r IH]; cbn [var_fin_old]; auto.
    destruct (var_fin_old R r) as [b0 r']. cbn [R rec_push fin]. destruct (rec_fin s) as [a0 s0].
    cbn [snd length] in *. f_equal. exact IH.
  Qed.

  Definition InvNW (n : nat) (ph : phase (nat * A)) (l : list (ds A)) : Prop :=
    length l = n /\ InvLW 0 ph l.

  Lemma dm_ready : forall n, ready_ok p (InvNW n).
  Proof.
    intros n xs b l [Ln H]. split.
    - exact (eq_trans (var_ready_len l) Ln).
    - exact (@lw_ready l 0 xs b _ H (fun e => e)).
  Qed.

  Lemma dm_send : forall n xs a s, in_range n a ->
      InvNW n (Run xs true) s -> exists s', send p a s = Some s' /\ InvNW n (Run (xs ++ [a]) false) s'.
  Proof.
    intros n xs [i a] l Ra [Ln H]. unfold InvNW, in_range in *. change (send p (i, a) l) with (var_send R i a l). cbn [fst] in Ra.
    destruct (@lw_send l 0 i a xs H) as [l' [E I]]; [lia|]. rewrite E.
    eexists. split; [reflexivity|]. split; auto.
    exact (eq_trans (var_send_len _ _ _ E) Ln).
  Qed.

  Lemma dm_fin : forall n, fin_ok p (InvNW n).
  Proof.
    intros n xs l H.
    assert (Ln : length l = n) by (destruct H as [[L _]|[b [L _]]]; auto).
    assert (G : PreW 0 xs l) by (destruct H as [[_ H]|[b [_ H]]]; [left|right; exists b]; exact H).
    pose proof (lw_fin G) as Q. pose proof (var_fin_old_len l) as L1.
    change (fin p l) with (var_fin_old R l).
    destruct (var_fin_old R l) as [b l']. cbn [fst snd] in *. destruct Q as [F D].
    destruct b; (split; [exact (eq_trans L1 Ln)|auto]).
  Qed.

  Fixpoint downs_spec_weak (k : nat) (items : list (nat * A)) (o : outcome) (l : list (ds A)) : Prop :=
    match l with
    | [] => True
    | s :: r => down_spec_weak (demux_ref k) items o (lg s) /\ downs_spec_weak (S k) items o r
    end.

  Lemma lw_spec : forall l k items o ph rest,
      InvLW k ph l -> ph_items ph ++ rest = items -> (o = Finished -> ph = Fini items) ->
      downs_spec_weak k items o l.
  Proof.
    induction l as [|s r IH]; intros k items o ph rest H E F; cbn [downs_spec_weak]; auto.
    destruct H as [H0 H1]. split.
    - eapply invd_spec; eauto.
    - eapply IH; eauto.
  Qed.

  Lemma lw_start : forall (scripts : list (list bool * list bool)) k,
      InvLW k (Run [] false) (map (@ds0 A) scripts).
  Proof.
    induction scripts as [|sc r IH]; intros k; cbn [map InvLW]; auto. split; auto.
    unfold ds0. apply invd_start. reflexivity.
  Qed.

  Theorem demux_correct : forall fuel items (scripts : list (list bool * list bool)),
      Forall (in_range (length scripts)) items ->
      match drive p fuel items (map (@ds0 A) scripts) [] with
      | (o, _, s') => o <> Panicked /\ length s' = length scripts /\ downs_spec_weak 0 items o s'
      end.
  Proof.
    intros fuel items scripts FA.
    assert (I0 : InvNW (length scripts) (Run [] false) (map (@ds0 A) scripts)).
    { split; [apply map_length|apply lw_start]. }
    pose proof (@drive_inv_P _ p (InvNW (length scripts)) (in_range (length scripts))
                             (@dm_ready (length scripts))
                             (fun xs a s Pa I => @dm_send (length scripts) xs a s Pa I)
                             (@dm_fin (length scripts)) fuel items [] false _ [] FA I0) as D.
    cbn [app] in D.
    destruct (drive p fuel items (map (@ds0 A) scripts) []) as [[o tr] s']. destruct o.
    - destruct D as [L D]. split; [congruence|]. split; auto.
      eapply lw_spec with (rest := []); eauto. apply app_nil_r.
    - destruct D as [ph [rest [[L D] [E N]]]]. split; [congruence|]. split; auto.
      eapply lw_spec; eauto. congruence.
    - contradiction.
  Qed.
End DemuxOld.

(* out of scope of the property: an index with no downstream panics (PushVariadic for ()) *)
Lemma demux_out_of_range_panics :
  fst (fst (drive (demux_old_push (rec_push N)) 5 [(1, 7%N)] [mkds [] [] []] [])) = Panicked.
Proof. vm_compute. reflexivity. Qed.
