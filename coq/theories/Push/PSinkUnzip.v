(* Engine "Push", sinktools part: Unzip (unzip.rs as of /repo e255bb09846) over two scripted
   futures::Sink recorders: FULL statement with error propagation. *)
From Coq Require Import List NArith Bool Arith Lia.
From HV Require Import Push.SinkModel Push.PBase Push.PSinkOne.
Import ListNotations.

Set Implicit Arguments.

Section Unzip.
  Context {A B : Type}.
  Let K0 := srec A.
  Let K1 := srec B.
  Definition ust : Type := ((bool * bool) * (sds A * sds B))%type.

  (* non-failed log [l] that received exactly [r] *)
  Definition good {C} (l : list (sev C)) (r : list C) : Prop :=
    swf l = true /\ sfailed l = false /\ ssent l = r /\ soffered l = r.

  Definition UInv (ph : sphase (A * B)) (st : ust) : Prop :=
    let l0 := slg (fst (snd st)) in
    let l1 := slg (snd (snd st)) in
    let c0 := fst (fst st) in
    let c1 := snd (fst st) in
    match ph with
    | PRun xs b => good l0 (map fst xs) /\ good l1 (map snd xs) /\
                   sclosing l0 = false /\ sclosing l1 = false /\ c0 = false /\ c1 = false /\
                   (b = true -> srdy l0 = true /\ srdy l1 = true)
    | PFl xs => good l0 (map fst xs) /\ good l1 (map snd xs) /\
                sclosing l0 = false /\ sclosing l1 = false /\ c0 = false /\ c1 = false
    | PCl xs => good l0 (map fst xs) /\ good l1 (map snd xs) /\
                sclosed l0 = c0 /\ sclosed l1 = c1
    | PDone xs => good l0 (map fst xs) /\ good l1 (map snd xs) /\
                  sclosed l0 = true /\ sclosed l1 = true
    | PFail xs => swf l0 = true /\ swf l1 = true /\
                  (sfailed l0 = true \/ sfailed l1 = true) /\
                  prefix (soffered l0) (map fst xs) /\ prefix (soffered l1) (map snd xs)
    end.

  Ltac leaf :=
    unfold UInv, good; cbn [fst snd]; rewrite ?map_app; cbn [map fst snd];
    repeat match goal with H : slg _ = _ :: _ |- _ => rewrite H; clear H end;
    ssimp;
    repeat match goal with H : _ = _ |- _ => rewrite H end;
    cbn [negb andb orb];
    repeat match goal with
           | |- _ /\ _ => split
           | |- _ -> _ => intro
           end;
    auto; try discriminate; try congruence;
    try (exists []; rewrite app_nil_r; reflexivity).

  Lemma uz_ready_ok : forall xs b st, UInv (PRun xs b) st ->
      match sready (sunzip K0 K1) st with
      | (RDone, st') => UInv (PRun xs true) st'
      | (RPend, st') => UInv (PRun xs false) st'
      | (RErr, st') => UInv (PFail xs) st'
      end.
  Proof.
    intros xs b [[c0 c1] [s0 s1]] [[W0 [F0 [S0 O0]]] [[W1 [F1 [S1 O1]]] [C0 [C1 [E0 [E1 R]]]]]].
    cbn [fst snd] in *. cbn [sready sunzip]. unfold lift_op, sboth. cbn [fst snd K0 K1 srec sready].
    pose proof (sclosed_sclosing _ C0) as D0. pose proof (sclosed_sclosing _ C1) as D1.
    pose proof (srec_ready_lg s0) as L0. destruct (srec_ready s0) as [a s0']. cbn [fst snd] in L0.
    destruct a.
    - pose proof (srec_ready_lg s1) as L1. destruct (srec_ready s1) as [b1 s1']. cbn [fst snd] in L1.
      destruct b1; leaf.
    - pose proof (srec_ready_lg s1) as L1. destruct (srec_ready s1) as [b1 s1']. cbn [fst snd] in L1.
      destruct b1; leaf.
    - leaf.
  Qed.

  Lemma uz_send_ok : forall xs a st, UInv (PRun xs true) st ->
      match ssend (sunzip K0 K1) a st with
      | None => False
      | Some (true, st') => UInv (PRun (xs ++ [a]) false) st'
      | Some (false, st') => UInv (PFail (xs ++ [a])) st'
      end.
  Proof.
    intros xs [x y] [[c0 c1] [s0 s1]] [[W0 [F0 [S0 O0]]] [[W1 [F1 [S1 O1]]] [C0 [C1 [E0 [E1 R]]]]]].
    cbn [fst snd] in *. destruct (R eq_refl) as [R0 R1].
    cbn [ssend sunzip]. unfold sunzip_send. cbn [fst snd K0 K1 srec ssend].
    destruct (srec_send_lg x s0) as [ok0 [s0' [Q0 L0]]]. rewrite Q0. destruct ok0.
    - destruct (srec_send_lg y s1) as [ok1 [s1' [Q1 L1]]]. rewrite Q1. destruct ok1; leaf; try (exists [y]; reflexivity).
    - leaf; try (exists [y]; reflexivity).
  Qed.

  Lemma uz_flush_ok : forall xs st, (UInv (PFl xs) st \/ exists b, UInv (PRun xs b) st) ->
      match sflush (sunzip K0 K1) st with
      | (RDone, st') => UInv (PCl xs) st'
      | (RPend, st') => UInv (PFl xs) st'
      | (RErr, st') => UInv (PFail xs) st'
      end.
  Proof.
    intros xs [[c0 c1] [s0 s1]] H.
    assert (G : good (slg s0) (map fst xs) /\ good (slg s1) (map snd xs) /\
                sclosing (slg s0) = false /\ sclosing (slg s1) = false /\ c0 = false /\ c1 = false).
    { destruct H as [[G0 [G1 [C0 [C1 [E0 E1]]]]]|[b [G0 [G1 [C0 [C1 [E0 [E1 _]]]]]]]]; cbn [fst snd] in *;
        exact (conj G0 (conj G1 (conj C0 (conj C1 (conj E0 E1))))). }
    clear H. destruct G as [[W0 [F0 [S0 O0]]] [[W1 [F1 [S1 O1]]] [C0 [C1 [E0 E1]]]]].
    cbn [sflush sunzip]. unfold lift_op, sboth. cbn [fst snd K0 K1 srec sflush].
    pose proof (sclosed_sclosing _ C0) as D0. pose proof (sclosed_sclosing _ C1) as D1.
    pose proof (srec_flush_lg s0) as L0. destruct (srec_flush s0) as [a s0']. cbn [fst snd] in L0.
    destruct a.
    - pose proof (srec_flush_lg s1) as L1. destruct (srec_flush s1) as [b1 s1']. cbn [fst snd] in L1.
      destruct b1; leaf.
    - pose proof (srec_flush_lg s1) as L1. destruct (srec_flush s1) as [b1 s1']. cbn [fst snd] in L1.
      destruct b1; leaf.
    - leaf.
  Qed.

  Lemma uz_close_ok : forall xs st, UInv (PCl xs) st ->
      match sclose (sunzip K0 K1) st with
      | (RDone, st') => UInv (PDone xs) st'
      | (RPend, st') => UInv (PCl xs) st'
      | (RErr, st') => UInv (PFail xs) st'
      end.
  Proof.
    intros xs [[c0 c1] [s0 s1]] [[W0 [F0 [S0 O0]]] [[W1 [F1 [S1 O1]]] [D0 D1]]].
    cbn [fst snd] in *. cbn [sclose sunzip]. unfold sclose_once. cbn [fst snd K0 K1 srec sclose].
    destruct c0, c1.
    - leaf.
    - pose proof (srec_close_lg s1) as L1. destruct (srec_close s1) as [b1 s1']. cbn [fst snd] in L1.
      destruct b1; leaf.
    - pose proof (srec_close_lg s0) as L0. destruct (srec_close s0) as [a s0']. cbn [fst snd] in L0.
      destruct a; leaf.
    - pose proof (srec_close_lg s0) as L0. destruct (srec_close s0) as [a s0']. cbn [fst snd] in L0.
      destruct a.
      + pose proof (srec_close_lg s1) as L1. destruct (srec_close s1) as [b1 s1']. cbn [fst snd] in L1.
        destruct b1; leaf.
      + pose proof (srec_close_lg s1) as L1. destruct (srec_close s1) as [b1 s1']. cbn [fst snd] in L1.
        destruct b1; leaf.
      + leaf.
  Qed.

  Theorem sunzip_correct : forall fuel items (d0 : sds A) (d1 : sds B),
      slg d0 = [] -> slg d1 = [] ->
      match sdrive (sunzip K0 K1) fuel items ((false, false), (d0, d1)) [] with
      | (o, _, st') => sresult (sunzip K0 K1) UInv items o st'
      end.
  Proof.
    intros fuel items d0 d1 E0 E1.
    apply (@sdrive_inv _ (sunzip K0 K1) UInv uz_ready_ok uz_send_ok uz_flush_ok uz_close_ok
                       fuel items [] false ((false, false), (d0, d1)) []).
    unfold UInv, good. cbn [fst snd]. rewrite E0, E1. cbn. repeat split; auto; discriminate.
  Qed.
End Unzip.
