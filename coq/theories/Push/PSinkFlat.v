(* Engine "Push", sinktools part: FlatMap / Flatten (flat_map.rs, flatten.rs) over a scripted
   futures::Sink recorder: FULL statement with error propagation; the element buffered across a
   Pending answer (iter_next) is neither lost nor duplicated. *)
From Coq Require Import List NArith Bool Arith Lia.
From HV Require Import Push.SinkModel Push.PBase Push.PSinkOne.
Import ListNotations.

Set Implicit Arguments.

Section Flat.
  Context {A B : Type} (g : A -> list B).
  Let K := srec B.

  Definition spend (buf : option (list B * B)) : list B :=
    match buf with None => [] | Some (it, item) => item :: it end.

  Ltac leaf :=
    cbn [fst snd spend];
    repeat match goal with H : slg _ = _ :: _ |- _ => rewrite H; clear H end;
    ssimp;
    repeat match goal with H : _ = _ |- _ => rewrite H end;
    cbn [negb andb orb];
    repeat match goal with
           | |- _ /\ _ => split
           | |- _ -> _ => intro
           end;
    auto; try discriminate; try congruence;
    try (rewrite <- ?app_assoc; reflexivity);
    try (rewrite app_nil_r; reflexivity);
    try (exists []; rewrite app_nil_r; reflexivity).

  (* poll_ready_impl's loop *)
  Lemma sdrain_spec : forall it item (s : sds B),
      swf (slg s) = true -> sfailed (slg s) = false -> sclosing (slg s) = false ->
      ssent (slg s) = soffered (slg s) ->
      match sfm_drain K it item s with
      | (buf, RErr, s1) =>
        swf (slg s1) = true /\ sfailed (slg s1) = true /\
        prefix (soffered (slg s1)) (soffered (slg s) ++ item :: it)
      | (buf, r, s1) =>
        swf (slg s1) = true /\ sfailed (slg s1) = false /\ sclosing (slg s1) = false /\
        ssent (slg s1) = soffered (slg s1) /\
        soffered (slg s1) ++ spend buf = soffered (slg s) ++ item :: it /\
        (r = RDone -> buf = None)
      end.
  Proof.
    induction it as [|nxt it IH]; intros item s W F C S; cbn [sfm_drain K srec sready ssend];
      pose proof (sclosed_sclosing _ C) as D;
      pose proof (srec_ready_lg s) as L; destruct (srec_ready s) as [r s1]; cbn [fst snd] in L;
        destruct r; try solve [leaf].
    - destruct (srec_send_lg item s1) as [ok [s2 [E L2]]]. rewrite E. destruct ok; leaf.
    - leaf. exists [item]. reflexivity.
    - destruct (srec_send_lg item s1) as [ok [s2 [E L2]]]. rewrite E. destruct ok.
      + assert (W2 : swf (slg s2) = true) by leaf.
        assert (F2 : sfailed (slg s2) = false) by leaf.
        assert (C2 : sclosing (slg s2) = false) by leaf.
        assert (S2 : ssent (slg s2) = soffered (slg s2)) by leaf.
        assert (O2 : soffered (slg s2) = soffered (slg s) ++ [item]) by leaf.
        specialize (IH nxt s2 W2 F2 C2 S2). destruct (sfm_drain K it nxt s2) as [[buf r] s3].
        rewrite O2, <- app_assoc in IH. exact IH.
      + leaf. exists (nxt :: it). rewrite <- app_assoc. reflexivity.
    - leaf. exists (item :: nxt :: it). reflexivity.
  Qed.

  Definition FMInv (ph : sphase A) (st : sfm_st K) : Prop :=
    let l := slg (snd st) in
    let pd := spend (fst st) in
    swf l = true /\
    match ph with
    | PRun xs b => sfailed l = false /\ sclosing l = false /\ ssent l = soffered l /\
                   soffered l ++ pd = flat_map g xs /\ (b = true -> pd = [])
    | PFl xs => sfailed l = false /\ sclosing l = false /\ ssent l = soffered l /\
                soffered l ++ pd = flat_map g xs
    | PCl xs => sfailed l = false /\ sclosed l = false /\ ssent l = soffered l /\
                soffered l ++ pd = flat_map g xs /\ (pd <> [] -> sclosing l = false)
    | PDone xs => sfailed l = false /\ sclosed l = true /\ ssent l = flat_map g xs /\
                  soffered l = flat_map g xs
    | PFail xs => sfailed l = true /\ prefix (soffered l) (flat_map g xs)
    end.

  (* poll_ready_impl from any non-failed, not-yet-closing state *)
  Lemma sfm_ready_spec : forall (st : sfm_st K) X,
      swf (slg (snd st)) = true -> sfailed (slg (snd st)) = false ->
      (spend (fst st) <> [] -> sclosing (slg (snd st)) = false) ->
      ssent (slg (snd st)) = soffered (slg (snd st)) ->
      soffered (slg (snd st)) ++ spend (fst st) = X ->
      match sfm_ready st with
      | (RErr, st') => swf (slg (snd st')) = true /\ sfailed (slg (snd st')) = true /\
                       prefix (soffered (slg (snd st'))) X
      | (r, st') => swf (slg (snd st')) = true /\ sfailed (slg (snd st')) = false /\
                    sclosing (slg (snd st')) = sclosing (slg (snd st)) /\
                    sclosed (slg (snd st')) = sclosed (slg (snd st)) /\
                    ssent (slg (snd st')) = soffered (slg (snd st')) /\
                    soffered (slg (snd st')) ++ spend (fst st') = X /\
                    (r = RDone -> spend (fst st') = []) /\
                    (r = RPend -> spend (fst st) <> [])
      end.
  Proof.
    intros [buf s] X W F C S O. cbn [fst snd] in *. unfold sfm_ready. cbn [fst snd].
    destruct buf as [[it item]|].
    - assert (C0 : sclosing (slg s) = false) by (apply C; cbn; discriminate).
      pose proof (sdrain_spec it item s W F C0 S) as Q. cbn [spend] in O.
      destruct (sfm_drain K it item s) as [[buf' r] s1]. cbn [fst snd].
      destruct r; cbn [fst snd].
      + destruct Q as [W1 [F1 [C1 [S1 [O1 N1]]]]]. rewrite (N1 eq_refl) in *.
        rewrite C1, C0, (sclosed_sclosing _ C1), (sclosed_sclosing _ C0). repeat split; auto; try congruence; discriminate.
      + destruct Q as [W1 [F1 [C1 [S1 [O1 N1]]]]].
        rewrite C1, C0, (sclosed_sclosing _ C1), (sclosed_sclosing _ C0). repeat split; auto; try congruence; try discriminate.
      + destruct Q as [W1 [F1 P1]]. repeat split; auto. congruence.
    - cbn [spend] in *. repeat split; auto; discriminate.
  Qed.

  Let p := sflat_map K g.

  Lemma fl_ready_ok : forall xs b st, FMInv (PRun xs b) st ->
      match sready p st with
      | (RDone, st') => FMInv (PRun xs true) st'
      | (RPend, st') => FMInv (PRun xs false) st'
      | (RErr, st') => FMInv (PFail xs) st'
      end.
  Proof.
    intros xs b st [W [F [C [S [O R]]]]]. cbn [sready p sflat_map].
    pose proof (@sfm_ready_spec st (flat_map g xs) W F (fun _ => C) S O) as Q.
    destruct (sfm_ready st) as [r st']. destruct r.
    - destruct Q as [W1 [F1 [C1 [D1 [S1 [O1 [N1 N2]]]]]]]. unfold FMInv. rewrite C1, C. repeat split; auto.
    - destruct Q as [W1 [F1 [C1 [D1 [S1 [O1 [N1 N2]]]]]]]. unfold FMInv. rewrite C1, C.
      repeat split; auto. discriminate.
    - destruct Q as [W1 [F1 P1]]. unfold FMInv. repeat split; auto.
  Qed.

  Lemma fl_send_ok : forall xs a st, FMInv (PRun xs true) st ->
      match ssend p a st with
      | None => False
      | Some (true, st') => FMInv (PRun (xs ++ [a]) false) st'
      | Some (false, st') => FMInv (PFail (xs ++ [a])) st'
      end.
  Proof.
    intros xs a [buf s] [W [F [C [S [O R]]]]]. cbn [fst snd] in *. specialize (R eq_refl).
    cbn [ssend p sflat_map]. unfold sfm_send. cbn [fst snd].
    destruct buf as [[it item]|]; [discriminate|]. cbn [spend] in O. rewrite app_nil_r in O.
    destruct (g a) as [|b0 it0] eqn:Eg; unfold FMInv; cbn [fst snd spend];
      rewrite flat_map_app; cbn [flat_map]; rewrite Eg, ?app_nil_r, O;
      repeat split; auto; try congruence; try discriminate.
  Qed.

  Lemma fl_flush_ok : forall xs st, (FMInv (PFl xs) st \/ exists b, FMInv (PRun xs b) st) ->
      match sflush p st with
      | (RDone, st') => FMInv (PCl xs) st'
      | (RPend, st') => FMInv (PFl xs) st'
      | (RErr, st') => FMInv (PFail xs) st'
      end.
  Proof.
    intros xs st H.
    assert (G : swf (slg (snd st)) = true /\ sfailed (slg (snd st)) = false /\
                sclosing (slg (snd st)) = false /\ ssent (slg (snd st)) = soffered (slg (snd st)) /\
                soffered (slg (snd st)) ++ spend (fst st) = flat_map g xs).
    { destruct H as [[W [F [C [S O]]]]|[b [W [F [C [S [O _]]]]]]];
        exact (conj W (conj F (conj C (conj S O)))). }
    clear H. destruct G as [W [F [C [S O]]]].
    cbn [sflush p sflat_map]. unfold sfm_then.
    pose proof (@sfm_ready_spec st (flat_map g xs) W F (fun _ => C) S O) as Q.
    destruct (sfm_ready st) as [r st1]. destruct r.
    - destruct Q as [W1 [F1 [C1 [D1 [S1 [O1 [N1 N2]]]]]]]. rewrite C in C1. rewrite (N1 eq_refl) in O1.
      destruct st1 as [buf1 s1]. cbn [fst snd K srec sflush] in *.
      pose proof (sclosed_sclosing _ C1) as Dd.
      pose proof (srec_flush_lg s1) as L. destruct (srec_flush s1) as [r2 s2]. cbn [fst snd] in L.
      rewrite app_nil_r in O1. specialize (N1 eq_refl).
      destruct r2; unfold FMInv; cbn [fst snd]; rewrite ?N1; leaf.
    - destruct Q as [W1 [F1 [C1 [D1 [S1 [O1 [N1 N2]]]]]]]. unfold FMInv. rewrite C1, C. repeat split; auto.
    - destruct Q as [W1 [F1 P1]]. unfold FMInv. repeat split; auto.
  Qed.

  Lemma fl_close_ok : forall xs st, FMInv (PCl xs) st ->
      match sclose p st with
      | (RDone, st') => FMInv (PDone xs) st'
      | (RPend, st') => FMInv (PCl xs) st'
      | (RErr, st') => FMInv (PFail xs) st'
      end.
  Proof.
    intros xs st [W [F [D [S [O C]]]]]. cbn [sclose p sflat_map]. unfold sfm_then.
    pose proof (@sfm_ready_spec st (flat_map g xs) W F C S O) as Q.
    destruct (sfm_ready st) as [r st1]. destruct r.
    - destruct Q as [W1 [F1 [C1 [D1 [S1 [O1 [N1 N2]]]]]]]. rewrite D in D1. rewrite (N1 eq_refl) in O1.
      destruct st1 as [buf1 s1]. cbn [fst snd K srec sclose] in *.
      pose proof (srec_close_lg s1) as L. destruct (srec_close s1) as [r2 s2]. cbn [fst snd] in L.
      rewrite app_nil_r in O1. specialize (N1 eq_refl).
      destruct r2; unfold FMInv; cbn [fst snd]; rewrite ?N1; leaf.
    - destruct Q as [W1 [F1 [C1 [D1 [S1 [O1 [N1 N2]]]]]]]. unfold FMInv. rewrite D1, D, C1.
      repeat split; auto.
    - destruct Q as [W1 [F1 P1]]. unfold FMInv. repeat split; auto.
  Qed.

  Theorem sflat_map_correct : forall fuel items (s0 : sds B),
      slg s0 = [] ->
      match sdrive p fuel items (None, s0) [] with
      | (o, _, st') => sresult p FMInv items o st'
      end.
  Proof.
    intros fuel items s0 E.
    apply (@sdrive_inv _ p FMInv fl_ready_ok fl_send_ok fl_flush_ok fl_close_ok
                       fuel items [] false (None, s0) []).
    unfold FMInv. cbn [fst snd spend]. rewrite E. cbn. repeat split; auto; discriminate.
  Qed.
End Flat.

Theorem sflatten_correct : forall B fuel (items : list (list B)) (s0 : sds B),
    slg s0 = [] ->
    match sdrive (sflatten (srec B)) fuel items (None, s0) [] with
    | (o, _, st') => sresult (sflatten (srec B)) (FMInv (fun l : list B => l)) items o st'
    end.
Proof. intros. exact (@sflat_map_correct _ _ (fun l : list B => l) fuel items s0 H). Qed.
