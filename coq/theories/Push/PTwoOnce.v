(* Engine "Push": fanout.rs / unzip.rs AFTER the finalize-once fix
   (fixes/C12_fanout_unzip_finalize_once.diff): the FULL statement of C12 -- strict protocol,
   every downstream finalized exactly once -- holds for all inputs and scripts. *)
From Coq Require Import List NArith Bool Arith Lia.
From HV Require Import Push.Model Push.PBase Push.PTwo.
Import ListNotations.

Set Implicit Arguments.

Lemma fd_fin' : forall A r (l : list (ev A)), findone (EFin r :: l) = (r || findone l)%bool.
Proof. intros. destruct r; reflexivity. Qed.

(* invariant of one downstream's log; [d] is the combinator's "already finalized" flag *)
Definition InvS {A B} (ref : list A -> list B) (ph : phase A) (d : bool) (l : list (ev B)) : Prop :=
  wf l = true /\ findone l = d /\
  match ph with
  | Run xs b => finstarted l = false /\ sent l = ref xs /\ (b = true -> rdy l = true)
  | Fing xs => sent l = ref xs
  | Fini xs => sent l = ref xs /\ d = true
  end.

Section InvS.
  Context {A B : Type} (ref : list A -> list B).

  Lemma invs_ready : forall xs b (b' : bool) d (s : ds B),
      InvS ref (Run xs b) d (lg s) -> (b' = true -> fst (rec_ready s) = true) ->
      InvS ref (Run xs b') d (lg (snd (rec_ready s))).
  Proof.
    intros xs b b' d s [W [D [F [S R]]]] Hb. rewrite rec_ready_lg. unfold InvS.
    cbn [wf sent rdy]. change (findone (ERdy (fst (rec_ready s)) :: lg s)) with (findone (lg s)).
    change (finstarted (ERdy (fst (rec_ready s)) :: lg s)) with (finstarted (lg s)).
    rewrite (finstarted_false_findone _ F), W. rewrite (finstarted_false_findone _ F) in D.
    cbn [negb andb]. repeat split; auto. intro H. rewrite (Hb H). reflexivity.
  Qed.

  Lemma invs_send : forall xs a y d (s : ds B),
      InvS ref (Run xs true) d (lg s) -> ref (xs ++ [a]) = ref xs ++ [y] ->
      InvS ref (Run (xs ++ [a]) false) d (ESend y :: lg s).
  Proof.
    intros xs a y d s [W [D [F [S R]]]] E. unfold InvS. cbn [wf sent rdy].
    change (findone (ESend y :: lg s)) with (findone (lg s)).
    change (finstarted (ESend y :: lg s)) with (finstarted (lg s)).
    rewrite (R eq_refl), F, W, E, S. cbn [negb andb]. repeat split; auto; try discriminate.
  Qed.

  Lemma invs_skip : forall xs a d (l : list (ev B)),
      InvS ref (Run xs true) d l -> ref (xs ++ [a]) = ref xs ->
      InvS ref (Run (xs ++ [a]) false) d l.
  Proof.
    intros xs a d l [W [D [F [S R]]]] E. unfold InvS. rewrite E. repeat split; auto; try discriminate.
  Qed.

  (* one downstream's part of the fixed poll_finalize *)
  Definition fin_once (d : bool) (s : ds B) : bool * ds B := if d then (true, s) else rec_fin s.

  Lemma invs_fin : forall xs d (s : ds B),
      (InvS ref (Fing xs) d (lg s) \/ exists b, InvS ref (Run xs b) d (lg s)) ->
      InvS ref (Fing xs) (fst (fin_once d s)) (lg (snd (fin_once d s))) /\
      (fst (fin_once d s) = true -> InvS ref (Fini xs) (fst (fin_once d s)) (lg (snd (fin_once d s)))).
  Proof.
    intros xs d s H.
    assert (G : wf (lg s) = true /\ findone (lg s) = d /\ sent (lg s) = ref xs).
    { destruct H as [[W [D S]]|[b [W [D [F [S _]]]]]]; auto. }
    destruct G as [W [D S]]. unfold fin_once. destruct d; cbn [fst snd].
    - unfold InvS. repeat split; auto.
    - rewrite rec_fin_lg. unfold InvS. cbn [wf sent]. rewrite fd_fin', D, W, orb_false_r.
      cbn [negb andb]. repeat split; auto.
  Qed.

  Lemma invs_spec : forall items o ph rest d (l : list (ev B)),
      InvS ref ph d l -> ph_items ph ++ rest = items ->
      (o = Finished -> ph = Fini items) ->
      down_spec ref items o l.
  Proof.
    intros items o ph rest d l [W [D I]] E F. split; auto. split.
    - exists (ph_items ph). split; [exists rest; auto|]. exists [].
      rewrite app_nil_r. destruct ph; cbn in *; tauto.
    - intro Ho. rewrite (F Ho) in I. destruct I as [S Dt]. split; auto; try congruence.
  Qed.

  Lemma invs_mu : forall d (s : ds B),
      mu_ds (snd (fin_once d s)) + (if fst (fin_once d s) then 0 else 1) <= mu_ds s.
  Proof.
    intros d s. unfold fin_once. destruct d; cbn [fst snd]; [lia|].
    pose proof (rec_fin_mu s). lia.
  Qed.
End InvS.

Lemma invs_start : forall A B (ref : list A -> list B) rs0 fs0,
    ref [] = [] -> InvS ref (Run [] false) false (lg (mkds rs0 fs0 (@nil (ev B)))).
Proof. intros. unfold InvS. cbn. rewrite H. repeat split; auto; try discriminate. Qed.

Section TwoOnce.
  Context {C A B : Type} (h : C -> A * B).

  Definition two_once_push : push C :=
    mkpush (St := once_st (rec_push A) (rec_push B))
           (fun s => let (r, s') := both_ready (rec_push A) (rec_push B) (snd s) in (r, (fst s, s')))
           (fun c s => match unzip_send (rec_push A) (rec_push B) (h c) (snd s) with
                       | Some s' => Some (fst s, s') | None => None end)
           (@both_fin _ _ (rec_push A) (rec_push B)).

  Definition Inv2S (ph : phase C) (s : (bool * bool) * (ds A * ds B)) : Prop :=
    InvS (ref0 h) ph (fst (fst s)) (lg (fst (snd s))) /\
    InvS (ref1 h) ph (snd (fst s)) (lg (snd (snd s))).

  Lemma twoo_ready : ready_ok two_once_push Inv2S.
  Proof.
    intros xs b [[d0 d1] [s0 s1]] [H0 H1]. unfold Inv2S in *. cbn [ready two_once_push].
    unfold both_ready. cbn [rec_push ready fst snd St] in *.
    pose proof (@invs_ready _ _ (ref0 h) xs b) as Q0. pose proof (@invs_ready _ _ (ref1 h) xs b) as Q1.
    specialize (Q0 (fst (rec_ready s0) && fst (rec_ready s1)) d0 s0 H0).
    specialize (Q1 (fst (rec_ready s0) && fst (rec_ready s1)) d1 s1 H1).
    destruct (rec_ready s0) as [a s0']. destruct (rec_ready s1) as [b1 s1']. cbn [fst snd] in *.
    split; [apply Q0|apply Q1]; intro H; apply andb_prop in H; tauto.
  Qed.

  Lemma twoo_send : send_ok two_once_push Inv2S.
  Proof.
    intros xs c [[d0 d1] [s0 s1]] [H0 H1]. unfold Inv2S in *.
    cbn [send two_once_push rec_push fst snd St] in *. unfold unzip_send. cbn [send rec_push fst snd rec_send] in *.
    eexists. split; [reflexivity|]. split; cbn [fst snd lg].
    - apply invs_send; auto. unfold ref0. rewrite map_app. reflexivity.
    - apply invs_send; auto. unfold ref1. rewrite map_app. reflexivity.
  Qed.

  Lemma twoo_fin : fin_ok two_once_push Inv2S.
  Proof.
    intros xs [[d0 d1] [s0 s1]] H. unfold Inv2S in *. cbn [fin two_once_push]. unfold both_fin.
    cbn [rec_push fin fst snd St] in *.
    assert (G0 : InvS (ref0 h) (Fing xs) d0 (lg s0) \/ exists b, InvS (ref0 h) (Run xs b) d0 (lg s0)).
    { destruct H as [[H _]|[b [H _]]]; [left|right; exists b]; exact H. }
    assert (G1 : InvS (ref1 h) (Fing xs) d1 (lg s1) \/ exists b, InvS (ref1 h) (Run xs b) d1 (lg s1)).
    { destruct H as [[_ H]|[b [_ H]]]; [left|right; exists b]; exact H. }
    destruct (@invs_fin _ _ _ _ _ _ G0) as [F0 D0]. destruct (@invs_fin _ _ _ _ _ _ G1) as [F1 D1].
    unfold fin_once in *.
    destruct (if d0 then (true, s0) else rec_fin s0) as [a s0'].
    destruct (if d1 then (true, s1) else rec_fin s1) as [b s1']. cbn [fst snd] in *.
    destruct a, b; cbn [andb]; split; cbn [fst snd]; auto.
  Qed.

  Theorem two_once_correct : forall fuel items r0 f0 r1 f1,
      match drive two_once_push fuel items ((false, false), (mkds r0 f0 [], mkds r1 f1 [])) [] with
      | (o, _, s') => o <> Panicked /\
                      down_spec (ref0 h) items o (lg (fst (snd s'))) /\
                      down_spec (ref1 h) items o (lg (snd (snd s')))
      end.
  Proof.
    intros.
    assert (I0 : Inv2S (Run [] false) ((false, false), (mkds r0 f0 [], mkds r1 f1 []))).
    { split; apply invs_start; reflexivity. }
    pose proof (@drive_inv _ two_once_push Inv2S twoo_ready twoo_send twoo_fin fuel items [] false _ [] I0) as D.
    cbn [app] in D.
    destruct (drive two_once_push fuel items ((false, false), (mkds r0 f0 [], mkds r1 f1 [])) [])
      as [[o tr] s']. destruct o.
    - destruct D as [D0 D1]. split; [congruence|]. split.
      + eapply invs_spec with (rest := []); eauto. apply app_nil_r.
      + eapply invs_spec with (rest := []); eauto. apply app_nil_r.
    - destruct D as [ph [rest [[D0 D1] [E N]]]]. split; [congruence|]. split.
      + eapply invs_spec; eauto. congruence.
      + eapply invs_spec; eauto. congruence.
    - contradiction.
  Qed.

  Definition mu2o (s : (bool * bool) * (ds A * ds B)) : nat := mu_ds (fst (snd s)) + mu_ds (snd (snd s)).

  Theorem two_once_terminates : forall fuel items r0 f0 r1 f1,
      npend r0 + npend f0 + npend r1 + npend f1 + length items < fuel ->
      fst (fst (drive two_once_push fuel items ((false, false), (mkds r0 f0 [], mkds r1 f1 [])) []))
      = Finished.
  Proof.
    intros.
    eapply (@drive_term _ two_once_push Inv2S mu2o) with (xs := []) (b := false);
      eauto using twoo_ready, twoo_send.
    - intros [[d0 d1] [s0 s1]]. unfold mu2o. cbn [ready two_once_push]. unfold both_ready.
      cbn [rec_push ready fst snd St].
      pose proof (rec_ready_mu s0). pose proof (rec_ready_mu s1).
      destruct (rec_ready s0) as [a s0']. destruct (rec_ready s1) as [b s1']. cbn [fst snd] in *.
      destruct a, b; cbn [andb]; lia.
    - intros c [[d0 d1] [s0 s1]] s'.
      cbn [send two_once_push rec_push fst snd St]. unfold unzip_send. cbn [send rec_push fst snd rec_send].
      intro E. inversion E. subst s'. unfold mu2o, mu_ds. cbn [fst snd rs fs]. lia.
    - intros [[d0 d1] [s0 s1]]. unfold mu2o. cbn [fin two_once_push]. unfold both_fin.
      cbn [rec_push fin fst snd St].
      pose proof (rec_fin_mu s0) as M0. pose proof (rec_fin_mu s1) as M1.
      destruct d0, d1; cbn [fst snd andb]; try destruct (rec_fin s0) as [a s0'];
        try destruct (rec_fin s1) as [b s1']; cbn [fst snd andb] in *;
          try destruct a; try destruct b; cbn [andb]; lia.
    - split; apply invs_start; reflexivity.
    - unfold mu2o, mu_ds. cbn [fst snd rs fs]. lia.
  Qed.
End TwoOnce.

Theorem unzip_once_correct : forall A B fuel (items : list (A * B)) r0 f0 r1 f1,
    match drive (unzip_push (rec_push A) (rec_push B)) fuel items
                ((false, false), (mkds r0 f0 [], mkds r1 f1 [])) [] with
    | (o, _, s') => o <> Panicked /\
                    down_spec (map fst) items o (lg (fst (snd s'))) /\
                    down_spec (map snd) items o (lg (snd (snd s')))
    end.
Proof. intros. exact (two_once_correct (fun c : A * B => c) fuel items r0 f0 r1 f1). Qed.

Theorem fanout_once_correct : forall A fuel (items : list A) r0 f0 r1 f1,
    match drive (fanout_push (rec_push A) (rec_push A)) fuel items
                ((false, false), (mkds r0 f0 [], mkds r1 f1 [])) [] with
    | (o, _, s') => o <> Panicked /\
                    down_spec (fun xs => xs) items o (lg (fst (snd s'))) /\
                    down_spec (fun xs => xs) items o (lg (snd (snd s')))
    end.
Proof.
  intros. pose proof (two_once_correct (fun a : A => (a, a)) fuel items r0 f0 r1 f1) as H.
  change (two_once_push (fun a : A => (a, a))) with (fanout_push (rec_push A) (rec_push A)) in H.
  destruct (drive (fanout_push (rec_push A) (rec_push A)) fuel items
                  ((false, false), (mkds r0 f0 [], mkds r1 f1 [])) []) as [[o tr] s'].
  unfold ref0, ref1 in H. cbn [fst snd] in H.
  destruct H as [P [[W0 [[x0 [Q0 R0]] F0]] [W1 [[x1 [Q1 R1]] F1]]]].
  rewrite !map_id' in *. split; auto. split; (split; [auto|split; [eauto|auto]]).
Qed.

Theorem fanout_once_terminates : forall A fuel (items : list A) r0 f0 r1 f1,
    npend r0 + npend f0 + npend r1 + npend f1 + length items < fuel ->
    fst (fst (drive (fanout_push (rec_push A) (rec_push A)) fuel items
                    ((false, false), (mkds r0 f0 [], mkds r1 f1 [])) [])) = Finished.
Proof. intros. exact (two_once_terminates (fun a : A => (a, a)) items r0 f0 r1 f1 H). Qed.

Theorem unzip_once_terminates : forall A B fuel (items : list (A * B)) r0 f0 r1 f1,
    npend r0 + npend f0 + npend r1 + npend f1 + length items < fuel ->
    fst (fst (drive (unzip_push (rec_push A) (rec_push B)) fuel items
                    ((false, false), (mkds r0 f0 [], mkds r1 f1 [])) [])) = Finished.
Proof. intros. exact (two_once_terminates (fun c : A * B => c) items r0 f0 r1 f1 H). Qed.
