(* Engine "Push" (E4, push side): executable model of dfir_pipes::push combinators.

   A downstream is a scripted recorder [ds]: a script of Done/Pend answers (true = Done) for
   poll_ready, one for poll_finalize (both answer Done once exhausted) and the log of every
   call it has seen, NEWEST FIRST.  A push is a record of three operations over a state; a
   combinator is a function from the record(s) of its downstream(s) to a record, transcribed
   match arm by match arm from /repo/dfir_pipes/src/push/<name>.rs.  Closures are function
   arguments.  Definitions only -- proofs live in P*.v. *)
From Coq Require Import List NArith Bool Arith.
Import ListNotations.

Set Implicit Arguments.

(* ------------------------------------------------------------------ events / recorder *)

Inductive ev (A : Type) : Type :=
| ERdy (r : bool)        (* poll_ready was called and answered r (true = Done) *)
| ESend (a : A)          (* start_send a *)
| EFin (r : bool).       (* poll_finalize was called and answered r *)
Arguments ERdy {A} r.
Arguments ESend {A} a.
Arguments EFin {A} r.

Record ds (A : Type) : Type := mkds { rs : list bool; fs : list bool; lg : list (ev A) }.
Arguments mkds {A} rs fs lg.

Definition pop (l : list bool) : bool * list bool :=
  match l with [] => (true, []) | b :: r => (b, r) end.

(* PushStep: true = Done, false = Pending.  start_send may panic: None. *)
Record push (A : Type) : Type := mkpush {
  St : Type;
  ready : St -> bool * St;
  send : A -> St -> option St;
  fin : St -> bool * St }.

Definition rec_ready {A} (s : ds A) : bool * ds A :=
  let (b, r) := pop (rs s) in (b, mkds r (fs s) (ERdy b :: lg s)).
Definition rec_send {A} (a : A) (s : ds A) : option (ds A) :=
  Some (mkds (rs s) (fs s) (ESend a :: lg s)).
Definition rec_fin {A} (s : ds A) : bool * ds A :=
  let (b, r) := pop (fs s) in (b, mkds (rs s) r (EFin b :: lg s)).

Definition rec_push (A : Type) : push A :=
  mkpush (@rec_ready A) (@rec_send A) (@rec_fin A).

Definition ds0 {A} (sc : list bool * list bool) : ds A := mkds (fst sc) (snd sc) [].

(* ------------------------------------------------------------------ log observers (newest first) *)

Definition is_send {A} (e : ev A) : bool := match e with ESend _ => true | _ => false end.
Definition is_fin {A} (e : ev A) : bool := match e with EFin _ => true | _ => false end.
Definition is_findone {A} (e : ev A) : bool := match e with EFin true => true | _ => false end.

(* may start_send be called now: the latest call was a poll_ready answering Done *)
Definition rdy {A} (l : list (ev A)) : bool :=
  match l with ERdy true :: _ => true | _ => false end.
Definition finstarted {A} (l : list (ev A)) : bool := existsb is_fin l.
Definition findone {A} (l : list (ev A)) : bool := existsb is_findone l.

(* items delivered, in delivery order *)
Fixpoint sent {A} (l : list (ev A)) : list A :=
  match l with
  | [] => []
  | ESend a :: r => sent r ++ [a]
  | _ :: r => sent r
  end.

(* The push protocol as seen by one downstream (strict form):
   - start_send only directly after a poll_ready that answered Done;
   - no start_send once poll_finalize has been called;
   - no call at all after poll_finalize answered Done (finalized exactly once). *)
Fixpoint wf {A} (l : list (ev A)) : bool :=
  match l with
  | [] => true
  | ESend _ :: r => rdy r && negb (finstarted r) && wf r
  | ERdy _ :: r => negb (findone r) && wf r
  | EFin _ :: r => negb (findone r) && wf r
  end.

(* weak form: as [wf] but poll_finalize may be called again after it answered Done *)
Fixpoint wfw {A} (l : list (ev A)) : bool :=
  match l with
  | [] => true
  | ESend _ :: r => rdy r && negb (finstarted r) && wfw r
  | ERdy _ :: r => negb (findone r) && wfw r
  | EFin _ :: r => wfw r
  end.

(* number of poll_finalize calls made after one answered Done *)
Fixpoint refin {A} (l : list (ev A)) : nat :=
  match l with
  | [] => 0
  | EFin _ :: r => (if findone r then 1 else 0) + refin r
  | _ :: r => refin r
  end.

(* ------------------------------------------------------------------ the driver (caller) *)

Inductive dev : Type := DRdy (r : bool) | DSend | DFin (r : bool).
Inductive outcome : Type := Finished | OutOfFuel | Panicked.

Section Drive.
  Context {A : Type} (p : push A).

  (* poll_finalize until Done; one unit of fuel per poll *)
  Fixpoint drive_fin (fuel : nat) (s : St p) (tr : list dev) : outcome * list dev * St p :=
    match fuel with
    | 0 => (OutOfFuel, tr, s)
    | S k => let (r, s') := fin p s in
             if r then (Finished, DFin true :: tr, s') else drive_fin k s' (DFin false :: tr)
    end.

  (* for each item: poll_ready until Done, then start_send; finally finalize *)
  Fixpoint drive (fuel : nat) (items : list A) (s : St p) (tr : list dev)
    : outcome * list dev * St p :=
    match items with
    | [] => drive_fin fuel s tr
    | a :: rest =>
      match fuel with
      | 0 => (OutOfFuel, tr, s)
      | S k => let (r, s') := ready p s in
               if r then match send p a s' with
                         | None => (Panicked, DSend :: DRdy true :: tr, s')
                         | Some s'' => drive k rest s'' (DSend :: DRdy true :: tr)
                         end
               else drive k items s' (DRdy false :: tr)
      end
    end.
End Drive.

(* ------------------------------------------------------------------ stateless, one downstream *)

Section Stateless.
  Context {A B : Type} (nx : push B).

  (* map.rs *)
  Definition map_push (f : A -> B) : push A :=
    mkpush (ready nx) (fun a s => send nx (f a) s) (fin nx).

  (* filter_map.rs *)
  Definition filter_map_push (g : A -> option B) : push A :=
    mkpush (ready nx)
           (fun a s => match g a with Some b => send nx b s | None => Some s end)
           (fin nx).
End Stateless.

Section Stateless1.
  Context {A : Type} (nx : push A).

  (* filter.rs *)
  Definition filter_push (q : A -> bool) : push A :=
    mkpush (ready nx) (fun a s => if q a then send nx a s else Some s) (fin nx).

  (* inspect.rs: the closure's effect is modelled by a log of inspected items in the state *)
  Definition inspect_push : push A :=
    mkpush (St := list A * St nx)
           (fun s => let (r, s') := ready nx (snd s) in (r, (fst s, s')))
           (fun a s => match send nx a (snd s) with
                       | Some s' => Some (a :: fst s, s') | None => None end)
           (fun s => let (r, s') := fin nx (snd s) in (r, (fst s, s'))).
End Stateless1.

(* ------------------------------------------------------------------ flat_map.rs / flatten.rs *)

Section FlatMap.
  Context {A B : Type} (nx : push B).

  (* buffer: Option<(iterator, next item)>; the iterator is the list of remaining items *)
  Definition fm_st : Type := option (list B * B) * St nx.

  (* the `while let Some(..) = buffer` loop of poll_ready, from a Some buffer:
     returns (buffer, loop finished?, downstream state) *)
  Fixpoint fm_drain (it : list B) (item : B) (s : St nx) : option (list B * B) * bool * St nx :=
    let (r, s1) := ready nx s in
    if r then
      match send nx item s1 with
      | None => (None, false, s1)      (* downstream panicked: not reachable with a recorder *)
      | Some s2 =>
        match it with
        | nxt :: it' => fm_drain it' nxt s2
        | [] => (None, true, s2)
        end
      end
    else (Some (it, item), false, s1).

  Definition fm_ready (st : fm_st) : bool * fm_st :=
    match fst st with
    | None => let (r, s') := ready nx (snd st) in (r, (None, s'))
    | Some (it, item) =>
      match fm_drain it item (snd st) with
      | (buf, true, s1) => let (r, s2) := ready nx s1 in (r, (buf, s2))
      | (buf, false, s1) => (false, (buf, s1))
      end
    end.

  (* the part of poll_finalize with a non-empty buffer: ready!(self.poll_ready()); next.poll_finalize() *)
  Definition fm_fin_drain (st : fm_st) : bool * fm_st :=
    let (r, st1) := fm_ready st in
    if r then let (r2, s2) := fin nx (snd st1) in (r2, (fst st1, s2)) else (false, st1).

  (* poll_finalize (as of /repo cca62d2de0e): if buffer.is_some() { ready!(self.poll_ready()) };
     next.poll_finalize() -- with an empty buffer the downstream's readiness is not polled *)
  Definition fm_fin (st : fm_st) : bool * fm_st :=
    match fst st with
    | None => let (r2, s2) := fin nx (snd st) in (r2, (None, s2))
    | Some _ => fm_fin_drain st
    end.

  (* start_send asserts buffer.is_none(): panic otherwise *)
  Definition fm_send (g : A -> list B) (a : A) (st : fm_st) : option fm_st :=
    match fst st with
    | Some _ => None
    | None => match g a with
              | [] => Some (None, snd st)
              | b :: it => Some (Some (it, b), snd st)
              end
    end.

  Definition flat_map_push (g : A -> list B) : push A :=
    mkpush fm_ready (fm_send g) fm_fin.
End FlatMap.

(* flatten.rs is the same machine with the identity closure *)
Definition flatten_push {B} (nx : push B) : push (list B) :=
  mkpush (@fm_ready B nx) (fm_send (fun l : list B => l)) (@fm_fin B nx).

Definition fm_init {B} {nx : push B} (s : St nx) : fm_st nx := (None, s).

(* ------------------------------------------------------------------ fanout.rs / unzip.rs
   (as of /repo de9fd2170a9 "finalize each downstream once": a flag per downstream records that
   its poll_finalize answered Done; such a downstream is not polled again.  The step functions
   of the code before that commit live in Historic.v, for the historical witnesses only.) *)

Section Two.
  Context {A B : Type} (p0 : push A) (p1 : push B).

  (* ready_both!: both sides are always polled, Done iff both Done *)
  Definition both_ready (s : St p0 * St p1) : bool * (St p0 * St p1) :=
    let (a, s0) := ready p0 (fst s) in
    let (b, s1) := ready p1 (snd s) in
    (a && b, (s0, s1)).

  (* Unzip::start_send *)
  Definition unzip_send (ab : A * B) (s : St p0 * St p1) : option (St p0 * St p1) :=
    match send p0 (fst ab) (fst s) with
    | None => None
    | Some s0 => match send p1 (snd ab) (snd s) with
                 | None => None
                 | Some s1 => Some (s0, s1)
                 end
    end.

  (* state: (finalized_0, finalized_1), downstream states *)
  Definition once_st : Type := ((bool * bool) * (St p0 * St p1))%type.

  (* if !finalized_i { finalized_i = push_i.poll_finalize(..).is_done() }; Done iff both *)
  Definition both_fin (s : once_st) : bool * once_st :=
    let (a, s0) := if fst (fst s) then (true, fst (snd s)) else fin p0 (fst (snd s)) in
    let (b, s1) := if snd (fst s) then (true, snd (snd s)) else fin p1 (snd (snd s)) in
    (a && b, ((a, b), (s0, s1))).

  Definition unzip_push : push (A * B) :=
    mkpush (St := once_st)
           (fun s => let (r, s') := both_ready (snd s) in (r, (fst s, s')))
           (fun ab s => match unzip_send ab (snd s) with
                        | Some s' => Some (fst s, s') | None => None end)
           both_fin.
End Two.

(* Fanout::start_send: item.clone() to push_0, item to push_1 *)
Definition fanout_send {A} (p0 p1 : push A) (a : A) (s : St p0 * St p1) : option (St p0 * St p1) :=
  match send p0 a (fst s) with
  | None => None
  | Some s0 => match send p1 a (snd s) with
               | None => None
               | Some s1 => Some (s0, s1)
               end
  end.

Definition fanout_push {A} (p0 p1 : push A) : push A :=
  mkpush (St := once_st p0 p1)
         (fun s => let (r, s') := both_ready p0 p1 (snd s) in (r, (fst s, s')))
         (fun a s => match fanout_send p0 p1 a (snd s) with
                     | Some s' => Some (fst s, s') | None => None end)
         (@both_fin _ _ p0 p1).

(* ------------------------------------------------------------------ demux_var.rs *)

Section Demux.
  Context {A : Type} (nx : push A).

  (* PushVariadic for (P, Rest) / (): the variadic tuple is a list of downstream states *)
  Fixpoint var_ready (l : list (St nx)) : bool * list (St nx) :=
    match l with
    | [] => (true, [])
    | s :: rest => let (a, s') := ready nx s in
                   let (b, rest') := var_ready rest in
                   (a && b, s' :: rest')
    end.
  (* idx == 0 ? push.start_send : rest.start_send(idx - 1); () panics *)
  Fixpoint var_send (idx : nat) (a : A) (l : list (St nx)) : option (list (St nx)) :=
    match l with
    | [] => None
    | s :: rest =>
      match idx with
      | 0 => match send nx a s with Some s' => Some (s' :: rest) | None => None end
      | S i => match var_send i a rest with Some rest' => Some (s :: rest') | None => None end
      end
    end.
  (* poll_finalize_once with the DemuxVar.finalized bit mask (the code tracks the first 64
     pushes; the model all of them): a finalized push is not polled again *)
  Fixpoint var_fin (fl : list bool) (l : list (St nx)) : bool * (list bool * list (St nx)) :=
    match l with
    | [] => (true, ([], []))
    | s :: rest =>
      let (a, s') := if hd false fl then (true, s) else fin nx s in
      match var_fin (tl fl) rest with
      | (b, (fl', rest')) => (a && b, (a :: fl', s' :: rest'))
      end
    end.

  Definition demux_push : push (nat * A) :=
    mkpush (St := (list bool * list (St nx))%type)
           (fun s => let (r, l') := var_ready (snd s) in (r, (fst s, l')))
           (fun ia s => match var_send (fst ia) (snd ia) (snd s) with
                        | Some l' => Some (fst s, l') | None => None end)
           (fun s => var_fin (fst s) (snd s)).
End Demux.
