(* Engine "Push", sinktools part: sinktools Unzip as it was BEFORE /repo commit e255bb09846
   ("does not re-close a closed sink"): poll_close used ready_both! and closed both sinks on
   every call.  Kept only for the historical witness of the fixed finding
   unzip/poll_close-after-close-completed.  Not used by the correspondence check. *)
From Coq Require Import List NArith Bool Arith.
From HV Require Import Push.SinkModel.
Import ListNotations.

Set Implicit Arguments.

Definition sunzip_old {A B} (p0 : sink A) (p1 : sink B) : sink (A * B) :=
  mksink (@sboth _ _ p0 p1 (sready p0) (sready p1))
         (sunzip_send p0 p1)
         (@sboth _ _ p0 p1 (sflush p0) (sflush p1))
         (@sboth _ _ p0 p1 (sclose p0) (sclose p1)).

(* sink 0 always Ready; sink 1 pends once on poll_close: the old Unzip closed sink 0 twice *)
Lemma sunzip_old_strict_refuted : exists (items : list (N * N)) (d0 d1 : sds N),
    match sdrive (sunzip_old (srec N) (srec N)) 10 items (d0, d1) [] with
    | (o, _, s') => o = SFinished /\ swf (slg (fst s')) = false /\ swfw (slg (fst s')) = true
    end.
Proof.
  exists [], (mksds [] [] [] [] []), (mksds [] [] [] [RPend] []). vm_compute. auto.
Qed.

(* the same scripts on the code as it is now: sink 0 is closed exactly once *)
Lemma sunzip_witness_now_strict :
    match sdrive (sunzip (srec N) (srec N)) 10 [] ((false, false), (mksds [] [] [] [] [], mksds [] [] [] [RPend] [])) [] with
    | (o, _, s') => o = SFinished /\ swf (slg (fst (snd s'))) = true /\ swf (slg (snd (snd s'))) = true
    end.
Proof. vm_compute. auto. Qed.
