(* Engine "Push": combinators with one downstream, facing a scripted recorder.
   The invariant [Inv1] is generic in the combinator's buffer ([pend]: items accepted from
   the caller, owed to the downstream, not yet sent). *)
From Coq Require Import List NArith Bool Arith Lia.
From HV Require Import Push.Model Push.PBase.
Import ListNotations.

Set Implicit Arguments.

Section One.
  Context {A B : Type} (p : push A).
  Variable lgof : St p -> list (ev B).
  Variable pend : St p -> list B.
  Variable ref : list A -> list B.

  Definition Inv1 (ph : phase A) (s : St p) : Prop :=
    wf (lgof s) = true /\
    match ph with
    | Run xs b => finstarted (lgof s) = false /\ sent (lgof s) ++ pend s = ref xs /\
                  (b = true -> rdy (lgof s) = true /\ pend s = [])
    | Fing xs => findone (lgof s) = false /\ sent (lgof s) ++ pend s = ref xs /\
                 (finstarted (lgof s) = true -> pend s = [])
    | Fini xs => findone (lgof s) = true /\ sent (lgof s) = ref xs
    end.

  Hypothesis Hr : ready_ok p Inv1.
  Hypothesis Hs : send_ok p Inv1.
  Hypothesis Hf : fin_ok p Inv1.

  Theorem one_spec : forall fuel items s,
      Inv1 (Run [] false) s ->
      match drive p fuel items s [] with
      | (o, _, s') => o <> Panicked /\ down_spec ref items o (lgof s')
      end.
  Proof.
    intros fuel items s H.
    pose proof (@drive_inv _ _ _ Hr Hs Hf fuel items [] false s [] H) as D. cbn [app] in D.
    destruct (drive p fuel items s []) as [[o tr] s']. destruct o.
    - destruct D as [W [F S]]. split; [congruence|]. split; auto. split.
      + exists items. split; [exists []; apply app_nil_r|]. exists []. rewrite app_nil_r. auto.
      + auto.
    - destruct D as [ph [rest [[W I] [E N]]]]. split; [congruence|]. split; auto. split.
      + exists (ph_items ph). split; [exists rest; auto|].
        destruct ph as [xs b|xs|xs]; cbn in *.
        * exists (pend s'). tauto.
        * exists (pend s'). tauto.
        * exfalso. apply (N xs). reflexivity.
      + congruence.
    - contradiction.
  Qed.

  Variable mu : St p -> nat.
  Hypothesis Mr : forall s, mu (snd (ready p s)) + (if fst (ready p s) then 0 else 1) <= mu s.
  Hypothesis Ms : forall a s s', send p a s = Some s' -> mu s' <= mu s.
  Hypothesis Mf : forall s, mu (snd (fin p s)) + (if fst (fin p s) then 0 else 1) <= mu s.

  Theorem one_term : forall fuel items s tr,
      Inv1 (Run [] false) s -> mu s + length items < fuel ->
      fst (fst (drive p fuel items s tr)) = Finished.
  Proof. intros. eapply (@drive_term _ p Inv1 mu); eauto. Qed.
End One.

(* ------------------------------------------------------------------ log rewriting tactic *)

Ltac logs :=
  repeat match goal with
         | |- context [lg (snd (rec_ready ?s))] => rewrite (rec_ready_lg s)
         | |- context [lg (snd (rec_fin ?s))] => rewrite (rec_fin_lg s)
         end.

Lemma start_inv : forall A B (rs0 fs0 : list bool) (ref : list A -> list B),
    ref [] = [] ->
    wf (lg (mkds rs0 fs0 (@nil (ev B)))) = true /\
    finstarted (lg (mkds rs0 fs0 (@nil (ev B)))) = false /\
    sent (lg (mkds rs0 fs0 (@nil (ev B)))) ++ [] = ref [] /\
    (false = true -> rdy (lg (mkds rs0 fs0 (@nil (ev B)))) = true /\ @nil B = []).
Proof. intros. cbn. rewrite H. repeat split; auto; discriminate. Qed.

(* ------------------------------------------------------------------ filter_map (map, filter) *)

Section FilterMap.
  Context {A B : Type} (g : A -> option B).

  Definition fm_ref (xs : list A) : list B :=
    flat_map (fun a => match g a with Some b => [b] | None => [] end) xs.

  Lemma fm_ref_app : forall xs a, fm_ref (xs ++ [a]) = fm_ref xs ++ match g a with Some b => [b] | None => [] end.
  Proof. intros. unfold fm_ref. rewrite flat_map_app. cbn. rewrite app_nil_r. reflexivity. Qed.

  (* any push over a recorder that forwards poll_ready / poll_finalize and whose start_send
     forwards [g a] when it is [Some] (map.rs, filter.rs, filter_map.rs) *)
  Variable snd' : A -> ds B -> option (ds B).
  Hypothesis snd_def : forall a s, snd' a s = match g a with Some b => rec_send b s | None => Some s end.
  Let p := @mkpush A (ds B) (@rec_ready B) snd' (@rec_fin B).
  Let I := Inv1 p (@lg B) (fun _ => []) fm_ref.

  Lemma fmp_ready : ready_ok p I.
  Proof.
    intros xs b s [W [F [S R]]]. unfold I, Inv1, p in *.
    cbn [St ready send fin] in *. logs.
    cbn [wf finstarted existsb is_fin sent orb rdy]. rewrite (finstarted_false_findone _ F), W.
    cbn [negb andb]. repeat split; auto. rewrite H. auto.
  Qed.

  Lemma fmp_send : send_ok p I.
  Proof.
    intros xs a s [W [F [S R]]]. destruct (R eq_refl) as [R1 _]. unfold I, Inv1, p in *.
    cbn [St ready send fin] in *. rewrite snd_def.
    rewrite app_nil_r in S. destruct (g a) as [b|] eqn:G.
    - eexists. split; [reflexivity|]. cbn [lg]. rewrite fm_ref_app, G.
      cbn [wf finstarted existsb is_fin sent orb rdy]. rewrite R1, F, W, S, app_nil_r.
      repeat split; auto; discriminate.
    - exists s. split; [reflexivity|]. rewrite fm_ref_app, G, !app_nil_r.
      repeat split; auto; discriminate.
  Qed.

  Lemma fmp_fin : fin_ok p I.
  Proof.
    intros xs s H. unfold I, Inv1, p in *. cbn [St ready send fin] in *.
    assert (W : wf (lg s) = true /\ findone (lg s) = false /\ sent (lg s) = fm_ref xs).
    { destruct H as [[W [F [S _]]]|[b [W [F [S _]]]]]; rewrite app_nil_r in S; repeat split; auto.
      apply finstarted_false_findone; auto. }
    destruct W as [W [F S]].
    destruct (fst (rec_fin s)) eqn:E; logs; rewrite E;
      cbn [wf finstarted findone existsb is_fin is_findone sent orb]; rewrite ?F, ?W, ?app_nil_r;
        repeat split; auto.
  Qed.

  Theorem sl_correct : forall fuel items rs0 fs0,
      match drive p fuel items (mkds rs0 fs0 []) [] with
      | (o, _, s') => o <> Panicked /\ down_spec fm_ref items o (lg s')
      end.
  Proof.
    intros. apply (one_spec fmp_ready fmp_send fmp_fin). split; [reflexivity|].
    cbn. repeat split; auto; discriminate.
  Qed.

  Theorem sl_terminates : forall fuel items rs0 fs0,
      npend rs0 + npend fs0 + length items < fuel ->
      fst (fst (drive p fuel items (mkds rs0 fs0 []) [])) = Finished.
  Proof.
    intros. apply one_term with (lgof := @lg B) (pend := fun _ => []) (ref := fm_ref) (mu := @mu_ds B);
      auto using fmp_ready, fmp_send, fmp_fin.
    - intro s. pose proof (rec_ready_mu s) as M. unfold p. cbn [St ready] in *. lia.
    - intros a s s'. unfold p. cbn [St send] in *. rewrite snd_def. destruct (g a).
      + intro E. rewrite (rec_send_mu E). lia.
      + intro E. inversion E. lia.
    - intro s. pose proof (rec_fin_mu s) as M. unfold p. cbn [St fin] in *. lia.
    - split; [reflexivity|]. cbn. repeat split; auto; discriminate.
  Qed.
End FilterMap.

(* ------------------------------------------------------------------ filter_map.rs / map.rs / filter.rs *)

Lemma fm_ref_map : forall A B (f : A -> B) xs, fm_ref (fun a => Some (f a)) xs = map f xs.
Proof. intros. unfold fm_ref. induction xs as [|a xs IH]; cbn; [auto|rewrite IH; auto]. Qed.

Lemma fm_ref_filter : forall A (q : A -> bool) xs,
    fm_ref (fun a => if q a then Some a else None) xs = filter q xs.
Proof. intros. unfold fm_ref. induction xs as [|a xs IH]; cbn; auto. destruct (q a); cbn; rewrite IH; auto. Qed.

Theorem filter_map_correct : forall A B (g : A -> option B) fuel items rs0 fs0,
    match drive (filter_map_push (rec_push B) g) fuel items (mkds rs0 fs0 []) [] with
    | (o, _, s') => o <> Panicked /\ down_spec (fm_ref g) items o (lg s')
    end.
Proof. intros. apply (@sl_correct A B g (send (filter_map_push (rec_push B) g))). reflexivity. Qed.

Theorem filter_map_terminates : forall A B (g : A -> option B) fuel items rs0 fs0,
    npend rs0 + npend fs0 + length items < fuel ->
    fst (fst (drive (filter_map_push (rec_push B) g) fuel items (mkds rs0 fs0 []) [])) = Finished.
Proof. intros. apply (@sl_terminates A B g (send (filter_map_push (rec_push B) g))); auto. Qed.

Theorem map_correct : forall A B (f : A -> B) fuel items rs0 fs0,
    match drive (map_push (rec_push B) f) fuel items (mkds rs0 fs0 []) [] with
    | (o, _, s') => o <> Panicked /\ down_spec (map f) items o (lg s')
    end.
Proof.
  intros.
  pose proof (@sl_correct A B (fun a => Some (f a)) (send (map_push (rec_push B) f))
                          (fun _ _ => eq_refl) fuel items rs0 fs0) as H.
  change (@mkpush A (ds B) (@rec_ready B) (send (map_push (rec_push B) f)) (@rec_fin B))
    with (map_push (rec_push B) f) in H.
  destruct (drive (map_push (rec_push B) f) fuel items (mkds rs0 fs0 []) []) as [[o tr] s'].
  destruct H as [P [W [[xs [Px Ps]] F]]]. split; auto. split; auto. split.
  - exists xs. rewrite <- fm_ref_map. auto.
  - rewrite <- fm_ref_map. auto.
Qed.

Theorem map_terminates : forall A B (f : A -> B) fuel items rs0 fs0,
    npend rs0 + npend fs0 + length items < fuel ->
    fst (fst (drive (map_push (rec_push B) f) fuel items (mkds rs0 fs0 []) [])) = Finished.
Proof.
  intros. apply (@sl_terminates A B (fun a => Some (f a)) (send (map_push (rec_push B) f))); auto.
Qed.

Theorem filter_correct : forall A (q : A -> bool) fuel items rs0 fs0,
    match drive (filter_push (rec_push A) q) fuel items (mkds rs0 fs0 []) [] with
    | (o, _, s') => o <> Panicked /\ down_spec (filter q) items o (lg s')
    end.
Proof.
  intros.
  assert (E : forall a s, send (filter_push (rec_push A) q) a s =
                          match (if q a then Some a else None) with Some b => rec_send b s | None => Some s end).
  { intros a s. cbn. destruct (q a); reflexivity. }
  pose proof (@sl_correct A A (fun a => if q a then Some a else None) (send (filter_push (rec_push A) q))
                          E fuel items rs0 fs0) as H.
  change (@mkpush A (ds A) (@rec_ready A) (send (filter_push (rec_push A) q)) (@rec_fin A))
    with (filter_push (rec_push A) q) in H.
  destruct (drive (filter_push (rec_push A) q) fuel items (mkds rs0 fs0 []) []) as [[o tr] s'].
  destruct H as [P [W [[xs [Px Ps]] F]]]. split; auto. split; auto. split.
  - exists xs. rewrite <- fm_ref_filter. auto.
  - rewrite <- fm_ref_filter. auto.
Qed.

Theorem filter_terminates : forall A (q : A -> bool) fuel items rs0 fs0,
    npend rs0 + npend fs0 + length items < fuel ->
    fst (fst (drive (filter_push (rec_push A) q) fuel items (mkds rs0 fs0 []) [])) = Finished.
Proof.
  intros.
  apply (@sl_terminates A A (fun a => if q a then Some a else None) (send (filter_push (rec_push A) q))); auto.
  intros a s. cbn. destruct (q a); reflexivity.
Qed.
