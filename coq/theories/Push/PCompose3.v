(* Engine "Push": stage operators for inspect.rs and demux_var.rs over ANY protocol-respecting
   downstream(s).  DemuxVar panics on an index with no downstream, so its send obligation carries
   the item precondition [in_range] (driver theorem: PDemux.drive_inv_P). *)
From Coq Require Import List NArith Bool Arith Lia.
From HV Require Import Push.Model Push.Model2 Push.PBase Push.POne Push.PFlatMap Push.PCompose Push.PCompose2
     Push.Run Push.PTwo Push.PTwoOnce Push.PDemux.
Import ListNotations.

Set Implicit Arguments.

(* ------------------------------------------------------------------ inspect.rs *)

Section InspectStage.
  Context {A : Type} (p : push A) (Inv : phase A -> St p -> Prop).
  Hypothesis HP : respects p Inv.

  (* the closure saw exactly the items accepted so far, in order *)
  Definition InspInv (ph : phase A) (st : list A * St p) : Prop :=
    Inv ph (snd st) /\ rev (fst st) = ph_items ph.

  Lemma inspect_respects : respects (inspect_push p) InspInv.
  Proof.
    destruct HP as [Hr Hs Hf Hw]. split.
    - intros xs b [seen s] [I E]. cbn [fst snd] in *. cbn [ready inspect_push fst snd].
      pose proof (Hr _ _ _ I) as Q. destruct (ready p s) as [r s']. cbn [fst snd] in *. split; auto.
    - intros xs a [seen s] [I E]. cbn [fst snd] in *. cbn [send inspect_push fst snd].
      destruct (Hs _ a _ I) as [s' [Q J]]. rewrite Q. eexists. split; [reflexivity|].
      split; cbn [fst snd ph_items rev] in *; auto. rewrite E. reflexivity.
    - intros xs [seen s] H. cbn [fin inspect_push fst snd].
      assert (G : (Inv (Fing xs) s \/ exists b, Inv (Run xs b) s) /\ rev seen = xs).
      { destruct H as [[I E]|[b [I E]]]; cbn [fst snd ph_items] in *; split; eauto. }
      destruct G as [G E]. pose proof (Hf xs s G) as Q. destruct (fin p s) as [r s']. cbn [fst snd] in *.
      destruct r; split; cbn [fst snd ph_items]; auto.
    - intros xs [seen s] [I E]. split; auto.
  Qed.
End InspectStage.

(* ------------------------------------------------------------------ demux_var.rs *)

Section DemuxStage.
  Context {A : Type} (nx : push A) (Inv : phase A -> St nx -> Prop).
  Hypothesis HP : respects nx Inv.

  (* downstream number k, k+1, ... of the list; [fl]: the finalized flags *)
  Fixpoint DL (k : nat) (ph : phase (nat * A)) (fl : list bool) (l : list (St nx)) : Prop :=
    match l with
    | [] => True
    | s :: r =>
      match ph with
      | Run xs b => hd false fl = false /\ exists b0, Inv (Run (demux_ref k xs) b0) s /\ (b = true -> b0 = true)
      | Fing xs => side nx Inv (demux_ref k xs) (hd false fl) s
      | Fini xs => hd false fl = true /\ Inv (Fini (demux_ref k xs)) s
      end /\ DL (S k) ph (tl fl) r
    end.

  Lemma dl_ready : forall l k xs b fl,
      DL k (Run xs b) fl l -> DL k (Run xs (fst (var_ready nx l))) fl (snd (var_ready nx l)).
  Proof.
    destruct HP as [Hr Hs Hf Hw].
    induction l as [|s r IH]; intros k xs b fl H; cbn [var_ready snd DL]; auto.
    destruct H as [[F [b0 [I R]]] H1]. pose proof (Hr _ _ _ I) as Q. specialize (IH (S k) xs b (tl fl) H1).
    destruct (ready nx s) as [a s']. destruct (var_ready nx r) as [c r']. cbn [fst snd DL] in *.
    assert (W : forall l' k' fl' b1 b2, (b2 = true -> b1 = true) -> DL k' (Run xs b1) fl' l' -> DL k' (Run xs b2) fl' l').
    { induction l' as [|s0 r0 IH0]; intros k' fl' b1 b2 Imp D; cbn [DL] in *; auto.
      destruct D as [[F0 [b3 [I0 R0]]] D1]. split; [|eapply IH0; eauto]. split; auto. exists b3. split; auto. }
    split.
    - split; auto. exists a. split; auto. intro E. apply andb_prop in E. tauto.
    - eapply W; [|exact IH]. intro E. apply andb_prop in E. tauto.
  Qed.

  Lemma dl_skip : forall l k xs i a fl,
      DL k (Run xs true) fl l -> i < k -> DL k (Run (xs ++ [(i, a)]) false) fl l.
  Proof.
    destruct HP as [Hr Hs Hf Hw].
    induction l as [|s r IH]; intros k xs i a fl H Lt; cbn [DL] in *; auto.
    destruct H as [[F [b0 [I R]]] H1]. split; [|apply IH; auto]. split; auto. exists false.
    rewrite demux_ref_app. replace (Nat.eqb i k) with false by (symmetry; apply Nat.eqb_neq; lia).
    rewrite app_nil_r. rewrite (R eq_refl) in I. split; auto; discriminate.
  Qed.

  Lemma dl_send : forall l k idx a xs fl,
      DL k (Run xs true) fl l -> idx < length l ->
      exists l', var_send nx idx a l = Some l' /\ DL k (Run (xs ++ [(k + idx, a)]) false) fl l'.
  Proof.
    pose proof HP as [Hr Hs Hf Hw].
    induction l as [|s r IH]; intros k idx a xs fl H Lt; cbn [length] in Lt; [lia|].
    destruct H as [[F [b0 [I R]]] H1]. rewrite (R eq_refl) in I. destruct idx as [|j]; cbn [var_send].
    - destruct (Hs _ a _ I) as [s' [Q J]]. rewrite Q. eexists. split; [reflexivity|]. rewrite Nat.add_0_r.
      cbn [DL]. split.
      + split; auto. exists false. rewrite demux_ref_app, Nat.eqb_refl. split; auto; discriminate.
      + apply dl_skip; auto.
    - destruct (IH (S k) j a xs (tl fl) H1) as [r' [E D]]; [lia|]. rewrite E.
      eexists. split; [reflexivity|]. cbn [DL]. replace (k + S j) with (S k + j) by lia. split; auto.
      split; auto. exists false. rewrite demux_ref_app.
      replace (Nat.eqb (S k + j) k) with false by (symmetry; apply Nat.eqb_neq; lia).
      rewrite app_nil_r. split; auto; discriminate.
  Qed.

  Lemma dl_fin : forall l k xs fl,
      (DL k (Fing xs) fl l \/ exists b, DL k (Run xs b) fl l) ->
      match var_fin nx fl l with
      | (b, (fl', l')) => DL k (Fing xs) fl' l' /\ (b = true -> DL k (Fini xs) fl' l')
      end.
  Proof.
    induction l as [|s r IH]; intros k xs fl H; cbn [var_fin]; [cbn; auto|].
    assert (G0 : side nx Inv (demux_ref k xs) (hd false fl) s).
    { destruct H as [[H _]|[b [[F [b0 [I _]]] _]]]; auto. unfold side. rewrite F. right. eauto. }
    assert (G1 : DL (S k) (Fing xs) (tl fl) r \/ exists b, DL (S k) (Run xs b) (tl fl) r).
    { destruct H as [[_ H]|[b [_ H]]]; [left|right; exists b]; exact H. }
    pose proof (side_fin HP _ _ _ G0) as Q0. cbn zeta in Q0. specialize (IH (S k) xs (tl fl) G1).
    destruct (var_fin nx (tl fl) r) as [b [fl' r']]. destruct IH as [F1 D1].
    destruct (if hd false fl then (true, s) else fin nx s) as [a s']. cbn [fst snd] in *.
    cbn [DL hd tl]. split; [split; auto|].
    intro E. apply andb_prop in E. destruct E as [Ea Eb]. subst a. unfold side in Q0. split; auto.
  Qed.

  Definition DInv (n : nat) (ph : phase (nat * A)) (st : list bool * list (St nx)) : Prop :=
    length (snd st) = n /\ DL 0 ph (fst st) (snd st).

  Lemma var_ready_len' : forall l : list (St nx), length (snd (var_ready nx l)) = length l.
  Proof.
    induction l as [|s r IH]; cbn [var_ready]; auto. destruct (ready nx s). destruct (var_ready nx r).
    cbn [snd length] in *. f_equal. exact IH.
  Qed.
  Lemma var_send_len' : forall (l : list (St nx)) idx a l', var_send nx idx a l = Some l' -> length l' = length l.
  Proof.
    induction l as [|s r IH]; intros idx a l' E; destruct idx as [|j]; cbn in E; try discriminate.
    - destruct (send nx a s); inversion E; subst; reflexivity.
    - destruct (var_send nx j a r) eqn:E1; inversion E; subst. cbn. f_equal. eapply IH; eauto.
  Qed.
  Lemma var_fin_len' : forall (l : list (St nx)) fl, length (snd (snd (var_fin nx fl l))) = length l.
  Proof.
    induction l as [|s r IH]; intros fl; cbn [var_fin]; auto.
    specialize (IH (tl fl)). destruct (var_fin nx (tl fl) r) as [b0 [fl' r']].
    destruct (if hd false fl then (true, s) else fin nx s) as [a0 s0]. cbn [snd length] in *. f_equal. exact IH.
  Qed.

  (* the three obligations of the demux stage (send: for items addressing an existing downstream) *)
  Lemma demux_stage_ready : forall n, ready_ok (demux_push nx) (DInv n).
  Proof.
    intros n xs b [fl l] [Ln H]. cbn [fst snd] in *. cbn [ready demux_push fst snd].
    pose proof (var_ready_len' l) as L1. pose proof (dl_ready l 0 xs b fl H) as Q.
    destruct (var_ready nx l) as [r l']. cbn [fst snd] in *. split; [exact (eq_trans L1 Ln)|exact Q].
  Qed.

  Lemma demux_stage_send : forall n xs a s, in_range n a ->
      DInv n (Run xs true) s -> exists s', send (demux_push nx) a s = Some s' /\ DInv n (Run (xs ++ [a]) false) s'.
  Proof.
    intros n xs [i a] [fl l] Ra [Ln H]. unfold in_range in *. cbn [fst snd] in *. cbn [send demux_push fst snd].
    destruct (@dl_send l 0 i a xs fl H) as [l' [E D]]; [lia|]. rewrite E.
    eexists. split; [reflexivity|]. split; cbn [fst snd]; auto. exact (eq_trans (var_send_len' _ _ _ E) Ln).
  Qed.

  Lemma demux_stage_fin : forall n, fin_ok (demux_push nx) (DInv n).
  Proof.
    intros n xs [fl l] H. cbn [fin demux_push fst snd].
    assert (Ln : length l = n) by (destruct H as [[L _]|[b [L _]]]; auto).
    assert (G : DL 0 (Fing xs) fl l \/ exists b, DL 0 (Run xs b) fl l)
      by (destruct H as [[_ H]|[b [_ H]]]; [left|right; exists b]; exact H).
    pose proof (dl_fin l 0 xs fl G) as Q. pose proof (var_fin_len' l fl) as L1.
    destruct (var_fin nx fl l) as [b [fl' l']]. cbn [fst snd] in *. destruct Q as [F D].
    destruct b; (split; [exact (eq_trans L1 Ln)|auto]).
  Qed.

  (* demux over n copies of any protocol-respecting downstream: in-range items never panic and the
     final state satisfies, for every downstream k, the downstream's own invariant at the reference
     [demux_ref k items] *)
  Theorem demux_stage_drive : forall n fuel items (l0 : list (St nx)),
      length l0 = n -> DL 0 (Run [] false) [] l0 -> Forall (in_range n) items ->
      match drive (demux_push nx) fuel items ([], l0) [] with
      | (Finished, _, s') => DInv n (Fini items) s'
      | (OutOfFuel, _, s') => exists ph rest, DInv n ph s' /\ ph_items ph ++ rest = items /\ (forall ys, ph <> Fini ys)
      | (Panicked, _, _) => False
      end.
  Proof.
    intros n fuel items l0 Ln D0 FA.
    exact (@drive_inv_P _ (demux_push nx) (DInv n) (in_range n) (@demux_stage_ready n)
                        (fun xs a s Pa I => @demux_stage_send n xs a s Pa I) (@demux_stage_fin n)
                        fuel items [] false ([], l0) [] FA (conj Ln D0)).
  Qed.
End DemuxStage.
