(* Engine "Push", sinktools part: for_each.rs / try_for_each.rs (terminal sinks) and the
   send_iter.rs future. *)
From Coq Require Import List NArith Bool Arith Lia.
From HV Require Import Push.SinkModel Push.PBase Push.PSinkOne.
Import ListNotations.

Set Implicit Arguments.

(* ------------------------------------------------------------------ try_for_each / for_each *)

Section TryForEach.
  Context {A : Type} (fails : A -> bool).
  Let p := stry_for_each fails.

  (* the closure was called with exactly the offered items, in order; only the last call may
     have failed, and then the driver was told *)
  Definition TInv (ph : sphase A) (l : list (sev A)) : Prop :=
    match ph with
    | PRun xs _ | PFl xs | PCl xs | PDone xs => sfailed l = false /\ ssent l = xs /\ soffered l = xs
    | PFail xs => soffered l = xs /\ exists a r, l = SSend a false :: r /\ sfailed r = false /\ fails a = true
    end.

  Theorem try_for_each_correct : forall fuel items,
      match sdrive p fuel items [] [] with
      | (o, _, l) => sresult p TInv items o l
      end.
  Proof.
    intros fuel items.
    apply (@sdrive_inv _ p TInv) with (xs := []) (b := false).
    - intros xs b s H. cbn. exact H.
    - intros xs a s [F [S O]]. cbn [ssend p stry_for_each]. destruct (fails a) eqn:E; cbn [negb TInv].
      + split.
        * cbn [soffered]. rewrite O. reflexivity.
        * exists a, s. repeat split; auto.
      + rewrite sfailed_cons. cbn [sev_err orb ssent soffered]. rewrite F, S, O. repeat split; auto.
    - intros xs s H. cbn. destruct H as [H|[b H]]; exact H.
    - intros xs s H. cbn. exact H.
    - cbn. repeat split; auto.
  Qed.
End TryForEach.

Theorem for_each_correct : forall A fuel (items : list A),
    match sdrive (sfor_each A) fuel items [] [] with
    | (o, _, l) => o <> SFailed /\ sresult (sfor_each A) (TInv (fun _ : A => false)) items o l
    end.
Proof.
  intros A fuel items. pose proof (try_for_each_correct (fun _ : A => false) fuel items) as H.
  change (stry_for_each (fun _ : A => false)) with (sfor_each A) in H.
  destruct (sdrive (sfor_each A) fuel items [] []) as [[o tr] l]. split; auto.
  intro E. subst o. cbn in H. destruct H as [xs [_ [_ [a [r [_ [_ X]]]]]]]. discriminate.
Qed.

(* ------------------------------------------------------------------ send_iter.rs *)

Section SendIterP.
  Context {A : Type}.
  Let K := srec A.

  (* a non-failed, not-closing log that accepted exactly [dn] *)
  Definition sgood (l : list (sev A)) (dn : list A) : Prop :=
    swf l = true /\ sfailed l = false /\ sclosing l = false /\ ssent l = dn /\ soffered l = dn.

  Ltac leaf :=
    unfold sgood; cbn [fst snd];
    repeat match goal with H : slg _ = _ :: _ |- _ => rewrite H; clear H end;
    ssimp;
    repeat match goal with H : _ = _ |- _ => rewrite H end;
    cbn [negb andb orb];
    repeat match goal with
           | |- _ /\ _ => split
           | |- _ -> _ => intro
           end;
    auto; try discriminate; try congruence;
    try (rewrite <- ?app_assoc; reflexivity);
    try (rewrite app_nil_r; reflexivity).

  Lemma si_poll_ok : forall items dn (s : sds A),
      sgood (slg s) dn ->
      match si_poll K items s with
      | (RDone, (it', s')) => it' = [] /\ sgood (slg s') (dn ++ items) /\
                              exists r, slg s' = SFlush RDone :: r
      | (RPend, (it', s')) => exists dn', dn' ++ it' = dn ++ items /\ sgood (slg s') dn'
      | (RErr, (it', s')) => swf (slg s') = true /\ sfailed (slg s') = true /\ sclosing (slg s') = false /\
                             prefix (soffered (slg s')) (dn ++ items)
      end.
  Proof.
    induction items as [|x it IH]; intros dn s [W [F [C [S O]]]]; cbn [si_poll K srec sready ssend sflush];
      pose proof (sclosed_sclosing _ C) as D;
      pose proof (srec_ready_lg s) as L; destruct (srec_ready s) as [r s1]; cbn [fst snd] in L; destruct r.
    - pose proof (srec_flush_lg s1) as L2. destruct (srec_flush s1) as [r2 s2]. cbn [fst snd] in L2.
      destruct r2.
      + split; auto. split; [rewrite app_nil_r; leaf|]. eexists. rewrite L2. reflexivity.
      + exists dn. split; auto. leaf.
      + leaf. exists []. rewrite app_nil_r. reflexivity.
    - exists dn. split; auto. leaf.
    - leaf. exists []. rewrite app_nil_r. reflexivity.
    - destruct (srec_send_lg x s1) as [ok [s2 [E L2]]]. rewrite E. destruct ok.
      + assert (G2 : sgood (slg s2) (dn ++ [x])) by leaf.
        specialize (IH (dn ++ [x]) s2 G2). destruct (si_poll K it s2) as [r3 [it3 s3]].
        rewrite <- app_assoc in IH. exact IH.
      + leaf. exists it. rewrite <- app_assoc. reflexivity.
    - exists dn. split; auto. leaf.
    - leaf. exists (x :: it). reflexivity.
  Qed.

  (* the future, polled until Ready, for all items, all Ready/Pending/Err scripts, all fuel:
     strict protocol toward the sink, never closed; Ready(Ok): every item accepted once and in
     order and the sink flushed last; Ready(Err): the sink's log contains the failure *)
  Theorem send_iter_correct : forall fuel items dn (s : sds A) tr,
      sgood (slg s) dn ->
      match si_drive K fuel items s tr with
      | (o, _, (it', s')) =>
        swf (slg s') = true /\ sclosing (slg s') = false /\ prefix (soffered (slg s')) (dn ++ items) /\
        (o = SFinished -> sgood (slg s') (dn ++ items) /\ exists r, slg s' = SFlush RDone :: r) /\
        (o = SFailed -> sfailed (slg s') = true) /\
        (o = SOutOfFuel -> sfailed (slg s') = false) /\ o <> SPanicked
      end.
  Proof.
    induction fuel as [|k IH]; intros items dn s tr G; cbn [si_drive].
    - destruct G as [W [F [C [S O]]]]. repeat split; auto; try discriminate.
      rewrite O. exists items. reflexivity.
    - pose proof (@si_poll_ok items dn s G) as Q. destruct (si_poll K items s) as [r [it' s']]. destruct r.
      + destruct Q as [E [[W [F [C [S O]]]] X]]. repeat split; auto; try discriminate.
        rewrite O. exists []. rewrite app_nil_r. reflexivity.
      + destruct Q as [dn' [E G']]. specialize (IH it' dn' s' (RPend :: tr) G'). rewrite E in IH. exact IH.
      + destruct Q as [W [F [C P]]]. repeat split; auto; try discriminate; try congruence.
  Qed.
End SendIterP.
