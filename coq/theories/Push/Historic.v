(* Engine "Push": step functions of Fanout / Unzip / DemuxVar as they were BEFORE /repo commit
   de9fd2170a9 ("finalize each downstream once").  Kept only for the historical witnesses of
   the fixed finding multi-downstream/poll_finalize-after-Done (PTwo.v, PDemux.v section
   DemuxOld): poll_finalize used ready_both! and polled every downstream on every call, so a
   downstream that had answered Done was polled again.  Not used by the correspondence check. *)
From Coq Require Import List NArith Bool Arith.
From HV Require Import Push.Model.
Import ListNotations.

Set Implicit Arguments.

Section TwoOld.
  Context {A B : Type} (p0 : push A) (p1 : push B).
  Definition both_fin_old (s : St p0 * St p1) : bool * (St p0 * St p1) :=
    let (a, s0) := fin p0 (fst s) in
    let (b, s1) := fin p1 (snd s) in
    (a && b, (s0, s1)).
  Definition unzip_old_push : push (A * B) :=
    mkpush (both_ready p0 p1) (unzip_send p0 p1) both_fin_old.
End TwoOld.

Definition fanout_old_push {A} (p0 p1 : push A) : push A :=
  mkpush (both_ready p0 p1) (fanout_send p0 p1) (both_fin_old p0 p1).

Section DemuxOld.
  Context {A : Type} (nx : push A).
  Fixpoint var_fin_old (l : list (St nx)) : bool * list (St nx) :=
    match l with
    | [] => (true, [])
    | s :: rest => let (a, s') := fin nx s in
                   let (b, rest') := var_fin_old rest in
                   (a && b, s' :: rest')
    end.
  Definition demux_old_push : push (nat * A) :=
    mkpush (var_ready nx) (fun ia l => var_send nx (fst ia) (snd ia) l) var_fin_old.
End DemuxOld.

(* FlatMap / Flatten::poll_finalize BEFORE /repo commit cca62d2de0e: `ready!(self.poll_ready())`
   was executed on every call, i.e. next.poll_ready was polled also after next.poll_finalize had
   been called (fixed finding pipeline/flat_map-over-fanout/poll_ready-after-finalize-Done). *)
Definition flat_map_old_push {A B} (nx : push B) (g : A -> list B) : push A :=
  mkpush (@fm_ready B nx) (fm_send g) (@fm_fin_drain B nx).
