(* Engine "Push": inspect.rs, termination of flat_map.rs / flatten.rs. *)
From Coq Require Import List NArith Bool Arith Lia.
From HV Require Import Push.Model Push.PBase Push.POne Push.PFlatMap.
Import ListNotations.

Set Implicit Arguments.

(* ------------------------------------------------------------------ a state predicate survives the driver *)

Section DrivePres.
  Context {A : Type} (p : push A) (P : St p -> Prop).
  Hypothesis Hr : forall s, P s -> P (snd (ready p s)).
  Hypothesis Hs : forall a s s', P s -> send p a s = Some s' -> P s'.
  Hypothesis Hf : forall s, P s -> P (snd (fin p s)).

  Lemma drive_fin_pres : forall fuel s tr, P s -> P (snd (drive_fin p fuel s tr)).
  Proof.
    induction fuel as [|k IH]; intros s tr H; cbn; auto.
    pose proof (Hf H) as H1. destruct (fin p s) as [r s']. cbn in H1. destruct r; cbn; auto.
  Qed.

  Theorem drive_pres : forall fuel items s tr, P s -> P (snd (drive p fuel items s tr)).
  Proof.
    induction fuel as [|k IH]; intros items s tr H.
    - destruct items; cbn; auto.
    - destruct items as [|a rest].
      + cbn [drive]. apply drive_fin_pres; auto.
      + cbn [drive]. pose proof (Hr H) as H1. destruct (ready p s) as [r s1]. cbn in H1.
        destruct r; cbn; auto.
        destruct (send p a s1) as [s2|] eqn:E; cbn; auto. apply IH. eapply Hs; eauto.
  Qed.
End DrivePres.

(* ------------------------------------------------------------------ inspect.rs *)

Section Inspect.
  Context {A : Type}.
  Let p := inspect_push (rec_push A).
  Let I := Inv1 p (fun s : St p => lg (snd s)) (fun _ => []) (fun xs : list A => xs).

  Lemma insp_ready : ready_ok p I.
  Proof.
    intros xs b [seen s] [W [F [S R]]]. unfold I, Inv1, p in *.
    cbn [St ready send fin inspect_push rec_push fst snd] in *.
    pose proof (rec_ready_lg s) as L. destruct (rec_ready s) as [r s']. cbn [fst snd] in *.
    rewrite L. cbn [wf sent rdy]. rewrite ?fs_rdy, ?fd_rdy, (finstarted_false_findone _ F), W.
    cbn [negb andb]. repeat split; auto. destruct r; [reflexivity|discriminate].
  Qed.

  Lemma insp_send : send_ok p I.
  Proof.
    intros xs a [seen s] [W [F [S R]]]. destruct (R eq_refl) as [R1 _]. unfold I, Inv1, p in *.
    cbn [St ready send fin inspect_push rec_push fst snd rec_send] in *.
    eexists. split; [reflexivity|]. cbn [fst snd lg wf sent rdy]. rewrite ?fs_send, R1, F, W.
    rewrite app_nil_r in *. rewrite S. cbn [negb andb]. repeat split; auto; discriminate.
  Qed.

  Lemma insp_fin : fin_ok p I.
  Proof.
    intros xs [seen s] H. unfold I, Inv1, p in *.
    cbn [St ready send fin inspect_push rec_push fst snd] in *.
    assert (G : wf (lg s) = true /\ findone (lg s) = false /\ sent (lg s) = xs).
    { destruct H as [[W [F [S _]]]|[b [W [F [S _]]]]]; rewrite app_nil_r in S; repeat split; auto.
      apply finstarted_false_findone; auto. }
    destruct G as [W [F S]].
    pose proof (rec_fin_lg s) as L. destruct (rec_fin s) as [r s']. cbn [fst snd] in *.
    rewrite L. destruct r; cbn [wf sent]; rewrite ?fs_fin, ?fd_fin, ?F, ?W, ?app_nil_r;
      cbn [negb andb orb]; repeat split; auto.
  Qed.

  (* the closure sees exactly the items that are sent on, in order *)
  Definition insp_seen (s : St p) : Prop := rev (fst s) = sent (lg (snd s)).

  Theorem inspect_correct : forall fuel items rs0 fs0,
      match drive p fuel items ([], mkds rs0 fs0 []) [] with
      | (o, _, s') => o <> Panicked /\ down_spec (fun xs => xs) items o (lg (snd s')) /\
                      rev (fst s') = sent (lg (snd s'))
      end.
  Proof.
    intros.
    pose proof (@one_spec _ _ p (fun s : St p => lg (snd s)) (fun _ => []) (fun xs : list A => xs)
                          insp_ready insp_send insp_fin fuel items ([], mkds rs0 fs0 [])) as H.
    assert (Q : insp_seen (snd (drive p fuel items ([], mkds rs0 fs0 []) []))).
    { apply drive_pres; unfold insp_seen, p.
      - intros [seen s] E. cbn [St ready inspect_push rec_push fst snd] in *.
        pose proof (rec_ready_lg s) as L. destruct (rec_ready s) as [r s']. cbn [fst snd] in *.
        rewrite L. exact E.
      - intros a [seen s] s' E. cbn [St send inspect_push rec_push fst snd rec_send] in *.
        intro X. inversion X. cbn [fst snd lg sent rev]. rewrite E. reflexivity.
      - intros [seen s] E. cbn [St fin inspect_push rec_push fst snd] in *.
        pose proof (rec_fin_lg s) as L. destruct (rec_fin s) as [r s']. cbn [fst snd] in *.
        rewrite L. exact E.
      - reflexivity. }
    destruct (drive p fuel items ([], mkds rs0 fs0 []) []) as [[o tr] s'].
    cbn [snd] in Q. destruct H as [P D].
    { split; [reflexivity|]. cbn. repeat split; auto; discriminate. }
    exact (conj P (conj D Q)).
  Qed.
End Inspect.

(* ------------------------------------------------------------------ termination of flat_map / flatten *)

Section FMTerm.
  Context {A B : Type} (g : A -> list B).
  Let R := rec_push B.

  Lemma fm_drain_mu : forall it item (s : ds B),
      match fm_drain R it item s with
      | (buf, ok, s') => mu_ds s' + (if ok then 0 else 1) <= mu_ds s
      end.
  Proof.
    induction it as [|nxt it IH]; intros item s; cbn [fm_drain R rec_push ready send].
    - pose proof (rec_ready_mu s) as M. destruct (rec_ready s) as [r s1]. cbn [fst snd] in *.
      destruct r; cbn [rec_send]; unfold mu_ds, npend in *; cbn [rs fs] in *; lia.
    - pose proof (rec_ready_mu s) as M. destruct (rec_ready s) as [r s1]. cbn [fst snd] in *.
      destruct r; cbn [rec_send].
      + specialize (IH nxt (mkds (rs s1) (fs s1) (ESend item :: lg s1))).
        destruct (fm_drain R it nxt (mkds (rs s1) (fs s1) (ESend item :: lg s1))) as [[buf ok] s'].
        unfold mu_ds, npend in *; cbn [rs fs] in *; lia.
      + unfold mu_ds, npend in *; cbn [rs fs] in *; lia.
  Qed.

  Lemma fm_ready_mu : forall st : fm_st R,
      fm_mu (snd (fm_ready st)) + (if fst (fm_ready st) then 0 else 1) <= fm_mu st.
  Proof.
    intros [buf s]. unfold fm_ready, fm_mu. cbn [fst snd]. destruct buf as [[it item]|].
    - pose proof (fm_drain_mu it item s) as Q.
      destruct (fm_drain R it item s) as [[buf' ok] s1]. destruct ok; cbn [fst snd].
      + cbn [R rec_push ready]. pose proof (rec_ready_mu s1) as M.
        destruct (rec_ready s1) as [r s2]. cbn [fst snd] in *. lia.
      + lia.
    - cbn [R rec_push ready]. pose proof (rec_ready_mu s) as M.
      destruct (rec_ready s) as [r s2]. cbn [fst snd] in *. lia.
  Qed.

  Lemma fm_fin_mu : forall st : fm_st R,
      fm_mu (snd (fm_fin st)) + (if fst (fm_fin st) then 0 else 1) <= fm_mu st.
  Proof.
    intros [buf s0]. unfold fm_fin. cbn [fst snd]. destruct buf as [bi|].
    - unfold fm_fin_drain. pose proof (fm_ready_mu (Some bi, s0)) as Q.
      destruct (fm_ready (Some bi, s0)) as [r st1]. cbn [fst snd] in *. destruct r; cbn [fst snd]; [|lia].
      cbn [R rec_push fin]. pose proof (rec_fin_mu (snd st1)) as M.
      destruct (rec_fin (snd st1)) as [r2 s2]. unfold fm_mu in *. destruct st1 as [b1 s1].
      cbn [fst snd] in *. destruct r2; unfold mu_ds, npend in *; lia.
    - cbn [R rec_push fin]. pose proof (rec_fin_mu s0) as M.
      destruct (rec_fin s0) as [r2 s2]. unfold fm_mu. cbn [fst snd] in *.
      destruct r2; unfold mu_ds, npend in *; lia.
  Qed.

  Theorem flat_map_terminates : forall fuel items rs0 fs0,
      npend rs0 + npend fs0 + length items < fuel ->
      fst (fst (drive (flat_map_push R g) fuel items (None, mkds rs0 fs0 []) [])) = Finished.
  Proof.
    intros.
    eapply (@drive_term _ (flat_map_push R g) (Inv1 (flat_map_push R g) (@fm_lg B) (@fm_pend B) (flat_map g))
                        (@fm_mu B)) with (xs := []) (b := false);
      eauto using fmap_ready, fmap_send, fm_ready_mu, fm_fin_mu.
    - intros a [buf s] s'. cbn [send flat_map_push]. unfold fm_send. cbn [fst snd].
      destruct buf; [discriminate|]. destruct (g a); intro E; inversion E; unfold fm_mu; cbn; lia.
    - split; [reflexivity|]. cbn. repeat split; auto; discriminate.
  Qed.
End FMTerm.

Theorem flatten_terminates : forall B fuel (items : list (list B)) rs0 fs0,
    npend rs0 + npend fs0 + length items < fuel ->
    fst (fst (drive (flatten_push (rec_push B)) fuel items (None, mkds rs0 fs0 []) [])) = Finished.
Proof. intros. exact (flat_map_terminates (fun l : list B => l) items rs0 fs0 H). Qed.
