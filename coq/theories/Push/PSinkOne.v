(* Engine "Push", sinktools part: full specification of map.rs / filter.rs / filter_map.rs
   (forwarding adaptors) facing a scripted futures::Sink recorder, with error propagation. *)
From Coq Require Import List NArith Bool Arith Lia.
From HV Require Import Push.SinkModel Push.PBase.
Import ListNotations.

Set Implicit Arguments.

Inductive sphase (A : Type) : Type :=
| PRun (xs : list A) (b : bool)      (* xs accepted so far; b: last poll_ready was Ready(Ok), nothing sent since *)
| PFl (xs : list A)                  (* flushing *)
| PCl (xs : list A)                  (* flushed; closing *)
| PDone (xs : list A)                (* closed *)
| PFail (xs : list A).               (* an error was returned to the driver; xs offered so far *)
Arguments PRun {A} xs b.
Arguments PFl {A} xs.
Arguments PCl {A} xs.
Arguments PDone {A} xs.
Arguments PFail {A} xs.

Section SDriveInv.
  Context {A : Type} (p : sink A).
  Variable Inv : sphase A -> SSt p -> Prop.

  Hypothesis Hr : forall xs b s, Inv (PRun xs b) s ->
      match sready p s with
      | (RDone, s') => Inv (PRun xs true) s'
      | (RPend, s') => Inv (PRun xs false) s'
      | (RErr, s') => Inv (PFail xs) s'
      end.
  Hypothesis Hs : forall xs a s, Inv (PRun xs true) s ->
      match ssend p a s with
      | None => False
      | Some (true, s') => Inv (PRun (xs ++ [a]) false) s'
      | Some (false, s') => Inv (PFail (xs ++ [a])) s'
      end.
  Hypothesis Hf : forall xs s, (Inv (PFl xs) s \/ exists b, Inv (PRun xs b) s) ->
      match sflush p s with
      | (RDone, s') => Inv (PCl xs) s'
      | (RPend, s') => Inv (PFl xs) s'
      | (RErr, s') => Inv (PFail xs) s'
      end.
  Hypothesis Hc : forall xs s, Inv (PCl xs) s ->
      match sclose p s with
      | (RDone, s') => Inv (PDone xs) s'
      | (RPend, s') => Inv (PCl xs) s'
      | (RErr, s') => Inv (PFail xs) s'
      end.

  (* what the driver's outcome says about the final state *)
  Definition sresult (items : list A) (o : soutcome) (s : SSt p) : Prop :=
    match o with
    | SFinished => Inv (PDone items) s
    | SFailed => exists xs, prefix xs items /\ Inv (PFail xs) s
    | SOutOfFuel => exists xs, prefix xs items /\
                              (Inv (PFl xs) s \/ Inv (PCl xs) s \/ exists b, Inv (PRun xs b) s)
    | SPanicked => False
    end.

  Lemma sclose_inv : forall fuel xs s tr,
      Inv (PCl xs) s ->
      match sdrive_close p fuel s tr with (o, _, s') => sresult xs o s' end.
  Proof.
    induction fuel as [|k IH]; intros xs s tr H; cbn [sdrive_close].
    - exists xs. split; [exists []; apply app_nil_r|auto].
    - pose proof (Hc H) as H1. destruct (sclose p s) as [r s']. destruct r; cbn.
      + exact H1.
      + apply IH. exact H1.
      + exists xs. split; [exists []; apply app_nil_r|auto].
  Qed.

  Lemma sflush_inv : forall fuel xs s tr,
      (Inv (PFl xs) s \/ exists b, Inv (PRun xs b) s) ->
      match sdrive_flush p fuel s tr with (o, _, s') => sresult xs o s' end.
  Proof.
    induction fuel as [|k IH]; intros xs s tr H; cbn [sdrive_flush].
    - exists xs. split; [exists []; apply app_nil_r|]. destruct H as [H|H]; auto.
    - pose proof (Hf H) as H1. destruct (sflush p s) as [r s']. destruct r.
      + apply sclose_inv. exact H1.
      + apply IH. left. exact H1.
      + cbn. exists xs. split; [exists []; apply app_nil_r|auto].
  Qed.

  Lemma sresult_mono : forall xs rest o s, sresult xs o s -> o <> SFinished -> sresult (xs ++ rest) o s.
  Proof.
    intros xs rest o s H N. destruct o; cbn in *; try contradiction; try congruence.
    - destruct H as [ys [[r E] I]]. exists ys. split; auto. exists (r ++ rest). rewrite app_assoc, E. auto.
    - destruct H as [ys [[r E] I]]. exists ys. split; auto. exists (r ++ rest). rewrite app_assoc, E. auto.
  Qed.

  Theorem sdrive_inv : forall fuel items xs b s tr,
      Inv (PRun xs b) s ->
      match sdrive p fuel items s tr with (o, _, s') => sresult (xs ++ items) o s' end.
  Proof.
    induction fuel as [|k IH]; intros items xs b s tr H.
    - destruct items; cbn; exists xs; (split; [eexists; reflexivity|]); right; right; exists b; auto.
    - destruct items as [|a rest].
      + cbn [sdrive]. rewrite app_nil_r. apply sflush_inv. right. exists b. auto.
      + cbn [sdrive]. pose proof (Hr H) as H1. destruct (sready p s) as [r s1]. destruct r.
        * pose proof (Hs a H1) as H2. destruct (ssend p a s1) as [[ok s2]|]; [|contradiction].
          destruct ok.
          -- specialize (IH rest (xs ++ [a]) false s2 (TSend true :: TRdy RDone :: tr) H2).
             rewrite <- app_assoc in IH. exact IH.
          -- cbn. exists (xs ++ [a]). split; auto. exists rest. rewrite <- app_assoc. reflexivity.
        * exact (IH (a :: rest) xs false s1 (TRdy RPend :: tr) H1).
        * cbn. exists xs. split; auto. exists (a :: rest). reflexivity.
  Qed.
End SDriveInv.

(* ------------------------------------------------------------------ recorder facts *)

Lemma sfailed_cons : forall A (e : sev A) l, sfailed (e :: l) = (sev_err e || sfailed l)%bool.
Proof. reflexivity. Qed.
Lemma sclosing_cons : forall A (e : sev A) l, sclosing (e :: l) = (sev_close e || sclosing l)%bool.
Proof. reflexivity. Qed.
Lemma sclosed_cons : forall A (e : sev A) l, sclosed (e :: l) = (sev_closed e || sclosed l)%bool.
Proof. reflexivity. Qed.
Lemma sclosed_sclosing : forall A (l : list (sev A)), sclosing l = false -> sclosed l = false.
Proof.
  induction l as [|e l IH]; auto. rewrite sclosing_cons, sclosed_cons. intro H.
  apply orb_false_iff in H. destruct H as [H1 H2]. rewrite (IH H2).
  destruct e as [r|a ok|r|r]; cbn in *; auto; discriminate.
Qed.

Lemma srec_ready_lg : forall A (s : sds A), slg (snd (srec_ready s)) = SRdy (fst (srec_ready s)) :: slg s.
Proof. intros A [r ss f c l]. unfold srec_ready. cbn. destruct (popr r). reflexivity. Qed.
Lemma srec_flush_lg : forall A (s : sds A), slg (snd (srec_flush s)) = SFlush (fst (srec_flush s)) :: slg s.
Proof. intros A [r ss f c l]. unfold srec_flush. cbn. destruct (popr f). reflexivity. Qed.
Lemma srec_close_lg : forall A (s : sds A), slg (snd (srec_close s)) = SClose (fst (srec_close s)) :: slg s.
Proof. intros A [r ss f c l]. unfold srec_close. cbn. destruct (popr c). reflexivity. Qed.
Lemma srec_send_lg : forall A (a : A) (s : sds A),
    exists ok s', srec_send a s = Some (ok, s') /\ slg s' = SSend a ok :: slg s.
Proof. intros A a [r ss f c l]. unfold srec_send. cbn. destruct (popb ss) as [b t]. eauto. Qed.

(* ------------------------------------------------------------------ the invariant of a forwarding adaptor *)

Definition SInv {A B} (ref : list A -> list B) (ph : sphase A) (l : list (sev B)) : Prop :=
  swf l = true /\
  match ph with
  | PRun xs b => sfailed l = false /\ sclosing l = false /\ soffered l = ref xs /\ ssent l = ref xs /\
                 (b = true -> srdy l = true)
  | PFl xs => sfailed l = false /\ sclosing l = false /\ soffered l = ref xs /\ ssent l = ref xs
  | PCl xs => sfailed l = false /\ sclosed l = false /\ soffered l = ref xs /\ ssent l = ref xs
  | PDone xs => sfailed l = false /\ sclosed l = true /\ soffered l = ref xs /\ ssent l = ref xs
  | PFail xs => sfailed l = true /\ soffered l = ref xs
  end.

Ltac ssimp :=
  cbn [swf soffered ssent srdy];
  rewrite ?sfailed_cons, ?sclosing_cons, ?sclosed_cons; cbn [sev_err sev_close sev_closed orb].

Section Forward.
  Context {A B : Type} (g : A -> option B).
  Variable snd' : A -> sds B -> option (bool * sds B).
  Hypothesis snd_def : forall a s,
      snd' a s = match g a with Some b => srec_send b s | None => Some (true, s) end.
  Definition fwd : sink A := @mksink A (sds B) (@srec_ready B) snd' (@srec_flush B) (@srec_close B).

  Definition gref (xs : list A) : list B :=
    flat_map (fun a => match g a with Some b => [b] | None => [] end) xs.
  Lemma gref_app : forall xs a, gref (xs ++ [a]) = gref xs ++ match g a with Some b => [b] | None => [] end.
  Proof. intros. unfold gref. rewrite flat_map_app. cbn. rewrite app_nil_r. reflexivity. Qed.

  Definition FInv (ph : sphase A) (s : sds B) : Prop := SInv gref ph (slg s).

  Lemma fwd_ready : forall xs b s, FInv (PRun xs b) s ->
      match sready fwd s with
      | (RDone, s') => FInv (PRun xs true) s'
      | (RPend, s') => FInv (PRun xs false) s'
      | (RErr, s') => FInv (PFail xs) s'
      end.
  Proof.
    intros xs b s [W [F [C [O [S R]]]]]. cbn [sready fwd]. pose proof (srec_ready_lg s) as L.
    destruct (srec_ready s) as [r s']. cbn [fst snd] in L. unfold FInv, SInv. rewrite L.
    destruct r; ssimp; rewrite ?F, ?C, ?W, ?(sclosed_sclosing _ C); cbn [negb andb];
      repeat split; auto; discriminate.
  Qed.

  Lemma fwd_send : forall xs a s, FInv (PRun xs true) s ->
      match ssend fwd a s with
      | None => False
      | Some (true, s') => FInv (PRun (xs ++ [a]) false) s'
      | Some (false, s') => FInv (PFail (xs ++ [a])) s'
      end.
  Proof.
    intros xs a s [W [F [C [O [S R]]]]]. cbn [ssend fwd]. rewrite snd_def.
    unfold FInv, SInv. rewrite gref_app. destruct (g a) as [b|].
    - destruct (srec_send_lg b s) as [ok [s' [E L]]]. rewrite E, L.
      destruct ok; ssimp; rewrite ?F, ?C, ?W, ?(R eq_refl), ?O, ?S; cbn [negb andb];
        repeat split; auto; discriminate.
    - rewrite app_nil_r. repeat split; auto; discriminate.
  Qed.

  Lemma fwd_flush : forall xs s, (FInv (PFl xs) s \/ exists b, FInv (PRun xs b) s) ->
      match sflush fwd s with
      | (RDone, s') => FInv (PCl xs) s'
      | (RPend, s') => FInv (PFl xs) s'
      | (RErr, s') => FInv (PFail xs) s'
      end.
  Proof.
    intros xs s H.
    assert (G : swf (slg s) = true /\ sfailed (slg s) = false /\ sclosing (slg s) = false /\
                soffered (slg s) = gref xs /\ ssent (slg s) = gref xs).
    { destruct H as [[W [F [C [O S]]]]|[b [W [F [C [O [S _]]]]]]]; auto. }
    destruct G as [W [F [C [O S]]]]. cbn [sflush fwd]. pose proof (srec_flush_lg s) as L.
    destruct (srec_flush s) as [r s']. cbn [fst snd] in L. unfold FInv, SInv. rewrite L.
    destruct r; ssimp; rewrite ?F, ?C, ?W, ?(sclosed_sclosing _ C); cbn [negb andb];
      repeat split; auto; discriminate.
  Qed.

  Lemma fwd_close : forall xs s, FInv (PCl xs) s ->
      match sclose fwd s with
      | (RDone, s') => FInv (PDone xs) s'
      | (RPend, s') => FInv (PCl xs) s'
      | (RErr, s') => FInv (PFail xs) s'
      end.
  Proof.
    intros xs s [W [F [C [O S]]]]. cbn [sclose fwd]. pose proof (srec_close_lg s) as L.
    destruct (srec_close s) as [r s']. cbn [fst snd] in L. unfold FInv, SInv. rewrite L.
    destruct r; ssimp; rewrite ?F, ?C, ?W; cbn [negb andb]; repeat split; auto; discriminate.
  Qed.

  (* FULL statement of C14 for a forwarding adaptor, all items, all scripts (with errors), all fuel *)
  Theorem fwd_correct : forall fuel items (s0 : sds B),
      slg s0 = [] ->
      match sdrive fwd fuel items s0 [] with
      | (o, _, s') => sresult fwd FInv items o s'
      end.
  Proof.
    intros fuel items s0 E.
    apply (@sdrive_inv _ fwd FInv fwd_ready fwd_send fwd_flush fwd_close fuel items [] false s0 []).
    unfold FInv, SInv. rewrite E. cbn. repeat split; auto; discriminate.
  Qed.
End Forward.
