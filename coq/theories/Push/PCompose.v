(* Engine "Push": COMPOSITION.  A push [p] *respects the protocol* w.r.t. an invariant family
   [Inv] when each operation preserves [Inv] provided its CALLER respects the protocol
   (poll_ready in the running phase, start_send only right after poll_ready = Done, then only
   poll_finalize).  Since /repo cca62d2de0e and 5464049ec0b no stage calls anything but
   poll_finalize on its downstream once finalization has begun, so this one notion suffices
   (the earlier [respects_rf], "tolerates poll_ready between poll_finalize calls", is gone).
   Every combinator is an operator
   on such pairs: from [respects downstream] it produces [respects (combinator downstream)]
   with the reference function composed.  The scripted recorder is the base case, so any
   pipeline built from these stages satisfies the C12 specification toward its final
   downstream, for all scripts. *)
From Coq Require Import List NArith Bool Arith Lia.
From HV Require Import Push.Model Push.Historic Push.Model2 Push.PBase Push.POne Push.PFlatMap.
Import ListNotations.

Set Implicit Arguments.

Record respects {A} (p : push A) (Inv : phase A -> St p -> Prop) : Prop := mkrespects {
  r_ready : ready_ok p Inv;
  r_send : send_ok p Inv;
  r_fin : fin_ok p Inv;
  (* readiness may be forgotten *)
  r_weak : forall xs s, Inv (Run xs true) s -> Inv (Run xs false) s }.

Definition pmap {A B} (f : list A -> list B) (ph : phase A) : phase B :=
  match ph with Run xs b => Run (f xs) b | Fing xs => Fing (f xs) | Fini xs => Fini (f xs) end.

Lemma pmap_if : forall A B (f : list A -> list B) (b : bool) xs,
    pmap f (if b then Fini xs else Fing xs) = if b then Fini (f xs) else Fing (f xs).
Proof. intros. destruct b; reflexivity. Qed.

(* what a finished / unfinished driver run gives for a respecting push *)
Theorem respects_drive : forall A (p : push A) Inv, respects p Inv ->
    forall fuel items s, Inv (Run [] false) s ->
    match drive p fuel items s [] with
    | (Finished, _, s') => Inv (Fini items) s'
    | (OutOfFuel, _, s') => exists ph rest, Inv ph s' /\ ph_items ph ++ rest = items /\ (forall ys, ph <> Fini ys)
    | (Panicked, _, _) => False
    end.
Proof.
  intros A p Inv [Hr Hs Hf _] fuel items s H.
  exact (@drive_inv _ p Inv Hr Hs Hf fuel items [] false s [] H).
Qed.

(* ------------------------------------------------------------------ base case: the recorder *)

Section RecBase.
  Context {B : Type}.
  Definition RecInv : phase B -> ds B -> Prop :=
    Inv1 (rec_push B) (@lg B) (fun _ => []) (fun xs : list B => xs).

  Lemma rec_respects : respects (rec_push B) RecInv.
  Proof.
    split.
    - intros xs b s [W [F [S R]]]. unfold RecInv, Inv1. cbn [ready rec_push St]. rewrite rec_ready_lg.
      cbn [wf sent rdy]. rewrite fs_rdy, (finstarted_false_findone _ F), W. cbn [negb andb].
      repeat split; auto. destruct (fst (rec_ready s)); auto; discriminate.
    - intros xs a s [W [F [S R]]]. destruct (R eq_refl) as [R1 _]. unfold RecInv, Inv1.
      cbn [send rec_push St rec_send]. eexists. split; [reflexivity|]. cbn [lg wf sent rdy].
      rewrite fs_send, R1, F, W. rewrite app_nil_r in *. rewrite S. cbn [negb andb].
      repeat split; auto; discriminate.
    - intros xs s H. unfold RecInv, Inv1 in *. cbn [fin rec_push St].
      assert (G : wf (lg s) = true /\ findone (lg s) = false /\ sent (lg s) = xs).
      { destruct H as [[W [F [S _]]]|[b [W [F [S _]]]]]; rewrite app_nil_r in S; repeat split; auto.
        apply finstarted_false_findone; auto. }
      destruct G as [W [F S]]. rewrite rec_fin_lg.
      destruct (fst (rec_fin s)); cbn [wf sent]; rewrite ?fs_fin, ?fd_fin, ?F, ?W, ?app_nil_r;
        cbn [negb andb orb]; repeat split; auto.
    - intros xs s [W [F [S R]]]. unfold RecInv, Inv1. repeat split; auto; discriminate.
  Qed.

  (* what RecInv says in the terms of C12's specification *)
  Lemma recinv_spec : forall (ref : list B) o (s : ds B),
      (o = Finished -> RecInv (Fini ref) s) ->
      (o <> Finished -> exists ph, RecInv ph s /\ prefix (ph_items ph) ref) ->
      wf (lg s) = true /\ prefix (sent (lg s)) ref /\
      (o = Finished -> sent (lg s) = ref /\ findone (lg s) = true).
  Proof.
    intros ref o s HF HN. destruct o.
    - destruct (HF eq_refl) as [W [D S]]. repeat split; auto. exists []. rewrite app_nil_r. auto.
    - destruct HN as [ph [[W I] P]]; [discriminate|]. repeat split; auto; try discriminate.
      destruct ph; cbn in *; destruct I as [_ [S _]] || destruct I as [_ S];
        try rewrite app_nil_r in S; rewrite S; auto.
    - destruct HN as [ph [[W I] P]]; [discriminate|]. repeat split; auto; try discriminate.
      destruct ph; cbn in *; destruct I as [_ [S _]] || destruct I as [_ S];
        try rewrite app_nil_r in S; rewrite S; auto.
  Qed.
End RecBase.

(* ------------------------------------------------------------------ forwarding stages: map / filter / filter_map *)

Section SLStage.
  Context {A B : Type} (p : push B) (Inv : phase B -> St p -> Prop) (g : A -> option B).
  Variable snd' : A -> St p -> option (St p).
  Hypothesis snd_def : forall a s, snd' a s = match g a with Some b => send p b s | None => Some s end.
  Definition sl_stage : push A := @mkpush A (St p) (ready p) snd' (fin p).
  Definition SLInv (ph : phase A) (s : St p) : Prop := Inv (pmap (fm_ref g) ph) s.

  Lemma sl_respects : respects p Inv -> respects sl_stage SLInv.
  Proof.
    intros [Hr Hs Hf Hw]. split.
    - intros xs b s H. exact (Hr _ _ _ H).
    - intros xs a s H. cbn [send sl_stage]. rewrite snd_def. unfold SLInv in *. cbn [pmap] in *.
      rewrite fm_ref_app. destruct (g a) as [b|].
      + exact (Hs _ b _ H).
      + exists s. split; auto. rewrite app_nil_r. apply Hw. exact H.
    - intros xs s H. unfold SLInv in *. cbn [pmap fin sl_stage] in *.
      assert (H' : Inv (Fing (fm_ref g xs)) s \/ exists b, Inv (Run (fm_ref g xs) b) s).
      { destruct H as [H|[b H]]; [left; exact H|right; exists b; exact H]. }
      pose proof (Hf (fm_ref g xs) s H') as Q. rewrite pmap_if. exact Q.
    - intros xs s H. exact (Hw _ _ H).
  Qed.

End SLStage.

(* ------------------------------------------------------------------ flat_map / flatten over any downstream *)

Section FMStage.
  Context {A B : Type} (p : push B) (Inv : phase B -> St p -> Prop) (g : A -> list B).
  Hypothesis HP : respects p Inv.

  Definition FMSInv (ph : phase A) (st : fm_st p) : Prop :=
    match ph with
    | Run xs b => exists ys b0, ys ++ pendb (fst st) = flat_map g xs /\ Inv (Run ys b0) (snd st) /\
                                (b = true -> fst st = None /\ b0 = true)
    | Fing xs => (exists ys b0, ys ++ pendb (fst st) = flat_map g xs /\ Inv (Run ys b0) (snd st)) \/
                 (fst st = None /\ Inv (Fing (flat_map g xs)) (snd st))
    | Fini xs => fst st = None /\ Inv (Fini (flat_map g xs)) (snd st)
    end.

  Lemma fms_drain : forall it item ys b0 (s : St p),
      Inv (Run ys b0) s ->
      match fm_drain p it item s with
      | (buf, ok, s') => exists ys' b1, ys' ++ pendb buf = ys ++ item :: it /\ Inv (Run ys' b1) s' /\
                                        (ok = true -> buf = None)
      end.
  Proof.
    destruct HP as [Hr Hs Hf Hw].
    induction it as [|nxt it IH]; intros item ys b0 s H; cbn [fm_drain].
    - pose proof (Hr _ _ _ H) as H1. destruct (ready p s) as [r s1]. cbn [fst snd] in H1. destruct r.
      + destruct (Hs _ item _ H1) as [s2 [E H2]]. rewrite E. exists (ys ++ [item]), false.
        cbn [pendb]. rewrite app_nil_r. repeat split; auto.
      + exists ys, false. cbn [pendb]. repeat split; auto. discriminate.
    - pose proof (Hr _ _ _ H) as H1. destruct (ready p s) as [r s1]. cbn [fst snd] in H1. destruct r.
      + destruct (Hs _ item _ H1) as [s2 [E H2]]. rewrite E.
        specialize (IH nxt (ys ++ [item]) false s2 H2).
        destruct (fm_drain p it nxt s2) as [[buf ok] s']. destruct IH as [ys' [b1 [E1 [I1 O1]]]].
        exists ys', b1. rewrite E1, <- app_assoc. repeat split; auto.
      + exists ys, false. cbn [pendb]. repeat split; auto. discriminate.
  Qed.

  (* poll_ready from a running downstream *)
  Lemma fms_ready_run : forall (st : fm_st p) ys b0 X,
      ys ++ pendb (fst st) = X -> Inv (Run ys b0) (snd st) ->
      match fm_ready st with
      | (r, st') => exists ys' b1, ys' ++ pendb (fst st') = X /\ Inv (Run ys' b1) (snd st') /\
                                   (r = true -> fst st' = None /\ b1 = true)
      end.
  Proof.
    destruct HP as [Hr Hs Hf Hw].
    intros [buf s] ys b0 X E H. cbn [fst snd] in *. unfold fm_ready. cbn [fst snd].
    destruct buf as [[it item]|].
    - pose proof (fms_drain it item H) as Q. destruct (fm_drain p it item s) as [[buf' ok] s1].
      destruct Q as [ys' [b1 [E1 [I1 O1]]]]. destruct ok.
      + rewrite (O1 eq_refl) in *. pose proof (Hr _ _ _ I1) as H2.
        destruct (ready p s1) as [r s2]. cbn [fst snd pendb] in *. exists ys', r.
        repeat split; auto. rewrite E1. exact E.
      + exists ys', b1. cbn [fst snd pendb] in *. repeat split; auto; try discriminate. rewrite E1. exact E.
    - pose proof (Hr _ _ _ H) as H2. destruct (ready p s) as [r s2]. cbn [fst snd] in *.
      exists ys, r. repeat split; auto.
  Qed.

  Lemma fms_respects : respects (flat_map_push p g) FMSInv.
  Proof.
    pose proof HP as HP'. destruct HP' as [Hr Hs Hf Hw].
    split.
    - intros xs b st [ys [b0 [E [I R]]]]. cbn [ready flat_map_push].
      pose proof (fms_ready_run st E I) as Q. destruct (fm_ready st) as [r st']. cbn [fst snd FMSInv].
      destruct Q as [ys' [b1 [E1 [I1 R1]]]]. exists ys', b1. repeat split; auto; apply R1; auto.
    - intros xs a [buf s] [ys [b0 [E [I R]]]]. destruct (R eq_refl) as [N1 N2]. cbn [fst snd] in *. subst buf b0.
      cbn [send flat_map_push]. unfold fm_send. cbn [fst snd pendb] in *. rewrite app_nil_r in E. subst ys.
      destruct (g a) as [|b0 it0] eqn:G; eexists; (split; [reflexivity|]); cbn [FMSInv fst snd pendb];
        exists (flat_map g xs), false; rewrite flat_map_app; cbn [flat_map]; rewrite G, ?app_nil_r;
          repeat split; auto; try discriminate.
    - intros xs st H. cbn [fin flat_map_push]. unfold fm_fin.
      assert (CASES : (exists ys b0, ys ++ pendb (fst st) = flat_map g xs /\ Inv (Run ys b0) (snd st)) \/
                      (fst st = None /\ Inv (Fing (flat_map g xs)) (snd st))).
      { destruct H as [[H|H]|[b [ys [b0 [E [I _]]]]]]; [left; exact H|right; exact H|left; eauto]. }
      destruct st as [buf s]. cbn [fst snd] in *. destruct buf as [bi|].
      + (* buffer.is_some(): drain, then finalize *)
        destruct CASES as [[ys [b0 [E I]]]|[N I]]; [|discriminate]. unfold fm_fin_drain.
        pose proof (fms_ready_run (Some bi, s) E I) as Q. destruct (fm_ready (Some bi, s)) as [r st1].
        destruct Q as [ys' [b1 [E1 [I1 R1]]]]. destruct r; cbn [fst snd].
        * destruct (R1 eq_refl) as [N1 N2]. rewrite N1 in *. cbn [pendb] in E1. rewrite app_nil_r in E1. subst ys'.
          pose proof (Hf (flat_map g xs) (snd st1) (or_intror (ex_intro _ b1 I1))) as Q.
          destruct (fin p (snd st1)) as [r2 s2]. cbn [fst snd] in *. destruct r2; cbn [FMSInv fst snd]; auto.
        * cbn [FMSInv]. left. eauto.
      + (* empty buffer: next.poll_finalize directly, whatever phase the downstream is in *)
        assert (PRE : Inv (Fing (flat_map g xs)) s \/ exists b, Inv (Run (flat_map g xs) b) s).
        { destruct CASES as [[ys [b0 [E I]]]|[N I]]; [|left; exact I].
          cbn [pendb] in E. rewrite app_nil_r in E. subst ys. right. eauto. }
        pose proof (Hf (flat_map g xs) s PRE) as Q. destruct (fin p s) as [r2 s2]. cbn [fst snd] in *.
        destruct r2; cbn [FMSInv fst snd]; auto.
    - intros xs st [ys [b0 [E [I R]]]]. exists ys, b0. repeat split; auto; discriminate.
  Qed.
End FMStage.

(* ------------------------------------------------------------------ instances and a pipeline *)

Lemma map_stage : forall A B (p : push B) Inv (f : A -> B),
    respects p Inv -> respects (map_push p f) (@SLInv _ _ p Inv (fun a => Some (f a))).
Proof.
  intros A B p Inv f H.
  exact (@sl_respects A B p Inv (fun a => Some (f a)) (send (map_push p f)) (fun _ _ => eq_refl) H).
Qed.

Lemma filter_stage : forall A (p : push A) Inv (q : A -> bool),
    respects p Inv -> respects (filter_push p q) (@SLInv _ _ p Inv (fun a => if q a then Some a else None)).
Proof.
  intros A p Inv q H.
  refine (@sl_respects A A p Inv (fun a => if q a then Some a else None) (send (filter_push p q)) _ H).
  intros a s. unfold filter_push. cbn [send]. destruct (q a); reflexivity.
Qed.

Lemma filter_map_stage : forall A B (p : push B) Inv (g : A -> option B),
    respects p Inv -> respects (filter_map_push p g) (@SLInv _ _ p Inv g).
Proof.
  intros A B p Inv g H.
  exact (@sl_respects A B p Inv g (send (filter_map_push p g)) (fun _ _ => eq_refl) H).
Qed.

Lemma flatten_stage : forall B (p : push B) Inv,
    respects p Inv -> respects (flatten_push p) (@FMSInv _ _ p Inv (fun l : list B => l)).
Proof. intros B p Inv H. exact (fms_respects (fun l : list B => l) H). Qed.

(* map f -> flat_map g -> filter q -> recorder: the pipeline the correspondence check also runs
   (CPipeMFF).  Obtained purely by composing the stage lemmas over the recorder base case. *)
Theorem pipe_map_flatmap_filter_correct :
  forall A B C (f : A -> B) (g : B -> list C) (q : C -> bool) fuel items rs0 fs0,
    match drive (map_push (flat_map_push (filter_push (rec_push C) q) g) f) fuel items
                (None, mkds rs0 fs0 []) [] with
    | (o, _, s') =>
      o <> Panicked /\
      (o = Finished ->
       wf (lg (snd s')) = true /\ findone (lg (snd s')) = true /\
       sent (lg (snd s')) = filter q (flat_map g (map f items)))
    end.
Proof.
  intros.
  pose proof (map_stage f (fms_respects g (filter_stage q (@rec_respects C)))) as R.
  pose proof (@respects_drive _ _ _ R fuel items (None, mkds rs0 fs0 [])) as D.
  destruct (drive (map_push (flat_map_push (filter_push (rec_push C) q) g) f) fuel items
                  (None, mkds rs0 fs0 []) []) as [[o tr] s'].
  match type of D with ?P -> _ => assert (I0 : P) end.
  { unfold SLInv, FMSInv. cbn [pmap fm_ref flat_map fst snd pendb]. exists [], false.
    repeat split; auto; try discriminate. }
  specialize (D I0). destruct o.
  - split; [discriminate|]. intros _. unfold SLInv, FMSInv in D. cbn [pmap] in D.
    destruct D as [_ [W [Dn S]]]. rewrite fm_ref_map, fm_ref_filter in S. auto.
  - split; [discriminate|]. intro E. discriminate.
  - contradiction.
Qed.

(* HISTORY (fixed finding pipeline/flat_map-over-fanout/poll_ready-after-finalize-Done): with the
   FlatMap::poll_finalize of before /repo cca62d2de0e (Historic.flat_map_old_push), flat_map over
   fanout polled poll_ready on a downstream that had already answered Done to poll_finalize. *)
Lemma flat_map_old_over_fanout_refuted :
  match drive (flat_map_old_push (fanout_push (rec_push N) (rec_push N)) (fun x : N => [x; (x + 10)%N])) 20 [1%N]
              (None, ((false, false), (mkds [] [] [], mkds [] [false] []))) [] with
  | (o, _, s') => o = Finished /\ wf (lg (fst (snd (snd s')))) = false /\
                  lg (fst (snd (snd s'))) = [ERdy true; EFin true; ERdy true; ESend 11%N; ERdy true; ESend 1%N; ERdy true; ERdy true]
  end.
Proof. vm_compute. auto. Qed.

(* the same witness on the code as it is now: downstream 0's history ends with its poll_finalize *)
Lemma flat_map_over_fanout_witness_now :
  match drive (flat_map_push (fanout_push (rec_push N) (rec_push N)) (fun x : N => [x; (x + 10)%N])) 20 [1%N]
              (None, ((false, false), (mkds [] [] [], mkds [] [false] []))) [] with
  | (o, _, s') => o = Finished /\ wf (lg (fst (snd (snd s')))) = true /\ wf (lg (snd (snd (snd s')))) = true /\
                  lg (fst (snd (snd s'))) = [EFin true; ERdy true; ESend 11%N; ERdy true; ESend 1%N; ERdy true; ERdy true]
  end.
Proof. vm_compute. auto. Qed.
