(* Engine "Push", sinktools part (property C14): executable model of the futures::Sink
   adaptors in /repo/sinktools/src.  A downstream sink is a scripted recorder [sds]: scripts
   of Ready(Ok) / Pending / Ready(Err) answers for poll_ready, poll_flush, poll_close, a
   script of Ok/Err answers for start_send (all answer Ready(Ok) once exhausted) and the log
   of every call with its answer, NEWEST FIRST.  Definitions only. *)
From Coq Require Import List NArith Bool Arith.
Import ListNotations.

Set Implicit Arguments.

Inductive res : Type := RDone | RPend | RErr.

Inductive sev (A : Type) : Type :=
| SRdy (r : res)
| SSend (a : A) (ok : bool)
| SFlush (r : res)
| SClose (r : res).
Arguments SRdy {A} r.
Arguments SSend {A} a ok.
Arguments SFlush {A} r.
Arguments SClose {A} r.

Record sds (A : Type) : Type :=
  mksds { srs : list res; sss : list bool; sfs : list res; scs : list res; slg : list (sev A) }.
Arguments mksds {A} srs sss sfs scs slg.

Definition popr (l : list res) : res * list res := match l with [] => (RDone, []) | r :: t => (r, t) end.
Definition popb (l : list bool) : bool * list bool := match l with [] => (true, []) | r :: t => (r, t) end.

(* start_send: None = panic; Some (ok, state) *)
Record sink (A : Type) : Type := mksink {
  SSt : Type;
  sready : SSt -> res * SSt;
  ssend : A -> SSt -> option (bool * SSt);
  sflush : SSt -> res * SSt;
  sclose : SSt -> res * SSt }.

Definition srec_ready {A} (s : sds A) : res * sds A :=
  let (r, t) := popr (srs s) in (r, mksds t (sss s) (sfs s) (scs s) (SRdy r :: slg s)).
Definition srec_send {A} (a : A) (s : sds A) : option (bool * sds A) :=
  let (b, t) := popb (sss s) in Some (b, mksds (srs s) t (sfs s) (scs s) (SSend a b :: slg s)).
Definition srec_flush {A} (s : sds A) : res * sds A :=
  let (r, t) := popr (sfs s) in (r, mksds (srs s) (sss s) t (scs s) (SFlush r :: slg s)).
Definition srec_close {A} (s : sds A) : res * sds A :=
  let (r, t) := popr (scs s) in (r, mksds (srs s) (sss s) (sfs s) t (SClose r :: slg s)).

Definition srec (A : Type) : sink A :=
  mksink (@srec_ready A) (@srec_send A) (@srec_flush A) (@srec_close A).

(* ------------------------------------------------------------------ log observers (newest first) *)

Definition sev_err {A} (e : sev A) : bool :=
  match e with
  | SRdy RErr | SFlush RErr | SClose RErr => true
  | SSend _ false => true
  | _ => false
  end.
Definition sev_close {A} (e : sev A) : bool := match e with SClose _ => true | _ => false end.
Definition sev_closed {A} (e : sev A) : bool := match e with SClose RDone => true | _ => false end.

Definition srdy {A} (l : list (sev A)) : bool := match l with SRdy RDone :: _ => true | _ => false end.
Definition sfailed {A} (l : list (sev A)) : bool := existsb sev_err l.
Definition sclosing {A} (l : list (sev A)) : bool := existsb sev_close l.
Definition sclosed {A} (l : list (sev A)) : bool := existsb sev_closed l.

(* items accepted by the sink (start_send answered Ok), in order *)
Fixpoint ssent {A} (l : list (sev A)) : list A :=
  match l with
  | [] => []
  | SSend a true :: r => ssent r ++ [a]
  | _ :: r => ssent r
  end.
(* items offered (start_send called), in order *)
Fixpoint soffered {A} (l : list (sev A)) : list A :=
  match l with
  | [] => []
  | SSend a _ :: r => soffered r ++ [a]
  | _ :: r => soffered r
  end.

(* futures::Sink protocol toward one downstream (strict):
   start_send only directly after poll_ready = Ready(Ok); no start_send once poll_close was
   called; no call after an error; no call after poll_close = Ready(Ok). *)
Fixpoint swf {A} (l : list (sev A)) : bool :=
  match l with
  | [] => true
  | SSend _ _ :: r => srdy r && negb (sclosing r) && negb (sfailed r) && swf r
  | _ :: r => negb (sclosed r) && negb (sfailed r) && swf r
  end.
(* weak: poll_close may be repeated after it answered Ready(Ok) *)
Fixpoint swfw {A} (l : list (sev A)) : bool :=
  match l with
  | [] => true
  | SSend _ _ :: r => srdy r && negb (sclosing r) && negb (sfailed r) && swfw r
  | SClose _ :: r => negb (sfailed r) && swfw r
  | _ :: r => negb (sclosed r) && negb (sfailed r) && swfw r
  end.

(* ------------------------------------------------------------------ the driver *)

Inductive sdev : Type := TRdy (r : res) | TSend (ok : bool) | TFlush (r : res) | TClose (r : res).
Inductive soutcome : Type := SFinished | SFailed | SOutOfFuel | SPanicked.

Section SDrive.
  Context {A : Type} (p : sink A).

  Fixpoint sdrive_close (fuel : nat) (s : SSt p) (tr : list sdev) : soutcome * list sdev * SSt p :=
    match fuel with
    | 0 => (SOutOfFuel, tr, s)
    | S k => let (r, s') := sclose p s in
             match r with
             | RDone => (SFinished, TClose r :: tr, s')
             | RErr => (SFailed, TClose r :: tr, s')
             | RPend => sdrive_close k s' (TClose r :: tr)
             end
    end.

  Fixpoint sdrive_flush (fuel : nat) (s : SSt p) (tr : list sdev) : soutcome * list sdev * SSt p :=
    match fuel with
    | 0 => (SOutOfFuel, tr, s)
    | S k => let (r, s') := sflush p s in
             match r with
             | RDone => sdrive_close k s' (TFlush r :: tr)
             | RErr => (SFailed, TFlush r :: tr, s')
             | RPend => sdrive_flush k s' (TFlush r :: tr)
             end
    end.

  (* per item: poll_ready until Ready, start_send; then poll_flush until Ready, poll_close
     until Ready; stop at the first error *)
  Fixpoint sdrive (fuel : nat) (items : list A) (s : SSt p) (tr : list sdev)
    : soutcome * list sdev * SSt p :=
    match items with
    | [] => sdrive_flush fuel s tr
    | a :: rest =>
      match fuel with
      | 0 => (SOutOfFuel, tr, s)
      | S k => let (r, s') := sready p s in
               match r with
               | RDone => match ssend p a s' with
                          | None => (SPanicked, TRdy r :: tr, s')
                          | Some (true, s'') => sdrive k rest s'' (TSend true :: TRdy r :: tr)
                          | Some (false, s'') => (SFailed, TSend false :: TRdy r :: tr, s'')
                          end
               | RErr => (SFailed, TRdy r :: tr, s')
               | RPend => sdrive k items s' (TRdy r :: tr)
               end
      end
    end.
End SDrive.

(* ------------------------------------------------------------------ map.rs / filter.rs / filter_map.rs *)

Section SStateless.
  Context {A B : Type} (nx : sink B).
  Definition smap (f : A -> B) : sink A :=
    mksink (sready nx) (fun a s => ssend nx (f a) s) (sflush nx) (sclose nx).
  Definition sfilter_map (g : A -> option B) : sink A :=
    mksink (sready nx)
           (fun a s => match g a with Some b => ssend nx b s | None => Some (true, s) end)
           (sflush nx) (sclose nx).
End SStateless.
Definition sfilter {A} (nx : sink A) (q : A -> bool) : sink A :=
  mksink (sready nx) (fun a s => if q a then ssend nx a s else Some (true, s)) (sflush nx) (sclose nx).

(* ------------------------------------------------------------------ flat_map.rs / flatten.rs *)

Section SFlatMap.
  Context {A B : Type} (nx : sink B).
  Definition sfm_st : Type := option (list B * B) * SSt nx.

  (* poll_ready_impl: `while iter_next.is_some()`; returns (buffer, result, state);
     unlike the push FlatMap it does NOT poll the sink once the buffer is empty *)
  Fixpoint sfm_drain (it : list B) (item : B) (s : SSt nx) : option (list B * B) * res * SSt nx :=
    let (r, s1) := sready nx s in
    match r with
    | RDone =>
      (* iter_next.take(); start_send(next)?; iter_next = iter.next().map(..) *)
      match ssend nx item s1 with
      | None => (None, RErr, s1)
      | Some (false, s2) => (None, RErr, s2)
      | Some (true, s2) =>
        match it with
        | nxt :: it' => sfm_drain it' nxt s2
        | [] => (None, RDone, s2)
        end
      end
    | RPend => (Some (it, item), RPend, s1)
    | RErr => (Some (it, item), RErr, s1)
    end.

  Definition sfm_ready (st : sfm_st) : res * sfm_st :=
    match fst st with
    | None => (RDone, st)
    | Some (it, item) => match sfm_drain it item (snd st) with (buf, r, s1) => (r, (buf, s1)) end
    end.

  Definition sfm_send (g : A -> list B) (a : A) (st : sfm_st) : option (bool * sfm_st) :=
    match fst st with
    | Some _ => None
    | None => match g a with
              | [] => Some (true, (None, snd st))
              | b :: it => Some (true, (Some (it, b), snd st))
              end
    end.

  Definition sfm_then (op : SSt nx -> res * SSt nx) (st : sfm_st) : res * sfm_st :=
    let (r, st1) := sfm_ready st in
    match r with
    | RDone => let (r2, s2) := op (snd st1) in (r2, (fst st1, s2))
    | _ => (r, st1)
    end.

  Definition sflat_map (g : A -> list B) : sink A :=
    mksink sfm_ready (sfm_send g) (sfm_then (sflush nx)) (sfm_then (sclose nx)).
End SFlatMap.

Definition sflatten {B} (nx : sink B) : sink (list B) :=
  mksink (@sfm_ready B nx) (sfm_send (fun l : list B => l)) (sfm_then (sflush nx)) (sfm_then (sclose nx)).

(* ------------------------------------------------------------------ unzip.rs *)

Section SUnzip.
  Context {A B : Type} (p0 : sink A) (p1 : sink B).

  (* ready_both!(a?, b?): a is polled first; an error of a returns before b is polled; then b?;
     Ready only if both Ready *)
  Definition sboth (o0 : SSt p0 -> res * SSt p0) (o1 : SSt p1 -> res * SSt p1)
             (s : SSt p0 * SSt p1) : res * (SSt p0 * SSt p1) :=
    let (a, s0) := o0 (fst s) in
    match a with
    | RErr => (RErr, (s0, snd s))
    | _ => let (b, s1) := o1 (snd s) in
           match b with
           | RErr => (RErr, (s0, s1))
           | _ => (match a, b with RDone, RDone => RDone | _, _ => RPend end, (s0, s1))
           end
    end.

  (* Unzip::start_send: sink_0.start_send(item.0)?; sink_1.start_send(item.1)? *)
  Definition sunzip_send (ab : A * B) (s : SSt p0 * SSt p1) : option (bool * (SSt p0 * SSt p1)) :=
    match ssend p0 (fst ab) (fst s) with
    | None => None
    | Some (false, s0) => Some (false, (s0, snd s))
    | Some (true, s0) =>
      match ssend p1 (snd ab) (snd s) with
      | None => None
      | Some (ok, s1) => Some (ok, (s0, s1))
      end
    end.
End SUnzip.

(* ------------------------------------------------------------------ lazy.rs: LazySink *)

Section SLazy.
  Context {A : Type} (nx : sink A).

  (* the initializer future: answers Pending [n] times, then Ok(sink) / Err *)
  Inductive lz_st : Type :=
  | LUninit (npend : nat) (ok : bool)                       (* func not called yet *)
  | LThunk (npend : nat) (ok : bool) (item : A)             (* future running, first item held *)
  | LDone (buf : option A).                                 (* sink built *)

  (* state: lazy state, number of initializer calls so far, the (future) sink's state *)
  Definition lzs : Type := lz_st * nat * SSt nx.

  Definition lz_op (op : SSt nx -> res * SSt nx) (st : lzs) : res * lzs :=
    match st with
    | (LUninit n ok, c, s) => (RDone, st)                                   (* Lazy *)
    | (LThunk (S n) ok item, c, s) => (RPend, (LThunk n ok item, c, s))      (* ready!(future.poll) *)
    | (LThunk 0 false item, c, s) => (RErr, (LThunk 0 false item, c, s))     (* future failed: `?` *)
    | (LThunk 0 true item, c, s) =>
      (* Done { sink, buf: Some(item) }: poll_ready, start_send(buf.take()), then the op *)
      let (r, s1) := sready nx s in
      match r with
      | RDone => match ssend nx item s1 with
                 | None => (RErr, (LDone None, c, s1))
                 | Some (false, s2) => (RErr, (LDone None, c, s2))
                 | Some (true, s2) => let (r2, s3) := op s2 in (r2, (LDone None, c, s3))
                 end
      | _ => (r, (LDone (Some item), c, s1))
      end
    | (LDone (Some item), c, s) =>
      let (r, s1) := sready nx s in
      match r with
      | RDone => match ssend nx item s1 with
                 | None => (RErr, (LDone None, c, s1))
                 | Some (false, s2) => (RErr, (LDone None, c, s2))
                 | Some (true, s2) => let (r2, s3) := op s2 in (r2, (LDone None, c, s3))
                 end
      | _ => (r, (LDone (Some item), c, s1))
      end
    | (LDone None, c, s) => let (r2, s3) := op s in (r2, (LDone None, c, s3))
    end.

  Definition lz_send (a : A) (st : lzs) : option (bool * lzs) :=
    match st with
    | (LUninit n ok, c, s) => Some (true, (LThunk n ok a, S c, s))   (* func.take()(); item held *)
    | (LDone buf, c, s) => match ssend nx a s with
                           | None => None
                           | Some (ok, s') => Some (ok, (LDone buf, c, s'))
                           end
    | (LThunk _ _ _, _, _) => None                                   (* panic!("not ready") *)
    end.

  Definition slazy : sink A :=
    mksink (lz_op (sready nx)) lz_send (lz_op (sflush nx)) (lz_op (sclose nx)).
End SLazy.

(* ------------------------------------------------------------------ unzip.rs (as of /repo e255bb09846
   "does not re-close a closed sink"): poll_close skips a sink whose poll_close already
   completed.  The pre-fix poll_close lives in SinkHistoric.v for the historical witness. *)

Section SUnzipOnce.
  Context {A B : Type} (p0 : sink A) (p1 : sink B).
  Definition suo_st : Type := ((bool * bool) * (SSt p0 * SSt p1))%type.

  (* if !closed_0 { if let Ready(()) = sink_0.poll_close(cx)? { closed_0 = true } }  (same for 1) *)
  Definition sclose_once (s : suo_st) : res * suo_st :=
    let (a, s0) := if fst (fst s) then (RDone, fst (snd s)) else sclose p0 (fst (snd s)) in
    match a with
    | RErr => (RErr, (fst s, (s0, snd (snd s))))
    | _ =>
      let c0 := match a with RDone => true | _ => false end in
      let (b, s1) := if snd (fst s) then (RDone, snd (snd s)) else sclose p1 (snd (snd s)) in
      match b with
      | RErr => (RErr, ((c0, snd (fst s)), (s0, s1)))
      | _ =>
        let c1 := match b with RDone => true | _ => false end in
        (if c0 && c1 then RDone else RPend, ((c0, c1), (s0, s1)))
      end
    end.

  Definition lift_op (op : SSt p0 * SSt p1 -> res * (SSt p0 * SSt p1)) (s : suo_st) : res * suo_st :=
    let (r, s') := op (snd s) in (r, (fst s, s')).

  Definition sunzip : sink (A * B) :=
    mksink (SSt := suo_st)
           (lift_op (@sboth _ _ p0 p1 (sready p0) (sready p1)))
           (fun ab s => match sunzip_send p0 p1 ab (snd s) with
                        | Some (ok, s') => Some (ok, (fst s, s')) | None => None end)
           (lift_op (@sboth _ _ p0 p1 (sflush p0) (sflush p1)))
           sclose_once.
End SUnzipOnce.

(* ------------------------------------------------------------------ for_each.rs / try_for_each.rs *)

(* terminal sinks: always Ready; the closure's calls (and, for try_for_each, its Ok/Err answers)
   are the log *)
Definition stry_for_each {A} (fails : A -> bool) : sink A :=
  mksink (SSt := list (sev A))
         (fun s => (RDone, s))
         (fun a s => let ok := negb (fails a) in Some (ok, SSend a ok :: s))
         (fun s => (RDone, s))
         (fun s => (RDone, s)).
Definition sfor_each (A : Type) : sink A := stry_for_each (fun _ : A => false).

(* ------------------------------------------------------------------ send_iter.rs *)

Section SendIter.
  Context {A : Type} (nx : sink A).
  (* one poll of the SendIter future: loop { ready!(poll_ready)?; next item -> start_send? | break };
     poll_flush.  State: the iterator's remaining items, the sink. *)
  Fixpoint si_poll (items : list A) (s : SSt nx) : res * (list A * SSt nx) :=
    let (r, s1) := sready nx s in
    match r with
    | RDone =>
      match items with
      | [] => let (r2, s2) := sflush nx s1 in (r2, ([], s2))
      | x :: it =>
        match ssend nx x s1 with
        | None => (RErr, (it, s1))
        | Some (true, s2) => si_poll it s2
        | Some (false, s2) => (RErr, (it, s2))
        end
      end
    | RPend => (RPend, (items, s1))
    | RErr => (RErr, (items, s1))
    end.

  (* poll the future until it is Ready; trace of poll results, newest first *)
  Fixpoint si_drive (fuel : nat) (items : list A) (s : SSt nx) (tr : list res)
    : soutcome * list res * (list A * SSt nx) :=
    match fuel with
    | 0 => (SOutOfFuel, tr, (items, s))
    | S k => match si_poll items s with
             | (RDone, st) => (SFinished, RDone :: tr, st)
             | (RErr, st) => (SFailed, RErr :: tr, st)
             | (RPend, (it', s')) => si_drive k it' s' (RPend :: tr)
             end
    end.
End SendIter.
