(* Engine "Push": models of the remaining dfir_pipes::push combinators -- accumulate.rs
   (fold / reduce / sort via accum_state.rs), sort.rs, persist.rs, fold_keyed.rs,
   reduce_keyed.rs, for_each.rs, vec_push.rs, resolve_futures.rs -- transcribed match arm by
   match arm over an arbitrary downstream [nx].  Definitions only. *)
From Coq Require Import List NArith Bool Arith.
From HV Require Import Push.Model.
Import ListNotations.

Set Implicit Arguments.

(* ------------------------------------------------------------------ accumulate.rs *)

Section Accumulate.
  (* AccumState: accumulate / into_iter *)
  Context {A B S : Type} (accf : S -> A -> S) (outf : S -> list B) (nx : push B).

  Inductive acc_phase : Type :=
  | Accumulating (st : S)
  | Draining (it : list B)
  | DoneP.

  (* loop { ready!(next.poll_ready); let Some(item) = iter.next() else break; start_send }:
     (remaining iterator, loop left by `break`?, downstream state) *)
  Fixpoint acc_drain (it : list B) (s : St nx) : list B * bool * St nx :=
    let (r, s1) := ready nx s in
    if r then
      match it with
      | [] => ([], true, s1)
      | item :: it' =>
        match send nx item s1 with
        | Some s2 => acc_drain it' s2
        | None => (it, false, s1)
        end
      end
    else (it, false, s1).

  Definition acc_fin_from (it : list B) (s : St nx) : bool * (acc_phase * St nx) :=
    match acc_drain it s with
    | (_, true, s1) => let (r, s2) := fin nx s1 in (r, (DoneP, s2))
    | (it', false, s1) => (false, (Draining it', s1))
    end.

  Definition accumulate_push : push A :=
    mkpush (St := (acc_phase * St nx)%type)
           (fun s => (true, s))                                   (* poll_ready: Done *)
           (fun a s => match fst s with
                       | Accumulating st => Some (Accumulating (accf st a), snd s)
                       | _ => None                                (* panic: start_send after finalize *)
                       end)
           (fun s => match fst s with
                     | Accumulating st => acc_fin_from (outf st) (snd s)
                     | Draining it => acc_fin_from it (snd s)
                     | DoneP => let (r, s2) := fin nx (snd s) in (r, (DoneP, s2))
                     end).
End Accumulate.

(* accum_state.rs *)
Definition fold_accf {A S} (comb : S -> A -> S) : S -> A -> S := comb.
Definition fold_outf {S} (acc : S) : list S := [acc].
Definition reduce_accf {A} (f : A -> A -> A) (o : option A) (x : A) : option A :=
  match o with Some a => Some (f a x) | None => Some x end.
Definition reduce_outf {A} (o : option A) : list A := match o with Some a => [a] | None => [] end.

Fixpoint insert_sorted (x : N) (l : list N) : list N :=
  match l with
  | [] => [x]
  | y :: r => if N.leb x y then x :: l else y :: insert_sorted x r
  end.
Definition sortN (l : list N) : list N := fold_right insert_sorted [] l.

(* SortState: buf.push; into_iter: sort_unstable *)
Definition sortst_accf (buf : list N) (x : N) : list N := buf ++ [x].

(* ------------------------------------------------------------------ sort.rs *)

Section Sort.
  Context (nx : push N).
  (* (buf, sorted): once sorted the buffer is kept in emission (ascending) order: the code
     sorts descending and pops from the back *)
  Definition sort_st : Type := ((list N * bool) * St nx)%type.

  (* while !buf.is_empty() { ready!; pop; start_send } *)
  Fixpoint sort_drain (it : list N) (s : St nx) : list N * bool * St nx :=
    match it with
    | [] => ([], true, s)
    | item :: it' =>
      let (r, s1) := ready nx s in
      if r then match send nx item s1 with
                | Some s2 => sort_drain it' s2
                | None => (it, false, s1)
                end
      else (it, false, s1)
    end.

  Definition sort_push : push N :=
    mkpush (St := sort_st)
           (fun s => (true, s))
           (fun a s => Some ((fst (fst s) ++ [a], false), snd s))
           (fun s =>
              let buf := if snd (fst s) then fst (fst s) else sortN (fst (fst s)) in
              match sort_drain buf (snd s) with
              | (_, true, s1) => let (r, s2) := fin nx s1 in (r, (([], true), s2))
              | (it', false, s1) => (false, ((it', true), s1))
              end).
End Sort.

(* ------------------------------------------------------------------ persist.rs *)

Section Persist.
  Context {B : Type} (nx : push B).
  (* buf = done ++ rest; replay_idx = length done *)
  Definition pers_st : Type := ((list B * list B) * St nx)%type.

  (* empty_replay: while let Some(item) = buf.get(replay_idx) { ready!; send(item.clone()); idx += 1 } *)
  Fixpoint pers_replay (dn rest : list B) (s : St nx) : (list B * list B) * bool * St nx :=
    match rest with
    | [] => ((dn, []), true, s)
    | item :: rest' =>
      let (r, s1) := ready nx s in
      if r then match send nx item s1 with
                | Some s2 => pers_replay (dn ++ [item]) rest' s2
                | None => ((dn, rest), false, s1)
                end
      else ((dn, rest), false, s1)
    end.

  Definition persist_push : push B :=
    mkpush (St := pers_st)
           (fun s => match pers_replay (fst (fst s)) (snd (fst s)) (snd s) with
                     | (b, true, s1) => let (r, s2) := ready nx s1 in (r, (b, s2))
                     | (b, false, s1) => (false, (b, s1))
                     end)
           (fun a s => match snd (fst s) with
                       | _ :: _ => None              (* debug_assert_eq!(buf.len(), replay_idx) *)
                       | [] => match send nx a (snd s) with
                               | Some s2 => Some ((fst (fst s) ++ [a], []), s2)
                               | None => None
                               end
                       end)
           (fun s => match pers_replay (fst (fst s)) (snd (fst s)) (snd s) with
                     | (b, true, s1) => let (r, s2) := fin nx s1 in (r, (b, s2))
                     | (b, false, s1) => (false, (b, s1))
                     end).

  (* Persist::new(buf, replay, push): replay_idx = if replay { 0 } else { buf.len() } *)
  Definition pers_init (pre : list B) (replay : bool) (s : St nx) : pers_st :=
    ((if replay then ([], pre) else (pre, [])), s).
End Persist.

(* ------------------------------------------------------------------ for_each.rs / vec_push.rs *)

(* terminal pushes: the closure's effect / the Vec is the list of items, newest first *)
Definition for_each_push (A : Type) : push A :=
  mkpush (St := list A) (fun s => (true, s)) (fun a s => Some (a :: s)) (fun s => (true, s)).

(* ------------------------------------------------------------------ fold_keyed.rs / reduce_keyed.rs *)

Section Keyed.
  Context {V Acc : Type} (nx : push (N * Acc)).
  (* HashMap<K, Acc> as an association list (insertion order); the iteration order of the
     HashMap is an ORACLE: [ord] lists the keys in the order the entries are emitted *)
  Fixpoint kupd (k : N) (f : option Acc -> Acc) (m : list (N * Acc)) : list (N * Acc) :=
    match m with
    | [] => [(k, f None)]
    | (k', a) :: r => if N.eqb k k' then (k, f (Some a)) :: r else (k', a) :: kupd k f r
    end.
  Fixpoint klook (k : N) (m : list (N * Acc)) : option Acc :=
    match m with
    | [] => None
    | (k', a) :: r => if N.eqb k k' then Some a else klook k r
    end.
  Definition emit_order (ord : list N) (m : list (N * Acc)) : list (N * Acc) :=
    flat_map (fun k => match klook k m with Some a => [(k, a)] | None => [] end) ord.

  (* state: map, flush_items (in pop order), flush_idx *)
  Definition keyed_st : Type := ((list (N * Acc) * list (N * Acc) * bool) * St nx)%type.

  Fixpoint keyed_drain (it : list (N * Acc)) (s : St nx) : list (N * Acc) * bool * St nx :=
    match it with
    | [] => ([], true, s)
    | item :: it' =>
      let (r, s1) := ready nx s in
      if r then match send nx item s1 with
                | Some s2 => keyed_drain it' s2
                | None => (it, false, s1)
                end
      else (it, false, s1)
    end.

  Definition keyed_push (upd : V -> option Acc -> Acc) (ord : list N) : push (N * V) :=
    mkpush (St := keyed_st)
           (fun s => (true, s))
           (fun kv s => match fst s with
                        | (m, fl, ix) => Some ((kupd (fst kv) (upd (snd kv)) m, fl, ix), snd s)
                        end)
           (fun s => match fst s with
                     | (m, fl, ix) =>
                       (* if flush_items.is_empty() && flush_idx == 0 { collect; flush_idx = 1 } *)
                       let fl1 := match fl, ix with [], false => emit_order ord m | _, _ => fl end in
                       match keyed_drain fl1 (snd s) with
                       | (_, true, s1) =>
                         let (r, s2) := fin nx s1 in
                         (r, ((m, [], if r then false else true), s2))   (* done => flush_idx = 0 *)
                       | (it', false, s1) => (false, ((m, it', true), s1))
                       end
                     end).
End Keyed.

(* fold_keyed: entry(k).or_insert_with(init); comb(entry, v) *)
Definition fold_keyed_upd {V Acc} (init : Acc) (comb : Acc -> V -> Acc) (v : V) (o : option Acc) : Acc :=
  match o with Some a => comb a v | None => comb init v end.
(* reduce_keyed: Vacant => insert v; Occupied => reduce(get_mut, v) *)
Definition reduce_keyed_upd {V} (f : V -> V -> V) (v : V) (o : option V) : V :=
  match o with Some a => f a v | None => v end.

(* ------------------------------------------------------------------ resolve_futures.rs *)

Section Resolve.
  Context {B : Type} (nx : push B).
  (* a future: (output, number of polls answering Pending first); the queue is a FIFO that
     polls its head (the harness supplies such a queue; FuturesOrdered-like) *)
  Definition fut : Type := (B * nat)%type.
  Definition rf_st : Type := (list fut * St nx)%type.

  (* Stream::poll_next of the queue *)
  Definition q_poll (q : list fut) : option (option B) * list fut :=
    match q with
    | [] => (Some None, [])                               (* Ready(None) *)
    | (v, 0) :: r => (Some (Some v), r)                   (* Ready(Some v) *)
    | (v, S n) :: r => (None, (v, n) :: r)                (* Pending *)
    end.

  (* empty_ready; [fuel] bounds the loop by the queue length + 1 *)
  Fixpoint rf_empty (waker : bool) (fuel : nat) (q : list fut) (s : St nx) : bool * (list fut * St nx) :=
    match fuel with
    | 0 => (false, (q, s))
    | S k =>
      let (r, s1) := ready nx s in
      if r then
        match q_poll q with
        | (Some (Some out), q') =>
          match send nx out s1 with
          | Some s2 => rf_empty waker k q' s2
          | None => (false, (q', s1))
          end
        | (Some None, q') => (true, (q', s1))
        | (None, q') => (waker, (q', s1))     (* Pending: Done if a subgraph waker is set *)
        end
      else (false, (q, s1))
    end.

  (* start_send *)
  Definition rf_send (waker : bool) (f : fut) (s : rf_st) : option rf_st :=
    let q := fst s ++ [f] in
    if waker then
      match q_poll q with
      | (Some (Some out), q') => match send nx out (snd s) with
                                 | Some s2 => Some (q', s2)
                                 | None => None
                                 end
      | (_, q') => Some (q', snd s)
      end
    else Some (q, snd s).

  (* state: the `finalizing` flag (/repo 5464049ec0b), queue, downstream.  poll_finalize drains
     the queue only until the downstream's poll_finalize has been called once; afterwards
     nothing is sent any more (futures still pending stay queued for a later tick) *)
  Definition resolve_push (waker : bool) : push fut :=
    mkpush (St := (bool * rf_st)%type)
           (fun s => let (r, s') := rf_empty waker (S (length (fst (snd s)))) (fst (snd s)) (snd (snd s)) in
                     (r, (fst s, s')))
           (fun f s => match rf_send waker f (snd s) with
                       | Some s' => Some (fst s, s') | None => None end)
           (fun s =>
              if fst s then let (r, s2) := fin nx (snd (snd s)) in (r, (true, (fst (snd s), s2)))
              else match rf_empty waker (S (length (fst (snd s)))) (fst (snd s)) (snd (snd s)) with
                   | (true, (q, s1)) => let (r, s2) := fin nx s1 in (r, (true, (q, s2)))
                   | (false, st) => (false, (false, st))
                   end).

  (* BEFORE 5464049ec0b (historical witness only): empty_ready on every poll_finalize *)
  Definition resolve_old_push (waker : bool) : push fut :=
    mkpush (St := rf_st)
           (fun s => rf_empty waker (S (length (fst s))) (fst s) (snd s))
           (rf_send waker)
           (fun s => match rf_empty waker (S (length (fst s))) (fst s) (snd s) with
                     | (true, (q, s1)) => let (r, s2) := fin nx s1 in (r, (q, s2))
                     | (false, st) => (false, st)
                     end).
End Resolve.

