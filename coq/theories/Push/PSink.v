(* Engine "Push", sinktools part: proofs about the sink models. *)
From Coq Require Import List NArith Bool Arith Lia.
From HV Require Import Push.SinkModel.
Import ListNotations.

Set Implicit Arguments.

(* ------------------------------------------------------------------ a state invariant survives the driver *)

Section SDriveInv.
  Context {A : Type} (p : sink A) (P : SSt p -> Prop).
  Hypothesis Hr : forall s, P s -> P (snd (sready p s)).
  Hypothesis Hs : forall a s ok s', P s -> ssend p a s = Some (ok, s') -> P s'.
  Hypothesis Hf : forall s, P s -> P (snd (sflush p s)).
  Hypothesis Hc : forall s, P s -> P (snd (sclose p s)).

  Lemma sdrive_close_pres : forall fuel s tr, P s -> P (snd (sdrive_close p fuel s tr)).
  Proof.
    induction fuel as [|k IH]; intros s tr H; cbn; auto.
    pose proof (Hc H) as H1. destruct (sclose p s) as [r s']. cbn in H1. destruct r; cbn; auto.
  Qed.

  Lemma sdrive_flush_pres : forall fuel s tr, P s -> P (snd (sdrive_flush p fuel s tr)).
  Proof.
    induction fuel as [|k IH]; intros s tr H; cbn; auto.
    pose proof (Hf H) as H1. destruct (sflush p s) as [r s']. cbn in H1. destruct r; cbn; auto.
    apply sdrive_close_pres; auto.
  Qed.

  Theorem sdrive_pres : forall fuel items s tr, P s -> P (snd (sdrive p fuel items s tr)).
  Proof.
    induction fuel as [|k IH]; intros items s tr H.
    - destruct items; cbn; auto.
    - destruct items as [|a rest].
      + cbn [sdrive]. apply sdrive_flush_pres; auto.
      + cbn [sdrive]. pose proof (Hr H) as H1. destruct (sready p s) as [r s1]. cbn in H1.
        destruct r; cbn; auto.
        destruct (ssend p a s1) as [[ok s2]|] eqn:E; cbn; auto.
        pose proof (Hs _ H1 E) as H2. destruct ok; cbn; auto.
  Qed.
End SDriveInv.

(* ------------------------------------------------------------------ LazySink: initializer called at most once *)

Section LazyOnce.
  Context {A : Type} (nx : sink A).

  (* number of initializer calls: 0 exactly while uninitialised, 1 ever after *)
  Definition lz_count_ok (st : lzs nx) : Prop :=
    match st with
    | (LUninit _ _, c, _) => c = 0
    | (_, c, _) => c = 1
    end.

  Lemma lz_op_count : forall op st, lz_count_ok st -> lz_count_ok (snd (lz_op op st)).
  Proof.
    intros op [[l c] s] H. destruct l as [n ok|n ok item|buf]; cbn [lz_op]; auto.
    - destruct n as [|n]; [destruct ok|]; cbn; auto.
      destruct (sready nx s) as [r s1]. destruct r; cbn; auto.
      destruct (ssend nx item s1) as [[[|] s2]|]; cbn; auto.
      destruct (op s2); cbn; auto.
    - destruct buf as [item|].
      + destruct (sready nx s) as [r s1]. destruct r; cbn; auto.
        destruct (ssend nx item s1) as [[[|] s2]|]; cbn; auto.
        destruct (op s2); cbn; auto.
      + destruct (op s); cbn; auto.
  Qed.

  Lemma lz_send_count : forall a st ok st', lz_count_ok st -> lz_send a st = Some (ok, st') -> lz_count_ok st'.
  Proof.
    intros a [[l c] s] ok st' H E. destruct l as [n o|n o item|buf]; cbn [lz_send] in E.
    - inversion E. subst. cbn in *. lia.
    - discriminate.
    - destruct (ssend nx a s) as [[ok' s']|]; [|discriminate]. inversion E. subst. exact H.
  Qed.

  (* For every item sequence, every initializer pending count / result, every downstream state
     (hence every script) and every fuel: the initializer was called at most once, and exactly
     once unless the sink is still uninitialised. *)
  Theorem lazy_init_once : forall fuel items n ok (s0 : SSt nx),
      match sdrive (slazy nx) fuel items (@LUninit A n ok, 0, s0) [] with
      | (_, _, st) => lz_count_ok st /\ snd (fst st) <= 1
      end.
  Proof.
    intros.
    pose proof (@sdrive_pres _ (slazy nx) lz_count_ok
                             (fun s H => lz_op_count (sready nx) s H)
                             (fun a s ok' s' H E => lz_send_count a s H E)
                             (fun s H => lz_op_count (sflush nx) s H)
                             (fun s H => lz_op_count (sclose nx) s H)
                             fuel items (@LUninit A n ok, 0, s0) [] eq_refl) as H.
    destruct (sdrive (slazy nx) fuel items (@LUninit A n ok, 0, s0) []) as [[o tr] st].
    cbn [snd] in H. split; auto. destruct st as [[l c] s]. cbn. destruct l; cbn in H; lia.
  Qed.
End LazyOnce.

