(* Engine "Push": generic driver lemmas and facts about recorder logs. *)
From Coq Require Import List NArith Bool Arith Lia.
From HV Require Import Push.Model.
Import ListNotations.

Set Implicit Arguments.

(* ------------------------------------------------------------------ logs *)

Lemma findone_finstarted : forall A (l : list (ev A)), findone l = true -> finstarted l = true.
Proof.
  induction l as [|e l IH]; cbn; intro H; [discriminate|].
  destruct e as [r|a|r]; cbn in *; auto.
Qed.

Lemma finstarted_false_findone : forall A (l : list (ev A)), finstarted l = false -> findone l = false.
Proof.
  intros A l H. destruct (findone l) eqn:E; auto. apply findone_finstarted in E. congruence.
Qed.

Lemma wf_wfw : forall A (l : list (ev A)), wf l = true -> wfw l = true.
Proof.
  induction l as [|e l IH]; cbn; auto. destruct e; cbn; intro H;
    apply andb_prop in H; destruct H as [H H2]; rewrite ?H, ?IH; auto.
Qed.

Lemma wf_refin : forall A (l : list (ev A)), wf l = true -> refin l = 0.
Proof.
  induction l as [|e l IH]; cbn; auto. destruct e; cbn; intro H;
    apply andb_prop in H; destruct H as [H H2]; auto.
  apply negb_true_iff in H. rewrite H. cbn. auto.
Qed.

(* strict = weak + never re-finalized *)
Lemma wfw_refin_wf : forall A (l : list (ev A)), wfw l = true -> refin l = 0 -> wf l = true.
Proof.
  induction l as [|e l IH]; cbn; auto. destruct e; cbn; intros H R.
  - apply andb_prop in H; destruct H as [H H2]. rewrite H, IH; auto.
  - apply andb_prop in H; destruct H as [H H2]. rewrite H, IH; auto.
  - destruct (findone l); [discriminate|]. cbn. auto.
Qed.

(* ------------------------------------------------------------------ recorder operations *)

Section Rec.
  Context {A : Type}.
  Lemma rec_ready_lg : forall s : ds A, lg (snd (rec_ready s)) = ERdy (fst (rec_ready s)) :: lg s.
  Proof. intros [r f l]. unfold rec_ready. cbn. destruct (pop r). reflexivity. Qed.
  Lemma rec_fin_lg : forall s : ds A, lg (snd (rec_fin s)) = EFin (fst (rec_fin s)) :: lg s.
  Proof. intros [r f l]. unfold rec_fin. cbn. destruct (pop f). reflexivity. Qed.
  Lemma rec_send_lg : forall (a : A) (s s' : ds A), rec_send a s = Some s' -> lg s' = ESend a :: lg s.
  Proof. intros a s s' H. inversion H. reflexivity. Qed.
End Rec.

(* remaining Pend answers of a recorder: the termination measure *)
Definition npend (l : list bool) : nat := length (filter negb l).
Definition mu_ds {A} (s : ds A) : nat := npend (rs s) + npend (fs s).

Lemma pop_npend : forall l, npend (snd (pop l)) + (if fst (pop l) then 0 else 1) = npend l.
Proof. destruct l as [|[|] l]; cbn; unfold npend; cbn; lia. Qed.

Lemma rec_ready_mu : forall A (s : ds A),
    mu_ds (snd (rec_ready s)) + (if fst (rec_ready s) then 0 else 1) = mu_ds s.
Proof.
  intros A [r f l]. destruct r as [|[|] r]; unfold rec_ready, mu_ds, npend; cbn; lia.
Qed.
Lemma rec_fin_mu : forall A (s : ds A),
    mu_ds (snd (rec_fin s)) + (if fst (rec_fin s) then 0 else 1) = mu_ds s.
Proof.
  intros A [r f l]. destruct f as [|[|] f]; unfold rec_fin, mu_ds, npend; cbn; lia.
Qed.
Lemma rec_send_mu : forall A (a : A) (s s' : ds A), rec_send a s = Some s' -> mu_ds s' = mu_ds s.
Proof. intros A a s s' H. inversion H. reflexivity. Qed.

(* ------------------------------------------------------------------ the generic driver theorem *)

Inductive phase (A : Type) : Type :=
| Run (xs : list A) (b : bool)   (* xs consumed so far; b: the last driver poll_ready answered
                                    Done and nothing was sent since *)
| Fing (xs : list A)             (* poll_finalize has been called, has not answered Done yet *)
| Fini (xs : list A).            (* poll_finalize answered Done *)
Arguments Run {A} xs b.
Arguments Fing {A} xs.
Arguments Fini {A} xs.

Definition ph_items {A} (ph : phase A) : list A :=
  match ph with Run xs _ | Fing xs | Fini xs => xs end.

Section DriveInv.
  Context {A : Type} (p : push A).
  Variable Inv : phase A -> St p -> Prop.

  Definition ready_ok : Prop := forall xs b s,
      Inv (Run xs b) s -> Inv (Run xs (fst (ready p s))) (snd (ready p s)).
  Definition send_ok : Prop := forall xs a s,
      Inv (Run xs true) s -> exists s', send p a s = Some s' /\ Inv (Run (xs ++ [a]) false) s'.
  Definition fin_ok : Prop := forall xs s,
      (Inv (Fing xs) s \/ exists b, Inv (Run xs b) s) ->
      Inv (if fst (fin p s) then Fini xs else Fing xs) (snd (fin p s)).

  Hypothesis Hr : ready_ok.
  Hypothesis Hs : send_ok.
  Hypothesis Hf : fin_ok.

  Lemma drive_fin_inv : forall fuel xs s tr,
      (Inv (Fing xs) s \/ exists b, Inv (Run xs b) s) ->
      match drive_fin p fuel s tr with
      | (Finished, _, s') => Inv (Fini xs) s'
      | (OutOfFuel, _, s') => Inv (Fing xs) s' \/ exists b, Inv (Run xs b) s'
      | (Panicked, _, _) => False
      end.
  Proof.
    induction fuel as [|k IH]; intros xs s tr H; cbn; auto.
    pose proof (Hf H) as H1. destruct (fin p s) as [r s']. cbn in H1. destruct r; cbn in H1; auto.
    apply IH. left. exact H1.
  Qed.

  (* The state reached by the driver satisfies the invariant of the phase it reached, never
     panics, and the consumed items are a prefix of the input. *)
  Theorem drive_inv : forall fuel items xs b s tr,
      Inv (Run xs b) s ->
      match drive p fuel items s tr with
      | (Finished, _, s') => Inv (Fini (xs ++ items)) s'
      | (OutOfFuel, _, s') =>
        exists ph rest, Inv ph s' /\ ph_items ph ++ rest = xs ++ items /\
                        (forall ys, ph <> Fini ys)
      | (Panicked, _, _) => False
      end.
  Proof.
    induction fuel as [|k IH]; intros items xs b s tr H.
    - destruct items; cbn.
      + exists (Run xs b), []. repeat split; auto. congruence.
      + exists (Run xs b), (a :: items). repeat split; auto. congruence.
    - destruct items as [|a rest].
      + cbn [drive]. rewrite app_nil_r.
        pose proof (@drive_fin_inv (S k) xs s tr (or_intror (ex_intro _ b H))) as D.
        destruct (drive_fin p (S k) s tr) as [[o tr'] s']. destruct o; auto.
        destruct D as [D|[b' D]].
        * exists (Fing xs), []. rewrite app_nil_r. repeat split; auto. congruence.
        * exists (Run xs b'), []. rewrite app_nil_r. repeat split; auto. congruence.
      + cbn [drive]. pose proof (Hr H) as H1. destruct (ready p s) as [r s1]. cbn in H1.
        destruct r.
        * destruct (Hs a H1) as [s2 [E H2]]. rewrite E.
          specialize (IH rest (xs ++ [a]) false s2 (DSend :: DRdy true :: tr) H2).
          rewrite <- app_assoc in IH. cbn in IH. exact IH.
        * exact (IH (a :: rest) xs false s1 (DRdy false :: tr) H1).
  Qed.
End DriveInv.

(* ------------------------------------------------------------------ generic termination *)

Section DriveTerm.
  Context {A : Type} (p : push A).
  Variable Inv : phase A -> St p -> Prop.
  Variable mu : St p -> nat.
  Hypothesis Hr : ready_ok p Inv.
  Hypothesis Hs : send_ok p Inv.
  Hypothesis Hf : fin_ok p Inv.
  (* every Pending returned to the driver consumed a Pend of some downstream script *)
  Hypothesis Mr : forall s, mu (snd (ready p s)) + (if fst (ready p s) then 0 else 1) <= mu s.
  Hypothesis Ms : forall a s s', send p a s = Some s' -> mu s' <= mu s.
  Hypothesis Mf : forall s, mu (snd (fin p s)) + (if fst (fin p s) then 0 else 1) <= mu s.

  Lemma drive_fin_term : forall fuel s tr,
      mu s < fuel -> fst (fst (drive_fin p fuel s tr)) = Finished.
  Proof.
    induction fuel as [|k IH]; intros s tr H; [lia|]. cbn.
    pose proof (Mf s) as M. destruct (fin p s) as [r s']. cbn in M. destruct r; auto.
    apply IH. lia.
  Qed.

  (* enough fuel: one poll per item, one for finalize, one per scripted Pend *)
  Theorem drive_term : forall fuel items xs b s tr,
      Inv (Run xs b) s -> mu s + length items < fuel ->
      fst (fst (drive p fuel items s tr)) = Finished.
  Proof.
    induction fuel as [|k IH]; intros items xs b s tr H L; [lia|].
    destruct items as [|a rest].
    - cbn [drive]. apply drive_fin_term. cbn in L. lia.
    - cbn [drive]. pose proof (Hr H) as H1. pose proof (Mr s) as M.
      destruct (ready p s) as [r s1]. cbn in H1, M. destruct r.
      + destruct (Hs a H1) as [s2 [E H2]]. rewrite E. pose proof (Ms _ _ E).
        apply IH with (xs := xs ++ [a]) (b := false); auto. cbn in L. lia.
      + apply IH with (xs := xs) (b := false); auto. cbn in L |- *. lia.
  Qed.
End DriveTerm.

(* ------------------------------------------------------------------ what is claimed about one downstream *)

Definition prefix {B} (x y : list B) : Prop := exists r, x ++ r = y.

(* [l]: the downstream's log (newest first) at the end of a driver run with outcome [o];
   [ref]: reference semantics, from the consumed input items to what this downstream gets. *)
Definition down_spec {A B} (ref : list A -> list B) (items : list A) (o : outcome)
           (l : list (ev B)) : Prop :=
  wf l = true /\
  (exists xs, prefix xs items /\ prefix (sent l) (ref xs)) /\
  (o = Finished -> sent l = ref items /\ findone l = true).

(* the same, finalized at least once instead of exactly once *)
Definition down_spec_weak {A B} (ref : list A -> list B) (items : list A) (o : outcome)
           (l : list (ev B)) : Prop :=
  wfw l = true /\
  (exists xs, prefix xs items /\ prefix (sent l) (ref xs)) /\
  (o = Finished -> sent l = ref items /\ findone l = true).

Lemma down_spec_weaken : forall A B (ref : list A -> list B) items o l,
    down_spec ref items o l -> down_spec_weak ref items o l.
Proof. intros A B ref items o l [W R]. split; auto using wf_wfw. Qed.
