(* Engine "Push", sinktools part: LazySink (lazy.rs) over a scripted futures::Sink recorder --
   the item handed over while uninitialised is delivered first, nothing is lost or duplicated
   for any initializer pending count / result and any Ready/Pending/Err scripts. *)
From Coq Require Import List NArith Bool Arith Lia.
From HV Require Import Push.SinkModel Push.PBase Push.PSinkOne.
Import ListNotations.

Set Implicit Arguments.

Section Lazy.
  Context {A : Type}.
  Let K := srec A.

  (* the item LazySink holds: Thunkulating.item / Done.buf *)
  Definition held (z : @lz_st A) : list A :=
    match z with
    | LUninit _ _ => []
    | LThunk _ _ item => [item]
    | LDone (Some item) => [item]
    | LDone None => []
    end.
  Definition unborn (z : @lz_st A) : bool :=
    match z with LDone _ => false | _ => true end.
  Definition init_failed (z : @lz_st A) : bool :=
    match z with LThunk 0 false _ => true | _ => false end.

  (* [l]: log of the (future) inner sink *)
  Definition LInv (ph : sphase A) (st : lzs K) : Prop :=
    let z := fst (fst st) in
    let l := slg (snd st) in
    swf l = true /\
    (unborn z = true -> l = []) /\
    (held z <> [] -> sclosing l = false /\ soffered l = []) /\
    match ph with
    | PRun xs b => sfailed l = false /\ ssent l = soffered l /\ soffered l ++ held z = xs /\
                   sclosing l = false /\
                   (b = true -> held z = [] /\ (unborn z = true \/ srdy l = true))
    | PFl xs => sfailed l = false /\ ssent l = soffered l /\ soffered l ++ held z = xs /\
                sclosing l = false
    | PCl xs => sfailed l = false /\ ssent l = soffered l /\ soffered l ++ held z = xs /\
                sclosed l = false
    | PDone xs => sfailed l = false /\ ssent l = xs /\ soffered l = xs /\ held z = [] /\
                  (sclosed l = true \/ (unborn z = true /\ xs = []))
    | PFail xs => prefix (soffered l) xs /\ (sfailed l = true \/ init_failed z = true)
    end.

  Ltac fin_leaf :=
    repeat match goal with
           | |- _ /\ _ => split
           | |- _ -> _ => intro
           end;
    auto; try discriminate; try congruence;
    try (exists []; rewrite app_nil_r; reflexivity);
    try match goal with
        | Hh : ?X <> [] -> _ /\ _, H : ?X <> [] |- _ => destruct (Hh H); assumption
        end.

  Ltac lz_log :=
    repeat match goal with
           | H : slg ?s' = _ :: _ |- _ => rewrite H in *; clear H
           end.

  (* case analysis shared by the three operations; [t] finishes a leaf *)
  Ltac lz_cases s item :=
    let r := fresh "r" in let s1 := fresh "s1" in let L := fresh "L" in
    pose proof (srec_ready_lg s) as L; destruct (srec_ready s) as [r s1]; cbn [fst snd] in L;
    destruct r;
    [ let ok := fresh "ok" in let s2 := fresh "s2" in let E := fresh "E" in let L2 := fresh "L2" in
      destruct (srec_send_lg item s1) as [ok [s2 [E L2]]]; cbn [K srec ssend]; rewrite E; destruct ok
    | | ].

  Lemma lz_ready_ok : forall xs b st, LInv (PRun xs b) st ->
      match sready (slazy K) st with
      | (RDone, st') => LInv (PRun xs true) st'
      | (RPend, st') => LInv (PRun xs false) st'
      | (RErr, st') => LInv (PFail xs) st'
      end.
  Proof.
    intros xs b [[z c] s] [W [U [Hh [F [S [O [C R]]]]]]]. cbn [fst snd] in *.
    cbn [sready slazy lz_op]. destruct z as [n ok|n ok item|[item|]].
    - (* Uninit: lazy *) unfold LInv; cbn [fst snd held unborn] in *. fin_leaf.
    - destruct n as [|n]; [destruct ok|].
      + (* future ready, Ok *)
        cbn [K srec sready sflush sclose]. lz_cases s item.
        * pose proof (srec_ready_lg s2) as L3. destruct (srec_ready s2) as [r3 s3]. cbn [fst snd] in L3.
          rewrite (U eq_refl) in *. cbn [held app] in O.
          destruct r3; unfold LInv; cbn [fst snd held unborn init_failed]; rewrite L3, L2, L;
            ssimp; cbn [negb andb app]; subst xs; fin_leaf.
        * unfold LInv; cbn [fst snd held unborn init_failed]. rewrite (U eq_refl) in *. rewrite L2, L.
          ssimp; cbn [negb andb app held] in *; subst xs; fin_leaf.
        * unfold LInv; cbn [fst snd held unborn init_failed]. rewrite (U eq_refl) in *. rewrite L.
          ssimp; cbn [negb andb app held] in *; fin_leaf.
        * unfold LInv; cbn [fst snd held unborn init_failed]. rewrite (U eq_refl) in *. rewrite L.
          ssimp; cbn [negb andb app held] in *; fin_leaf; try (exists xs; reflexivity).
      + (* future failed *) unfold LInv; cbn [fst snd held unborn init_failed] in *.
        rewrite (U eq_refl) in *. cbn in *. fin_leaf; try (exists xs; reflexivity).
      + (* future pending *) unfold LInv; cbn [fst snd held unborn init_failed] in *. fin_leaf.
    - (* Done, first item still buffered *)
      destruct Hh as [C' O']; [cbn; discriminate|]. pose proof (sclosed_sclosing _ C') as Cd.
      rewrite O' in *. cbn [held app] in O.
      cbn [K srec sready sflush sclose]. lz_cases s item.
      + pose proof (srec_ready_lg s2) as L3. destruct (srec_ready s2) as [r3 s3]. cbn [fst snd] in L3.
        destruct r3; unfold LInv; cbn [fst snd held unborn init_failed]; rewrite L3, L2, L;
          ssimp; rewrite ?C', ?O', ?Cd, ?F, ?W, ?S; cbn [negb andb app]; subst xs; fin_leaf.
      + unfold LInv; cbn [fst snd held unborn init_failed]. rewrite L2, L.
        ssimp; rewrite ?C', ?O', ?Cd, ?F, ?W, ?S; cbn [negb andb app held] in *; subst xs; fin_leaf.
      + unfold LInv; cbn [fst snd held unborn init_failed]. rewrite L.
        ssimp; rewrite ?C', ?O', ?Cd, ?F, ?W, ?S; cbn [negb andb app held] in *; fin_leaf.
      + unfold LInv; cbn [fst snd held unborn init_failed]. rewrite L.
        ssimp; rewrite ?C', ?O', ?Cd, ?F, ?W, ?S; cbn [negb andb app held] in *; fin_leaf;
          try (exists xs; reflexivity).
    - (* Done, nothing buffered: the sink's own poll_ready *)
      pose proof (sclosed_sclosing _ C) as Cd. cbn [K srec sready].
      pose proof (srec_ready_lg s) as L. destruct (srec_ready s) as [r s1]. cbn [fst snd] in L.
      cbn [held] in O. rewrite app_nil_r in O.
      destruct r; unfold LInv; cbn [fst snd held unborn init_failed]; rewrite L;
        ssimp; rewrite ?C, ?Cd, ?F, ?W, ?S, ?O; cbn [negb andb app]; fin_leaf;
          try (rewrite app_nil_r; auto); try (exists []; rewrite app_nil_r; auto).
  Qed.

  Lemma lz_send_ok : forall xs a st, LInv (PRun xs true) st ->
      match ssend (slazy K) a st with
      | None => False
      | Some (true, st') => LInv (PRun (xs ++ [a]) false) st'
      | Some (false, st') => LInv (PFail (xs ++ [a])) st'
      end.
  Proof.
    intros xs a [[z c] s] [W [U [Hh [F [S [O [C R]]]]]]]. cbn [fst snd] in *.
    destruct (R eq_refl) as [H0 Rd]. cbn [ssend slazy lz_send].
    destruct z as [n ok|n ok item|[item|]]; cbn [held] in *; try discriminate.
    - unfold LInv; cbn [fst snd held unborn init_failed]. rewrite (U eq_refl) in *. cbn in *. subst xs.
      fin_leaf.
    - destruct Rd as [Rd|Rd]; [discriminate|]. rewrite app_nil_r in O.
      pose proof (sclosed_sclosing _ C) as Cd.
      destruct (srec_send_lg a s) as [ok [s2 [E L2]]]. cbn [K srec ssend]. rewrite E.
      destruct ok; unfold LInv; cbn [fst snd held unborn init_failed]; rewrite L2;
        ssimp; rewrite ?Rd, ?C, ?Cd, ?F, ?W, ?S, ?O; cbn [negb andb app]; fin_leaf;
          try (rewrite app_nil_r; auto); try (exists []; rewrite app_nil_r; auto).
  Qed.

  Lemma lz_flush_ok : forall xs st, (LInv (PFl xs) st \/ exists b, LInv (PRun xs b) st) ->
      match sflush (slazy K) st with
      | (RDone, st') => LInv (PCl xs) st'
      | (RPend, st') => LInv (PFl xs) st'
      | (RErr, st') => LInv (PFail xs) st'
      end.
  Proof.
    intros xs [[z c] s] H.
    assert (G : swf (slg s) = true /\ (unborn z = true -> slg s = []) /\
                (held z <> [] -> sclosing (slg s) = false /\ soffered (slg s) = []) /\
                sfailed (slg s) = false /\ ssent (slg s) = soffered (slg s) /\
                soffered (slg s) ++ held z = xs /\ sclosing (slg s) = false).
    { destruct H as [[W [U [Hh [F [S [O C]]]]]]|[b [W [U [Hh [F [S [O [C _]]]]]]]]]; cbn [fst snd] in *;
        exact (conj W (conj U (conj Hh (conj F (conj S (conj O C)))))). }
    clear H. destruct G as [W [U [Hh [F [S [O C]]]]]].
    cbn [sflush slazy lz_op]. destruct z as [n ok|n ok item|[item|]].
    - unfold LInv; cbn [fst snd held unborn] in *. rewrite (U eq_refl) in *. cbn in *. fin_leaf.
    - destruct n as [|n]; [destruct ok|].
      + cbn [K srec sready sflush sclose]. lz_cases s item.
        * pose proof (srec_flush_lg s2) as L3. destruct (srec_flush s2) as [r3 s3]. cbn [fst snd] in L3.
          rewrite (U eq_refl) in *. cbn [held app] in O.
          destruct r3; unfold LInv; cbn [fst snd held unborn init_failed]; rewrite L3, L2, L;
            ssimp; cbn [negb andb app]; subst xs; fin_leaf.
        * unfold LInv; cbn [fst snd held unborn init_failed]. rewrite (U eq_refl) in *. rewrite L2, L.
          ssimp; cbn [negb andb app held] in *; subst xs; fin_leaf.
        * unfold LInv; cbn [fst snd held unborn init_failed]. rewrite (U eq_refl) in *. rewrite L.
          ssimp; cbn [negb andb app held] in *; fin_leaf.
        * unfold LInv; cbn [fst snd held unborn init_failed]. rewrite (U eq_refl) in *. rewrite L.
          ssimp; cbn [negb andb app held] in *; fin_leaf; try (exists xs; reflexivity).
      + unfold LInv; cbn [fst snd held unborn init_failed] in *.
        rewrite (U eq_refl) in *. cbn in *. fin_leaf; try (exists xs; reflexivity).
      + unfold LInv; cbn [fst snd held unborn init_failed] in *. fin_leaf.
    - destruct Hh as [C' O']; [cbn; discriminate|]. pose proof (sclosed_sclosing _ C') as Cd.
      rewrite O' in *. cbn [held app] in O.
      cbn [K srec sready sflush sclose]. lz_cases s item.
      + pose proof (srec_flush_lg s2) as L3. destruct (srec_flush s2) as [r3 s3]. cbn [fst snd] in L3.
        destruct r3; unfold LInv; cbn [fst snd held unborn init_failed]; rewrite L3, L2, L;
          ssimp; rewrite ?C', ?O', ?Cd, ?F, ?W, ?S; cbn [negb andb app]; subst xs; fin_leaf.
      + unfold LInv; cbn [fst snd held unborn init_failed]. rewrite L2, L.
        ssimp; rewrite ?C', ?O', ?Cd, ?F, ?W, ?S; cbn [negb andb app held] in *; subst xs; fin_leaf.
      + unfold LInv; cbn [fst snd held unborn init_failed]. rewrite L.
        ssimp; rewrite ?C', ?O', ?Cd, ?F, ?W, ?S; cbn [negb andb app held] in *; fin_leaf.
      + unfold LInv; cbn [fst snd held unborn init_failed]. rewrite L.
        ssimp; rewrite ?C', ?O', ?Cd, ?F, ?W, ?S; cbn [negb andb app held] in *; fin_leaf;
          try (exists xs; reflexivity).
    - pose proof (sclosed_sclosing _ C) as Cd. cbn [K srec sflush].
      pose proof (srec_flush_lg s) as L. destruct (srec_flush s) as [r s1]. cbn [fst snd] in L.
      cbn [held] in O. rewrite app_nil_r in O.
      destruct r; unfold LInv; cbn [fst snd held unborn init_failed]; rewrite L;
        ssimp; rewrite ?C, ?Cd, ?F, ?W, ?S, ?O; cbn [negb andb app]; fin_leaf;
          try (rewrite app_nil_r; auto); try (exists []; rewrite app_nil_r; auto).
  Qed.

  Lemma lz_close_ok : forall xs st, LInv (PCl xs) st ->
      match sclose (slazy K) st with
      | (RDone, st') => LInv (PDone xs) st'
      | (RPend, st') => LInv (PCl xs) st'
      | (RErr, st') => LInv (PFail xs) st'
      end.
  Proof.
    intros xs [[z c] s] [W [U [Hh [F [S [O Cd0]]]]]]. cbn [fst snd] in *.
    cbn [sclose slazy lz_op]. destruct z as [n ok|n ok item|[item|]].
    - unfold LInv; cbn [fst snd held unborn] in *. rewrite (U eq_refl) in *. cbn in *. fin_leaf.
    - destruct n as [|n]; [destruct ok|].
      + cbn [K srec sready sflush sclose]. lz_cases s item.
        * pose proof (srec_close_lg s2) as L3. destruct (srec_close s2) as [r3 s3]. cbn [fst snd] in L3.
          rewrite (U eq_refl) in *. cbn [held app] in O.
          destruct r3; unfold LInv; cbn [fst snd held unborn init_failed]; rewrite L3, L2, L;
            ssimp; cbn [negb andb app]; subst xs; fin_leaf.
        * unfold LInv; cbn [fst snd held unborn init_failed]. rewrite (U eq_refl) in *. rewrite L2, L.
          ssimp; cbn [negb andb app held] in *; subst xs; fin_leaf.
        * unfold LInv; cbn [fst snd held unborn init_failed]. rewrite (U eq_refl) in *. rewrite L.
          ssimp; cbn [negb andb app held] in *; fin_leaf.
        * unfold LInv; cbn [fst snd held unborn init_failed]. rewrite (U eq_refl) in *. rewrite L.
          ssimp; cbn [negb andb app held] in *; fin_leaf; try (exists xs; reflexivity).
      + unfold LInv; cbn [fst snd held unborn init_failed] in *.
        rewrite (U eq_refl) in *. cbn in *. fin_leaf; try (exists xs; reflexivity).
      + unfold LInv; cbn [fst snd held unborn init_failed] in *. fin_leaf.
    - destruct Hh as [C' O']; [cbn; discriminate|]. pose proof (sclosed_sclosing _ C') as Cd.
      rewrite O' in *. cbn [held app] in O.
      cbn [K srec sready sflush sclose]. lz_cases s item.
      + pose proof (srec_close_lg s2) as L3. destruct (srec_close s2) as [r3 s3]. cbn [fst snd] in L3.
        destruct r3; unfold LInv; cbn [fst snd held unborn init_failed]; rewrite L3, L2, L;
          ssimp; rewrite ?C', ?O', ?Cd, ?F, ?W, ?S; cbn [negb andb app]; subst xs; fin_leaf.
      + unfold LInv; cbn [fst snd held unborn init_failed]. rewrite L2, L.
        ssimp; rewrite ?C', ?O', ?Cd, ?F, ?W, ?S; cbn [negb andb app held] in *; subst xs; fin_leaf.
      + unfold LInv; cbn [fst snd held unborn init_failed]. rewrite L.
        ssimp; rewrite ?C', ?O', ?Cd, ?F, ?W, ?S; cbn [negb andb app held] in *; fin_leaf.
      + unfold LInv; cbn [fst snd held unborn init_failed]. rewrite L.
        ssimp; rewrite ?C', ?O', ?Cd, ?F, ?W, ?S; cbn [negb andb app held] in *; fin_leaf;
          try (exists xs; reflexivity).
    - cbn [K srec sclose].
      pose proof (srec_close_lg s) as L. destruct (srec_close s) as [r s1]. cbn [fst snd] in L.
      cbn [held] in O. rewrite app_nil_r in O.
      destruct r; unfold LInv; cbn [fst snd held unborn init_failed]; rewrite L;
        ssimp; rewrite ?Cd0, ?F, ?W, ?S, ?O; cbn [negb andb app]; fin_leaf;
          try (rewrite app_nil_r; auto); try (exists []; rewrite app_nil_r; auto).
  Qed.

  (* FULL delivery statement for LazySink: see Props/C14.v *)
  Theorem lazy_correct : forall fuel items n ok (s0 : sds A),
      slg s0 = [] ->
      match sdrive (slazy K) fuel items (@LUninit A n ok, 0, s0) [] with
      | (o, _, st') => sresult (slazy K) LInv items o st'
      end.
  Proof.
    intros fuel items n ok s0 E.
    apply (@sdrive_inv _ (slazy K) LInv lz_ready_ok lz_send_ok lz_flush_ok lz_close_ok
                       fuel items [] false (@LUninit A n ok, 0, s0) []).
    unfold LInv. cbn [fst snd held unborn]. rewrite E. cbn. fin_leaf.
  Qed.
End Lazy.
