(* Engine "Push": more stage operators for the composition framework of PCompose.v:
   accumulate (fold / reduce / sort-state), sort, fold_keyed / reduce_keyed, for_each (terminal),
   fanout / unzip.  Each turns protocol-respecting downstream(s) into a protocol-respecting push
   with the reference function composed. *)
From Coq Require Import List NArith Bool Arith Lia.
From HV Require Import Push.Model Push.Model2 Push.PBase Push.POne Push.PFlatMap Push.PCompose.
Import ListNotations.

Set Implicit Arguments.

(* ------------------------------------------------------------------ drains *)

Section Drains.
  Context {B : Type} (p : push B) (Inv : phase B -> St p -> Prop).
  Hypothesis HP : respects p Inv.

  (* common shape: a prefix of [it] is sent, the rest is kept, the downstream stays running *)
  Definition drain_ok (it : list B) (ys : list B) (res : list B * bool * St p) : Prop :=
    match res with
    | (it', ok, s') => exists ys' b1, ys' ++ it' = ys ++ it /\ Inv (Run ys' b1) s' /\ (ok = true -> it' = [])
    end.

  Lemma acc_drain_ok : forall it ys b0 (s : St p), Inv (Run ys b0) s -> drain_ok it ys (acc_drain p it s).
  Proof.
    destruct HP as [Hr Hs Hf Hw].
    induction it as [|item it IH]; intros ys b0 s H; cbn [acc_drain].
    - pose proof (Hr _ _ _ H) as H1. destruct (ready p s) as [r s1]. cbn [fst snd] in H1.
      destruct r; exists ys; eexists; repeat split; eauto; discriminate.
    - pose proof (Hr _ _ _ H) as H1. destruct (ready p s) as [r s1]. cbn [fst snd] in H1. destruct r.
      + destruct (Hs _ item _ H1) as [s2 [E H2]]. rewrite E. specialize (IH (ys ++ [item]) false s2 H2).
        unfold drain_ok in *. destruct (acc_drain p it s2) as [[it' ok] s'].
        destruct IH as [ys' [b1 [E1 [I1 O1]]]]. exists ys', b1. rewrite E1, <- app_assoc. auto.
      + exists ys, false. repeat split; auto. discriminate.
  Qed.
End Drains.

Section Drains2.
  Context {B : Type} (p : push B) (Inv : phase B -> St p -> Prop).
  Hypothesis HP : respects p Inv.

  (* while !buf.is_empty() { ready!; pop; send }  (sort.rs, fold_keyed.rs, reduce_keyed.rs) *)
  Fixpoint plain_drain (it : list B) (s : St p) : list B * bool * St p :=
    match it with
    | [] => ([], true, s)
    | item :: it' =>
      let (r, s1) := ready p s in
      if r then match send p item s1 with
                | Some s2 => plain_drain it' s2
                | None => (it, false, s1)
                end
      else (it, false, s1)
    end.

  Lemma plain_drain_ok : forall it ys b0 (s : St p), Inv (Run ys b0) s -> @drain_ok _ p Inv it ys (plain_drain it s).
  Proof.
    destruct HP as [Hr Hs Hf Hw].
    induction it as [|item it IH]; intros ys b0 s H; cbn [plain_drain].
    - exists ys, b0. repeat split; auto.
    - pose proof (Hr _ _ _ H) as H1. destruct (ready p s) as [r s1]. cbn [fst snd] in H1. destruct r.
      + destruct (Hs _ item _ H1) as [s2 [E H2]]. rewrite E. specialize (IH (ys ++ [item]) false s2 H2).
        unfold drain_ok in *. destruct (plain_drain it s2) as [[it' ok] s'].
        destruct IH as [ys' [b1 [E1 [I1 O1]]]]. exists ys', b1. rewrite E1, <- app_assoc. auto.
      + exists ys, false. repeat split; auto. discriminate.
  Qed.
End Drains2.

Lemma sort_drain_plain : forall (p : push N) it s, sort_drain p it s = plain_drain p it s.
Proof.
  intros p it. induction it as [|x it IH]; intros s; [reflexivity|]. cbn [sort_drain plain_drain].
  destruct (ready p s) as [r s1]. destruct r; [|reflexivity]. destruct (send p x s1); [apply IH|reflexivity].
Qed.
Lemma keyed_drain_plain : forall Acc (p : push (N * Acc)) it s, keyed_drain p it s = plain_drain p it s.
Proof.
  intros Acc p it. induction it as [|x it IH]; intros s; [reflexivity|]. cbn [keyed_drain plain_drain].
  destruct (ready p s) as [r s1]. destruct r; [|reflexivity]. destruct (send p x s1); [apply IH|reflexivity].
Qed.

(* ------------------------------------------------------------------ accumulate.rs as a stage *)

Section AccStage.
  Context {A B S : Type} (accf : S -> A -> S) (outf : S -> list B) (st0 : S).
  Context (p : push B) (Inv : phase B -> St p -> Prop).
  Hypothesis HP : respects p Inv.

  Definition acc_ref (xs : list A) : list B := outf (fold_left accf xs st0).

  Definition AccInv (ph : phase A) (st : @acc_phase B S * St p) : Prop :=
    match ph with
    | Run xs b => fst st = @Accumulating B S (fold_left accf xs st0) /\ exists b0, Inv (Run [] b0) (snd st)
    | Fing xs => (exists ys rest b0, fst st = @Draining B S rest /\ ys ++ rest = acc_ref xs /\
                                     Inv (Run ys b0) (snd st)) \/
                 (fst st = @DoneP B S /\ Inv (Fing (acc_ref xs)) (snd st))
    | Fini xs => fst st = @DoneP B S /\ Inv (Fini (acc_ref xs)) (snd st)
    end.

  Lemma acc_fin_from_ok : forall xs it ys b0 (s : St p),
      ys ++ it = acc_ref xs -> Inv (Run ys b0) s ->
      match @acc_fin_from B S p it s with
      | (r, st') => AccInv (if r then Fini xs else Fing xs) st'
      end.
  Proof.
    destruct HP as [Hr Hs Hf Hw]. intros xs it ys b0 s E H. unfold acc_fin_from.
    pose proof (@acc_drain_ok _ p Inv HP it ys b0 s H) as Q. destruct (acc_drain p it s) as [[it' ok] s1].
    destruct Q as [ys' [b1 [E1 [I1 O1]]]]. destruct ok.
    - rewrite (O1 eq_refl), app_nil_r in E1. rewrite E in E1. subst ys'.
      pose proof (Hf (acc_ref xs) s1 (or_intror (ex_intro _ b1 I1))) as Q.
      destruct (fin p s1) as [r s2]. cbn [fst snd] in Q. destruct r; cbn [AccInv fst snd]; auto.
    - cbn [AccInv fst snd]. left. exists ys', it', b1. repeat split; auto. congruence.
  Qed.

  Lemma acc_respects : respects (accumulate_push accf outf p) AccInv.
  Proof.
    pose proof HP as HP'. destruct HP' as [Hr Hs Hf Hw]. split.
    - intros xs b st H. exact H.
    - intros xs a [ph s] [E [b0 I]]. cbn [fst snd] in *. subst ph. cbn [send accumulate_push fst snd].
      eexists. split; [reflexivity|]. cbn [AccInv fst snd]. rewrite fold_left_app. cbn. eauto.
    - intros xs [ph s] H. cbn [fin accumulate_push fst snd].
      destruct H as [[[ys [rest [b0 [E [E2 I]]]]]|[E I]]|[b [E [b0 I]]]]; cbn [fst snd] in *; subst ph.
      + pose proof (@acc_fin_from_ok xs rest ys b0 s E2 I) as Q.
        destruct (@acc_fin_from B S p rest s) as [r st']. exact Q.
      + pose proof (Hf (acc_ref xs) s (or_introl I)) as Q. destruct (fin p s) as [r s2]. cbn [fst snd] in *.
        destruct r; cbn [AccInv fst snd]; auto.
      + pose proof (@acc_fin_from_ok xs (outf (fold_left accf xs st0)) [] b0 s eq_refl I) as Q.
        destruct (@acc_fin_from B S p (outf (fold_left accf xs st0)) s) as [r st']. exact Q.
    - intros xs st H. exact H.
  Qed.

End AccStage.

(* ------------------------------------------------------------------ for_each.rs / vec_push.rs: terminal base case *)

Definition FEInv {A} (ph : phase A) (s : list A) : Prop := rev s = ph_items ph.

Lemma for_each_respects : forall A, respects (for_each_push A) (@FEInv A).
Proof.
  intros A. split.
  - intros xs b s H. exact H.
  - intros xs a s H. eexists. split; [reflexivity|]. unfold FEInv in *. cbn in *. rewrite H. reflexivity.
  - intros xs s H. cbn. unfold FEInv in *. destruct H as [H|[b H]]; exact H.
  - intros xs s H. exact H.
Qed.

(* ------------------------------------------------------------------ fanout.rs / unzip.rs as stages *)

Section TwoStage.
  Context {C A B : Type} (h : C -> A * B).
  Context (p0 : push A) (Inv0 : phase A -> St p0 -> Prop) (p1 : push B) (Inv1 : phase B -> St p1 -> Prop).
  Hypothesis H0 : respects p0 Inv0.
  Hypothesis H1 : respects p1 Inv1.

  Definition r0 (xs : list C) : list A := map (fun c => fst (h c)) xs.
  Definition r1 (xs : list C) : list B := map (fun c => snd (h c)) xs.

  (* one side while finalizing: finalized (flag) or not yet *)
  Definition side {X} (p : push X) (Inv : phase X -> St p -> Prop) (ref : list X) (d : bool) (s : St p) : Prop :=
    if d then Inv (Fini ref) s else (Inv (Fing ref) s \/ exists b, Inv (Run ref b) s).

  Definition TwoInv (ph : phase C) (st : once_st p0 p1) : Prop :=
    match ph with
    | Run xs b => fst st = (false, false) /\
                  exists b0 b1, Inv0 (Run (r0 xs) b0) (fst (snd st)) /\ Inv1 (Run (r1 xs) b1) (snd (snd st)) /\
                                (b = true -> b0 = true /\ b1 = true)
    | Fing xs => side p0 Inv0 (r0 xs) (fst (fst st)) (fst (snd st)) /\
                 side p1 Inv1 (r1 xs) (snd (fst st)) (snd (snd st))
    | Fini xs => fst st = (true, true) /\ Inv0 (Fini (r0 xs)) (fst (snd st)) /\ Inv1 (Fini (r1 xs)) (snd (snd st))
    end.

  Definition two_stage : push C :=
    mkpush (St := once_st p0 p1)
           (fun s => let (r, s') := both_ready p0 p1 (snd s) in (r, (fst s, s')))
           (fun c s => match unzip_send p0 p1 (h c) (snd s) with
                       | Some s' => Some (fst s, s') | None => None end)
           (@both_fin _ _ p0 p1).

  Lemma side_fin : forall X (p : push X) Inv (HR : respects p Inv) ref d (s : St p),
      side p Inv ref d s ->
      let res := if d then (true, s) else fin p s in
      side p Inv ref (fst res) (snd res).
  Proof.
    intros X p Inv [Hr Hs Hf Hw] ref d s H. destruct d; cbn [fst snd]; auto.
    unfold side in *. pose proof (Hf ref s H) as Q. destruct (fin p s) as [r s']. cbn [fst snd] in *.
    destruct r; auto.
  Qed.

  Lemma two_respects : respects two_stage TwoInv.
  Proof.
    pose proof H0 as [Hr0 Hs0 Hf0 Hw0]. pose proof H1 as [Hr1 Hs1 Hf1 Hw1]. split.
    - intros xs b [[d0 d1] [s0 s1]] [E [b0 [b1 [I0 [I1 R]]]]]. cbn [fst snd] in *.
      cbn [ready two_stage fst snd]. unfold both_ready. cbn [fst snd].
      pose proof (Hr0 _ _ _ I0) as Q0. pose proof (Hr1 _ _ _ I1) as Q1.
      destruct (ready p0 s0) as [a s0']. destruct (ready p1 s1) as [c s1']. cbn [fst snd TwoInv] in *.
      split; auto. exists a, c. repeat split; auto; apply andb_prop in H; tauto.
    - intros xs c [[d0 d1] [s0 s1]] [E [b0 [b1 [I0 [I1 R]]]]]. cbn [fst snd] in *.
      destruct (R eq_refl) as [E0 E1]. subst b0 b1.
      cbn [send two_stage fst snd]. unfold unzip_send. cbn [fst snd].
      destruct (Hs0 _ (fst (h c)) _ I0) as [s0' [Q0 J0]]. rewrite Q0.
      destruct (Hs1 _ (snd (h c)) _ I1) as [s1' [Q1 J1]]. rewrite Q1.
      eexists. split; [reflexivity|]. cbn [TwoInv fst snd]. split; auto. exists false, false.
      unfold r0, r1. rewrite !map_app. cbn [map]. repeat split; auto; discriminate.
    - intros xs [[d0 d1] [s0 s1]] H. cbn [fin two_stage]. unfold both_fin. cbn [fst snd].
      assert (G : side p0 Inv0 (r0 xs) d0 s0 /\ side p1 Inv1 (r1 xs) d1 s1).
      { destruct H as [[G0 G1]|[b [E [b0 [b1 [I0 [I1 _]]]]]]]; cbn [fst snd] in *; auto.
        inversion E. subst. unfold side. split; right; eauto. }
      destruct G as [G0 G1].
      pose proof (side_fin H0 _ _ _ G0) as Q0. pose proof (side_fin H1 _ _ _ G1) as Q1. cbn zeta in Q0, Q1.
      destruct (if d0 then (true, s0) else fin p0 s0) as [a s0'].
      destruct (if d1 then (true, s1) else fin p1 s1) as [c s1']. cbn [fst snd] in *.
      destruct a, c; cbn [andb TwoInv fst snd]; auto.
    - intros xs st [E [b0 [b1 [I0 [I1 R]]]]]. split; auto. exists b0, b1. repeat split; auto; discriminate.
  Qed.
End TwoStage.

Lemma unzip_stage : forall A B (p0 : push A) Inv0 (p1 : push B) Inv1,
    respects p0 Inv0 -> respects p1 Inv1 ->
    respects (unzip_push p0 p1) (TwoInv (fun c : A * B => c) Inv0 Inv1).
Proof. intros. exact (two_respects (fun c : A * B => c) H H0). Qed.

Lemma fanout_stage : forall A (p0 : push A) Inv0 (p1 : push A) Inv1,
    respects p0 Inv0 -> respects p1 Inv1 ->
    respects (fanout_push p0 p1) (TwoInv (fun a : A => (a, a)) Inv0 Inv1).
Proof. intros. exact (two_respects (fun a : A => (a, a)) H H0). Qed.

(* ------------------------------------------------------------------ sort.rs as a stage *)

Section SortStage.
  Context (p : push N) (Inv : phase N -> St p -> Prop).
  Hypothesis HP : respects p Inv.

  Definition SortInv (ph : phase N) (st : sort_st p) : Prop :=
    match ph with
    | Run xs b => fst st = (xs, false) /\ exists b0, Inv (Run [] b0) (snd st)
    | Fing xs => (exists ys rest b0, fst st = (rest, true) /\ ys ++ rest = sortN xs /\ Inv (Run ys b0) (snd st)) \/
                 (fst st = ([], true) /\ Inv (Fing (sortN xs)) (snd st))
    | Fini xs => fst st = ([], true) /\ Inv (Fini (sortN xs)) (snd st)
    end.

  Lemma sort_fin_ok : forall xs it ys b0 (s : St p),
      ys ++ it = sortN xs -> Inv (Run ys b0) s ->
      match (match sort_drain p it s with
             | (_, true, s1) => let (r, s2) := fin p s1 in (r, (([], true), s2))
             | (it', false, s1) => (false, ((it', true), s1))
             end) with
      | (r, st') => SortInv (if r then Fini xs else Fing xs) st'
      end.
  Proof.
    destruct HP as [Hr Hs Hf Hw]. intros xs it ys b0 s E H. rewrite sort_drain_plain.
    pose proof (@plain_drain_ok _ p Inv HP it ys b0 s H) as Q. destruct (plain_drain p it s) as [[it' ok] s1].
    destruct Q as [ys' [b1 [E1 [I1 O1]]]]. destruct ok.
    - rewrite (O1 eq_refl), app_nil_r in E1. rewrite E in E1. subst ys'.
      pose proof (Hf (sortN xs) s1 (or_intror (ex_intro _ b1 I1))) as Q.
      destruct (fin p s1) as [r s2]. cbn [fst snd] in Q. destruct r; cbn [SortInv fst snd]; auto.
    - cbn [SortInv fst snd]. left. exists ys', it', b1. repeat split; auto. congruence.
  Qed.

  Lemma sort_respects : respects (sort_push p) SortInv.
  Proof.
    pose proof HP as HP'. destruct HP' as [Hr Hs Hf Hw]. split.
    - intros xs b st H. exact H.
    - intros xs a [[buf sd] s] [E [b0 I]]. cbn [fst snd] in *. inversion E. subst.
      cbn [send sort_push fst snd]. eexists. split; [reflexivity|]. cbn [SortInv fst snd]. eauto.
    - intros xs [[buf sd] s] H. cbn [fin sort_push fst snd].
      destruct H as [[[ys [rest [b0 [E [E2 I]]]]]|[E I]]|[b [E [b0 I]]]]; cbn [fst snd] in *; inversion E; subst.
      + pose proof (@sort_fin_ok xs rest ys b0 s E2 I) as Q.
        destruct (sort_drain p rest s) as [[it' ok] s1]. destruct ok.
        * destruct (fin p s1) as [r s2]. exact Q.
        * exact Q.
      + cbn [sort_drain]. pose proof (Hf (sortN xs) s (or_introl I)) as Q. destruct (fin p s) as [r s2].
        cbn [fst snd] in *. destruct r; cbn [SortInv fst snd]; auto.
      + pose proof (@sort_fin_ok xs (sortN xs) [] b0 s eq_refl I) as Q.
        destruct (sort_drain p (sortN xs) s) as [[it' ok] s1]. destruct ok.
        * destruct (fin p s1) as [r s2]. exact Q.
        * exact Q.
    - intros xs st H. exact H.
  Qed.
End SortStage.

(* ------------------------------------------------------------------ fold_keyed.rs / reduce_keyed.rs as stages *)

Section KeyedStage.
  Context {V Acc : Type} (upd : V -> option Acc -> Acc) (ord : list N).
  Context (p : push (N * Acc)) (Inv : phase (N * Acc) -> St p -> Prop).
  Hypothesis HP : respects p Inv.

  Definition kmap (xs : list (N * V)) : list (N * Acc) :=
    fold_left (fun m kv => kupd (fst kv) (upd (snd kv)) m) xs [].
  (* what is delivered: the final map's entries in the oracle's order *)
  Definition kref (xs : list (N * V)) : list (N * Acc) := emit_order ord (kmap xs).

  Definition KInv (ph : phase (N * V)) (st : keyed_st p) : Prop :=
    match ph with
    | Run xs b => fst st = (kmap xs, [], false) /\ exists b0, Inv (Run [] b0) (snd st)
    | Fing xs => (exists ys rest b0, fst st = (kmap xs, rest, true) /\ ys ++ rest = kref xs /\
                                     Inv (Run ys b0) (snd st)) \/
                 (fst st = (kmap xs, [], true) /\ Inv (Fing (kref xs)) (snd st))
    | Fini xs => fst st = (kmap xs, [], false) /\ Inv (Fini (kref xs)) (snd st)
    end.

  Lemma keyed_fin_ok : forall xs it ys b0 (s : St p),
      ys ++ it = kref xs -> Inv (Run ys b0) s ->
      match (match keyed_drain p it s with
             | (_, true, s1) => let (r, s2) := fin p s1 in (r, ((kmap xs, [], if r then false else true), s2))
             | (it', false, s1) => (false, ((kmap xs, it', true), s1))
             end) with
      | (r, st') => KInv (if r then Fini xs else Fing xs) st'
      end.
  Proof.
    destruct HP as [Hr Hs Hf Hw]. intros xs it ys b0 s E H. rewrite keyed_drain_plain.
    pose proof (@plain_drain_ok _ p Inv HP it ys b0 s H) as Q. destruct (plain_drain p it s) as [[it' ok] s1].
    destruct Q as [ys' [b1 [E1 [I1 O1]]]]. destruct ok.
    - rewrite (O1 eq_refl), app_nil_r in E1. rewrite E in E1. subst ys'.
      pose proof (Hf (kref xs) s1 (or_intror (ex_intro _ b1 I1))) as Q.
      destruct (fin p s1) as [r s2]. cbn [fst snd] in Q. destruct r; cbn [KInv fst snd]; auto.
    - cbn [KInv fst snd]. left. exists ys', it', b1. repeat split; auto. congruence.
  Qed.

  Lemma keyed_respects : respects (keyed_push p upd ord) KInv.
  Proof.
    pose proof HP as HP'. destruct HP' as [Hr Hs Hf Hw]. split.
    - intros xs b st H. exact H.
    - intros xs a [[[m fl] ix] s] [E [b0 I]]. cbn [fst snd] in *. inversion E. subst.
      cbn [send keyed_push fst snd]. eexists. split; [reflexivity|]. cbn [KInv fst snd].
      unfold kmap. rewrite fold_left_app. cbn. eauto.
    - intros xs [[[m fl] ix] s] H. cbn [fin keyed_push fst snd].
      destruct H as [[[ys [rest [b0 [E [E2 I]]]]]|[E I]]|[b [E [b0 I]]]]; cbn [fst snd] in *; inversion E; subst.
      + assert (X : match rest, true with [], false => emit_order ord (kmap xs) | _, _ => rest end = rest)
          by (destruct rest; reflexivity). rewrite X.
        pose proof (@keyed_fin_ok xs rest ys b0 s E2 I) as Q.
        destruct (keyed_drain p rest s) as [[it' ok] s1]. destruct ok.
        * destruct (fin p s1) as [r s2]. exact Q.
        * exact Q.
      + cbn [keyed_drain]. pose proof (Hf (kref xs) s (or_introl I)) as Q. destruct (fin p s) as [r s2].
        cbn [fst snd] in *. destruct r; cbn [KInv fst snd]; auto.
      + pose proof (@keyed_fin_ok xs (kref xs) [] b0 s eq_refl I) as Q. change (kref xs) with (emit_order ord (kmap xs)) in Q.
        destruct (keyed_drain p (emit_order ord (kmap xs)) s) as [[it' ok] s1]. destruct ok.
        * destruct (fin p s1) as [r s2]. exact Q.
        * exact Q.
    - intros xs st H. exact H.
  Qed.
End KeyedStage.

(* ------------------------------------------------------------------ persist.rs as a stage *)

Section PersistStage.
  Context {B : Type} (pre0 rest0 : list B).     (* initial buffer = pre0 ++ rest0, rest0 to be replayed *)
  Context (p : push B) (Inv : phase B -> St p -> Prop).
  Hypothesis HP : respects p Inv.

  (* downstream receives the replayed part, then the items; the buffer ends as everything *)
  Definition pers_ref (xs : list B) : list B := rest0 ++ xs.

  Definition PInv (ph : phase B) (st : pers_st p) : Prop :=
    let dn := fst (fst st) in let rest := snd (fst st) in
    dn ++ rest = pre0 ++ rest0 ++ ph_items ph /\
    match ph with
    | Run xs b => exists ys b0, ys ++ rest = pers_ref xs /\ Inv (Run ys b0) (snd st) /\
                                (b = true -> rest = [] /\ b0 = true)
    | Fing xs => (exists ys b0, ys ++ rest = pers_ref xs /\ Inv (Run ys b0) (snd st)) \/
                 (rest = [] /\ Inv (Fing (pers_ref xs)) (snd st))
    | Fini xs => rest = [] /\ Inv (Fini (pers_ref xs)) (snd st)
    end.

  Lemma pers_replay_ok : forall rest dn ys b0 (s : St p),
      Inv (Run ys b0) s ->
      match pers_replay p dn rest s with
      | ((dn', rest'), ok, s') =>
        dn' ++ rest' = dn ++ rest /\
        exists ys' b1, ys' ++ rest' = ys ++ rest /\ Inv (Run ys' b1) s' /\ (ok = true -> rest' = []) /\
                       (rest = [] -> b1 = b0)
      end.
  Proof.
    destruct HP as [Hr Hs Hf Hw].
    induction rest as [|item rest IH]; intros dn ys b0 s H; cbn [pers_replay].
    - split; auto. exists ys, b0. repeat split; auto.
    - pose proof (Hr _ _ _ H) as H1. destruct (ready p s) as [r s1]. cbn [fst snd] in H1. destruct r.
      + destruct (Hs _ item _ H1) as [s2 [E H2]]. rewrite E.
        specialize (IH (dn ++ [item]) (ys ++ [item]) false s2 H2).
        destruct (pers_replay p (dn ++ [item]) rest s2) as [[[dn' rest'] ok] s'].
        destruct IH as [E0 [ys' [b1 [E1 [I1 [O1 _]]]]]]. rewrite <- !app_assoc in *. cbn [app] in *.
        split; auto. exists ys', b1. repeat split; auto. discriminate.
      + split; auto. exists ys, false. repeat split; auto; discriminate.
  Qed.

  Lemma persist_respects : respects (persist_push p) PInv.
  Proof.
    pose proof HP as HP'. destruct HP' as [Hr Hs Hf Hw].
    assert (RDY : forall X dn rest s ys b0, dn ++ rest = X -> Inv (Run ys b0) s ->
               forall r st', ready (persist_push p) ((dn, rest), s) = (r, st') ->
                             fst (fst st') ++ snd (fst st') = X /\
                             exists ys' b1, ys' ++ snd (fst st') = ys ++ rest /\ Inv (Run ys' b1) (snd st') /\
                                            (r = true -> snd (fst st') = [] /\ b1 = true)).
    { intros X dn rest s ys b0 E I r st'. unfold persist_push. cbn [ready fst snd].
      pose proof (@pers_replay_ok rest dn ys b0 s I) as Q.
      destruct (pers_replay p dn rest s) as [[[dn' rest'] ok] s1]. destruct Q as [E0 [ys' [b1 [E1 [I1 [O1 _]]]]]].
      destruct ok.
      - pose proof (Hr _ _ _ I1) as H2. destruct (ready p s1) as [r2 s2]. cbn [fst snd] in *.
        intro X0. inversion X0. subst. cbn [fst snd]. split; [congruence|]. exists ys', r. repeat split; auto.
      - intro X0. inversion X0. subst. cbn [fst snd]. split; [congruence|]. exists ys', b1.
        repeat split; auto; discriminate. }
    split.
    - intros xs b [[dn rest] s] [E [ys [b0 [E1 [I R]]]]]. cbn [fst snd ph_items] in *.
      destruct (ready (persist_push p) ((dn, rest), s)) as [r st'] eqn:RR.
      destruct (RDY _ dn rest s ys b0 E I r st' RR) as [E0 [ys' [b1 [E2 [I2 R2]]]]]. cbn [fst snd].
      split; auto. exists ys', b1. repeat split; auto; try apply R2; auto. congruence.
    - intros xs a [[dn rest] s] [E [ys [b0 [E1 [I R]]]]]. cbn [fst snd ph_items] in *.
      destruct (R eq_refl) as [N1 N2]. subst rest b0. cbn [send persist_push fst snd].
      destruct (Hs _ a _ I) as [s2 [Q J]]. rewrite Q. eexists. split; [reflexivity|].
      unfold PInv, pers_ref in *. cbn [fst snd ph_items]. rewrite !app_nil_r in *. subst ys dn.
      split; [rewrite <- !app_assoc; reflexivity|]. exists ((rest0 ++ xs) ++ [a]), false.
      rewrite !app_nil_r. repeat split; auto; try congruence. rewrite <- app_assoc. reflexivity.
    - intros xs [[dn rest] s] H. cbn [fin persist_push fst snd].
      destruct H as [[E [[ys [b0 [E1 I]]]|[N I]]]|[b [E [ys [b0 [E1 [I _]]]]]]]; cbn [fst snd ph_items] in *.
      + pose proof (@pers_replay_ok rest dn ys b0 s I) as Q.
        destruct (pers_replay p dn rest s) as [[[dn' rest'] ok] s1]. destruct Q as [E0 [ys' [b1 [E2 [I2 [O2 _]]]]]].
        destruct ok.
        * rewrite (O2 eq_refl) in *. rewrite app_nil_r in E2. rewrite E1 in E2. subst ys'.
          pose proof (Hf (pers_ref xs) s1 (or_intror (ex_intro _ b1 I2))) as Q.
          destruct (fin p s1) as [r s2]. cbn [fst snd] in *.
          destruct r; unfold PInv; cbn [fst snd ph_items]; (split; [congruence|]); auto.
        * unfold PInv. cbn [fst snd ph_items]. split; [congruence|]. left. exists ys', b1. split; auto. congruence.
      + subst rest. cbn [pers_replay]. pose proof (Hf (pers_ref xs) s (or_introl I)) as Q.
        destruct (fin p s) as [r s2]. cbn [fst snd] in *.
        destruct r; unfold PInv; cbn [fst snd ph_items]; (split; [auto|]); auto.
      + pose proof (@pers_replay_ok rest dn ys b0 s I) as Q.
        destruct (pers_replay p dn rest s) as [[[dn' rest'] ok] s1]. destruct Q as [E0 [ys' [b1 [E2 [I2 [O2 _]]]]]].
        destruct ok.
        * rewrite (O2 eq_refl) in *. rewrite app_nil_r in E2. rewrite E1 in E2. subst ys'.
          pose proof (Hf (pers_ref xs) s1 (or_intror (ex_intro _ b1 I2))) as Q.
          destruct (fin p s1) as [r s2]. cbn [fst snd] in *.
          destruct r; unfold PInv; cbn [fst snd ph_items]; (split; [congruence|]); auto.
        * unfold PInv. cbn [fst snd ph_items]. split; [congruence|]. left. exists ys', b1. split; auto. congruence.
    - intros xs [[dn rest] s] [E [ys [b0 [E1 [I R]]]]]. split; auto. exists ys, b0. repeat split; auto; discriminate.
  Qed.
End PersistStage.

(* ------------------------------------------------------------------ resolve_futures.rs as a stage (both modes) *)

Section ResolveStage.
  Context {B : Type} (w : bool) (p : push B) (Inv : phase B -> St p -> Prop).
  Hypothesis HP : respects p Inv.

  (* outputs in the order the futures were sent; with a subgraph waker ([w = true]) futures
     that are still pending when finalization begins stay queued for a later tick *)
  Definition rf_ref (xs : list (@fut B)) : list B := map fst xs.

  Definition RInv (ph : phase (@fut B)) (st : bool * rf_st p) : Prop :=
    let q := fst (snd st) in let s := snd (snd st) in
    match ph with
    | Run xs b => fst st = false /\
                  exists ys b0, ys ++ map fst q = rf_ref xs /\ Inv (Run ys b0) s /\
                                (b = true -> b0 = true /\ (w = false -> q = []))
    | Fing xs => (fst st = false /\ exists ys b0, ys ++ map fst q = rf_ref xs /\ Inv (Run ys b0) s) \/
                 (fst st = true /\ exists ys, ys ++ map fst q = rf_ref xs /\ Inv (Fing ys) s /\ (w = false -> q = []))
    | Fini xs => fst st = true /\ exists ys, ys ++ map fst q = rf_ref xs /\ Inv (Fini ys) s /\ (w = false -> q = [])
    end.

  Lemma q_poll_vals : forall q : list (@fut B),
      match q_poll q with
      | (Some (Some out), q') => map fst q = out :: map fst q'
      | (Some None, q') => q = [] /\ q' = []
      | (None, q') => map fst q' = map fst q
      end.
  Proof. destruct q as [|[v [|n]] r]; cbn; auto. Qed.

  Lemma rf_empty_ok : forall fuel q ys b0 (s : St p),
      Inv (Run ys b0) s ->
      match rf_empty p w fuel q s with
      | (r, (q', s')) => exists ys' b1, ys' ++ map fst q' = ys ++ map fst q /\ Inv (Run ys' b1) s' /\
                                        (r = true -> b1 = true /\ (w = false -> q' = []))
      end.
  Proof.
    destruct HP as [Hr Hs Hf Hw].
    induction fuel as [|k IH]; intros q ys b0 s H; cbn [rf_empty].
    - exists ys, b0. repeat split; auto; discriminate.
    - pose proof (Hr _ _ _ H) as H1. destruct (ready p s) as [r s1]. cbn [fst snd] in H1. destruct r.
      + destruct q as [|[v n] q']; cbn [q_poll].
        * exists ys, true. repeat split; auto.
        * destruct n as [|n].
          -- destruct (Hs _ v _ H1) as [s2 [E H2]]. rewrite E. specialize (IH q' (ys ++ [v]) false s2 H2).
             destruct (rf_empty p w k q' s2) as [r [q2 s3]]. destruct IH as [ys' [b1 [E1 [I1 R1]]]].
             exists ys', b1. cbn [map fst]. rewrite E1, <- app_assoc. repeat split; auto; apply R1; auto.
          -- exists ys, true. cbn [map fst]. repeat split; auto. intro Ew. congruence.
      + exists ys, false. repeat split; auto; discriminate.
  Qed.

  Lemma resolve_respects : respects (resolve_push p w) RInv.
  Proof.
    pose proof HP as HP'. destruct HP' as [Hr Hs Hf Hw]. split.
    - intros xs b [fl [q s]] [F [ys [b0 [E [I R]]]]]. cbn [fst snd] in *. cbn [ready resolve_push fst snd].
      pose proof (@rf_empty_ok (S (length q)) q ys b0 s I) as Q.
      destruct (rf_empty p w (S (length q)) q s) as [r [q' s']]. destruct Q as [ys' [b1 [E1 [I1 R1]]]].
      cbn [fst snd RInv]. split; auto. exists ys', b1. repeat split; auto; try apply R1; auto. congruence.
    - intros xs f [fl [q s]] [F [ys [b0 [E [I R]]]]]. cbn [fst snd] in *. destruct (R eq_refl) as [N1 N2]. subst b0.
      cbn [send resolve_push fst snd]. unfold rf_send. cbn [fst snd]. destruct w.
      + (* subgraph waker: the queue is polled once *)
        pose proof (q_poll_vals (q ++ [f])) as P. rewrite map_app in P. change (map fst [f]) with [fst f] in P.
        assert (X : rf_ref (xs ++ [f]) = ys ++ map fst q ++ [fst f]).
        { transitivity ((ys ++ map fst q) ++ [fst f]); [|rewrite <- app_assoc; reflexivity].
          rewrite E. unfold rf_ref. rewrite map_app. reflexivity. }
        destruct (q_poll (q ++ [f])) as [[[out|]|] q'].
        * destruct (Hs _ out _ I) as [s2 [Q J]]. rewrite Q. eexists. split; [reflexivity|].
          cbn [RInv fst snd]. split; auto. exists (ys ++ [out]), false. rewrite X.
          split; [rewrite <- app_assoc; cbn [app]; f_equal; exact (eq_sym P)|].
          repeat split; auto; discriminate.
        * destruct P as [P _]. destruct q; discriminate.
        * eexists. split; [reflexivity|]. cbn [RInv fst snd]. split; auto. exists ys, false. rewrite X.
          split; [f_equal; exact P|]. repeat split; auto; try discriminate.
      + (* blocking mode: the future is only queued *)
        rewrite (N2 eq_refl) in *. eexists. split; [reflexivity|]. cbn [RInv fst snd app map].
        split; auto. exists ys, false. unfold rf_ref in *. rewrite map_app. cbn [map fst] in *.
        rewrite app_nil_r in *. subst ys. repeat split; auto; discriminate.
    - intros xs [fl [q s]] H. cbn [fin resolve_push fst snd].
      destruct H as [[[F [ys [b0 [E I]]]]|[F [ys [E [I Q]]]]]|[b [F [ys [b0 [E [I _]]]]]]]; cbn [fst snd] in *; subst fl.
      + pose proof (@rf_empty_ok (S (length q)) q ys b0 s I) as Q.
        destruct (rf_empty p w (S (length q)) q s) as [r [q' s']]. destruct Q as [ys' [b1 [E1 [I1 R1]]]].
        destruct r.
        * destruct (R1 eq_refl) as [N1 N2]. subst b1.
          pose proof (Hf ys' s' (or_intror (ex_intro _ true I1))) as Q.
          destruct (fin p s') as [r2 s2]. cbn [fst snd] in *.
          destruct r2; cbn [RInv fst snd]; [|right]; (split; auto; exists ys'; repeat split; auto; congruence).
        * cbn [fst snd RInv]. left. split; auto. exists ys', b1. split; auto. congruence.
      + pose proof (Hf ys s (or_introl I)) as Q2. destruct (fin p s) as [r2 s2]. cbn [fst snd] in *.
        destruct r2; cbn [RInv fst snd]; [|right]; (split; auto; exists ys; repeat split; auto).
      + pose proof (@rf_empty_ok (S (length q)) q ys b0 s I) as Q.
        destruct (rf_empty p w (S (length q)) q s) as [r [q' s']]. destruct Q as [ys' [b1 [E1 [I1 R1]]]].
        destruct r.
        * destruct (R1 eq_refl) as [N1 N2]. subst b1.
          pose proof (Hf ys' s' (or_intror (ex_intro _ true I1))) as Q.
          destruct (fin p s') as [r2 s2]. cbn [fst snd] in *.
          destruct r2; cbn [RInv fst snd]; [|right]; (split; auto; exists ys'; repeat split; auto; congruence).
        * cbn [fst snd RInv]. left. split; auto. exists ys', b1. split; auto. congruence.
    - intros xs st [F [ys [b0 [E [I R]]]]]. split; auto. exists ys, b0. repeat split; auto; discriminate.
  Qed.
End ResolveStage.

(* ------------------------------------------------------------------ recorder-facing corollaries *)

(* accumulate (fold / reduce / sort-state) straight over a recorder *)
Theorem accumulate_correct : forall A B S (accf : S -> A -> S) (outf : S -> list B) st0 fuel items rs0 fs0,
    match drive (accumulate_push accf outf (rec_push B)) fuel items (@Accumulating B S st0, mkds rs0 fs0 []) [] with
    | (o, _, s') =>
      o <> Panicked /\
      (o = Finished -> wf (lg (snd s')) = true /\ findone (lg (snd s')) = true /\
                       sent (lg (snd s')) = outf (fold_left accf items st0))
    end.
Proof.
  intros.
  pose proof (acc_respects accf outf st0 (@rec_respects B)) as R.
  pose proof (@respects_drive _ _ _ R fuel items (@Accumulating B S st0, mkds rs0 fs0 [])) as D.
  destruct (drive (accumulate_push accf outf (rec_push B)) fuel items (@Accumulating B S st0, mkds rs0 fs0 []) [])
    as [[o tr] s'].
  match type of D with ?P -> _ => assert (I0 : P) end.
  { cbn [AccInv fst snd fold_left]. split; auto. exists false. unfold RecInv, Inv1. cbn. repeat split; auto; discriminate. }
  specialize (D I0). destruct o.
  - split; [discriminate|]. intros _. destruct D as [_ [W [Dn Sn]]]. unfold acc_ref in Sn. auto.
  - split; [discriminate|]. intro E. discriminate.
  - contradiction.
Qed.

(* filter q -> fanout(map f -> recorder 0, fold -> recorder 1): the pipeline the correspondence
   check also runs (CPipeFFF), by composing fanout, map, accumulate and filter stages *)
Theorem pipe_filter_fanout_fold_correct :
  forall A B (q : A -> bool) (f : A -> B) (comb : A -> A -> A) init fuel items ra fa rb fb,
    match drive (filter_push (fanout_push (map_push (rec_push B) f)
                                          (accumulate_push comb (@fold_outf A) (rec_push A))) q)
                fuel items ((false, false), (mkds ra fa [], (@Accumulating A A init, mkds rb fb []))) [] with
    | (o, _, s') =>
      o <> Panicked /\
      (o = Finished ->
       let l0 := lg (fst (snd s')) in let l1 := lg (snd (snd (snd s'))) in
       wf l0 = true /\ findone l0 = true /\ sent l0 = map f (filter q items) /\
       wf l1 = true /\ findone l1 = true /\ sent l1 = [fold_left comb (filter q items) init])
    end.
Proof.
  intros.
  pose proof (map_stage f (@rec_respects B)) as R0.
  pose proof (acc_respects comb (@fold_outf A) init (@rec_respects A)) as R1.
  pose proof (fanout_stage R0 R1) as R2.
  pose proof (filter_stage q R2) as R3.
  pose proof (@respects_drive _ _ _ R3 fuel items
                              ((false, false), (mkds ra fa [], (@Accumulating A A init, mkds rb fb [])))) as D.
  match type of D with ?P -> _ => assert (I0 : P) end.
  { unfold SLInv, TwoInv, AccInv, RecInv, Inv1. cbn. split; auto. exists false, false.
    repeat split; auto; try discriminate; try (exists false; cbn; repeat split; auto; discriminate). }
  specialize (D I0).
  destruct (drive (filter_push (fanout_push (map_push (rec_push B) f)
                                            (accumulate_push comb (@fold_outf A) (rec_push A))) q)
                  fuel items ((false, false), (mkds ra fa [], (@Accumulating A A init, mkds rb fb []))) [])
    as [[o tr] s']. destruct o.
  - split; [discriminate|]. intros _. unfold SLInv in D. cbn [pmap TwoInv] in D.
    destruct D as [_ [[W0 [D0 S0]] [_ [W1 [D1 S1]]]]]. cbn [SLInv pmap] in *.
    unfold r0, r1 in *. cbn [fst snd] in *. rewrite fm_ref_filter in *.
    unfold acc_ref, fold_outf in S1.
    rewrite fm_ref_map in S0. repeat split; auto.
    + rewrite S0. rewrite map_map. reflexivity.
    + assert (M : forall l : list A, map (fun c : A => c) l = l) by (induction l; cbn; congruence).
      eapply eq_trans; [exact S1|]. rewrite M. reflexivity.
  - split; [discriminate|]. intro E. discriminate.
  - contradiction.
Qed.

(* HISTORY (fixed finding resolve_futures/start_send-after-poll_finalize-began): before /repo
   5464049ec0b ResolveFutures with a subgraph waker (Model2.resolve_old_push) sent after the
   downstream's poll_finalize had been called. *)
Lemma resolve_old_waker_refuted :
  match drive (resolve_old_push (rec_push N) true) 20 [(9%N, 2)] ([], mkds [true; false] [false] []) [] with
  | (o, _, s') => o = Finished /\ wf (lg (snd s')) = false /\
                  lg (snd s') = [EFin true; ERdy true; ESend 9%N; ERdy true; EFin false; ERdy true; ERdy false; ERdy true]
  end.
Proof. vm_compute. auto. Qed.

(* the same witness on the code as it is now: nothing is sent after finalization began; the
   future that resolved too late stays queued *)
Lemma resolve_waker_witness_now :
  match drive (resolve_push (rec_push N) true) 20 [(9%N, 2)] (false, ([], mkds [true; false] [false] [])) [] with
  | (o, _, s') => o = Finished /\ wf (lg (snd (snd s'))) = true /\ sent (lg (snd (snd s'))) = [] /\
                  map fst (fst (snd s')) = [9%N]
  end.
Proof. vm_compute. auto. Qed.
