(* Engine "Push": combinators with two downstreams (fanout.rs, unzip.rs), facing two scripted
   recorders.  The strict protocol ("no call after poll_finalize answered Done") is FALSE for
   these combinators -- see [fanout_strict_refuted] -- so the general theorems are stated with
   the weak protocol [wfw] (finalized at least once; poll_finalize may be repeated). *)
From Coq Require Import List NArith Bool Arith Lia.
From HV Require Import Push.Model Push.Historic Push.PBase.
Import ListNotations.

Set Implicit Arguments.

(* invariant of one downstream's log in a given driver phase *)
Definition InvD {A B} (ref : list A -> list B) (ph : phase A) (l : list (ev B)) : Prop :=
  wfw l = true /\
  match ph with
  | Run xs b => finstarted l = false /\ sent l = ref xs /\ (b = true -> rdy l = true)
  | Fing xs => sent l = ref xs
  | Fini xs => sent l = ref xs /\ findone l = true
  end.

Section InvD.
  Context {A B : Type} (ref : list A -> list B).

  Lemma invd_ready : forall xs b (b' : bool) (s : ds B),
      InvD ref (Run xs b) (lg s) -> (b' = true -> fst (rec_ready s) = true) ->
      InvD ref (Run xs b') (lg (snd (rec_ready s))).
  Proof.
    intros xs b b' s [W [F [S R]]] Hb. rewrite rec_ready_lg. unfold InvD.
    cbn [wfw finstarted existsb is_fin sent orb rdy].
    rewrite (finstarted_false_findone _ F), W. cbn [negb andb]. repeat split; auto.
    intro H. rewrite (Hb H). reflexivity.
  Qed.

  Lemma invd_send : forall xs a y (s : ds B),
      InvD ref (Run xs true) (lg s) -> ref (xs ++ [a]) = ref xs ++ [y] ->
      InvD ref (Run (xs ++ [a]) false) (ESend y :: lg s).
  Proof.
    intros xs a y s [W [F [S R]]] E. unfold InvD.
    cbn [wfw finstarted existsb is_fin sent orb rdy]. rewrite (R eq_refl), F, W, E, S.
    cbn [negb andb]. repeat split; auto; try discriminate.
  Qed.

  Lemma invd_skip : forall xs a (l : list (ev B)),
      InvD ref (Run xs true) l -> ref (xs ++ [a]) = ref xs ->
      InvD ref (Run (xs ++ [a]) false) l.
  Proof.
    intros xs a l [W [F [S R]]] E. unfold InvD. rewrite E. repeat split; auto; try discriminate.
  Qed.

  Lemma invd_fin : forall xs (s : ds B),
      (InvD ref (Fing xs) (lg s) \/ exists b, InvD ref (Run xs b) (lg s)) ->
      InvD ref (Fing xs) (lg (snd (rec_fin s))) /\
      (fst (rec_fin s) = true -> InvD ref (Fini xs) (lg (snd (rec_fin s)))).
  Proof.
    intros xs s H.
    assert (W : wfw (lg s) = true /\ sent (lg s) = ref xs).
    { destruct H as [[W S]|[b [W [F [S _]]]]]; auto. }
    destruct W as [W S]. rewrite rec_fin_lg. unfold InvD.
    cbn [wfw sent findone existsb is_findone]. repeat split; auto.
    rewrite H0. reflexivity.
  Qed.

  Lemma invd_spec : forall items o ph rest (l : list (ev B)),
      InvD ref ph l -> ph_items ph ++ rest = items ->
      (o = Finished -> ph = Fini items) ->
      down_spec_weak ref items o l.
  Proof.
    intros items o ph rest l [W I] E F. split; auto. split.
    - exists (ph_items ph). split; [exists rest; auto|]. exists [].
      rewrite app_nil_r. destruct ph; cbn in *; tauto.
    - intro Ho. rewrite (F Ho) in I. exact I.
  Qed.
End InvD.

Lemma invd_start : forall A B (ref : list A -> list B) rs0 fs0,
    ref [] = [] -> InvD ref (Run [] false) (lg (mkds rs0 fs0 (@nil (ev B)))).
Proof. intros. unfold InvD. cbn. rewrite H. repeat split; auto; try discriminate. Qed.

(* ------------------------------------------------------------------ two recorders *)

Section Two.
  Context {C A B : Type} (h : C -> A * B).

  (* unzip.rs is [h := id]; fanout.rs is [h := fun a => (a, a)] (item.clone()) *)
  Definition two_push : push C :=
    mkpush (both_ready (rec_push A) (rec_push B))
           (fun c s => unzip_send (rec_push A) (rec_push B) (h c) s)
           (both_fin_old (rec_push A) (rec_push B)).

  Definition ref0 (xs : list C) : list A := map (fun c => fst (h c)) xs.
  Definition ref1 (xs : list C) : list B := map (fun c => snd (h c)) xs.

  Definition Inv2 (ph : phase C) (s : ds A * ds B) : Prop :=
    InvD ref0 ph (lg (fst s)) /\ InvD ref1 ph (lg (snd s)).

  Lemma two_ready : ready_ok two_push Inv2.
  Proof.
    intros xs b [s0 s1] [H0 H1]. unfold Inv2. cbn [ready two_push]. unfold both_ready.
    cbn [rec_push ready fst snd St].
    pose proof (@invd_ready _ _ ref0 xs b) as Q0. pose proof (@invd_ready _ _ ref1 xs b) as Q1.
    specialize (Q0 (fst (rec_ready s0) && fst (rec_ready s1)) s0 H0).
    specialize (Q1 (fst (rec_ready s0) && fst (rec_ready s1)) s1 H1).
    destruct (rec_ready s0) as [a s0']. destruct (rec_ready s1) as [b1 s1']. cbn [fst snd] in *.
    split; [apply Q0|apply Q1]; intro H; apply andb_prop in H; tauto.
  Qed.

  Lemma two_send : send_ok two_push Inv2.
  Proof.
    intros xs c [s0 s1] [H0 H1]. cbn [send two_push rec_push fst snd St rec_send]; unfold unzip_send; cbn [send rec_push fst snd rec_send].
    eexists. split; [reflexivity|]. split; cbn [fst snd lg].
    - apply invd_send; auto. unfold ref0. rewrite map_app. reflexivity.
    - apply invd_send; auto. unfold ref1. rewrite map_app. reflexivity.
  Qed.

  Lemma two_fin : fin_ok two_push Inv2.
  Proof.
    intros xs [s0 s1] H. unfold Inv2 in *. cbn [fin two_push]. unfold both_fin_old.
    cbn [rec_push fin fst snd St] in *.
    assert (G0 : InvD ref0 (Fing xs) (lg s0) \/ exists b, InvD ref0 (Run xs b) (lg s0)).
    { destruct H as [[H _]|[b [H _]]]; [left|right; exists b]; exact H. }
    assert (G1 : InvD ref1 (Fing xs) (lg s1) \/ exists b, InvD ref1 (Run xs b) (lg s1)).
    { destruct H as [[_ H]|[b [_ H]]]; [left|right; exists b]; exact H. }
    destruct (@invd_fin _ _ _ _ _ G0) as [F0 D0]. destruct (@invd_fin _ _ _ _ _ G1) as [F1 D1].
    destruct (rec_fin s0) as [a s0']. destruct (rec_fin s1) as [b s1']. cbn [fst snd] in *.
    destruct a, b; cbn [andb]; split; cbn [fst snd]; auto.
  Qed.

  Theorem two_correct : forall fuel items r0 f0 r1 f1,
      match drive two_push fuel items (mkds r0 f0 [], mkds r1 f1 []) [] with
      | (o, _, s') => o <> Panicked /\
                      down_spec_weak ref0 items o (lg (fst s')) /\
                      down_spec_weak ref1 items o (lg (snd s'))
      end.
  Proof.
    intros.
    assert (I0 : Inv2 (Run [] false) (mkds r0 f0 [], mkds r1 f1 [])).
    { split; apply invd_start; reflexivity. }
    pose proof (@drive_inv _ two_push Inv2 two_ready two_send two_fin fuel items [] false _ [] I0) as D.
    cbn [app] in D.
    destruct (drive two_push fuel items (mkds r0 f0 [], mkds r1 f1 []) []) as [[o tr] s']. destruct o.
    - destruct D as [D0 D1]. split; [congruence|]. split.
      + eapply invd_spec with (rest := []); eauto. apply app_nil_r.
      + eapply invd_spec with (rest := []); eauto. apply app_nil_r.
    - destruct D as [ph [rest [[D0 D1] [E N]]]]. split; [congruence|]. split.
      + eapply invd_spec; eauto. congruence.
      + eapply invd_spec; eauto. congruence.
    - contradiction.
  Qed.

  Definition mu2 (s : ds A * ds B) : nat := mu_ds (fst s) + mu_ds (snd s).

  Lemma two_mr : forall s : St two_push,
      mu2 (snd (ready two_push s)) + (if fst (ready two_push s) then 0 else 1) <= mu2 s.
  Proof.
    intros [s0 s1]. unfold mu2. cbn [ready two_push]. unfold both_ready. cbn [rec_push ready fst snd St].
    pose proof (rec_ready_mu s0). pose proof (rec_ready_mu s1).
    destruct (rec_ready s0) as [a s0']. destruct (rec_ready s1) as [b s1']. cbn [fst snd] in *.
    destruct a, b; cbn [andb]; lia.
  Qed.
  Lemma two_ms : forall c (s s' : St two_push), send two_push c s = Some s' -> mu2 s' <= mu2 s.
  Proof.
    intros c [s0 s1] s'. cbn [send two_push rec_push fst snd St rec_send]; unfold unzip_send; cbn [send rec_push fst snd rec_send].
    intro E. inversion E. subst s'. unfold mu2, mu_ds. cbn [fst snd rs fs]. lia.
  Qed.
  Lemma two_mf : forall s : St two_push,
      mu2 (snd (fin two_push s)) + (if fst (fin two_push s) then 0 else 1) <= mu2 s.
  Proof.
    intros [s0 s1]. unfold mu2. cbn [fin two_push]. unfold both_fin_old. cbn [rec_push fin fst snd St].
    pose proof (rec_fin_mu s0). pose proof (rec_fin_mu s1).
    destruct (rec_fin s0) as [a s0']. destruct (rec_fin s1) as [b s1']. cbn [fst snd] in *.
    destruct a, b; cbn [andb]; lia.
  Qed.

  Theorem two_terminates : forall fuel items r0 f0 r1 f1,
      npend r0 + npend f0 + npend r1 + npend f1 + length items < fuel ->
      fst (fst (drive two_push fuel items (mkds r0 f0 [], mkds r1 f1 []) [])) = Finished.
  Proof.
    intros.
    eapply (@drive_term _ two_push Inv2 mu2) with (xs := []) (b := false);
      eauto using two_ready, two_send, two_mr, two_ms, two_mf.
    - split; apply invd_start; reflexivity.
    - unfold mu2, mu_ds. cbn [fst snd rs fs]. lia.
  Qed.
End Two.

(* ------------------------------------------------------------------ unzip.rs *)

Theorem unzip_correct : forall A B fuel (items : list (A * B)) r0 f0 r1 f1,
    match drive (unzip_old_push (rec_push A) (rec_push B)) fuel items (mkds r0 f0 [], mkds r1 f1 []) [] with
    | (o, _, s') => o <> Panicked /\
                    down_spec_weak (map fst) items o (lg (fst s')) /\
                    down_spec_weak (map snd) items o (lg (snd s'))
    end.
Proof. intros. exact (two_correct (fun c : A * B => c) fuel items r0 f0 r1 f1). Qed.

Theorem unzip_terminates : forall A B fuel (items : list (A * B)) r0 f0 r1 f1,
    npend r0 + npend f0 + npend r1 + npend f1 + length items < fuel ->
    fst (fst (drive (unzip_old_push (rec_push A) (rec_push B)) fuel items (mkds r0 f0 [], mkds r1 f1 []) []))
    = Finished.
Proof. intros. exact (two_terminates (fun c : A * B => c) items r0 f0 r1 f1 H). Qed.

(* ------------------------------------------------------------------ fanout.rs *)

Lemma map_id' : forall A (l : list A), map (fun a => a) l = l.
Proof. induction l; cbn; congruence. Qed.

Theorem fanout_correct : forall A fuel (items : list A) r0 f0 r1 f1,
    match drive (fanout_old_push (rec_push A) (rec_push A)) fuel items (mkds r0 f0 [], mkds r1 f1 []) [] with
    | (o, _, s') => o <> Panicked /\
                    down_spec_weak (fun xs => xs) items o (lg (fst s')) /\
                    down_spec_weak (fun xs => xs) items o (lg (snd s'))
    end.
Proof.
  intros. pose proof (two_correct (fun a : A => (a, a)) fuel items r0 f0 r1 f1) as H.
  change (two_push (fun a : A => (a, a))) with (fanout_old_push (rec_push A) (rec_push A)) in H.
  destruct (drive (fanout_old_push (rec_push A) (rec_push A)) fuel items (mkds r0 f0 [], mkds r1 f1 []) [])
    as [[o tr] s'].
  unfold ref0, ref1 in H. cbn [fst snd] in H.
  destruct H as [P [[W0 [[x0 [Q0 R0]] F0]] [W1 [[x1 [Q1 R1]] F1]]]].
  rewrite !map_id' in *. split; auto. split; (split; [auto|split; [eauto|auto]]).
Qed.

Theorem fanout_terminates : forall A fuel (items : list A) r0 f0 r1 f1,
    npend r0 + npend f0 + npend r1 + npend f1 + length items < fuel ->
    fst (fst (drive (fanout_old_push (rec_push A) (rec_push A)) fuel items (mkds r0 f0 [], mkds r1 f1 []) []))
    = Finished.
Proof. intros. exact (two_terminates (fun a : A => (a, a)) items r0 f0 r1 f1 H). Qed.

(* The strict protocol fails: downstream 0 answers Done at once, downstream 1 pends once on
   poll_finalize; Fanout polls downstream 0 again after it answered Done.  The same witness
   refutes it for Unzip. *)
Lemma fanout_strict_refuted : exists (items : list N) r0 f0 r1 f1,
    match drive (fanout_old_push (rec_push N) (rec_push N)) 10 items (mkds r0 f0 [], mkds r1 f1 []) [] with
    | (o, _, s') => o = Finished /\ wf (lg (fst s')) = false /\ refin (lg (fst s')) = 1
    end.
Proof. exists [], [], [], [], [false]. vm_compute. auto. Qed.

Lemma unzip_strict_refuted : exists (items : list (N * N)) r0 f0 r1 f1,
    match drive (unzip_old_push (rec_push N) (rec_push N)) 10 items (mkds r0 f0 [], mkds r1 f1 []) [] with
    | (o, _, s') => o = Finished /\ wf (lg (fst s')) = false /\ refin (lg (fst s')) = 1
    end.
Proof. exists [], [], [], [], [false]. vm_compute. auto. Qed.
