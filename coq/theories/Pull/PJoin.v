(* E4 Pipes, pull side -- proofs about the symmetric hash join model (C13). *)
From Coq Require Import Permutation.
From HV Require Import Pull.Model Pull.PCore Pull.ModelJoin.
Set Implicit Arguments.
Open Scope N_scope.

Ltac inv H := inversion H; subst; clear H.

(* ------------------------------------------------------------------------------------ *)
(* list / permutation helpers *)
Lemma flat_map_perm_pointwise {A B} (f g : A -> list B) (l : list A) :
  (forall x, Permutation (f x) (g x)) -> Permutation (flat_map f l) (flat_map g l).
Proof. intros H. induction l; simpl; auto. apply Permutation_app; auto. Qed.

Lemma flat_map_app_pointwise {A B} (f g : A -> list B) (l : list A) :
  Permutation (flat_map (fun x => f x ++ g x) l) (flat_map f l ++ flat_map g l).
Proof.
  induction l as [|a r IH]; simpl; auto.
  rewrite <- !app_assoc. apply Permutation_app_head.
  etransitivity; [apply Permutation_app_head; exact IH|].
  rewrite !app_assoc. apply Permutation_app_tail. apply Permutation_app_comm.
Qed.

Lemma join_rows_app_l a1 a2 b : join_rows (a1 ++ a2) b = join_rows a1 b ++ join_rows a2 b.
Proof. unfold join_rows. apply flat_map_app. Qed.

Lemma join_rows_app_r a b1 b2 :
  Permutation (join_rows a (b1 ++ b2)) (join_rows a b1 ++ join_rows a b2).
Proof.
  unfold join_rows. etransitivity; [|apply flat_map_app_pointwise].
  apply flat_map_perm_pointwise. intros x. rewrite flat_map_app. apply Permutation_refl.
Qed.

Lemma join_rows_perm a a' b b' :
  Permutation a a' -> Permutation b b' -> Permutation (join_rows a b) (join_rows a' b').
Proof.
  intros Ha Hb. unfold join_rows. etransitivity.
  - apply Permutation_flat_map. exact Ha.
  - apply flat_map_perm_pointwise. intros x. apply Permutation_flat_map. exact Hb.
Qed.

(* ------------------------------------------------------------------------------------ *)
(* tables: keys are unique, a push adds exactly one row *)
Definition keys_ok (t : tableT) : Prop := NoDup (map fst t).

Lemma tget_none_notin t k : tget t k = None -> ~ In k (map fst t).
Proof.
  induction t as [|[k' vs] r IH]; simpl; auto.
  destruct (k' =? k) eqn:E; [discriminate|]. apply N.eqb_neq in E. intros H [H1|H1]; auto.
  apply IH in H. auto.
Qed.

Lemma tpush_keys t k v : map fst (tpush t k v) = if tget t k then map fst t else map fst t ++ [k].
Proof.
  induction t as [|[k' vs] r IH]; simpl; auto.
  destruct (k' =? k) eqn:E; simpl; auto. rewrite IH. destruct (tget r k); reflexivity.
Qed.

Lemma tpush_keys_ok t k v : keys_ok t -> keys_ok (tpush t k v).
Proof.
  unfold keys_ok. rewrite tpush_keys. destruct (tget t k) eqn:E; auto.
  intros H. apply tget_none_notin in E.
  apply (Permutation_NoDup (l := k :: map fst t)).
  - change (k :: map fst t) with ([k] ++ map fst t). apply Permutation_app_comm.
  - constructor; auto.
Qed.

Lemma rows_cons k vs (r : tableT) : rows ((k, vs) :: r) = map (pair k) vs ++ rows r.
Proof. reflexivity. Qed.

Lemma tpush_rows t k v : Permutation (rows (tpush t k v)) (rows t ++ [(k, v)]).
Proof.
  induction t as [|[k' vs] r IH]; [apply Permutation_refl|].
  cbn [tpush]. destruct (k' =? k) eqn:E; rewrite !rows_cons.
  - apply N.eqb_eq in E. subst. rewrite map_app. cbn [map]. rewrite <- !app_assoc.
    apply Permutation_app_head. apply Permutation_app_comm.
  - rewrite <- app_assoc. apply Permutation_app_head. exact IH.
Qed.

(* the rows of key k, in table order *)
Definition vals_of (t : tableT) (k : N) : list N :=
  match tget t k with Some vs => vs | None => [] end.

Lemma rows_no_key r k : ~ In k (map fst r) -> forall f : kv -> list row,
  (forall x, fst x <> k -> f x = []) -> flat_map f (rows r) = [].
Proof.
  intros H f Hf. induction r as [|[k' vs] r IH]; [reflexivity|]. rewrite rows_cons.
  rewrite flat_map_app. rewrite IH; [|intros H1; apply H; simpl; auto].
  rewrite app_nil_r. assert (k' <> k) by (intros ->; apply H; simpl; auto).
  clear - Hf H0. induction vs; simpl; auto. rewrite Hf; auto.
Qed.

(* one left row against a right table: exactly the right values of its key *)
Lemma join_one_l t k v1 : keys_ok t ->
  join_rows [(k, v1)] (rows t) = map (fun v2 => (k, (v1, v2))) (vals_of t k).
Proof.
  unfold join_rows, vals_of; cbn [flat_map fst snd]. rewrite app_nil_r. intros K.
  induction t as [|[k' vs] r IH]; [reflexivity|]. rewrite rows_cons. cbn [tget].
  inv K. rewrite flat_map_app. destruct (k' =? k) eqn:E.
  - apply N.eqb_eq in E. subst. rewrite (@rows_no_key r k); auto.
    + rewrite app_nil_r. clear. induction vs; simpl; auto. rewrite N.eqb_refl. simpl. congruence.
    + intros x Hx. simpl. destruct (k =? fst x) eqn:E; auto. apply N.eqb_eq in E. congruence.
  - rewrite IH; auto. apply N.eqb_neq in E.
    assert (flat_map (fun y : kv => if k =? fst y then [(k, (v1, snd y))] else []) (map (pair k') vs) = []) as ->; auto.
    clear - E. induction vs; simpl; auto. destruct (k =? k') eqn:E2; auto.
    apply N.eqb_eq in E2. congruence.
Qed.

(* a left table against one right row *)
Lemma join_one_r t k v2 : keys_ok t ->
  join_rows (rows t) [(k, v2)] = map (fun v1 => (k, (v1, v2))) (vals_of t k).
Proof.
  unfold join_rows, vals_of; cbn [flat_map fst snd]. intros K.
  induction t as [|[k' vs] r IH]; [reflexivity|]. rewrite rows_cons. cbn [tget].
  inv K. rewrite flat_map_app. destruct (k' =? k) eqn:E.
  - apply N.eqb_eq in E. subst. rewrite (@rows_no_key r k); auto.
    + rewrite app_nil_r. clear. induction vs; simpl; auto. rewrite N.eqb_refl. simpl. congruence.
    + intros x Hx. simpl. destruct (fst x =? k) eqn:E; auto. apply N.eqb_eq in E. congruence.
  - rewrite IH; auto. apply N.eqb_neq in E.
    assert (flat_map (fun x : kv => (if fst x =? k then [(fst x, (snd x, v2))] else []) ++ [])
                     (map (pair k') vs) = []) as ->; auto.
    clear - E. induction vs; simpl; auto. destruct (k' =? k) eqn:E2; auto.
    apply N.eqb_eq in E2. congruence.
Qed.

(* ------------------------------------------------------------------------------------ *)
(* the new-tick enumeration (both `lhs_smaller` branches) is the join of the two tables *)
Definition J (h1 h2 : half) : list (N * (N * N)) := join_rows (rows (table h1)) (rows (table h2)).

Lemma join_rows_cons_l x a b : join_rows (x :: a) b = join_rows [x] b ++ join_rows a b.
Proof. unfold join_rows; simpl. rewrite app_nil_r. reflexivity. Qed.

Lemma new_tick_lhs_join h1 h2 : keys_ok (table h2) -> new_tick_lhs h1 h2 = J h1 h2.
Proof.
  intros K. unfold new_tick_lhs, J. induction (table h1) as [|[k vs] r IH]; [reflexivity|].
  rewrite rows_cons, join_rows_app_l. cbn [flat_map fst snd]. rewrite IH. f_equal.
  clear IH. induction vs as [|v1 vs IH]; [reflexivity|].
  cbn [flat_map map]. rewrite join_rows_cons_l, join_one_l by exact K. rewrite IH. reflexivity.
Qed.

Lemma join_rows_by_right a b :
  Permutation (flat_map (fun y => join_rows a [y]) b) (join_rows a b).
Proof.
  induction b as [|y b IH]; simpl.
  - unfold join_rows. induction a; simpl; auto.
  - change (y :: b) with ([y] ++ b). symmetry. etransitivity; [apply join_rows_app_r|].
    apply Permutation_app_head. symmetry. exact IH.
Qed.

Lemma new_tick_rhs_join h1 h2 : keys_ok (table h1) -> Permutation (new_tick_rhs h1 h2) (J h1 h2).
Proof.
  intros K. unfold J. etransitivity; [|apply join_rows_by_right].
  unfold new_tick_rhs. induction (table h2) as [|[k vs] r IH]; [apply Permutation_refl|].
  rewrite rows_cons, flat_map_app. cbn [flat_map fst snd]. apply Permutation_app; [|exact IH].
  clear IH. induction vs as [|v2 vs IH]; [apply Permutation_refl|].
  cbn [flat_map map]. rewrite join_one_r by exact K. apply Permutation_app_head. exact IH.
Qed.

(* ------------------------------------------------------------------------------------ *)
(* build / probe / pop_match *)
Lemma build_spec s h k v h' b : build s h k v = (h', b) -> keys_ok (table h) ->
  cm h' = cm h /\ keys_ok (table h') /\
  (if b then Permutation (rows (table h')) (rows (table h) ++ [(k, v)]) /\ hlen h' = hlen h + 1
   else h' = h).
Proof.
  intros E K. assert (forall c n, let h2 := Half (tpush (table h) k v) c n in
    keys_ok (table h2) /\ Permutation (rows (table h2)) (rows (table h) ++ [(k, v)])) as P.
  { intros c n. simpl. split; [apply tpush_keys_ok; auto|apply tpush_rows]. }
  destruct s; simpl in E.
  - destruct (tget (table h) k) as [vec|].
    + destruct (memN v vec); inv E; simpl; auto. destruct (P (cm h) (hlen h + 1)); auto.
    + inv E; simpl. destruct (P (cm h) (hlen h + 1)); auto.
  - inv E; simpl. destruct (P (cm h) (hlen h + 1)); auto.
Qed.

Definition opt_list {A} (o : option A) : list A := match o with Some x => [x] | None => [] end.

Lemma probe_spec h k v h' o : probe h k v = (h', o) ->
  table h' = table h /\ hlen h' = hlen h /\
  (o = None -> h' = h /\ vals_of (table h) k = []) /\
  exists new, cm h' = cm h ++ new /\
              opt_list o ++ new = map (fun vb => (k, v, vb)) (vals_of (table h) k).
Proof.
  unfold probe, vals_of. intros E. destruct (tget (table h) k) as [[|vb rest]|]; inv E; simpl.
  - repeat split; auto. exists []. rewrite app_nil_r. auto.
  - repeat split; auto; try discriminate. eexists. split; reflexivity.
  - repeat split; auto. exists []. rewrite app_nil_r. auto.
Qed.

(* a new left row (k, v1) adds to the join exactly its matches in the right table *)
Lemma arrive_l h1 h1' h2 k v1 : keys_ok (table h2) ->
  Permutation (rows (table h1')) (rows (table h1) ++ [(k, v1)]) ->
  Permutation (J h1' h2) (J h1 h2 ++ map (fun v2 => (k, (v1, v2))) (vals_of (table h2) k)).
Proof.
  intros K P. unfold J. etransitivity; [apply join_rows_perm; [exact P|apply Permutation_refl]|].
  rewrite join_rows_app_l, join_one_l by exact K. apply Permutation_refl.
Qed.

Lemma arrive_r h1 h2 h2' k v2 : keys_ok (table h1) ->
  Permutation (rows (table h2')) (rows (table h2) ++ [(k, v2)]) ->
  Permutation (J h1 h2') (J h1 h2 ++ map (fun v1 => (k, (v1, v2))) (vals_of (table h1) k)).
Proof.
  intros K P. unfold J. etransitivity; [apply join_rows_perm; [apply Permutation_refl|exact P]|].
  etransitivity; [apply join_rows_app_r|]. rewrite join_one_r by exact K. apply Permutation_refl.
Qed.

Lemma pop_spec h h' o : pop_match h = (h', o) ->
  table h' = table h /\ cm h = opt_list o ++ cm h' /\ (o = None -> cm h = []).
Proof.
  unfold pop_match. destruct (cm h) as [|x r] eqn:C; intros E; inv E; simpl; auto.
  repeat split; auto. discriminate.
Qed.

(* ------------------------------------------------------------------------------------ *)
(* the invariant of SymmetricHashJoin::pull:
     emitted + pending matches (both halves) + join of the old tables
   = pending matches before + join of the new tables            (as multisets) *)
Definition conv1 (x : N * N * N) : N * (N * N) := let '(k, v2, v1) := x in (k, (v1, v2)).
Definition conv2 (x : N * N * N) : N * (N * N) := let '(k, v1, v2) := x in (k, (v1, v2)).
Definition pend (st : jst) : list (N * (N * N)) :=
  let '(h1, h2, _, _) := st in map conv1 (cm h1) ++ map conv2 (cm h2).
Definition JS (st : jst) : list (N * (N * N)) := let '(h1, h2, _, _) := st in J h1 h2.
Definition wf (st : jst) : Prop :=
  let '(h1, h2, _, _) := st in keys_ok (table h1) /\ keys_ok (table h2).
Definition emit (o : pstep (N * (N * N))) : list (N * (N * N)) :=
  match o with Ready r => [r] | _ => [] end.

Lemma J_tables h1 h2 h1' h2' : table h1' = table h1 -> table h2' = table h2 -> J h1' h2' = J h1 h2.
Proof. unfold J. intros -> ->. reflexivity. Qed.

Lemma shj_loop_inv s : forall fuel st o st', wf st -> shj_loop s fuel st = Some (o, st') ->
  wf st' /\ Permutation (emit o ++ pend st' ++ JS st) (pend st ++ JS st').
Proof.
  induction fuel as [|fuel IH]; intros [[[h1 h2] l1] l2] o st' [K1 K2] E; [discriminate|].
  cbn [shj_loop] in E.
  destruct (pop_match h1) as [h1p [[[k0 v20] v10]|]] eqn:PM1.
  { (* a match queued in lhs_state *)
    destruct (pop_spec _ PM1) as [T1 [C1 _]]. inv E. split; [simpl; rewrite T1; auto|].
    cbn [emit pend JS]. rewrite C1, (@J_tables h1 h2 h1p h2 T1 eq_refl). simpl. apply Permutation_refl. }
  destruct (pop_spec _ PM1) as [_ [_ C1]]. specialize (C1 eq_refl).
  destruct (pop_match h2) as [h2p [[[k0 v10] v20]|]] eqn:PM2.
  { destruct (pop_spec _ PM2) as [T2 [C2 _]]. inv E. split; [simpl; rewrite T2; auto|].
    cbn [emit pend JS]. rewrite C2, (@J_tables h1 h2 h1 h2p eq_refl T2). simpl.
    rewrite <- !app_assoc. simpl. apply Permutation_cons_app. apply Permutation_refl. }
  destruct (pop_spec _ PM2) as [_ [_ C2]]. specialize (C2 eq_refl).
  assert (pend (h1, h2, l1, l2) = []) as P0 by (cbn [pend]; rewrite C1, C2; reflexivity).
  destruct (src_pull l1) as [ls l1'] eqn:P1.
  assert (forall o st', 
    (let (rhs_step, l2') := src_pull l2 in
      match rhs_step with
      | Ready (k, v2) =>
          let (rhs_state', built) := build s h2 k v2 in
          if built then
            match probe h1 k v2 with
            | (lhs_state', Some (k, v2, v1)) =>
                Some (Ready (k, (v1, v2)), (lhs_state', rhs_state', l1', l2'))
            | (lhs_state', None) => shj_loop s fuel (lhs_state', rhs_state', l1', l2')
            end
          else shj_loop s fuel (h1, rhs_state', l1', l2')
      | _ =>
          match ls, rhs_step with
          | Pending, _ | _, Pending => Some (Pending, (h1, h2, l1', l2'))
          | _, _ => Some (Ended, (h1, h2, l1', l2'))
          end
      end) = Some (o, st') ->
    wf st' /\ Permutation (emit o ++ pend st' ++ J h1 h2) (pend (h1, h2, l1, l2) ++ JS st')) as RHS.
  { clear E. intros o0 st0 E. rewrite P0. destruct (src_pull l2) as [rs l2'] eqn:P2.
    destruct rs as [[k v2]| |].
    - destruct (build s h2 k v2) as [h2b b] eqn:B.
      destruct (build_spec _ _ _ _ B K2) as [Cb [Kb Hb]]. destruct b.
      + destruct Hb as [Pb _]. destruct (probe h1 k v2) as [h1q o2] eqn:PR.
        destruct (probe_spec _ _ _ PR) as [T1 [_ [N1 [new [Cn En]]]]].
        pose proof (@arrive_r h1 h2 h2b k v2 K1 Pb) as AR.
        destruct o2 as [[[k' v2'] v1]|].
        * inv E. split; [simpl; rewrite T1; auto|].
          assert (Q : (k', (v1, v2')) :: map conv1 new
                      = map (fun v1 => (k, (v1, v2))) (vals_of (table h1) k)).
          { change ((k', (v1, v2')) :: map conv1 new) with (map conv1 ((k', v2', v1) :: new)).
            simpl in En. rewrite En, map_map. reflexivity. }
          cbn [emit pend JS]. rewrite (@J_tables h1 h2b h1q h2b T1 eq_refl), Cn, C1, Cb, C2.
          etransitivity; [|symmetry; exact AR]. rewrite <- Q. simpl. rewrite app_nil_r.
          apply (Permutation_app_comm ((k', (v1, v2')) :: map conv1 new) (J h1 h2)).
        * destruct (N1 eq_refl) as [-> V]. rewrite V in AR. simpl in AR. rewrite app_nil_r in AR.
          apply IH in E; [|simpl; auto]. destruct E as [W' P']. split; auto.
          cbn [pend JS] in P'. rewrite Cb, C1, C2 in P'. simpl in P'. simpl.
          etransitivity; [|exact P']. apply Permutation_app_head, Permutation_app_head.
          symmetry. exact AR.
      + subst h2b. apply IH in E; [|simpl; auto]. destruct E as [W' P']. split; auto.
        cbn [pend JS] in P'. rewrite C1, C2 in P'. simpl in P'. simpl. exact P'.
    - assert (o0 = Pending /\ st0 = (h1, h2, l1', l2')) as [-> ->] by (destruct ls; inv E; auto).
      split; [simpl; auto|]. cbn [emit pend JS]. rewrite C1, C2. apply Permutation_refl.
    - assert ((o0 = Pending \/ o0 = Ended) /\ st0 = (h1, h2, l1', l2')) as [Ho ->]
        by (destruct ls; inv E; auto).
      split; [simpl; auto|]. destruct Ho as [-> | ->]; cbn [emit pend JS]; rewrite C1, C2;
        apply Permutation_refl. }
  destruct ls as [[k v1]| |]; [|apply RHS; exact E|apply RHS; exact E].
  clear RHS. rewrite P0.
  destruct (build s h1 k v1) as [h1b b] eqn:B.
  destruct (build_spec _ _ _ _ B K1) as [Cb [Kb Hb]]. destruct b.
  - destruct Hb as [Pb _]. destruct (probe h2 k v1) as [h2q o2] eqn:PR.
    destruct (probe_spec _ _ _ PR) as [T2 [_ [N2 [new [Cn En]]]]].
    pose proof (@arrive_l h1 h1b h2 k v1 K2 Pb) as AL.
    destruct o2 as [[[k' v1'] v2]|].
    + inv E. split; [simpl; rewrite T2; auto|].
      assert (Q : (k', (v1', v2)) :: map conv2 new
                  = map (fun v2 => (k, (v1, v2))) (vals_of (table h2) k)).
      { change ((k', (v1', v2)) :: map conv2 new) with (map conv2 ((k', v1', v2) :: new)).
        simpl in En. rewrite En, map_map. reflexivity. }
      cbn [emit pend JS]. rewrite (@J_tables h1b h2 h1b h2q eq_refl T2), Cn, C2, Cb, C1.
      etransitivity; [|symmetry; exact AL]. rewrite <- Q. simpl.
      apply (Permutation_app_comm ((k', (v1', v2)) :: map conv2 new) (J h1 h2)).
    + destruct (N2 eq_refl) as [-> V]. rewrite V in AL. simpl in AL. rewrite app_nil_r in AL.
      apply IH in E; [|simpl; auto]. destruct E as [W' P']. split; auto.
      cbn [pend JS] in P'. rewrite Cb, C1, C2 in P'. simpl in P'. simpl.
      etransitivity; [|exact P']. apply Permutation_app_head, Permutation_app_head.
      symmetry. exact AL.
  - subst h1b. apply IH in E; [|simpl; auto]. destruct E as [W' P']. split; auto.
    cbn [pend JS] in P'. rewrite C1, C2 in P'. simpl in P'. simpl. exact P'.
Qed.

(* ------------------------------------------------------------------------------------ *)
(* from one pull to a whole run *)
Definition row_dec : forall x y : N * (N * N), {x = y} + {x <> y}.
Proof. repeat decide equality. Defined.

Lemma perm_compose (b o p0 p1 p2 j0 j1 j2 : list (N * (N * N))) :
  Permutation (b ++ p1 ++ j0) (p0 ++ j1) -> Permutation (o ++ p2 ++ j1) (p1 ++ j2) ->
  Permutation ((b ++ o) ++ p2 ++ j0) (p0 ++ j2).
Proof.
  rewrite !(Permutation_count_occ row_dec). intros H1 H2 x.
  specialize (H1 x). specialize (H2 x). rewrite !count_occ_app in *. lia.
Qed.

Lemma shj_pull_inv s st o st' : wf st -> shj_pull s st = (o, st') ->
  wf st' /\ Permutation (emit o ++ pend st' ++ JS st) (pend st ++ JS st').
Proof.
  unfold shj_pull. intros W E. destruct (shj_loop s (shj_fuel st) st) as [r|] eqn:L.
  - subst r. eapply shj_loop_inv; eauto.
  - inv E. split; auto; try apply Permutation_refl.
Qed.

Lemma shj_runs_inv s st out st' : runs_to (shj_m s) st out st' -> wf st ->
  wf st' /\ Permutation (out ++ pend st' ++ JS st) (pend st ++ JS st').
Proof.
  induction 1 as [st st' E|st b s1 out s2 E R IH|st s1 out s2 E R IH]; intros W; simpl in E;
    destruct (shj_pull_inv s st W E) as [W1 P1].
  - split; auto.
  - destruct (IH W1) as [W2 P2]. split; auto.
    change (b :: out) with ([b] ++ out). eapply perm_compose; eauto.
  - destruct (IH W1) as [W2 P2]. split; auto.
    change out with ([] ++ out). eapply perm_compose; eauto.
Qed.

(* when the join reports the end, no match is left queued *)
Lemma shj_loop_ended s : forall fuel st st', shj_loop s fuel st = Some (Ended, st') -> pend st' = [].
Proof.
  induction fuel as [|fuel IH]; intros [[[h1 h2] l1] l2] st' E; [discriminate|].
  cbn [shj_loop] in E.
  destruct (pop_match h1) as [h1p [[[k0 v20] v10]|]] eqn:PM1; [discriminate|].
  destruct (pop_spec _ PM1) as [_ [_ C1]]. specialize (C1 eq_refl).
  destruct (pop_match h2) as [h2p [[[k0 v10] v20]|]] eqn:PM2; [discriminate|].
  destruct (pop_spec _ PM2) as [_ [_ C2]]. specialize (C2 eq_refl).
  destruct (src_pull l1) as [ls l1'].
  assert (forall l2' rs, (match rs with
      | Ready (k, v2) =>
          let (rhs_state', built) := build s h2 k v2 in
          if built then
            match probe h1 k v2 with
            | (lhs_state', Some (k, v2, v1)) =>
                Some (Ready (k, (v1, v2)), (lhs_state', rhs_state', l1', l2'))
            | (lhs_state', None) => shj_loop s fuel (lhs_state', rhs_state', l1', l2')
            end
          else shj_loop s fuel (h1, rhs_state', l1', l2')
      | _ =>
          match ls, rs with
          | Pending, _ | _, Pending => Some (Pending, (h1, h2, l1', l2'))
          | _, _ => Some (Ended, (h1, h2, l1', l2'))
          end
      end) = Some (Ended, st') -> pend st' = []) as RHS.
  { intros l2' rs E2. destruct rs as [[k v2]| |].
    - destruct (build s h2 k v2) as [h2b b]. destruct b; [|eapply IH; eauto].
      destruct (probe h1 k v2) as [h1q [[[k' v2'] v1]|]]; [discriminate|eapply IH; eauto].
    - destruct ls; discriminate.
    - destruct ls; inv E2; cbn [pend]; rewrite C1, C2; reflexivity. }
  destruct ls as [[k v1]| |].
  - destruct (build s h1 k v1) as [h1b b]. destruct b; [|eapply IH; eauto].
    destruct (probe h2 k v1) as [h2q [[[k' v1'] v2]|]]; [discriminate|eapply IH; eauto].
  - destruct (src_pull l2) as [rs l2']. eapply RHS; eauto.
  - destruct (src_pull l2) as [rs l2']. eapply RHS; eauto.
Qed.

Lemma shj_runs_ended s st out st' : runs_to (shj_m s) st out st' -> pend st' = [].
Proof.
  induction 1 as [st st' E|? ? ? ? ? E R IH|? ? ? ? E R IH]; auto.
  simpl in E. unfold shj_pull in E. destruct (shj_loop s (shj_fuel st) st) as [r|] eqn:L; [|discriminate].
  subst r. eapply shj_loop_ended; eauto.
Qed.

(* C13, incremental path: for every pair of scripts (arrivals and Pending answers anywhere),
   polling the join to its end emits, together with what the tables it started from had
   already produced, exactly the join of the tables it ends with -- each pair once. *)
Theorem shj_emits_join s st out st' :
  wf st -> pend st = [] -> runs_to (shj_m s) st out st' ->
  Permutation (out ++ JS st) (JS st').
Proof.
  intros W P0 R. destruct (shj_runs_inv R W) as [_ P]. rewrite (shj_runs_ended R), P0 in P.
  exact P.
Qed.

(* the multiset of rows the tables hold grows by exactly the arrivals (multiset state) *)
Lemma drain_multi_rows : forall l h, Permutation (rows (table (drain MultiSem h l))) (rows (table h) ++ items l).
Proof.
  induction l as [|[[k v]| |] r IH]; intros h; simpl; rewrite ?app_nil_r; auto.
  etransitivity; [apply IH|]. simpl. etransitivity; [apply Permutation_app_tail, tpush_rows|].
  rewrite <- app_assoc. apply Permutation_refl.
Qed.

Lemma drain_keys_ok s : forall l h, keys_ok (table h) -> keys_ok (table (drain s h l)).
Proof.
  induction l as [|[[k v]| |] r IH]; intros h K; simpl; auto. apply IH.
  destruct (build s h k v) as [h' b] eqn:B. destruct (build_spec _ _ _ _ B K) as [_ [K' _]]. exact K'.
Qed.

(* C13, new-tick path: after draining both inputs into the (possibly persisted) states, the
   enumeration is the join of the two tables, whichever side is iterated *)
Theorem new_tick_emits_join s h1 h2 l1 l2 : keys_ok (table h1) -> keys_ok (table h2) ->
  let '(h1', h2', out) := new_tick s h1 h2 l1 l2 in Permutation out (J h1' h2').
Proof.
  intros K1 K2. unfold new_tick.
  pose proof (drain_keys_ok s l1 h1 K1) as K1'. pose proof (drain_keys_ok s l2 h2 K2) as K2'.
  destruct (hlen (drain s h1 l1) <? hlen (drain s h2 l2)).
  - rewrite new_tick_lhs_join by exact K2'. apply Permutation_refl.
  - apply new_tick_rhs_join. exact K1'.
Qed.
