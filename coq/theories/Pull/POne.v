(* E4 Pipes, pull side -- proofs for the one-input combinators.
   For every machine m and every state s (own fields + remaining upstream script):
     X_runs    : polling until the first Ended terminates and yields exactly the reference
                 list function of the upstream's items (and of what the state buffers);
     X_fused   : if the upstream script is fused, once Ended is reported it is reported for ever
                 (unconditionally for Fuse and Take);
     X_hint    : if the upstream's size_hint is truthful, the combinator's size_hint brackets
                 the number of items still to come. *)
From HV Require Import Pull.Model Pull.PCore.
Set Implicit Arguments.
Open Scope N_scope.

Ltac inv H := inversion H; subst; clear H.

Section One.
  Variables A B : Type.
  Variable uh : script A -> hintT.

  (* ------------------------------------------------------------------ map *)
  Section Map.
    Variable f : A -> B.
    Lemma map_runs : forall l, exists l', runs_to (map_m uh f) l (map f (items l)) l'.
    Proof.
      induction l as [|[a| |] r [l' IH]]; simpl.
      - exists []. apply R_end. reflexivity.
      - exists l'. eapply R_rdy; [reflexivity|exact IH].
      - exists l'. eapply R_pend; [reflexivity|exact IH].
      - exists r. apply R_end. reflexivity.
    Qed.

    Lemma map_dead : forall l, dead l -> ended_forever (map_m uh f) l.
    Proof.
      apply (@ended_forever_inv _ (map_m uh f) (fun l => dead l)). intros l D. destruct (dead_pull D) as [l' [E D']].
      exists l'. split; [|exact D']. simpl. unfold map_pull. rewrite E. reflexivity.
    Qed.

    Lemma map_fused : forall l l', fused_b l = true ->
      pull1 (map_m uh f) l = (Ended, l') -> ended_forever (map_m uh f) l'.
    Proof.
      intros l l' F E. apply map_dead. simpl in E. unfold map_pull in E.
      destruct (src_pull l) as [[a| |] l1] eqn:E1; inv E. eapply fused_ended_dead; eauto.
    Qed.

    Lemma map_hint : truthful uh -> forall l, hint_ok (hint (map_m uh f) l) (len (map f (items l))).
    Proof. intros T l. unfold len. rewrite map_length. apply T. Qed.
  End Map.
End One.
