(* E4 Pipes, pull side -- proofs for the one-input combinators.
   For every machine m and every state s (own fields + remaining upstream script):
     X_runs    : polling until the first Ended terminates and yields exactly the reference
                 list function of the upstream's items (and of what the state buffers);
     X_fused   : if the upstream script is fused, once Ended is reported it is reported for ever
                 (unconditionally for Fuse and Take);
     X_hint    : if the upstream's size_hint is truthful, the combinator's size_hint brackets
                 the number of items still to come. *)
From HV Require Import Pull.Model Pull.PCore.
Set Implicit Arguments.
Open Scope N_scope.

Ltac inv H := inversion H; subst; clear H.

Section One.
  Variables A B : Type.
  Variable uh : script A -> hintT.

  (* ------------------------------------------------------------------ map *)
  Section Map.
    Variable f : A -> B.
    Lemma map_runs : forall l, exists l', runs_to (map_m uh f) l (map f (items l)) l'.
    Proof.
      induction l as [|[a| |] r [l' IH]]; simpl.
      - exists []. apply R_end. reflexivity.
      - exists l'. eapply R_rdy; [reflexivity|exact IH].
      - exists l'. eapply R_pend; [reflexivity|exact IH].
      - exists r. apply R_end. reflexivity.
    Qed.

    Lemma map_dead : forall l, dead l -> ended_forever (map_m uh f) l.
    Proof.
      apply (@ended_forever_inv _ (map_m uh f) (fun l => dead l)). intros l D. destruct (dead_pull D) as [l' [E D']].
      exists l'. split; [|exact D']. simpl. unfold map_pull. rewrite E. reflexivity.
    Qed.

    Lemma map_fused : forall l l', fused_b l = true ->
      pull1 (map_m uh f) l = (Ended, l') -> ended_forever (map_m uh f) l'.
    Proof.
      intros l l' F E. apply map_dead. simpl in E. unfold map_pull in E.
      destruct (src_pull l) as [[a| |] l1] eqn:E1; inv E. eapply fused_ended_dead; eauto.
    Qed.

    Lemma map_hint : truthful uh -> forall l, hint_ok (hint (map_m uh f) l) (len (map f (items l))).
    Proof. intros T l. unfold len. rewrite map_length. apply T. Qed.
  End Map.

  (* ------------------------------------------------------------------ filter_map *)
  Section FilterMap.
    Variable f : A -> option B.
    Let m := filter_map_m uh f.

    Lemma filter_map_runs : forall l, exists l', runs_to m l (filter_map_ref f (items l)) l'.
    Proof.
      induction l as [|[a| |] r [l' IH]]; simpl.
      - exists []. apply R_end. reflexivity.
      - destruct (f a) as [b|] eqn:E.
        + exists l'. eapply R_rdy; [simpl; rewrite E; reflexivity|exact IH].
        + exists l'. eapply runs_step_eq; [|exact IH]. simpl. rewrite E. reflexivity.
      - exists l'. eapply R_pend; [reflexivity|exact IH].
      - exists r. apply R_end. reflexivity.
    Qed.

    Lemma filter_map_dead : forall l, dead l -> ended_forever m l.
    Proof.
      apply (@ended_forever_inv _ m (fun l => dead l)). intros l D.
      destruct l as [|x r]; [exists []; split; [reflexivity|exact D]|].
      apply dead_inv in D. destruct D as [-> D]. exists r. split; [reflexivity|exact D].
    Qed.

    Lemma filter_map_ended : forall l l', fused_b l = true ->
      filter_map_pull f l = (Ended, l') -> dead l'.
    Proof.
      induction l as [|[a| |] r IH]; simpl; intros l' F E.
      - inv E. apply dead_nil.
      - destruct (f a); [discriminate|]. apply IH; auto.
      - discriminate.
      - inv E. exact F.
    Qed.

    Lemma filter_map_fused : forall l l', fused_b l = true ->
      pull1 m l = (Ended, l') -> ended_forever m l'.
    Proof. intros l l' F E. apply filter_map_dead. eapply filter_map_ended; eauto. Qed.

    Lemma filter_map_ref_length : forall l : list A, (length (filter_map_ref f l) <= length l)%nat.
    Proof. induction l as [|a r IH]; simpl; [lia|]. destruct (f a); simpl; lia. Qed.

    Lemma filter_map_hint : truthful uh -> forall l,
      hint_ok (hint m l) (len (filter_map_ref f (items l))).
    Proof.
      intros T l. destruct (T l) as [_ U]. unfold hint_ok; simpl. unfold filter_map_hint; simpl.
      pose proof (filter_map_ref_length (items l)). unfold len, rem in *. split; [lia|].
      destruct (snd (uh l)); [lia|exact I].
    Qed.
  End FilterMap.

  (* ------------------------------------------------------------------ flat_map *)
  Section FlatMap.
    Variable g : A -> list B.
    Let m := flat_map_m (A := A) g.

    Definition cur_items (cur : option (list B)) : list B :=
      match cur with Some it => it | None => [] end.

    Lemma flat_map_cur : forall l out s', runs_to m (None, l) out s' ->
      forall it, runs_to m (Some it, l) (it ++ out) s'.
    Proof.
      intros l out s' R. induction it as [|b bs IH]; simpl.
      - eapply runs_step_eq; [|exact R]. reflexivity.
      - eapply R_rdy; [reflexivity|exact IH].
    Qed.

    Lemma flat_map_runs_none : forall l, exists s', runs_to m (None, l) (flat_map g (items l)) s'.
    Proof.
      induction l as [|[a| |] r [s' IH]]; simpl.
      - exists (None, []). apply R_end. reflexivity.
      - exists s'. destruct (g a) as [|b bs] eqn:E; simpl.
        + eapply runs_step_eq; [|exact IH]. simpl. rewrite E. reflexivity.
        + eapply R_rdy; [simpl; rewrite E; reflexivity|]. apply flat_map_cur. exact IH.
      - exists s'. eapply R_pend; [reflexivity|exact IH].
      - exists (None, r). apply R_end. reflexivity.
    Qed.

    Lemma flat_map_runs : forall cur l,
      exists s', runs_to m (cur, l) (cur_items cur ++ flat_map g (items l)) s'.
    Proof.
      intros cur l. destruct (flat_map_runs_none l) as [s' R]. exists s'.
      destruct cur as [it|]; simpl; [apply flat_map_cur|]; exact R.
    Qed.

    Lemma flat_map_dead : forall l, dead l -> ended_forever m (None, l).
    Proof.
      intros l D.
      apply (@ended_forever_inv _ m (fun s => fst s = None /\ dead (snd s))); [|auto].
      intros [cur l0] [C D0]; simpl in *; subst.
      destruct l0 as [|x r]; [exists (None, []); split; [reflexivity|auto]|].
      apply dead_inv in D0. destruct D0 as [-> D0]. exists (None, r). split; [reflexivity|auto].
    Qed.

    Lemma flat_map_fetch_ended : forall l s', fused_b l = true ->
      flat_map_fetch g l = (Ended, s') -> fst s' = None /\ dead (snd s').
    Proof.
      induction l as [|[a| |] r IH]; simpl; intros s' F E.
      - inv E. split; [reflexivity|apply dead_nil].
      - destruct (g a); [|discriminate]. apply IH; auto.
      - discriminate.
      - inv E. split; [reflexivity|exact F].
    Qed.

    Lemma flat_map_fused : forall cur l s', fused_b l = true ->
      pull1 m (cur, l) = (Ended, s') -> ended_forever m s'.
    Proof.
      intros cur l s' F E.
      assert (flat_map_fetch g l = (Ended, s')) as E'.
      { destruct cur as [[|b bs]|]; simpl in E; try exact E. discriminate. }
      destruct (flat_map_fetch_ended _ F E') as [C D]. destruct s' as [c l']; simpl in *; subst.
      apply flat_map_dead. exact D.
    Qed.

    Lemma flat_map_hint_ok : forall cur l,
      hint_ok (hint m (cur, l)) (len (cur_items cur ++ flat_map g (items l))).
    Proof.
      intros cur l. unfold hint_ok, len; simpl. rewrite app_length. split; [|exact I].
      destruct cur; simpl; lia.
    Qed.
  End FlatMap.
End One.

Section Same.
  Variable A : Type.
  Variable uh : script A -> hintT.

  (* ------------------------------------------------------------------ inspect *)
  Lemma inspect_runs : forall l, exists l', runs_to (inspect_m uh) l (items l) l'.
  Proof.
    induction l as [|[a| |] r [l' IH]]; simpl.
    - exists []. apply R_end. reflexivity.
    - exists l'. eapply R_rdy; [reflexivity|exact IH].
    - exists l'. eapply R_pend; [reflexivity|exact IH].
    - exists r. apply R_end. reflexivity.
  Qed.

  Lemma inspect_dead : forall l, dead l -> ended_forever (inspect_m uh) l.
  Proof.
    apply (@ended_forever_inv _ (inspect_m uh) (fun l => dead l)). intros l D.
    destruct (dead_pull D) as [l' [E D']].
    exists l'. split; [|exact D']. simpl. unfold inspect_pull. rewrite E. reflexivity.
  Qed.

  Lemma inspect_fused : forall l l', fused_b l = true ->
    pull1 (inspect_m uh) l = (Ended, l') -> ended_forever (inspect_m uh) l'.
  Proof.
    intros l l' F E. apply inspect_dead. simpl in E. unfold inspect_pull in E.
    destruct (src_pull l) as [[a| |] l1] eqn:E1; inv E. eapply fused_ended_dead; eauto.
  Qed.

  Lemma inspect_hint : truthful uh -> forall l, hint_ok (hint (inspect_m uh) l) (len (items l)).
  Proof. intros T l. apply T. Qed.

  (* ------------------------------------------------------------------ filter, take_while, skip_while *)
  Section Pred.
    Variable p : A -> bool.

    Lemma filter_runs : forall l, exists l', runs_to (filter_m uh p) l (filter p (items l)) l'.
    Proof.
      induction l as [|[a| |] r [l' IH]]; simpl.
      - exists []. apply R_end. reflexivity.
      - destruct (p a) eqn:E.
        + exists l'. eapply R_rdy; [simpl; rewrite E; reflexivity|exact IH].
        + exists l'. eapply runs_step_eq; [|exact IH]. simpl. rewrite E. reflexivity.
      - exists l'. eapply R_pend; [reflexivity|exact IH].
      - exists r. apply R_end. reflexivity.
    Qed.

    Lemma filter_dead : forall l, dead l -> ended_forever (filter_m uh p) l.
    Proof.
      apply (@ended_forever_inv _ (filter_m uh p) (fun l => dead l)). intros l D.
      destruct l as [|x r]; [exists []; split; [reflexivity|exact D]|].
      apply dead_inv in D. destruct D as [-> D]. exists r. split; [reflexivity|exact D].
    Qed.

    Lemma filter_ended : forall l l', fused_b l = true -> filter_pull p l = (Ended, l') -> dead l'.
    Proof.
      induction l as [|[a| |] r IH]; simpl; intros l' F E.
      - inv E. apply dead_nil.
      - destruct (p a); [discriminate|]. apply IH; auto.
      - discriminate.
      - inv E. exact F.
    Qed.

    Lemma filter_fused : forall l l', fused_b l = true ->
      pull1 (filter_m uh p) l = (Ended, l') -> ended_forever (filter_m uh p) l'.
    Proof. intros l l' F E. apply filter_dead. eapply filter_ended; eauto. Qed.

    Lemma filter_length_le' : forall l : list A, (length (filter p l) <= length l)%nat.
    Proof. induction l as [|a r IH]; simpl; [lia|]. destruct (p a); simpl; lia. Qed.

    Lemma upper_only_ok : truthful uh -> forall l (out : list A),
      (length out <= length (items l))%nat -> hint_ok (0, snd (uh l)) (len out).
    Proof.
      intros T l out L. destruct (T l) as [_ U]. unfold hint_ok, len, rem in *; simpl.
      split; [lia|]. destruct (snd (uh l)); [lia|exact I].
    Qed.

    Lemma filter_hint_ok : truthful uh -> forall l,
      hint_ok (hint (filter_m uh p) l) (len (filter p (items l))).
    Proof. intros T l. apply upper_only_ok; auto. apply filter_length_le'. Qed.

    (* take_while: the reference stops at the first failing item; TakeWhile is not fused *)
    Lemma take_while_runs : forall l,
      exists l', runs_to (take_while_m uh p) l (take_while_ref p (items l)) l'.
    Proof.
      induction l as [|[a| |] r [l' IH]]; simpl.
      - exists []. apply R_end. reflexivity.
      - destruct (p a) eqn:E.
        + exists l'. eapply R_rdy; [simpl; unfold take_while_pull; simpl; rewrite E; reflexivity|exact IH].
        + exists r. apply R_end. simpl. unfold take_while_pull; simpl. rewrite E. reflexivity.
      - exists l'. eapply R_pend; [reflexivity|exact IH].
      - exists r. apply R_end. reflexivity.
    Qed.

    Lemma take_while_ref_length : forall l : list A, (length (take_while_ref p l) <= length l)%nat.
    Proof. induction l as [|a r IH]; simpl; [lia|]. destruct (p a); simpl; lia. Qed.

    Lemma take_while_hint_ok : truthful uh -> forall l,
      hint_ok (hint (take_while_m uh p) l) (len (take_while_ref p (items l))).
    Proof. intros T l. apply upper_only_ok; auto. apply take_while_ref_length. Qed.

    (* skip_while *)
    Definition skip_while_st_ref (st : bool * script A) : list A :=
      if fst st then skip_while_ref p (items (snd st)) else items (snd st).

    Lemma skip_while_runs_false : forall l,
      exists s', runs_to (skip_while_m uh p) (false, l) (items l) s'.
    Proof.
      induction l as [|[a| |] r [s' IH]]; simpl.
      - exists (false, []). apply R_end. reflexivity.
      - exists s'. eapply R_rdy; [reflexivity|exact IH].
      - exists s'. eapply R_pend; [reflexivity|exact IH].
      - exists (false, r). apply R_end. reflexivity.
    Qed.

    Lemma skip_while_runs_true : forall l,
      exists s', runs_to (skip_while_m uh p) (true, l) (skip_while_ref p (items l)) s'.
    Proof.
      induction l as [|[a| |] r [s' IH]]; simpl.
      - exists (true, []). apply R_end. reflexivity.
      - destruct (p a) eqn:E.
        + exists s'. eapply runs_step_eq; [|exact IH]. simpl. unfold skip_while_pull; simpl.
          rewrite E. reflexivity.
        + destruct (skip_while_runs_false r) as [s2 R2]. exists s2.
          eapply R_rdy; [|exact R2]. simpl. unfold skip_while_pull; simpl. rewrite E. reflexivity.
      - exists s'. eapply R_pend; [reflexivity|exact IH].
      - exists (true, r). apply R_end. reflexivity.
    Qed.

    Lemma skip_while_runs : forall st,
      exists s', runs_to (skip_while_m uh p) st (skip_while_st_ref st) s'.
    Proof.
      intros [[|] l]; unfold skip_while_st_ref; simpl;
        [apply skip_while_runs_true|apply skip_while_runs_false].
    Qed.

    Lemma skip_while_dead : forall st, dead (snd st) -> ended_forever (skip_while_m uh p) st.
    Proof.
      apply (@ended_forever_inv _ (skip_while_m uh p) (fun st => dead (snd st))).
      intros [sk l] D; simpl in D.
      destruct l as [|x r]; [exists (sk, []); split; [reflexivity|exact D]|].
      apply dead_inv in D. destruct D as [-> D]. exists (sk, r). split; [reflexivity|exact D].
    Qed.

    Lemma skip_while_ended : forall l sk s', fused_b l = true ->
      skip_while_pull_l p sk l = (Ended, s') -> dead (snd s').
    Proof.
      induction l as [|[a| |] r IH]; simpl; intros sk s' F E.
      - inv E. apply dead_nil.
      - destruct (sk && p a); [|discriminate]. eapply IH; eauto.
      - discriminate.
      - inv E. exact F.
    Qed.

    Lemma skip_while_fused : forall st s', fused_b (snd st) = true ->
      pull1 (skip_while_m uh p) st = (Ended, s') -> ended_forever (skip_while_m uh p) s'.
    Proof.
      intros [sk l] s' F E. apply skip_while_dead. simpl in F, E. unfold skip_while_pull in E.
      simpl in E. eapply skip_while_ended; eauto.
    Qed.

    Lemma skip_while_ref_length : forall l : list A, (length (skip_while_ref p l) <= length l)%nat.
    Proof. induction l as [|a r IH]; simpl; [lia|]. destruct (p a); simpl; lia. Qed.

    Lemma skip_while_hint_ok : truthful uh -> forall st,
      hint_ok (hint (skip_while_m uh p) st) (len (skip_while_st_ref st)).
    Proof.
      intros T [[|] l]; unfold skip_while_st_ref; simpl; unfold skip_while_hint; simpl.
      - apply upper_only_ok; auto. apply skip_while_ref_length.
      - apply T.
    Qed.
  End Pred.

  (* ------------------------------------------------------------------ take *)
  Definition take_ref (st : N * script A) : list A := firstn (N.to_nat (fst st)) (items (snd st)).

  Lemma take_runs : forall l n, exists s', runs_to (take_m uh) (n, l) (take_ref (n, l)) s'.
  Proof.
    unfold take_ref; simpl.
    induction l as [|[a| |] r IH]; intros n; simpl.
    - exists (if n =? 0 then (n, []) else (0, [])). rewrite firstn_nil. apply R_end. simpl.
      destruct (n =? 0); reflexivity.
    - destruct (n =? 0) eqn:E.
      + apply N.eqb_eq in E. subst. exists (0, Rdy a :: r). apply R_end. reflexivity.
      + apply N.eqb_neq in E. destruct (IH (n - 1)) as [s' R]. exists s'.
        replace (N.to_nat n) with (S (N.to_nat (n - 1))) by lia. simpl.
        eapply R_rdy; [|exact R]. simpl. destruct (n =? 0) eqn:E2; [apply N.eqb_eq in E2; lia|reflexivity].
    - destruct (n =? 0) eqn:E.
      + apply N.eqb_eq in E. subst. exists (0, Pend :: r). apply R_end. reflexivity.
      + destruct (IH n) as [s' R]. exists s'. eapply R_pend; [|exact R]. simpl. rewrite E. reflexivity.
    - rewrite firstn_nil. exists (if n =? 0 then (n, End :: r) else (0, r)). apply R_end. simpl.
      destruct (n =? 0); reflexivity.
  Qed.

  Lemma take_zero : forall l, ended_forever (take_m uh) (0, l).
  Proof.
    intros l. apply (@ended_forever_inv _ (take_m uh) (fun st : N * script A => fst st = 0)); [|reflexivity].
    intros [n l0] E; simpl in E; subst. exists (0, l0). split; reflexivity.
  Qed.

  (* Take is fused whatever its upstream does *)
  Lemma take_fused : forall st s', pull1 (take_m uh) st = (Ended, s') -> ended_forever (take_m uh) s'.
  Proof.
    intros [n l] s' E. simpl in E. destruct (n =? 0) eqn:E0.
    - inv E. apply N.eqb_eq in E0. subst. apply take_zero.
    - destruct (src_pull l) as [[a| |] l1]; inv E. apply take_zero.
  Qed.

  Lemma take_hint_ok : truthful uh -> forall st, hint_ok (hint (take_m uh) st) (len (take_ref st)).
  Proof.
    intros T [n l]. destruct (T l) as [L U]. unfold hint_ok, take_ref, len, rem in *; simpl.
    rewrite firstn_length. destruct (uh l) as [lo up]; simpl in *. split; [lia|].
    destruct up; lia.
  Qed.

  (* ------------------------------------------------------------------ skip *)
  Definition skip_ref (st : N * script A) : list A := skipn (N.to_nat (fst st)) (items (snd st)).

  Lemma skip_runs : forall l n, exists s', runs_to (skip_m uh) (n, l) (skip_ref (n, l)) s'.
  Proof.
    unfold skip_ref; simpl.
    induction l as [|[a| |] r IH]; intros n; simpl.
    - exists (n, []). rewrite skipn_nil. apply R_end. reflexivity.
    - destruct (0 <? n) eqn:E.
      + apply N.ltb_lt in E. destruct (IH (n - 1)) as [s' R]. exists s'.
        replace (N.to_nat n) with (S (N.to_nat (n - 1))) by lia. simpl.
        eapply runs_step_eq; [|exact R]. simpl. unfold skip_pull; simpl.
        destruct (0 <? n) eqn:E2; [reflexivity|apply N.ltb_ge in E2; lia].
      + apply N.ltb_ge in E. assert (n = 0) by lia. subst. simpl.
        destruct (IH 0) as [s' R]. simpl in R. exists s'. eapply R_rdy; [reflexivity|].
        replace (items r) with (skipn (N.to_nat 0) (items r)) by reflexivity. exact R.
    - destruct (IH n) as [s' R]. exists s'. eapply R_pend; [reflexivity|exact R].
    - exists (n, r). rewrite skipn_nil. apply R_end. reflexivity.
  Qed.

  Lemma skip_dead : forall st, dead (snd st) -> ended_forever (skip_m uh) st.
  Proof.
    apply (@ended_forever_inv _ (skip_m uh) (fun st : N * script A => dead (snd st))).
    intros [n l] D; simpl in D.
    destruct l as [|x r]; [exists (n, []); split; [reflexivity|exact D]|].
    apply dead_inv in D. destruct D as [-> D]. exists (n, r). split; [reflexivity|exact D].
  Qed.

  Lemma skip_ended : forall (l : script A) n s', fused_b l = true ->
    skip_pull_l n l = (Ended, s') -> dead (snd s').
  Proof.
    induction l as [|[a| |] r IH]; simpl; intros n s' F E.
    - inv E. apply dead_nil.
    - destruct (0 <? n); [|discriminate]. eapply IH; eauto.
    - discriminate.
    - inv E. exact F.
  Qed.

  Lemma skip_fused : forall st s', fused_b (snd st) = true ->
    pull1 (skip_m uh) st = (Ended, s') -> ended_forever (skip_m uh) s'.
  Proof.
    intros [n l] s' F E. apply skip_dead. simpl in F, E. unfold skip_pull in E.
    simpl in E. eapply skip_ended; eauto.
  Qed.

  Lemma skip_hint_ok : truthful uh -> forall st, hint_ok (hint (skip_m uh) st) (len (skip_ref st)).
  Proof.
    intros T [n l]. destruct (T l) as [L U]. unfold hint_ok, skip_ref, len, rem in *; simpl.
    unfold skip_hint; simpl. rewrite skipn_length. destruct (uh l) as [lo up]; simpl in *.
    split; [lia|]. destruct up; simpl; [lia|exact I].
  Qed.

  (* ------------------------------------------------------------------ enumerate *)
  Lemma enumerate_runs : forall l i,
    exists s', runs_to (enumerate_m uh) (i, l) (enumerate_from i (items l)) s'.
  Proof.
    induction l as [|[a| |] r IH]; intros i; simpl.
    - exists (i, []). apply R_end. reflexivity.
    - destruct (IH (i + 1)) as [s' R]. exists s'. eapply R_rdy; [reflexivity|exact R].
    - destruct (IH i) as [s' R]. exists s'. eapply R_pend; [reflexivity|exact R].
    - exists (i, r). apply R_end. reflexivity.
  Qed.

  Lemma enumerate_dead : forall st, dead (snd st) -> ended_forever (enumerate_m uh) st.
  Proof.
    apply (@ended_forever_inv _ (enumerate_m uh) (fun st : N * script A => dead (snd st))).
    intros [i l] D; simpl in D. destruct (dead_pull D) as [l' [E D']].
    exists (i, l'). split; [|exact D']. simpl. rewrite E. reflexivity.
  Qed.

  Lemma enumerate_fused : forall st s', fused_b (snd st) = true ->
    pull1 (enumerate_m uh) st = (Ended, s') -> ended_forever (enumerate_m uh) s'.
  Proof.
    intros [i l] s' F E. apply enumerate_dead. simpl in *.
    destruct (src_pull l) as [[a| |] l1] eqn:E1; inv E. simpl. eapply fused_ended_dead; eauto.
  Qed.

  Lemma enumerate_from_length : forall (l : list A) i, length (enumerate_from i l) = length l.
  Proof. induction l as [|a r IH]; intros i; simpl; [reflexivity|]. rewrite IH. reflexivity. Qed.

  Lemma enumerate_hint_ok : truthful uh -> forall st,
    hint_ok (hint (enumerate_m uh) st) (len (enumerate_from (fst st) (items (snd st)))).
  Proof. intros T [i l]. unfold len. rewrite enumerate_from_length. apply T. Qed.

  (* ------------------------------------------------------------------ fuse *)
  Definition fuse_ref (st : option (script A)) : list A :=
    match st with Some l => items l | None => [] end.

  Lemma fuse_runs : forall st, exists s', runs_to (fuse_m uh) st (fuse_ref st) s'.
  Proof.
    intros [l|]; simpl; [|exists None; apply R_end; reflexivity].
    induction l as [|[a| |] r [s' IH]]; simpl.
    - exists None. apply R_end. reflexivity.
    - exists s'. eapply R_rdy; [reflexivity|exact IH].
    - exists s'. eapply R_pend; [reflexivity|exact IH].
    - exists None. apply R_end. reflexivity.
  Qed.

  Lemma fuse_none : ended_forever (fuse_m uh) None.
  Proof.
    apply (@ended_forever_inv _ (fuse_m uh) (fun st => st = None)); [|reflexivity].
    intros st ->. exists None. split; reflexivity.
  Qed.

  (* Fuse is fused whatever its upstream does after reporting the end *)
  Lemma fuse_fused : forall st s', pull1 (fuse_m uh) st = (Ended, s') -> ended_forever (fuse_m uh) s'.
  Proof.
    intros [l|] s' E; simpl in E.
    - destruct (src_pull l) as [[a| |] l1]; inv E. apply fuse_none.
    - inv E. apply fuse_none.
  Qed.

  Lemma fuse_hint_ok : truthful uh -> forall st, hint_ok (hint (fuse_m uh) st) (len (fuse_ref st)).
  Proof.
    intros T [l|]; simpl; [apply T|]. unfold hint_ok, len; simpl. lia.
  Qed.
End Same.
