(* E4 Pipes, pull side -- C13: the executable form C13_holds_b is complete on the model's own
   observations: whatever the model computes (that reaches the end) passes the check's
   property bit, so the bit can only fire on an implementation output that differs. *)
From Coq Require Import Permutation.
From HV Require Import Pull.Model Pull.PCore Pull.ModelJoin Pull.PJoin Pull.PJoin2 Pull.CorrJoin
  Pull.PJoin3 Pull.PSound.
Set Implicit Arguments.
Open Scope N_scope.

Ltac inv H := inversion H; subst; clear H.

Section Perm.
  Variable A : Type.
  Variable e : A -> A -> bool.
  Hypothesis He : forall x y, e x y = true <-> x = y.

  Lemma remove1_complete x : forall l, In x l ->
    exists l', remove1 e x l = Some l' /\ Permutation l (x :: l').
  Proof.
    induction l as [|y r IH]; intros H; [destruct H|]. simpl.
    destruct (e x y) eqn:E.
    - apply He in E. subst. exists r. split; auto.
    - destruct H as [H|H]; [subst; rewrite (proj2 (He x x) eq_refl) in E; discriminate|].
      destruct (IH H) as [r' [R P]]. rewrite R. simpl. exists (y :: r'). split; auto.
      etransitivity; [apply perm_skip; exact P|]. apply perm_swap.
  Qed.

  Lemma perm_b_complete : forall a b, Permutation a b -> perm_b e a b = true.
  Proof.
    induction a as [|x r IH]; intros b P; simpl.
    - apply Permutation_nil in P. subst. reflexivity.
    - assert (In x b) as Hin by (eapply Permutation_in; [exact P|left; reflexivity]).
      destruct (remove1_complete x b Hin) as [b' [R Pb]]. rewrite R. apply IH.
      apply Permutation_cons_inv with (a := x). etransitivity; [exact P|exact Pb].
  Qed.

  Lemma nodup_b_complete : forall l, NoDup l -> nodup_b e l = true.
  Proof.
    induction 1 as [|x l Hx Hl IH]; simpl; auto. rewrite IH, andb_true_r.
    apply negb_true_iff. destruct (existsb (e x) l) eqn:E; auto.
    apply existsb_exists in E. destruct E as [y [Hy Ey]]. apply He in Ey. subst. contradiction.
  Qed.

  Lemma list_eqb_of_Forall2 (P : A -> A -> Prop) (f : A -> A -> bool) :
    (forall x y, P x y -> f x y = true) ->
    forall l1 l2, Forall2 P l1 l2 -> list_eqb f l1 l2 = true.
  Proof. intros H. induction 1; simpl; auto. rewrite H, IHForall2; auto. Qed.
End Perm.

(* the model's observation of a case after n polls *)
Definition model_jobs (c : jcase) (n : nat) : jobs :=
  match c with
  | JInc s pre1 pre2 l1 l2 =>
      let st := jinit s pre1 pre2 l1 l2 in
      let '(h1, h2, _, _) := final_state s n st in
      JObs (polls (shj_m s) n st) (rows (table h1)) (hlen h1) (rows (table h2)) (hlen h2) []
  | JTicks s p1 p2 ticks => JObs [] [] 0 [] 0 (model_ticks s p1 p2 half0 half0 ticks)
  end.

Lemma jemitted_run s st out st' : runs_to (shj_m s) st out st' ->
  forall n its, jemitted (polls (shj_m s) n st) = Some its -> its = out.
Proof.
  induction 1 as [st st' E|st b s1 out s2 E R IH|st s1 out s2 E R IH]; intros [|n] its H;
    try discriminate; cbn [polls] in H; rewrite E in H; simpl in H.
  - inv H. reflexivity.
  - destruct (jemitted (polls (shj_m s) n s1)) as [its1|] eqn:E1; [|discriminate]. inv H.
    f_equal. eapply IH; eauto.
  - eapply IH; eauto.
Qed.

Lemma model_ticks_fst s p1 p2 : forall ticks h1 h2,
  map fst (model_ticks s p1 p2 h1 h2 ticks) = run_ticks s p1 p2 h1 h2 ticks.
Proof.
  induction ticks as [|[l1 l2] r IH]; intros h1 h2; simpl; auto.
  unfold new_tick. simpl. f_equal. apply IH.
Qed.

Lemma prebuild_holds s : forall pre h acc, holds s h acc ->
  holds s (fold_left (fun h x => fst (build s h (fst x) (snd x))) pre h) (acc ++ pre).
Proof.
  induction pre as [|[k v] r IH]; intros h acc H; simpl.
  - rewrite app_nil_r. exact H.
  - replace (acc ++ (k, v) :: r) with ((acc ++ [(k, v)]) ++ r) by (rewrite <- app_assoc; reflexivity).
    apply IH. apply (holds_drain [Rdy (k, v)] H).
Qed.

Theorem C13_model_holds c n :
  match c with
  | JInc s pre1 pre2 l1 l2 =>
      fused_b l1 = true -> fused_b l2 = true ->
      jemitted (polls (shj_m s) n (jinit s pre1 pre2 l1 l2)) <> None ->
      C13_holds_b c (model_jobs c n) = true
  | JTicks _ _ _ _ => C13_holds_b c (model_jobs c n) = true
  end.
Proof.
  destruct c as [s pre1 pre2 l1 l2|s p1 p2 ticks].
  - intros F1 F2 NE. unfold C13_holds_b, model_jobs.
    set (st := jinit s pre1 pre2 l1 l2) in *.
    destruct (final_state s n st) as [[[h1 h2] l1'] l2']. cbn [o_trace].
    destruct (jemitted (polls (shj_m s) n st)) as [out|] eqn:Jm; [|congruence].
    destruct (@shj_terminates s st) as [out' [st' R]].
    rewrite (jemitted_run R n Jm).
    pose proof (@prebuild_holds s pre1 half0 [] (holds_empty s)) as H1.
    pose proof (@prebuild_holds s pre2 half0 [] (holds_empty s)) as H2. simpl in H1, H2.
    assert (wf st) as W by (split; [apply H1|apply H2]).
    assert (pend st = []) as P0.
    { unfold st, jinit, prebuild. cbn [pend].
      assert (forall pre h, cm h = [] ->
                cm (fold_left (fun h x => fst (build s h (fst x) (snd x))) pre h) = []) as C.
      { induction pre as [|[k v] r IH]; intros h Hc; simpl; auto. apply IH.
        destruct s; simpl; [destruct (tget (table h) k) as [vec|]; [destruct (memN v vec)|]|]; simpl; auto. }
      rewrite !C by reflexivity. reflexivity. }
    pose proof (@shj_emits_join_of_arrivals s st out' st' W P0 (conj F1 F2) R) as HJ.
    unfold st, jinit in HJ. cbn [JS ev1 ev2] in HJ. unfold J, ev in HJ. fold (prebuild s pre1) in *.
    fold (prebuild s pre2) in *.
    assert (Permutation (out' ++ join_rows (built s pre1) (built s pre2))
                        (join_rows (built s (pre1 ++ items l1)) (built s (pre2 ++ items l2)))) as HP.
    { etransitivity; [apply Permutation_app_head; apply join_rows_perm; symmetry; [apply H1|apply H2]|].
      etransitivity; [exact HJ|]. apply join_rows_perm.
      - rewrite <- built_from_built. apply built_from_base_perm. apply H1.
      - rewrite <- built_from_built. apply built_from_base_perm. apply H2. }
    rewrite (@perm_b_complete _ row_eqb row_eqb_eq _ _ HP). simpl.
    destruct s; auto. apply (@nodup_b_complete _ row_eqb row_eqb_eq).
    apply (@shj_set_nodup st out' st' W P0 (conj F1 F2) R). unfold st, jinit. split.
    + eapply Permutation_NoDup; [symmetry; apply H1|]. apply NoDup_dedup_acc.
    + eapply Permutation_NoDup; [symmetry; apply H2|]. apply NoDup_dedup_acc.
  - unfold C13_holds_b, model_jobs. cbn [o_ticks]. rewrite model_ticks_fst.
    apply (@list_eqb_of_Forall2 _ (@Permutation _) (perm_b row_eqb)).
    + intros x y. apply (@perm_b_complete _ row_eqb row_eqb_eq).
    + apply run_ticks_ref; apply holds_empty.
Qed.
