(* E4 Pipes, pull side -- the C11 statement as one predicate per combinator, and its proof
   for each of the sixteen modelled combinators (assembled from POne.v / PTwo.v). *)
From HV Require Import Pull.Model Pull.PCore Pull.POne Pull.PTwo.
Set Implicit Arguments.
Open Scope N_scope.

(* C11 for one combinator [m].
   [pre]   : what the combinator's trait bounds demand of its upstream scripts (Chain's first
             and ZipLongest's inputs are FusedPull), [True] otherwise;
   [fin]   : the condition of the combinator's `impl FusedPull` ([False] if it has none);
   [ref s] : the iterator adaptor applied to the items the upstream(s) still hold in state s
             (plus whatever s buffers).
   The four clauses, for EVERY state s (hence every script, of any length, with Pend anywhere):
   1. polling until the first Ended terminates and yields exactly [ref s], in order;
   2. after any number n of polls the items emitted so far are a prefix of [ref s]
      (nothing invented, nothing emitted twice, wherever a Pending interrupts);
   3. once Ended is reported it is reported for ever, if the FusedPull condition holds;
   4. size_hint brackets the number of items still to come. *)
Definition C11_spec {B} (m : machine B) (pre fin : St m -> Prop) (ref : St m -> list B) : Prop :=
  (forall s, pre s -> exists s', runs_to m s (ref s) s') /\
  (forall s n, pre s -> exists rest, ref s = emitted (polls m n s) ++ rest) /\
  (forall s s', pre s -> fin s -> pull1 m s = (Ended, s') -> ended_forever m s') /\
  (forall s, pre s -> hint_ok (hint m s) (len (ref s))).

Lemma mk_spec {B} (m : machine B) (pre fin : St m -> Prop) (ref : St m -> list B) :
  (forall s, pre s -> exists s', runs_to m s (ref s) s') ->
  (forall s s', pre s -> fin s -> pull1 m s = (Ended, s') -> ended_forever m s') ->
  (forall s, pre s -> hint_ok (hint m s) (len (ref s))) ->
  C11_spec m pre fin ref.
Proof.
  intros R F H. split; [exact R|split; [|split; [exact F|exact H]]].
  intros s n P. destruct (R s P) as [s' Rs]. exact (emitted_prefix Rs n).
Qed.

Definition always {S : Type} (s : S) : Prop := True.
Definition never {S : Type} (s : S) : Prop := False.

Section Specs.
  Variables A B : Type.
  Variable uh : script A -> hintT.
  Hypothesis T : truthful uh.

  Lemma map_spec (f : A -> B) :
    C11_spec (map_m uh f) always (fun l => fused_b l = true) (fun l => map f (items l)).
  Proof.
    apply mk_spec.
    - intros l _. apply map_runs.
    - intros l l' _ F. apply map_fused; auto.
    - intros l _. apply map_hint; auto.
  Qed.

  Lemma filter_map_spec (f : A -> option B) :
    C11_spec (filter_map_m uh f) always (fun l => fused_b l = true)
             (fun l => filter_map_ref f (items l)).
  Proof.
    apply mk_spec.
    - intros l _. apply filter_map_runs.
    - intros l l' _ F. apply filter_map_fused; auto.
    - intros l _. apply filter_map_hint; auto.
  Qed.

  Lemma flat_map_spec (g : A -> list B) :
    C11_spec (flat_map_m g) always (fun st => fused_b (snd st) = true)
             (fun st => cur_items (fst st) ++ flat_map g (items (snd st))).
  Proof.
    apply mk_spec.
    - intros [cur l] _. apply flat_map_runs.
    - intros [cur l] s' _ F. eapply flat_map_fused; eauto.
    - intros [cur l] _. apply flat_map_hint_ok.
  Qed.

  Lemma inspect_spec :
    C11_spec (inspect_m uh) always (fun l => fused_b l = true) (fun l => items l).
  Proof.
    apply mk_spec.
    - intros l _. apply inspect_runs.
    - intros l l' _ F. apply inspect_fused; auto.
    - intros l _. apply inspect_hint; auto.
  Qed.

  Lemma filter_spec (p : A -> bool) :
    C11_spec (filter_m uh p) always (fun l => fused_b l = true) (fun l => filter p (items l)).
  Proof.
    apply mk_spec.
    - intros l _. apply filter_runs.
    - intros l l' _ F. apply filter_fused; auto.
    - intros l _. apply filter_hint_ok; auto.
  Qed.

  Lemma take_while_spec (p : A -> bool) :
    C11_spec (take_while_m uh p) always never (fun l => take_while_ref p (items l)).
  Proof.
    apply mk_spec.
    - intros l _. apply take_while_runs.
    - intros l l' _ [].
    - intros l _. apply take_while_hint_ok; auto.
  Qed.

  Lemma skip_while_spec (p : A -> bool) :
    C11_spec (skip_while_m uh p) always (fun st => fused_b (snd st) = true) (skip_while_st_ref p).
  Proof.
    apply mk_spec.
    - intros st _. apply skip_while_runs.
    - intros st s' _ F. eapply skip_while_fused; eauto.
    - intros st _. apply skip_while_hint_ok; auto.
  Qed.

  Lemma take_spec : C11_spec (take_m uh) always always (@take_ref A).
  Proof.
    apply mk_spec.
    - intros [n l] _. apply take_runs.
    - intros st s' _ _. apply take_fused.
    - intros st _. apply take_hint_ok; auto.
  Qed.

  Lemma skip_spec : C11_spec (skip_m uh) always (fun st => fused_b (snd st) = true) (@skip_ref A).
  Proof.
    apply mk_spec.
    - intros [n l] _. apply skip_runs.
    - intros st s' _ F. eapply skip_fused; eauto.
    - intros st _. apply skip_hint_ok; auto.
  Qed.

  Lemma enumerate_spec :
    C11_spec (enumerate_m uh) always (fun st => fused_b (snd st) = true)
             (fun st => enumerate_from (fst st) (items (snd st))).
  Proof.
    apply mk_spec.
    - intros [i l] _. apply enumerate_runs.
    - intros st s' _ F. eapply enumerate_fused; eauto.
    - intros st _. apply enumerate_hint_ok; auto.
  Qed.

  Lemma fuse_spec : C11_spec (fuse_m uh) always always (@fuse_ref A).
  Proof.
    apply mk_spec.
    - intros st _. apply fuse_runs.
    - intros st s' _ _. apply fuse_fused.
    - intros st _. apply fuse_hint_ok; auto.
  Qed.

  Variable uh' : script A -> hintT.
  Hypothesis T' : truthful uh'.

  Lemma chain_spec :
    C11_spec (chain_m uh uh') (fun st => fused_b (fst st) = true)
             (fun st => fused_b (snd st) = true) (@chain_ref A).
  Proof.
    apply mk_spec.
    - intros st F. apply chain_runs; auto.
    - intros st s' F1 F2. apply chain_fused; auto.
    - intros st _. apply chain_hint_ok; auto.
  Qed.

  Variable uh2 : script B -> hintT.
  Hypothesis T2 : truthful uh2.

  Lemma zip_spec : C11_spec (zip_m uh uh2) always never (@zip_ref A B).
  Proof.
    apply mk_spec.
    - intros st _. apply zip_runs.
    - intros st s' _ [].
    - intros st _. apply zip_hint_ok; auto.
  Qed.

  Lemma zip_longest_spec : C11_spec (zipl_m uh uh2) (@zfused A B) always (@zipl_ref A B).
  Proof.
    apply mk_spec.
    - intros st F. apply zipl_runs; auto.
    - intros st s' F _. apply zipl_fused; auto.
    - intros st _. apply zipl_hint_ok; auto.
  Qed.

  Lemma cross_spec :
    C11_spec (cross_m B uh) always
             (fun st => fused_b (snd (fst st)) = true /\ fused_b (snd st) = true)
             (@cross_st_ref A B).
  Proof.
    apply mk_spec.
    - intros st _. apply cross_runs.
    - intros st s' _ [F1 F2]. apply cross_fused; auto.
    - intros st _. apply cross_hint_ok; auto.
  Qed.
End Specs.

(* flatten = flat_map with the identity *)
Lemma flatten_spec (A : Type) :
  C11_spec (@flatten_m A) always (fun st => fused_b (snd st) = true)
           (fun st => cur_items (fst st) ++ concat (items (snd st))).
Proof.
  pose proof (flat_map_spec (fun x : list A => x)) as H. unfold flatten_m.
  assert (forall l : list (list A), flat_map (fun x => x) l = concat l) as E.
  { induction l; simpl; congruence. }
  destruct H as [H1 [H2 [H3 H4]]]. split; [|split; [|split]].
  - intros s P. rewrite <- E. auto.
  - intros s n P. rewrite <- E. auto.
  - exact H3.
  - intros s P. rewrite <- E. apply H4; auto.
Qed.
