(* E4 Pipes, pull side -- the executable forms of C11 / C13 used by the check are sound:
   [C11_holds_b c t = true] implies the Prop-level conclusions of the C11 theorems about the
   trace t (whatever produced it -- the check evaluates it on the implementation's trace), and
   likewise [C13_holds_b]. *)
From Coq Require Import Permutation.
From HV Require Import Pull.Model Pull.PCore Pull.Corr Pull.ModelJoin Pull.CorrJoin Pull.PJoin2.
Set Implicit Arguments.
Open Scope N_scope.

Ltac inv H := inversion H; subst; clear H.

Lemma val_eqb_eq : forall x y, val_eqb x y = true <-> x = y.
Proof.
  induction x; destruct y; simpl; try (split; [discriminate|congruence]).
  - rewrite N.eqb_eq. split; congruence.
  - rewrite andb_true_iff, IHx1, IHx2. split; [intros [-> ->]; auto|intros E; inv E; auto].
  - rewrite IHx. split; congruence.
  - rewrite IHx. split; congruence.
  - rewrite andb_true_iff, IHx1, IHx2. split; [intros [-> ->]; auto|intros E; inv E; auto].
Qed.

Lemma list_eqb_eq {A} (e : A -> A -> bool) : (forall x y, e x y = true <-> x = y) ->
  forall l1 l2, list_eqb e l1 l2 = true <-> l1 = l2.
Proof.
  intros He. induction l1 as [|a r IH]; destruct l2 as [|b s]; simpl; try (split; [discriminate|congruence]).
  - tauto.
  - rewrite andb_true_iff, He, IH. split; [intros [-> ->]; auto|intros E; inv E; auto].
Qed.

Arguments list_eqb_eq {A e} _ l1 l2.

Lemma brackets_ok h n : brackets h n = true <-> hint_ok h n.
Proof.
  unfold brackets, hint_ok. rewrite andb_true_iff, N.leb_le.
  destruct (snd h); [rewrite N.leb_le|]; intuition.
Qed.

(* Prop-level reading of a trace *)
Definition no_end (t : trace) : Prop := Forall (fun x => snd x <> Ended) t.

(* every size_hint reported before the first Ended brackets the number of items that the
   trace still delivers before that Ended *)
Definition hints_bracket (t : trace) : Prop :=
  forall t1 h o t2 its, t = t1 ++ (h, o) :: t2 -> no_end t1 ->
    tr_items ((h, o) :: t2) = Some its -> hint_ok h (N.of_nat (length its)).

Lemma tr_hints_ok_sound : forall t, tr_hints_ok t = true -> hints_bracket t.
Proof.
  induction t as [|[h o] r IH]; intros H t1 h' o' t2 its E NE I.
  - destruct t1; discriminate.
  - destruct t1 as [|x t1]; simpl in E; inv E.
    + cbn [tr_hints_ok] in H. rewrite I in H. apply andb_prop in H. apply brackets_ok, H.
    + inversion NE as [|? ? Hx Ht]; subst. simpl in Hx. cbn [tr_hints_ok] in H.
      assert (forall u, no_end u -> tr_items (u ++ (h', o') :: t2) <> None) as NN.
      { induction u as [|[h1 o1] u IHu]; intros Hu; [cbn [app]; congruence|simpl].
        inversion Hu as [|? ? Hx1 Hu1]; subst. simpl in Hx1. specialize (IHu Hu1).
        destruct o1; try congruence.
        destruct (tr_items (u ++ (h', o') :: t2)); simpl; congruence. }
      specialize (NN t1 Ht).
      destruct o as [v| |]; try congruence; simpl in H;
        destruct (tr_items (t1 ++ (h', o') :: t2)) eqn:E0; try congruence; simpl in H;
        apply andb_prop in H; destruct H as [_ H]; eapply IH; eauto.
Qed.

Theorem C11_holds_b_sound c t : C11_holds_b c t = true -> pre_case c = true ->
  tr_items t = Some (ref_case c) /\
  (promises_fused c = true ->
     Forall (fun x => snd x = Ended /\ fst (fst x) = 0) (tr_after_end t)) /\
  hints_bracket t.
Proof.
  unfold C11_holds_b, gen_ok. intros H P. rewrite P in H. simpl in H.
  apply andb_prop in H. destruct H as [H H3]. apply andb_prop in H. destruct H as [H1 H2].
  split; [|split].
  - destruct (tr_items t) as [its|]; [|discriminate].
    apply (list_eqb_eq val_eqb_eq) in H1. rewrite H1. reflexivity.
  - intros F. rewrite F in H2. simpl in H2. apply andb_prop in H2. destruct H2 as [A1 A2].
    rewrite forallb_forall in A1, A2. apply Forall_forall. intros x Hx. split.
    + specialize (A1 x Hx). destruct x as [hx ox]. unfold is_Ended in A1. simpl in *.
      destruct ox; try discriminate A1; reflexivity.
    + apply N.eqb_eq. apply A2. exact Hx.
  - apply tr_hints_ok_sound. exact H3.
Qed.

(* ------------------------------------------------------------------------------------ *)
Lemma row_eqb_eq x y : row_eqb x y = true <-> x = y.
Proof.
  destruct x as [a [b c]], y as [d [e f]]. unfold row_eqb; simpl.
  rewrite !andb_true_iff, !N.eqb_eq. split; [intros [[-> ->] ->]; auto|intros E; inv E; auto].
Qed.

Lemma remove1_perm {A} (e : A -> A -> bool) (He : forall x y, e x y = true <-> x = y) x :
  forall l l', remove1 e x l = Some l' -> Permutation l (x :: l').
Proof.
  induction l as [|y r IH]; simpl; intros l' H; [discriminate|].
  destruct (e x y) eqn:E.
  - apply He in E. inv H. apply Permutation_refl.
  - destruct (remove1 e x r) as [r'|]; [|discriminate]. inv H.
    etransitivity; [apply perm_skip, IH; reflexivity|]. apply perm_swap.
Qed.

Arguments remove1_perm {A e} _ {x l l'} _.

Lemma perm_b_sound {A} (e : A -> A -> bool) (He : forall x y, e x y = true <-> x = y) :
  forall a b, perm_b e a b = true -> Permutation a b.
Proof.
  induction a as [|x r IH]; simpl; intros b H.
  - destruct b; [constructor|discriminate].
  - destruct (remove1 e x b) as [b'|] eqn:R; [|discriminate].
    symmetry. etransitivity; [apply (remove1_perm He R)|]. apply perm_skip. symmetry. auto.
Qed.

Arguments perm_b_sound {A e} _ a b _.

Lemma nodup_b_sound {A} (e : A -> A -> bool) (He : forall x y, e x y = true <-> x = y) :
  forall l, nodup_b e l = true -> NoDup l.
Proof.
  induction l as [|x r IH]; simpl; intros H; [constructor|].
  apply andb_prop in H. destruct H as [H1 H2]. constructor; auto.
  intros Hin. apply negb_true_iff in H1. assert (existsb (e x) r = true); [|congruence].
  apply existsb_exists. exists x. split; auto. apply He. reflexivity.
Qed.

Arguments nodup_b_sound {A e} _ l _.

Lemma list_eqb_Forall2 {A} (e : A -> A -> bool) (P : A -> A -> Prop) :
  (forall x y, e x y = true -> P x y) ->
  forall l1 l2, list_eqb e l1 l2 = true -> Forall2 P l1 l2.
Proof.
  intros He. induction l1 as [|a r IH]; destruct l2 as [|b s]; simpl; intros H;
    try discriminate; constructor; apply andb_prop in H; destruct H; auto.
Qed.

(* what C13_holds_b establishes about an observation (the implementation's) *)
Theorem C13_holds_b_sound c o : C13_holds_b c o = true ->
  match c with
  | JInc s pre1 pre2 l1 l2 =>
      exists out, jemitted (o_trace o) = Some out /\
        Permutation (out ++ join_rows (built s pre1) (built s pre2))
                    (join_rows (built s (pre1 ++ items l1)) (built s (pre2 ++ items l2))) /\
        (s = SetSem -> NoDup out)
  | JTicks s p1 p2 ticks =>
      Forall2 (@Permutation _) (map fst (o_ticks o)) (ref_ticks s p1 p2 [] [] ticks)
  end.
Proof.
  destruct c as [s pre1 pre2 l1 l2|s p1 p2 ticks]; simpl; intros H.
  - destruct (jemitted (o_trace o)) as [out|]; [|discriminate]. exists out.
    apply andb_prop in H. destruct H as [H1 H2]. split; [reflexivity|]. split.
    + apply (perm_b_sound row_eqb_eq _ _ H1).
    + intros ->. apply (nodup_b_sound row_eqb_eq _ H2).
  - apply (@list_eqb_Forall2 _ (perm_b row_eqb)); auto. intros x y. apply (perm_b_sound row_eqb_eq).
Qed.
