(* E4 Pipes, pull side -- correspondence layer for C11 (definitions only).
   A [case] names one combinator, its closure from the fixed vocabulary shared with
   harness/h_pull, and the script(s) of its upstream(s) with the slack of the source's
   size_hint.  [run_case] is the model's answer to the first n polls; [C11_holds_b] is the
   executable form of the property, evaluated on the *implementation's* trace. *)
From HV Require Export Pull.Model.
Set Implicit Arguments.
Open Scope N_scope.

Inductive val : Type :=
| VN (n : N) | VP (a b : val) | VL (a : val) | VR (b : val) | VB (a b : val).

Fixpoint val_eqb (x y : val) : bool :=
  match x, y with
  | VN a, VN b => a =? b
  | VP a b, VP c d => val_eqb a c && val_eqb b d
  | VL a, VL c => val_eqb a c
  | VR a, VR c => val_eqb a c
  | VB a b, VB c d => val_eqb a c && val_eqb b d
  | _, _ => false
  end.

(* closure vocabulary (harness/h_pull/src/main.rs implements the same functions on u64) *)
Inductive fnN := FAdd (k : N) | FMul2 | FMod5.
Inductive prN := PMod3 | PLt (k : N) | PEven | PTrue | PFalse.
Inductive opN := OHalfEven | ODec | ONone.
Inductive lsN := LRepMod3 | LDup | LEmpty | LIota.

Definition ev_fn (f : fnN) (x : N) : N :=
  match f with FAdd k => x + k | FMul2 => x * 2 | FMod5 => x mod 5 end.
Definition ev_pr (p : prN) (x : N) : bool :=
  match p with
  | PMod3 => x mod 3 =? 0 | PLt k => x <? k | PEven => N.even x | PTrue => true | PFalse => false
  end.
Definition ev_op (o : opN) (x : N) : option N :=
  match o with
  | OHalfEven => if N.even x then Some (x / 2) else None
  | ODec => if x =? 0 then None else Some (x - 1)
  | ONone => None
  end.
Fixpoint iota (x : N) (n : nat) : list N :=
  match n with O => [] | S k => x :: iota (x + 1) k end.
Definition ev_ls (g : lsN) (x : N) : list N :=
  match g with
  | LRepMod3 => repeat x (N.to_nat (x mod 3))
  | LDup => [x; x + 1]
  | LEmpty => []
  | LIota => iota x (N.to_nat (x mod 4))
  end.

(* a scripted source with the slack of its size_hint: reports (rem - lo, rem + hi | None) *)
Record srcOf (A : Type) := Src { s_scr : script A; s_lo : N; s_hi : option N }.
Definition sh {A} (s : srcOf A) : script A -> hintT := slack_hint (s_lo s) (s_hi s).
Definition srcN := srcOf N.

Inductive case :=
| KMap (f : fnN) (a : srcN)
| KInspect (a : srcN)
| KFilter (p : prN) (a : srcN)
| KFilterMap (o : opN) (a : srcN)
| KFlatMap (g : lsN) (a : srcN)
| KFlatten (a : srcOf (list N))
| KTakeWhile (p : prN) (a : srcN)
| KSkipWhile (p : prN) (a : srcN)
| KTake (n : N) (a : srcN)
| KSkip (n : N) (a : srcN)
| KEnumerate (a : srcN)
| KFuse (a : srcN)
| KChain (a b : srcN)
| KZip (a b : srcN)
| KZipLongest (a b : srcN)
| KCross (a b : srcN).

Definition trace := list (hintT * pstep val).

Definition conv {B} (inj : B -> val) (t : list (hintT * pstep B)) : trace :=
  map (fun x => (fst x, match snd x with Ready b => Ready (inj b) | Pending => Pending | Ended => Ended end)) t.

Definition vpair (x : N * N) : val := VP (VN (fst x)) (VN (snd x)).
Definition veob (x : eob N N) : val :=
  match x with EBoth a b => VB (VN a) (VN b) | ELeft a => VL (VN a) | ERight b => VR (VN b) end.

(* the model's answers to the first n polls *)
Definition run_case (c : case) (n : nat) : trace :=
  match c with
  | KMap f a => conv VN (polls (map_m (sh a) (ev_fn f)) n (s_scr a))
  | KInspect a => conv VN (polls (inspect_m (sh a)) n (s_scr a))
  | KFilter p a => conv VN (polls (filter_m (sh a) (ev_pr p)) n (s_scr a))
  | KFilterMap o a => conv VN (polls (filter_map_m (sh a) (ev_op o)) n (s_scr a))
  | KFlatMap g a => conv VN (polls (flat_map_m (ev_ls g)) n (None, s_scr a))
  | KFlatten a => conv VN (polls (@flatten_m N) n (None, s_scr a))
  | KTakeWhile p a => conv VN (polls (take_while_m (sh a) (ev_pr p)) n (s_scr a))
  | KSkipWhile p a => conv VN (polls (skip_while_m (sh a) (ev_pr p)) n (true, s_scr a))
  | KTake k a => conv VN (polls (take_m (sh a)) n (k, s_scr a))
  | KSkip k a => conv VN (polls (skip_m (sh a)) n (k, s_scr a))
  | KEnumerate a => conv vpair (polls (enumerate_m (sh a)) n (0, s_scr a))
  | KFuse a => conv VN (polls (fuse_m (sh a)) n (Some (s_scr a)))
  | KChain a b => conv VN (polls (chain_m (sh a) (sh b)) n (s_scr a, s_scr b))
  | KZip a b => conv vpair (polls (zip_m (sh a) (sh b)) n (None, s_scr a, s_scr b))
  | KZipLongest a b => conv veob (polls (zipl_m (sh a) (sh b)) n (None, s_scr a, s_scr b))
  | KCross a b => conv vpair (polls (@cross_m N N (sh a)) n (None, s_scr a, s_scr b))
  end.

(* the iterator adaptor on the items of the inputs *)
Definition ref_case (c : case) : list val :=
  match c with
  | KMap f a => map VN (map (ev_fn f) (items (s_scr a)))
  | KInspect a => map VN (items (s_scr a))
  | KFilter p a => map VN (filter (ev_pr p) (items (s_scr a)))
  | KFilterMap o a => map VN (filter_map_ref (ev_op o) (items (s_scr a)))
  | KFlatMap g a => map VN (flat_map (ev_ls g) (items (s_scr a)))
  | KFlatten a => map VN (concat (items (s_scr a)))
  | KTakeWhile p a => map VN (take_while_ref (ev_pr p) (items (s_scr a)))
  | KSkipWhile p a => map VN (skip_while_ref (ev_pr p) (items (s_scr a)))
  | KTake k a => map VN (firstn (N.to_nat k) (items (s_scr a)))
  | KSkip k a => map VN (skipn (N.to_nat k) (items (s_scr a)))
  | KEnumerate a => map vpair (enumerate_from 0 (items (s_scr a)))
  | KFuse a => map VN (items (s_scr a))
  | KChain a b => map VN (items (s_scr a) ++ items (s_scr b))
  | KZip a b => map vpair (combine (items (s_scr a)) (items (s_scr b)))
  | KZipLongest a b => map veob (zip_longest_ref (items (s_scr a)) (items (s_scr b)))
  | KCross a b => map vpair (cross_ref (items (s_scr a)) (items (s_scr b)))
  end.

(* trait-bound preconditions: Chain's first and both ZipLongest inputs must be FusedPull *)
Definition pre_case (c : case) : bool :=
  match c with
  | KChain a _ => fused_b (s_scr a)
  | KZipLongest a b => fused_b (s_scr a) && fused_b (s_scr b)
  | _ => true
  end.

(* does the combinator promise fusedness (its `impl FusedPull` bound) for these inputs? *)
Definition promises_fused (c : case) : bool :=
  match c with
  | KTake _ _ | KFuse _ => true
  | KTakeWhile _ _ | KZip _ _ => false
  | KMap _ a | KInspect a | KFilter _ a | KFilterMap _ a | KFlatMap _ a
  | KSkipWhile _ a | KSkip _ a | KEnumerate a => fused_b (s_scr a)
  | KFlatten a => fused_b (s_scr a)
  | KChain a b | KZipLongest a b | KCross a b => fused_b (s_scr a) && fused_b (s_scr b)
  end.

Fixpoint list_eqb {A} (e : A -> A -> bool) (x y : list A) : bool :=
  match x, y with
  | [], [] => true
  | a :: r, b :: s => e a b && list_eqb e r s
  | _, _ => false
  end.

Definition opt_eqb (x y : option N) : bool :=
  match x, y with Some a, Some b => a =? b | None, None => true | _, _ => false end.
Definition hint_eqb (x y : hintT) : bool := (fst x =? fst y) && opt_eqb (snd x) (snd y).
Definition pstep_eqb (x y : pstep val) : bool :=
  match x, y with
  | Ready a, Ready b => val_eqb a b
  | Pending, Pending => true
  | Ended, Ended => true
  | _, _ => false
  end.
Definition trace_eqb : trace -> trace -> bool :=
  list_eqb (fun x y => hint_eqb (fst x) (fst y) && pstep_eqb (snd x) (snd y)).

(* items before the first Ended of a trace; None if the trace never reports the end *)
Fixpoint tr_items (t : trace) : option (list val) :=
  match t with
  | [] => None
  | (_, Ready v) :: r => option_map (cons v) (tr_items r)
  | (_, Pending) :: r => tr_items r
  | (_, Ended) :: _ => Some []
  end.

Fixpoint tr_after_end (t : trace) : trace :=
  match t with
  | [] => []
  | (_, Ended) :: r => r
  | _ :: r => tr_after_end r
  end.

Definition is_Ended (x : hintT * pstep val) : bool :=
  match snd x with Ended => true | _ => false end.

Definition brackets (h : hintT) (n : N) : bool :=
  (fst h <=? n) && match snd h with Some u => n <=? u | None => true end.

(* every hint up to the first Ended brackets the number of items still to come *)
Fixpoint tr_hints_ok (t : trace) : bool :=
  match t with
  | [] => true
  | (h, o) :: r =>
      match tr_items t with
      | Some its => brackets h (N.of_nat (length its)) &&
                    match o with Ended => true | _ => tr_hints_ok r end
      | None => true
      end
  end.

(* the three clauses on a trace, given the reference items and whether fusedness is promised *)
Definition gen_ok (refv : list val) (fused : bool) (t : trace) : bool :=
  match tr_items t with
  | Some its => list_eqb val_eqb its refv                           (* items = iterator adaptor *)
  | None => false                                                   (* the end is reached *)
  end
  && (negb fused ||
      (forallb is_Ended (tr_after_end t)                            (* the end is sticky *)
       && forallb (fun x => fst (fst x) =? 0) (tr_after_end t)))    (* and nothing more is promised *)
  && tr_hints_ok t.

(* bit 1: the executable form of C11 on a trace *)
Definition C11_holds_b (c : case) (t : trace) : bool :=
  negb (pre_case c) || gen_ok (ref_case c) (promises_fused c) t.

Definition verdict (agree holds : bool) : N :=
  ((if agree then 0 else 1) + (if holds then 0 else 2))%N.

(* one case: the implementation's trace against the model's and against the property *)
Definition chk (c : case) (impl : trace) : N :=
  verdict (trace_eqb impl (run_case c (length impl))) (C11_holds_b c impl).

Fixpoint bad_from (n : N) (l : list N) : list (N * N) :=
  match l with
  | [] => []
  | v :: r => if N.eqb v 0 then bad_from (n + 1) r else (n, v) :: bad_from (n + 1) r
  end.
Definition bad (l : list N) : list (N * N) := bad_from 0 l.
