(* E4 Pipes, pull side -- pipelines (kind "c11p"): a source under 2-3 unary combinators.
   The model of a pipeline is the composition of the stage machines through behaviour scripts
   (PCompose.v): stage k runs over the script of stage k-1's answers, and reads stage k-1's
   size_hint at the state reached after as many polls as the script has lost answers.
   Definitions only. *)
From HV Require Export Pull.Corr Pull.PCompose.
Set Implicit Arguments.
Open Scope N_scope.

Inductive stage :=
| GMap (f : fnN) | GInspect | GFilter (p : prN) | GFilterMap (o : opN) | GFlatMap (g : lsN)
| GTakeWhile (p : prN) | GSkipWhile (p : prN) | GTake (k : N) | GSkip (k : N) | GFuse.

(* the first n polls of one stage over an upstream script with upstream hint [uh] *)
Definition stage_polls (g : stage) (uh : script N -> hintT) (l : script N) (n : nat)
  : list (hintT * pstep N) :=
  match g with
  | GMap f => polls (map_m uh (ev_fn f)) n l
  | GInspect => polls (inspect_m uh) n l
  | GFilter p => polls (filter_m uh (ev_pr p)) n l
  | GFilterMap o => polls (filter_map_m uh (ev_op o)) n l
  | GFlatMap g => polls (flat_map_m (ev_ls g)) n (None, l)
  | GTakeWhile p => polls (take_while_m uh (ev_pr p)) n l
  | GSkipWhile p => polls (skip_while_m uh (ev_pr p)) n (true, l)
  | GTake k => polls (take_m uh) n (k, l)
  | GSkip k => polls (skip_m uh) n (k, l)
  | GFuse => polls (fuse_m uh) n (Some l)
  end.

Definition stage_ref (g : stage) (l : list N) : list N :=
  match g with
  | GMap f => map (ev_fn f) l
  | GInspect | GFuse => l
  | GFilter p => filter (ev_pr p) l
  | GFilterMap o => filter_map_ref (ev_op o) l
  | GFlatMap g => flat_map (ev_ls g) l
  | GTakeWhile p => take_while_ref (ev_pr p) l
  | GSkipWhile p => skip_while_ref (ev_pr p) l
  | GTake k => firstn (N.to_nat k) l
  | GSkip k => skipn (N.to_nat k) l
  end.

(* is the end sticky above this stage, given whether it is below *)
Definition stage_fused (g : stage) (up : bool) : bool :=
  match g with GTake _ | GFuse => true | GTakeWhile _ => false | _ => up end.

(* one intermediate level with horizon H: the script of its first H answers, and its
   size_hint as a function of the suffix the consumer still holds *)
Definition level (g : stage) (H : nat) (up : script N * (script N -> hintT))
  : script N * (script N -> hintT) :=
  let tr := stage_polls g (snd up) (fst up) (S H) in
  let b := map (fun x => to_sstep (snd x)) (firstn H tr) in
  let hs := map fst tr in
  (b, fun suffix => nth (H - length suffix) hs (0, None)).

Fixpoint levels (gs : list stage) (H : nat) (up : script N * (script N -> hintT)) :=
  match gs with
  | [] => up
  | g :: r => levels r H (level g H up)
  end.

Fixpoint has_end {B} (t : list (hintT * pstep B)) : bool :=
  match t with
  | [] => false
  | (_, Ended) :: _ => true
  | _ :: r => has_end r
  end.

(* every intermediate level reports its end within the horizon *)
Fixpoint horizon_ok (gs : list stage) (H : nat) (up : script N * (script N -> hintT)) : bool :=
  match gs with
  | [] => true
  | g :: r => has_end (stage_polls g (snd up) (fst up) H) && horizon_ok r H (level g H up)
  end.

Record pcase := PCase { p_h : nat; p_inner : list stage; p_top : stage; p_src : srcN }.

Definition prun (c : pcase) (n : nat) : trace :=
  let up := levels (p_inner c) (p_h c) (s_scr (p_src c), sh (p_src c)) in
  conv VN (stage_polls (p_top c) (snd up) (fst up) n).

Definition pref (c : pcase) : list val :=
  map VN (stage_ref (p_top c) (fold_left (fun l g => stage_ref g l) (p_inner c) (items (s_scr (p_src c))))).

Definition pfused (c : pcase) : bool :=
  stage_fused (p_top c) (fold_left (fun b g => stage_fused g b) (p_inner c) (fused_b (s_scr (p_src c)))).

(* bit 0 also demands that the horizon was sufficient for the model to be meaningful *)
Definition pchk (c : pcase) (impl : trace) : N :=
  verdict (horizon_ok (p_inner c) (p_h c) (s_scr (p_src c), sh (p_src c)) &&
           trace_eqb impl (prun c (length impl)))
          (gen_ok (pref c) (pfused c) impl).

(* ---- a binary combinator over two pipelines ---- *)
Inductive btop := BZip | BChain | BZipLongest | BCross.
Record bcase := BCase { b_h : nat; b_sa : list stage; b_a : srcN; b_sb : list stage; b_b : srcN;
                        b_top : btop }.

Definition brun (c : bcase) (n : nat) : trace :=
  let ua := levels (b_sa c) (b_h c) (s_scr (b_a c), sh (b_a c)) in
  let ub := levels (b_sb c) (b_h c) (s_scr (b_b c), sh (b_b c)) in
  match b_top c with
  | BZip => conv vpair (polls (zip_m (snd ua) (snd ub)) n (None, fst ua, fst ub))
  | BChain => conv VN (polls (chain_m (snd ua) (snd ub)) n (fst ua, fst ub))
  | BZipLongest => conv veob (polls (zipl_m (snd ua) (snd ub)) n (None, fst ua, fst ub))
  | BCross => conv vpair (polls (@cross_m N N (snd ua)) n (None, fst ua, fst ub))
  end.

Definition side_ref (gs : list stage) (a : srcN) : list N :=
  fold_left (fun l g => stage_ref g l) gs (items (s_scr a)).
Definition side_fused (gs : list stage) (a : srcN) : bool :=
  fold_left (fun b g => stage_fused g b) gs (fused_b (s_scr a)).

Definition bref (c : bcase) : list val :=
  let ra := side_ref (b_sa c) (b_a c) in
  let rb := side_ref (b_sb c) (b_b c) in
  match b_top c with
  | BZip => map vpair (combine ra rb)
  | BChain => map VN (ra ++ rb)
  | BZipLongest => map veob (zip_longest_ref ra rb)
  | BCross => map vpair (cross_ref ra rb)
  end.

Definition bfused (c : bcase) : bool :=
  match b_top c with
  | BZip => false
  | BChain | BZipLongest | BCross => side_fused (b_sa c) (b_a c) && side_fused (b_sb c) (b_b c)
  end.

(* Chain's first input and ZipLongest's inputs are FusedPull: their behaviour scripts (the
   harness inserts fuse(), the model a GFuse level) must be fused scripts -- checkable *)
Definition bpre (c : bcase) : bool :=
  let ua := levels (b_sa c) (b_h c) (s_scr (b_a c), sh (b_a c)) in
  let ub := levels (b_sb c) (b_h c) (s_scr (b_b c), sh (b_b c)) in
  match b_top c with
  | BChain => fused_b (fst ua)
  | BZipLongest => fused_b (fst ua) && fused_b (fst ub)
  | _ => true
  end.

Definition bchk (c : bcase) (impl : trace) : N :=
  verdict (horizon_ok (b_sa c) (b_h c) (s_scr (b_a c), sh (b_a c)) &&
           horizon_ok (b_sb c) (b_h c) (s_scr (b_b c), sh (b_b c)) && bpre c &&
           trace_eqb impl (brun c (length impl)))
          (gen_ok (bref c) (bfused c) impl).
