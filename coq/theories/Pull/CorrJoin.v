(* E4 Pipes, pull side -- correspondence layer for C13 (definitions only). *)
From HV Require Export Pull.ModelJoin Pull.Corr.
Set Implicit Arguments.
Open Scope N_scope.

Inductive jcase :=
| JInc (s : sem) (pre1 pre2 : list kv) (l1 l2 : script kv)
| JTicks (s : sem) (p1 p2 : bool) (ticks : list (script kv * script kv)).

Definition row_eqb (x y : row) : bool :=
  (fst x =? fst y) && (fst (snd x) =? fst (snd y)) && (snd (snd x) =? snd (snd y)).

(* multiset equality *)
Fixpoint remove1 {A} (e : A -> A -> bool) (x : A) (l : list A) : option (list A) :=
  match l with
  | [] => None
  | y :: r => if e x y then Some r else option_map (cons y) (remove1 e x r)
  end.
Fixpoint perm_b {A} (e : A -> A -> bool) (a b : list A) : bool :=
  match a with
  | [] => match b with [] => true | _ => false end
  | x :: r => match remove1 e x b with Some b' => perm_b e r b' | None => false end
  end.

Fixpoint nodup_b {A} (e : A -> A -> bool) (l : list A) : bool :=
  match l with
  | [] => true
  | x :: r => negb (existsb (e x) r) && nodup_b e r
  end.

Definition prebuild (s : sem) (l : list kv) : half :=
  fold_left (fun h x => fst (build s h (fst x) (snd x))) l half0.

Definition jinit (s : sem) (pre1 pre2 : list kv) (l1 l2 : script kv) : jst :=
  (prebuild s pre1, prebuild s pre2, l1, l2).

(* what the harness observes *)
Record jobs := JObs {
  o_trace : list (hintT * pstep row);            (* inc *)
  o_tab1 : list kv; o_len1 : N; o_tab2 : list kv; o_len2 : N;
  o_ticks : list (list row * (N * N));           (* ticks: rows, (lhs len, rhs len) after the drain *)
}.

Definition step_eqb (x y : hintT * pstep row) : bool :=
  hint_eqb (fst x) (fst y) &&
  match snd x, snd y with
  | Ready a, Ready b => row_eqb a b
  | Pending, Pending | Ended, Ended => true
  | _, _ => false
  end.

Fixpoint jemitted (t : list (hintT * pstep row)) : option (list row) :=
  match t with
  | [] => None
  | (_, Ready v) :: r => option_map (cons v) (jemitted r)
  | (_, Pending) :: r => jemitted r
  | (_, Ended) :: _ => Some []
  end.

(* the model's per-tick outputs together with the table sizes after the drain *)
Fixpoint model_ticks (s : sem) (p1 p2 : bool) (lhs rhs : half)
         (ticks : list (script kv * script kv)) : list (list row * (N * N)) :=
  match ticks with
  | [] => []
  | (l1, l2) :: r =>
      let '(lhs', rhs', out) := new_tick s lhs rhs l1 l2 in
      (out, (hlen lhs', hlen rhs')) ::
      model_ticks s p1 p2 (if p1 then lhs' else clear lhs') (if p2 then rhs' else clear rhs') r
  end.

(* reference: per tick, the join of everything that arrived within the persisted scope *)
Fixpoint ref_ticks (s : sem) (p1 p2 : bool) (acc1 acc2 : list kv)
         (ticks : list (script kv * script kv)) : list (list row) :=
  match ticks with
  | [] => []
  | (l1, l2) :: r =>
      let a1 := acc1 ++ items l1 in
      let a2 := acc2 ++ items l2 in
      join_rows (built s a1) (built s a2) ::
      ref_ticks s p1 p2 (if p1 then a1 else []) (if p2 then a2 else []) r
  end.

Definition final_state (s : sem) (n : nat) (st : jst) : jst := state_after (shj_m s) n st.

Definition agree (c : jcase) (o : jobs) : bool :=
  match c with
  | JInc s pre1 pre2 l1 l2 =>
      let st := jinit s pre1 pre2 l1 l2 in
      let n := length (o_trace o) in
      list_eqb step_eqb (o_trace o) (polls (shj_m s) n st) &&
      let '(h1, h2, _, _) := final_state s n st in
      perm_b kv_eqb (o_tab1 o) (rows (table h1)) && (o_len1 o =? hlen h1) &&
      perm_b kv_eqb (o_tab2 o) (rows (table h2)) && (o_len2 o =? hlen h2)
  | JTicks s p1 p2 ticks =>
      list_eqb (fun x y => perm_b row_eqb (fst x) (fst y) &&
                           (fst (snd x) =? fst (snd y)) && (snd (snd x) =? snd (snd y)))
               (o_ticks o) (model_ticks s p1 p2 half0 half0 ticks)
  end.

(* bit 1: the executable form of C13 on the implementation's outputs *)
Definition C13_holds_b (c : jcase) (o : jobs) : bool :=
  match c with
  | JInc s pre1 pre2 l1 l2 =>
      match jemitted (o_trace o) with
      | None => false                                                  (* the end is reached *)
      | Some out =>
          (* emitted + what the persisted tables had already produced = join of everything *)
          perm_b row_eqb (out ++ join_rows (built s pre1) (built s pre2))
                 (join_rows (built s (pre1 ++ items l1)) (built s (pre2 ++ items l2)))
          && (match s with SetSem => nodup_b row_eqb out | MultiSem => true end)
      end
  | JTicks s p1 p2 ticks =>
      list_eqb (perm_b row_eqb) (map fst (o_ticks o)) (ref_ticks s p1 p2 [] [] ticks)
  end.

Definition jchk (c : jcase) (o : jobs) : N := verdict (agree c o) (C13_holds_b c o).
