(* E4 Pipes, pull side -- correspondence layer for the rest of dfir_pipes::pull (kind "c11x"):
   stream adaptors, either, consuming futures.  Definitions only. *)
From HV Require Export Pull.ModelX Pull.Corr Pull.CorrJoin.
Set Implicit Arguments.
Open Scope N_scope.

(* inner-stream vocabulary: harness/h_pull/src/extra.rs ev_st *)
Inductive stN := SRep | SPP | SEmpty | SPend | SEndMid.
Definition ev_st (g : stN) (x : N) : script N :=
  match g with
  | SRep => repeat Pend (N.to_nat (x mod 2)) ++ repeat (Rdy x) (N.to_nat (x mod 3))
  | SPP => [Rdy x; Pend; Rdy (x + 1)]
  | SEmpty => []
  | SPend => [Pend; Pend]
  | SEndMid => [Rdy x; End; Rdy (x + 5)]
  end.
(* future vocabulary: ev_fu *)
Inductive fuN := AHalf | ANow | ANone | ASlow.
Definition ev_fu (f : fuN) (x : N) : nat * option N :=
  match f with
  | AHalf => (N.to_nat (x mod 3), if N.even x then Some (x / 2) else None)
  | ANow => (O, Some (x + 1))
  | ANone => (N.to_nat (x mod 2), None)
  | ASlow => (2%nat, Some x)
  end.

(* inner streams report exact hints *)
Definition exact_hint {A} : script A -> hintT := slack_hint 0 (Some 0).

Inductive xcase :=
| XRelay (a : srcN)                       (* stream, stream_compat, either: the wrapped source *)
| XSource (xs : list N)                   (* iter, once, empty: a fused source that never pends *)
| XStreamReady (a : srcN)
| XFlatMapStream (g : stN) (a : srcN)
| XFlattenStream (a : srcOf (script N))
| XFilterMapAsync (f : fuN) (a : srcN)
| XCollect (a : srcN)                     (* collect and for_each: items / side effects in order *)
| XNext (a : srcN)
| XAccumulate (acc : accum) (a : srcOf (N * N))
| XSend (with_hint : bool) (ready fin : list bool) (a : srcN).

(* ---- pulls ---- *)
Definition xrun (c : xcase) (n : nat) : trace :=
  match c with
  | XRelay a => conv VN (polls (src_m (sh a)) n (s_scr a))
  | XSource xs => conv VN (polls (src_m exact_hint) n (map (@Rdy N) xs))
  | XStreamReady a => conv VN (polls (sready_m (sh a)) n (s_scr a))
  | XFlatMapStream g a => conv VN (polls (fms_m (ev_st g) exact_hint) n (None, s_scr a))
  | XFlattenStream a => conv VN (polls (fms_m (fun s : script N => s) exact_hint) n (None, s_scr a))
  | XFilterMapAsync f a => conv VN (polls (fma_m (sh a) (ev_fu f)) n (None, s_scr a))
  | _ => []
  end.

Definition xref (c : xcase) : list val :=
  match c with
  | XRelay a => map VN (items (s_scr a))
  | XSource xs => map VN xs
  | XStreamReady a => map VN (items_now (s_scr a))
  | XFlatMapStream g a => map VN (flat_map (fun x => items (ev_st g x)) (items (s_scr a)))
  | XFlattenStream a => map VN (flat_map (fun s => items s) (items (s_scr a)))
  | XFilterMapAsync f a => map VN (filter_map_ref (fun x => snd (ev_fu f x)) (items (s_scr a)))
  | _ => []
  end.

Definition xfused (c : xcase) : bool :=
  match c with
  | XFlatMapStream _ a | XFilterMapAsync _ a => fused_b (s_scr a)
  | XFlattenStream a => fused_b (s_scr a)
  | XSource _ => true                      (* Iter over a fused iterator, Once, Empty: fuse_self *)
  | _ => false
  end.

Definition xchk_pull (c : xcase) (impl : trace) : N :=
  verdict (trace_eqb impl (xrun c (length impl))) (gen_ok (xref c) (xfused c) impl).

(* ---- futures ---- *)
(* observation: Pending polls before completion, completed?, polls of the source after it
   reported the end, result (items / map rows / first answer), downstream call log *)
Record fobs := FObs { f_pend : N; f_done : bool; f_after : N; f_items : list N;
                      f_rows : list (N * N); f_next : pstep N; f_log : list ev }.

Fixpoint count_pend {A} (l : script A) : N :=
  match l with Pend :: r => 1 + count_pend r | Rdy _ :: r => count_pend r | _ => 0 end.

(* next: Pending polls, then the first non-pending answer *)
Fixpoint next_res {A} (l : script A) : N * pstep A :=
  match l with
  | Pend :: r => let (p, o) := next_res r in (1 + p, o)
  | Rdy a :: _ => (0, Ready a)
  | _ => (0, Ended)
  end.

Definition ev_eqb (x y : ev) : bool :=
  match x, y with
  | EHint a, EHint b => hint_eqb a b
  | EReady a, EReady b | EFin a, EFin b => Bool.eqb a b
  | ESend a, ESend b => a =? b
  | _, _ => false
  end.

Fixpoint send_run (n : nat) (wh : bool) (uh : script N -> hintT) (s : sendS) : option (N * sendS) :=
  match n with
  | O => None
  | S k => match send_poll wh uh s with
           | (true, s') => Some (0, s')
           | (false, s') => match send_run k wh uh s' with
                            | Some (p, s'') => Some (1 + p, s'')
                            | None => None
                            end
           end
  end.

Definition sends (log : list ev) : list N :=
  flat_map (fun e => match e with ESend x => [x] | _ => [] end) log.

(* protocol: every start_send directly follows a Done poll_ready; finalize only at the end *)
Fixpoint proto_ok (prev_ready : bool) (fin_started : bool) (log : list ev) : bool :=
  match log with
  | [] => true
  | EHint _ :: r => proto_ok false fin_started r
  | EReady d :: r => negb fin_started && proto_ok d fin_started r
  | ESend _ :: r => prev_ready && negb fin_started && proto_ok false fin_started r
  | EFin _ :: r => proto_ok false true r
  end.

Definition nat_fuel (c : xcase) : nat :=
  match c with
  | XCollect a | XNext a => S (length (s_scr a))
  | XAccumulate _ a => S (length (s_scr a))
  | XSend _ rd fn a => S (S (length (s_scr a) + length rd + length fn))
  | _ => O
  end.

(* bit 0 *)
Definition xagree_fut (c : xcase) (o : fobs) : bool :=
  match c with
  | XCollect a =>
      match drive_run (fun acc x => acc ++ [x]) (nat_fuel c) [] (s_scr a) with
      | Some (p, (acc, _)) => f_done o && (f_pend o =? N.of_nat p) && list_eqb N.eqb (f_items o) acc
      | None => false
      end
  | XNext a =>
      let (p, r) := next_res (s_scr a) in
      f_done o && (f_pend o =? p) &&
      match f_next o, r with
      | Ready x, Ready y => x =? y | Ended, Ended => true | _, _ => false
      end
  | XAccumulate ac a =>
      match drive_run (accum_step ac) (nat_fuel c) [] (s_scr a) with
      | Some (p, (t, _)) => f_done o && (f_pend o =? N.of_nat p) && perm_b kv_eqb (f_rows o) t
      | None => false
      end
  | XSend wh rd fn a =>
      match send_run (nat_fuel c) wh (sh a) (SendS false false (s_scr a) (PushS rd fn [])) with
      | Some (p, s') => f_done o && (f_pend o =? p) && list_eqb ev_eqb (f_log o) (p_log (s_push s'))
      | None => false
      end
  | _ => false
  end.

(* bit 1: list-level statements on the implementation's observation *)
Definition xholds_fut (c : xcase) (o : fobs) : bool :=
  f_done o && (f_after o =? 0) &&
  match c with
  | XCollect a => list_eqb N.eqb (f_items o) (items (s_scr a)) && (f_pend o =? count_pend (s_scr a))
  | XNext a => (f_pend o =? fst (next_res (s_scr a)))
  | XAccumulate ac a => perm_b kv_eqb (f_rows o) (fold_left (accum_step ac) (items (s_scr a)) [])
  | XSend _ _ _ a => list_eqb N.eqb (sends (f_log o)) (items (s_scr a)) && proto_ok false false (f_log o)
  | _ => false
  end.

Definition xchk_fut (c : xcase) (o : fobs) : N := verdict (xagree_fut c o) (xholds_fut c o).
