(* E4 Pipes, pull side -- send_push / send_sink honour the push protocol toward the downstream:
   start_send only directly after a Done poll_ready, finalize (close) only after the last send. *)
From HV Require Import Pull.Model Pull.PCore Pull.ModelX Pull.PX Pull.CorrX.
Set Implicit Arguments.
Open Scope N_scope.

Ltac inv H := inversion H; subst; clear H.

Definition proto_step (st : bool * bool) (e : ev) : option (bool * bool) :=
  let (pr, fs) := st in
  match e with
  | EHint _ => Some (false, fs)
  | EReady d => if fs then None else Some (d, fs)
  | ESend _ => if pr && negb fs then Some (false, fs) else None
  | EFin _ => Some (false, true)
  end.

Fixpoint proto_run (st : bool * bool) (log : list ev) : option (bool * bool) :=
  match log with
  | [] => Some st
  | e :: r => match proto_step st e with Some st' => proto_run st' r | None => None end
  end.

Lemma proto_ok_run : forall log pr fs, proto_run (pr, fs) log <> None -> proto_ok pr fs log = true.
Proof.
  induction log as [|e r IH]; intros pr fs H; simpl in *; auto.
  destruct e; simpl in *.
  - apply IH. exact H.
  - destruct fs; simpl in *; [congruence|]. apply IH. exact H.
  - destruct pr, fs; simpl in *; try congruence. apply IH. exact H.
  - apply IH. exact H.
Qed.

Lemma proto_run_app : forall a st b,
  proto_run st (a ++ b) = match proto_run st a with Some st' => proto_run st' b | None => None end.
Proof.
  induction a as [|e r IH]; intros st b; simpl; auto. destruct (proto_step st e); auto.
Qed.

Definition P0 (log : list ev) (fs : bool) : Prop := exists pr, proto_run (false, false) log = Some (pr, fs).

Lemma send_loop_proto : forall l p d l' p', P0 (p_log p) false ->
  send_loop l p = (d, (l', p')) -> P0 (p_log p') false.
Proof.
  induction l as [|[a| |] r IH]; intros p d l' p' [pr H] E; simpl in E;
    destruct (pop_b (p_ready p)) as [rd ready'] eqn:PB;
    assert (P0 (p_log p ++ [EReady rd]) false) as H1
      by (exists rd; rewrite proto_run_app, H; reflexivity);
    destruct rd; simpl in E; try (inv E; exact H1).
  assert (P0 ((p_log p ++ [EReady true]) ++ [ESend a]) false) as H2
    by (exists false; rewrite !proto_run_app, H; reflexivity).
  eapply IH; [|exact E]. exact H2.
Qed.

Lemma send_finalize_proto p d p' fs : P0 (p_log p) fs -> send_finalize p = (d, p') -> P0 (p_log p') true.
Proof.
  intros [pr H]. unfold send_finalize. destruct (pop_b (p_fin p)) as [fd fin']. intros E. inv E. simpl.
  exists false. rewrite proto_run_app, H. reflexivity.
Qed.

Definition send_inv (s : sendS) : Prop := P0 (p_log (s_push s)) (pull_ended s).

Theorem send_run_proto wh uh : forall n s p s', send_inv s ->
  PX.send_run n wh uh s = Some (p, s') -> send_inv s'.
Proof.
  induction n as [|n IH]; intros s p s' I E; [discriminate|]. simpl in E.
  unfold send_poll in E. unfold send_inv in I. destruct (pull_ended s) eqn:PE.
  - destruct (send_finalize (s_push s)) as [d p1] eqn:F. pose proof (@send_finalize_proto _ _ _ _ I F) as I1.
    destruct d; [inv E; exact I1|].
    destruct (PX.send_run n wh uh _) as [[q s2]|] eqn:R; [|discriminate]. inv E.
    eapply IH; [|exact R]. exact I1.
  - set (p0 := if wh && negb (size_hinted s)
               then PushS (p_ready (s_push s)) (p_fin (s_push s))
                          (p_log (s_push s) ++ [EHint (uh (s_script s))])
               else s_push s) in *.
    assert (P0 (p_log p0) false) as I0.
    { unfold p0. destruct (wh && negb (size_hinted s)); auto. simpl. destruct I as [pr H].
      exists false. rewrite proto_run_app, H. reflexivity. }
    destruct (send_loop (s_script s) p0) as [dl [l' p']] eqn:L.
    pose proof (@send_loop_proto _ _ _ _ _ I0 L) as I1.
    destruct dl.
    + destruct (send_finalize p') as [d p2] eqn:F. pose proof (@send_finalize_proto _ _ _ _ I1 F) as I2.
      destruct d; [inv E; exact I2|].
      destruct (PX.send_run n wh uh _) as [[q s2]|] eqn:R; [|discriminate]. inv E.
      eapply IH; [|exact R]. exact I2.
    + destruct (PX.send_run n wh uh _) as [[q s2]|] eqn:R; [|discriminate]. inv E.
      eapply IH; [|exact R]. exact I1.
Qed.

(* from a fresh future: the whole call log satisfies the protocol *)
Corollary send_protocol wh uh n l rd fn p s' :
  PX.send_run n wh uh (SendS false false l (PushS rd fn [])) = Some (p, s') ->
  proto_ok false false (p_log (s_push s')) = true.
Proof.
  intros E. assert (send_inv (SendS false false l (PushS rd fn []))) as I by (exists false; reflexivity).
  destruct (@send_run_proto wh uh n _ p s' I E) as [pr H]. apply proto_ok_run. congruence.
Qed.

(* next.rs: the future returns Pending for every leading Pending answer of the pull and then
   resolves with the pull's first other answer (Some item / None) *)
Theorem next_spec {A} : forall (l : script A),
  exists rest, l = repeat Pend (N.to_nat (fst (next_res l))) ++ rest /\
               fst (src_pull rest) = snd (next_res l) /\
               match rest with Pend :: _ => False | _ => True end.
Proof.
  induction l as [|[a| |] r [rest [E [H1 H2]]]].
  - exists []. cbn [next_res fst snd]. auto.
  - exists (Rdy a :: r). cbn [next_res fst snd]. auto.
  - cbn [next_res]. destruct (next_res r) as [p o]. cbn [fst snd] in *. exists rest.
    replace (N.to_nat (1 + p)) with (S (N.to_nat p)) by lia. cbn [repeat app].
    split; [f_equal; exact E|auto].
  - exists (End :: r). cbn [next_res fst snd]. auto.
Qed.
