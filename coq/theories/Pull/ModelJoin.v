(* E4 Pipes, pull side -- model of the symmetric hash join (C13).  Definitions only.
   dfir_pipes/src/pull/half_join_state/{set,multiset}.rs, symmetric_hash_join.rs.

   Keys and values are N (any Eq + Hash + Clone type).  A FxHashMap<Key, SmallVec<[V;1]>> is a
   duplicate-free association list in insertion order; its iteration order is not observable
   (outputs that depend on it are compared as multisets). *)
From HV Require Export Pull.Model.
Set Implicit Arguments.
Open Scope N_scope.

Definition tableT := list (N * list N).

Fixpoint tget (t : tableT) (k : N) : option (list N) :=
  match t with
  | [] => None
  | (k', vs) :: r => if k' =? k then Some vs else tget r k
  end.

(* push v at the end of k's vector, or insert a fresh entry *)
Fixpoint tpush (t : tableT) (k v : N) : tableT :=
  match t with
  | [] => [(k, [v])]
  | (k', vs) :: r => if k' =? k then (k', vs ++ [v]) :: r else (k', vs) :: tpush r k v
  end.

Fixpoint memN (v : N) (l : list N) : bool :=
  match l with [] => false | x :: r => (x =? v) || memN v r end.

(* one half of the join: HalfSetJoinState / HalfMultisetJoinState.
   current_matches holds (key, probing value, built value) *)
Record half := Half { table : tableT; cm : list (N * N * N); hlen : N }.
Definition half0 : half := Half [] [] 0.

Inductive sem := SetSem | MultiSem.

(* HalfJoinState::build *)
Definition build (s : sem) (h : half) (k v : N) : half * bool :=
  match s with
  | SetSem =>
      match tget (table h) k with
      | Some vec => if memN v vec then (h, false)
                    else (Half (tpush (table h) k v) (cm h) (hlen h + 1), true)
      | None => (Half (tpush (table h) k v) (cm h) (hlen h + 1), true)
      end
  | MultiSem => (Half (tpush (table h) k v) (cm h) (hlen h + 1), true)
  end.

(* HalfJoinState::probe: the first match is returned, the others queued *)
Definition probe (h : half) (k v : N) : half * option (N * N * N) :=
  match tget (table h) k with
  | None => (h, None)
  | Some [] => (h, None)
  | Some (vb :: rest) =>
      (Half (table h) (cm h ++ map (fun x => (k, v, x)) rest) (hlen h), Some (k, v, vb))
  end.

(* HalfJoinState::pop_match *)
Definition pop_match (h : half) : half * option (N * N * N) :=
  match cm h with
  | [] => (h, None)
  | x :: r => (Half (table h) r (hlen h), Some x)
  end.

Definition full_probe (h : half) (k : N) : list N :=
  match tget (table h) k with Some vs => vs | None => [] end.

Definition clear (h : half) : half := half0.

Notation kv := (N * N)%type (only parsing).
Notation row := (N * (N * N))%type (only parsing).          (* (key, (v1, v2)) *)

(* SymmetricHashJoin: (lhs_state, rhs_state, lhs script, rhs script) *)
Definition jst := (half * half * script kv * script kv)%type.

(* the `loop` of SymmetricHashJoin::pull; every `continue` has consumed a scripted answer, so
   fuel = length lhs + length rhs + 1 is never exhausted (PJoin.shj_fuel_enough) *)
Fixpoint shj_loop (s : sem) (fuel : nat) (st : jst) : option (pstep row * jst) :=
  match fuel with
  | O => None
  | S fuel' =>
      let '(lhs_state, rhs_state, l1, l2) := st in
      match pop_match lhs_state with
      | (lhs_state', Some (k, v2, v1)) => Some (Ready (k, (v1, v2)), (lhs_state', rhs_state, l1, l2))
      | (_, None) =>
      match pop_match rhs_state with
      | (rhs_state', Some (k, v1, v2)) => Some (Ready (k, (v1, v2)), (lhs_state, rhs_state', l1, l2))
      | (_, None) =>
      let (lhs_step, l1') := src_pull l1 in
      match lhs_step with
      | Ready (k, v1) =>
          let (lhs_state', built) := build s lhs_state k v1 in
          if built then
            match probe rhs_state k v1 with
            | (rhs_state', Some (k, v1, v2)) =>
                Some (Ready (k, (v1, v2)), (lhs_state', rhs_state', l1', l2))
            | (rhs_state', None) => shj_loop s fuel' (lhs_state', rhs_state', l1', l2)
            end
          else shj_loop s fuel' (lhs_state', rhs_state, l1', l2)
      | _ =>
      let (rhs_step, l2') := src_pull l2 in
      match rhs_step with
      | Ready (k, v2) =>
          let (rhs_state', built) := build s rhs_state k v2 in
          if built then
            match probe lhs_state k v2 with
            | (lhs_state', Some (k, v2, v1)) =>
                Some (Ready (k, (v1, v2)), (lhs_state', rhs_state', l1', l2'))
            | (lhs_state', None) => shj_loop s fuel' (lhs_state', rhs_state', l1', l2')
            end
          else shj_loop s fuel' (lhs_state, rhs_state', l1', l2')
      | _ =>
          match lhs_step, rhs_step with
          | Pending, _ | _, Pending => Some (Pending, (lhs_state, rhs_state, l1', l2'))
          | _, _ => Some (Ended, (lhs_state, rhs_state, l1', l2'))
          end
      end
      end
      end
      end
  end.

Definition shj_fuel (st : jst) : nat :=
  let '(_, _, l1, l2) := st in S (length l1 + length l2).

Definition shj_pull (s : sem) (st : jst) : pstep row * jst :=
  match shj_loop s (shj_fuel st) st with
  | Some r => r
  | None => (Pending, st)       (* unreachable *)
  end.

Definition shj_m (s : sem) : machine row :=
  {| St := jst; pull1 := shj_pull s; hint := fun _ => (0, None) |}.

(* ------------------------------------------------------------------------------------ *)
(* the new-tick path: drain both inputs into the states, then enumerate *)

(* drain_pull_into_state: Pending is awaited, the end stops the drain *)
Fixpoint drain (s : sem) (h : half) (l : script kv) : half :=
  match l with
  | Rdy (k, v) :: r => drain s (fst (build s h k v)) r
  | Pend :: r => drain s h r
  | _ => h
  end.

(* NewTickJoinIter::next_lhs_smaller: for (key, values) in lhs.iter(), for v1 in values,
   for v2 in rhs.full_probe(key) *)
Definition new_tick_lhs (lhs rhs : half) : list row :=
  flat_map (fun kvs => flat_map (fun v1 => map (fun v2 => (fst kvs, (v1, v2)))
                                              (full_probe rhs (fst kvs))) (snd kvs))
           (table lhs).
(* next_rhs_smaller: for (key, values) in rhs.iter(), for v2 in values, for v1 in lhs.full_probe(key) *)
Definition new_tick_rhs (lhs rhs : half) : list row :=
  flat_map (fun kvs => flat_map (fun v2 => map (fun v1 => (fst kvs, (v1, v2)))
                                              (full_probe lhs (fst kvs))) (snd kvs))
           (table rhs).

(* symmetric_hash_join(.., is_new_tick = true) *)
Definition new_tick (s : sem) (lhs rhs : half) (l1 l2 : script kv) : half * half * list row :=
  let lhs' := drain s lhs l1 in
  let rhs' := drain s rhs l2 in
  (lhs', rhs', if hlen lhs' <? hlen rhs' then new_tick_lhs lhs' rhs' else new_tick_rhs lhs' rhs').

(* the join operator over ticks (dfir_lang/src/graph/ops/join.rs): always is_new_tick = true;
   a side with 'tick persistence is cleared at the end of the tick *)
Fixpoint run_ticks (s : sem) (p1 p2 : bool) (lhs rhs : half)
         (ticks : list (script kv * script kv)) : list (list row) :=
  match ticks with
  | [] => []
  | (l1, l2) :: r =>
      let '(lhs', rhs', out) := new_tick s lhs rhs l1 l2 in
      out :: run_ticks s p1 p2 (if p1 then lhs' else clear lhs') (if p2 then rhs' else clear rhs') r
  end.

(* ------------------------------------------------------------------------------------ *)
(* reference semantics: relational join of the rows that arrived *)
Definition join_rows (a b : list kv) : list row :=
  flat_map (fun x => flat_map (fun y => if fst x =? fst y then [(fst x, (snd x, snd y))] else []) b) a.

Definition kv_eqb (x y : kv) : bool := (fst x =? fst y) && (snd x =? snd y).
Fixpoint mem_kv (x : kv) (l : list kv) : bool :=
  match l with [] => false | y :: r => kv_eqb y x || mem_kv x r end.
(* first occurrences, in arrival order *)
Fixpoint dedup_acc (seen : list kv) (l : list kv) : list kv :=
  match l with
  | [] => []
  | x :: r => if mem_kv x seen then dedup_acc seen r else x :: dedup_acc (x :: seen) r
  end.
Definition dedup (l : list kv) : list kv := dedup_acc [] l.

(* what a state holds after building these rows *)
Definition built (s : sem) (l : list kv) : list kv :=
  match s with SetSem => dedup l | MultiSem => l end.

(* the rows of a table *)
Definition rows (t : tableT) : list kv := flat_map (fun kvs => map (pair (fst kvs)) (snd kvs)) t.
