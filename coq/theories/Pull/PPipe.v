(* E4 Pipes, pull side -- the composed model that the check runs for pipelines (CorrP.v) yields
   the composition of the iterator adaptors: a theorem about [prun] itself. *)
From HV Require Import Pull.Model Pull.PCore Pull.POne Pull.PCompose Pull.Corr Pull.CorrP.
Set Implicit Arguments.
Open Scope N_scope.

Ltac inv H := inversion H; subst; clear H.

Lemma emitted_of_run {B} (m : machine B) s out s' : runs_to m s out s' ->
  exists n0, forall n, (n0 <= n)%nat -> emitted (polls m n s) = out.
Proof.
  induction 1 as [s s' E|s b s1 out s2 E R [n0 IH]|s s1 out s2 E R [n0 IH]].
  - exists 1%nat. intros [|n] L; [lia|]. simpl. rewrite E. reflexivity.
  - exists (S n0). intros [|n] L; [lia|]. simpl. rewrite E. simpl. f_equal. apply IH. lia.
  - exists (S n0). intros [|n] L; [lia|]. simpl. rewrite E. simpl. apply IH. lia.
Qed.

Lemma polls_firstn {B} (m : machine B) : forall n k s, (n <= k)%nat ->
  firstn n (polls m k s) = polls m n s.
Proof.
  induction n as [|n IH]; intros [|k] s L; simpl; auto; try lia.
  destruct (pull1 m s) as [o s1]. simpl. f_equal. apply IH. lia.
Qed.

Lemma items_of_trace {B} (t : list (hintT * pstep B)) :
  items (map (fun x => to_sstep (snd x)) t) = emitted t.
Proof. induction t as [|[h [b| |]] r IH]; simpl; auto. f_equal. exact IH. Qed.

(* every stage, over any upstream script and any upstream hint function, emits its adaptor *)
Lemma stage_emitted (g : stage) uh l :
  exists n0, forall n, (n0 <= n)%nat -> emitted (stage_polls g uh l n) = stage_ref g (items l).
Proof.
  destruct g as [f| |p|o|g|p|p|k|k|]; simpl.
  - destruct (@map_runs N N uh (ev_fn f) l) as [s' R]. exact (emitted_of_run R).
  - destruct (@inspect_runs N uh l) as [s' R]. exact (emitted_of_run R).
  - destruct (@filter_runs N uh (ev_pr p) l) as [s' R]. exact (emitted_of_run R).
  - destruct (@filter_map_runs N N uh (ev_op o) l) as [s' R]. exact (emitted_of_run R).
  - destruct (@flat_map_runs N N (ev_ls g) None l) as [s' R]. exact (emitted_of_run R).
  - destruct (@take_while_runs N uh (ev_pr p) l) as [s' R]. exact (emitted_of_run R).
  - destruct (@skip_while_runs N uh (ev_pr p) (true, l)) as [s' R]. exact (emitted_of_run R).
  - destruct (@take_runs N uh l k) as [s' R]. exact (emitted_of_run R).
  - destruct (@skip_runs N uh l k) as [s' R]. exact (emitted_of_run R).
  - destruct (@fuse_runs N uh (Some l)) as [s' R]. exact (emitted_of_run R).
Qed.

(* items of a checker trace up to its first Ended *)
Fixpoint tr_items_until (t : trace) : list val :=
  match t with
  | (_, Ready v) :: r => v :: tr_items_until r
  | (_, Pending) :: r => tr_items_until r
  | _ => []
  end.

Lemma stage_polls_firstn g uh l : forall n k, (n <= k)%nat ->
  firstn n (stage_polls g uh l k) = stage_polls g uh l n.
Proof. intros n k L. destruct g; simpl; apply polls_firstn; exact L. Qed.

(* the items of an intermediate level's behaviour script *)
Lemma level_items g up : exists n0, forall H, (n0 <= H)%nat ->
  items (fst (level g H up)) = stage_ref g (items (fst up)).
Proof.
  destruct (stage_emitted g (snd up) (fst up)) as [n0 Hn]. exists n0. intros H L.
  unfold level. cbn [fst]. rewrite items_of_trace, stage_polls_firstn by lia. apply Hn. exact L.
Qed.

(* depth-2 pipelines, as the check runs them: for every sufficient horizon H, the trace of the
   top stage over the first level's behaviour script emits stage_ref g2 (stage_ref g1 items) *)
Theorem pipe2_items g1 g2 (a : srcN) : exists H0, forall H, (H0 <= H)%nat ->
  exists n0, forall n, (n0 <= n)%nat ->
    tr_items_until (prun (PCase H [g1] g2 a) n) = pref (PCase H [g1] g2 a).
Proof.
  destruct (level_items g1 (s_scr a, sh a)) as [H0 HL]. exists H0. intros H L.
  unfold prun, pref. cbn [p_inner p_top p_src p_h levels fold_left].
  destruct (stage_emitted g2 (snd (level g1 H (s_scr a, sh a))) (fst (level g1 H (s_scr a, sh a))))
    as [n0 Hn]. exists n0. intros n Ln. unfold tr_items_until.
  pose proof (HL H L) as E1. cbn [fst] in E1. rewrite <- E1, <- (Hn n Ln).
  generalize (stage_polls g2 (snd (level g1 H (s_scr a, sh a))) (fst (level g1 H (s_scr a, sh a))) n).
  intros t. unfold conv. induction t as [|[h [b| |]] r IH]; simpl; auto. f_equal. exact IH.
Qed.

(* ------------------------------------------------------------------------------------ *)
(* any depth.  Instead of "for every sufficient horizon", a checkable side condition: every
   intermediate level's behaviour script contains the level's end within the horizon. *)
Lemma emitted_when_ended {B} (m : machine B) s out s' : runs_to m s out s' ->
  forall n, has_end (polls m n s) = true -> emitted (polls m n s) = out.
Proof.
  induction 1 as [s s' E|s b s1 out s2 E R IH|s s1 out s2 E R IH]; intros [|n] H;
    try discriminate; simpl in *; rewrite E in *; simpl in *.
  - reflexivity.
  - f_equal. apply IH. exact H.
  - apply IH. exact H.
Qed.

Lemma stage_emitted_when_ended (g : stage) uh l n :
  has_end (stage_polls g uh l n) = true ->
  emitted (stage_polls g uh l n) = stage_ref g (items l).
Proof.
  destruct g as [f| |p|o|g|p|p|k|k|]; simpl; intros H.
  - destruct (@map_runs N N uh (ev_fn f) l) as [s' R]. exact (emitted_when_ended R n H).
  - destruct (@inspect_runs N uh l) as [s' R]. exact (emitted_when_ended R n H).
  - destruct (@filter_runs N uh (ev_pr p) l) as [s' R]. exact (emitted_when_ended R n H).
  - destruct (@filter_map_runs N N uh (ev_op o) l) as [s' R]. exact (emitted_when_ended R n H).
  - destruct (@flat_map_runs N N (ev_ls g) None l) as [s' R]. exact (emitted_when_ended R n H).
  - destruct (@take_while_runs N uh (ev_pr p) l) as [s' R]. exact (emitted_when_ended R n H).
  - destruct (@skip_while_runs N uh (ev_pr p) (true, l)) as [s' R]. exact (emitted_when_ended R n H).
  - destruct (@take_runs N uh l k) as [s' R]. exact (emitted_when_ended R n H).
  - destruct (@skip_runs N uh l k) as [s' R]. exact (emitted_when_ended R n H).
  - destruct (@fuse_runs N uh (Some l)) as [s' R]. exact (emitted_when_ended R n H).
Qed.

Lemma levels_items : forall gs H up, horizon_ok gs H up = true ->
  items (fst (levels gs H up)) = fold_left (fun l g => stage_ref g l) gs (items (fst up)).
Proof.
  induction gs as [|g r IH]; intros H up OK; simpl in *; auto.
  apply andb_prop in OK. destruct OK as [E OK]. rewrite (IH H _ OK). f_equal.
  unfold level. cbn [fst]. rewrite items_of_trace, stage_polls_firstn by lia.
  apply stage_emitted_when_ended. exact E.
Qed.

Lemma conv_items t : tr_items_until (conv VN t) = map VN (emitted t).
Proof. induction t as [|[h [b| |]] r IH]; simpl; auto. f_equal. exact IH. Qed.

Lemma conv_has_end t : has_end (conv VN t) = has_end t.
Proof. induction t as [|[h [b| |]] r IH]; simpl; auto. Qed.

(* the composed model of a pipeline of any depth emits the composition of the adaptors *)
Theorem pipe_items (c : pcase) n :
  horizon_ok (p_inner c) (p_h c) (s_scr (p_src c), sh (p_src c)) = true ->
  has_end (prun c n) = true ->
  tr_items_until (prun c n) = pref c.
Proof.
  intros OK E. unfold prun, pref in *. rewrite conv_has_end in E. rewrite conv_items.
  rewrite (stage_emitted_when_ended _ _ _ _ E), (levels_items _ _ _ OK). reflexivity.
Qed.

(* ------------------------------------------------------------------------------------ *)
(* a binary combinator over two pipelines *)
From HV Require Import Pull.PTwo.

Lemma conv_items_g {B} (inj : B -> val) t : tr_items_until (conv inj t) = map inj (emitted t).
Proof. induction t as [|[h [b| |]] r IH]; simpl; auto. f_equal. exact IH. Qed.

Lemma conv_has_end_g {B} (inj : B -> val) (t : list (hintT * pstep B)) :
  has_end (conv inj t) = has_end t.
Proof. induction t as [|[h [b| |]] r IH]; simpl; auto. Qed.

Theorem bpipe_items (c : bcase) n :
  horizon_ok (b_sa c) (b_h c) (s_scr (b_a c), sh (b_a c)) = true ->
  horizon_ok (b_sb c) (b_h c) (s_scr (b_b c), sh (b_b c)) = true ->
  bpre c = true -> has_end (brun c n) = true ->
  tr_items_until (brun c n) = bref c.
Proof.
  intros OA OB P E. unfold brun, bref, bpre, side_ref in *.
  pose proof (levels_items _ _ _ OA) as EA. pose proof (levels_items _ _ _ OB) as EB.
  cbn [fst] in EA, EB. rewrite <- EA, <- EB. clear EA EB.
  set (ua := levels (b_sa c) (b_h c) (s_scr (b_a c), sh (b_a c))) in *.
  set (ub := levels (b_sb c) (b_h c) (s_scr (b_b c), sh (b_b c))) in *.
  destruct (b_top c); rewrite conv_has_end_g in E; rewrite conv_items_g; f_equal.
  - destruct (@zip_runs N N (snd ua) (snd ub) (None, fst ua, fst ub)) as [s' R].
    exact (emitted_when_ended R n E).
  - destruct (@chain_runs N (snd ua) (snd ub) (fst ua, fst ub) P) as [s' R].
    exact (emitted_when_ended R n E).
  - apply andb_prop in P.
    destruct (@zipl_runs N N (snd ua) (snd ub) (None, fst ua, fst ub) P) as [s' R].
    exact (emitted_when_ended R n E).
  - destruct (@cross_runs N N (snd ua) (None, fst ua, fst ub)) as [s' R].
    exact (emitted_when_ended R n E).
Qed.
