(* E4 Pipes, pull side -- proofs for the two-input combinators (Chain, Zip, ZipLongest,
   CrossSingleton).  Same three facts as in POne.v, now for every state including what the
   combinator buffers across a Pending (Zip's / ZipLongest's buffer, the cached singleton). *)
From HV Require Import Pull.Model Pull.PCore.
Set Implicit Arguments.
Open Scope N_scope.

Ltac inv H := inversion H; subst; clear H.

(* A run exists, and yields [ref s], as soon as [ref] is preserved by every poll and some
   measure decreases on every poll that does not report the end. *)
Lemma runs_by_measure {B} (m : machine B) (P : St m -> Prop) (ref : St m -> list B)
      (mu : St m -> nat) :
  (forall s, P s ->
     match pull1 m s with
     | (Ended, _) => ref s = []
     | (Ready b, s1) => ref s = b :: ref s1 /\ P s1 /\ (mu s1 < mu s)%nat
     | (Pending, s1) => ref s = ref s1 /\ P s1 /\ (mu s1 < mu s)%nat
     end) ->
  forall s, P s -> exists s', runs_to m s (ref s) s'.
Proof.
  intros step. assert (forall n s, (mu s < n)%nat -> P s -> exists s', runs_to m s (ref s) s') as H.
  { induction n; intros s L Ps; [lia|].
    pose proof (step s Ps) as Hs. destruct (pull1 m s) as [[b| |] s1] eqn:E.
    - destruct Hs as [Hr [P1 L1]]. destruct (IHn s1) as [s' R]; [lia|exact P1|].
      exists s'. rewrite Hr. eapply R_rdy; eauto.
    - destruct Hs as [Hr [P1 L1]]. destruct (IHn s1) as [s' R]; [lia|exact P1|].
      exists s'. rewrite Hr. eapply R_pend; eauto.
    - exists s1. rewrite Hs. apply R_end. exact E. }
  intros s Ps. apply (H (S (mu s))); auto.
Qed.

Lemma fused_cons_end {A} (r : script A) : fused_b (End :: r) = true -> dead r.
Proof. intros H; exact H. Qed.

Lemma zip_longest_ref_nil_r {A B} (l : list A) : zip_longest_ref l (@nil B) = map ELeft l.
Proof. destruct l; reflexivity. Qed.

Lemma zip_longest_ref_length {A B} : forall (l1 : list A) (l2 : list B),
  length (zip_longest_ref l1 l2) = Nat.max (length l1) (length l2).
Proof.
  induction l1 as [|a r1 IH]; intros [|b r2]; simpl; try reflexivity.
  - rewrite map_length. reflexivity.
  - rewrite map_length. reflexivity.
  - rewrite IH. reflexivity.
Qed.

Section Chain.
  Variable A : Type.
  Variables uh1 uh2 : script A -> hintT.
  Let m := chain_m uh1 uh2.

  Definition chain_ref (st : script A * script A) : list A := items (fst st) ++ items (snd st).

  Lemma chain_runs : forall st, fused_b (fst st) = true -> exists s', runs_to m st (chain_ref st) s'.
  Proof.
    apply (@runs_by_measure _ m (fun st => fused_b (fst st) = true) chain_ref
             (fun st => (length (fst st) + length (snd st))%nat)).
    intros [l1 l2] F; simpl in F. unfold chain_ref.
    destruct l1 as [|[a| |] r1]; simpl.
    - destruct l2 as [|[b| |] r2]; simpl; repeat split; auto; lia.
    - repeat split; auto; try lia; try (eapply fused_tail; eauto).
    - repeat split; auto; try lia; try (eapply fused_tail; eauto).
    - pose proof (dead_fused (fused_cons_end _ F)) as F'.
      pose proof (dead_items (fused_cons_end _ F)) as I1.
      destruct l2 as [|[b| |] r2]; simpl; rewrite ?I1; simpl; repeat split; auto; lia.
  Qed.

  Lemma chain_dead : forall st, dead (fst st) -> dead (snd st) -> ended_forever m st.
  Proof.
    intros st D1 D2.
    apply (@ended_forever_inv _ m (fun st : script A * script A => dead (fst st) /\ dead (snd st))); [|auto].
    intros [l1 l2] [E1 E2]; simpl in *.
    destruct (dead_pull E1) as [l1' [P1 D1']]. destruct (dead_pull E2) as [l2' [P2 D2']].
    exists (l1', l2'). rewrite P1, P2. auto.
  Qed.

  Lemma chain_fused : forall st s', fused_b (fst st) = true -> fused_b (snd st) = true ->
    pull1 m st = (Ended, s') -> ended_forever m s'.
  Proof.
    intros [l1 l2] s' F1 F2 E; simpl in *.
    destruct (src_pull l1) as [[a| |] l1'] eqn:E1; try discriminate.
    destruct (src_pull l2) as [o l2'] eqn:E2. inv E.
    apply chain_dead; simpl; [eapply (fused_ended_dead l1); eauto|eapply (fused_ended_dead l2); eauto].
  Qed.

  Lemma chain_hint_ok : truthful uh1 -> truthful uh2 -> forall st,
    hint_ok (hint m st) (len (chain_ref st)).
  Proof.
    intros T1 T2 [l1 l2]. destruct (T1 l1) as [L1 U1]. destruct (T2 l2) as [L2 U2].
    unfold hint_ok, chain_ref, len, rem in *; simpl. unfold chain_hint; simpl.
    rewrite app_length. destruct (uh1 l1) as [lo1 up1], (uh2 l2) as [lo2 up2]; simpl in *.
    unfold sat_add, chk_add. split; [lia|].
    destruct up1, up2; auto. destruct (n + n0 <=? umax) eqn:E; [|exact I].
    apply N.leb_le in E. lia.
  Qed.
End Chain.

Section Two.
  Variables A B : Type.
  Variable uh1 : script A -> hintT.
  Variable uh2 : script B -> hintT.

  Definition bufl (buf : option (A + B)) : list A := match buf with Some (inl a) => [a] | _ => [] end.
  Definition bufr (buf : option (A + B)) : list B := match buf with Some (inr b) => [b] | _ => [] end.
  Definition zmu (st : zst A B) : nat :=
    let '(buf, l1, l2) := st in
    (length l1 + length l2 + match buf with Some _ => 1 | None => 0 end)%nat.

  (* ------------------------------------------------------------------ zip *)
  Definition zip_ref (st : zst A B) : list (A * B) :=
    let '(buf, l1, l2) := st in combine (bufl buf ++ items l1) (bufr buf ++ items l2).

  Lemma zip_runs : forall st, exists s', runs_to (zip_m uh1 uh2) st (zip_ref st) s'.
  Proof.
    intros st. apply (@runs_by_measure _ (zip_m uh1 uh2) (fun _ => True) zip_ref zmu); [|exact I].
    clear st. intros [[buf l1] l2] _.
    destruct buf as [[a|b]|]; destruct l1 as [|[a1| |] r1]; destruct l2 as [|[b2| |] r2];
      simpl; rewrite ?combine_nil; repeat split; auto; lia.
  Qed.

  Lemma zip_hint_ok : truthful uh1 -> truthful uh2 -> forall st,
    hint_ok (hint (zip_m uh1 uh2) st) (len (zip_ref st)).
  Proof.
    intros T1 T2 [[buf l1] l2]. destruct (T1 l1) as [L1 U1]. destruct (T2 l2) as [L2 U2].
    unfold hint_ok, zip_ref, len, rem in *; simpl. unfold zip_hint, zip_sides; simpl.
    rewrite combine_length, !app_length.
    destruct (uh1 l1) as [lo1 up1], (uh2 l2) as [lo2 up2]; simpl in *.
    unfold sat_add, chk_add.
    destruct buf as [[a|b]|]; cbn [bufl bufr length Nat.add fst snd]; (split; [lia|]);
      destruct up1 as [u1|], up2 as [u2|]; cbn [fst snd]; auto;
      repeat match goal with
             | |- context [?x + 1 <=? umax] => destruct (x + 1 <=? umax)
             end; cbn [fst snd]; auto; lia.
  Qed.

  (* ------------------------------------------------------------------ zip_longest *)
  Definition zipl_ref (st : zst A B) : list (eob A B) :=
    let '(buf, l1, l2) := st in zip_longest_ref (bufl buf ++ items l1) (bufr buf ++ items l2).
  Definition zfused (st : zst A B) : Prop :=
    let '(_, l1, l2) := st in fused_b l1 = true /\ fused_b l2 = true.

  Lemma zipl_runs : forall st, zfused st -> exists s', runs_to (zipl_m uh1 uh2) st (zipl_ref st) s'.
  Proof.
    apply (@runs_by_measure _ (zipl_m uh1 uh2) zfused zipl_ref zmu).
    intros [[buf l1] l2] [F1 F2].
    destruct buf as [[a|b]|]; destruct l1 as [|[a1| |] r1]; destruct l2 as [|[b2| |] r2];
      simpl;
      try (pose proof (dead_items (fused_cons_end _ F1)) as I1);
      try (pose proof (dead_items (fused_cons_end _ F2)) as I2);
      try (pose proof (dead_fused (fused_cons_end _ F1)) as G1);
      try (pose proof (dead_fused (fused_cons_end _ F2)) as G2);
      try (pose proof (fused_tail _ _ F1) as H1);
      try (pose proof (fused_tail _ _ F2) as H2);
      rewrite ?I1, ?I2, ?zip_longest_ref_nil_r; simpl;
      repeat split; auto; try lia.
  Qed.

  Lemma zipl_dead : forall st : zst A B,
    fst (fst st) = None -> dead (snd (fst st)) -> dead (snd st) -> ended_forever (zipl_m uh1 uh2) st.
  Proof.
    intros st Hb D1 D2.
    apply (@ended_forever_inv _ (zipl_m uh1 uh2)
             (fun st : zst A B => fst (fst st) = None /\ dead (snd (fst st)) /\ dead (snd st))); [|auto].
    intros [[buf l1] l2] [E0 [E1 E2]]; simpl in *; subst.
    destruct (dead_pull E1) as [l1' [P1 D1']]. destruct (dead_pull E2) as [l2' [P2 D2']].
    exists (None, l1', l2'). unfold zipl_pull, zip_polls. rewrite P1, P2. auto.
  Qed.

  Lemma zipl_fused : forall st s', zfused st ->
    pull1 (zipl_m uh1 uh2) st = (Ended, s') -> ended_forever (zipl_m uh1 uh2) s'.
  Proof.
    intros [[buf l1] l2] s' [F1 F2] E; simpl in E. unfold zipl_pull, zip_polls in E.
    destruct buf as [[a|b]|].
    - destruct (src_pull l2) as [[x| |] l2']; inv E.
    - destruct (src_pull l1) as [[x| |] l1']; inv E.
    - destruct (src_pull l1) as [[x| |] l1'] eqn:E1; destruct (src_pull l2) as [[y| |] l2'] eqn:E2; inv E.
      apply zipl_dead; simpl; auto; [eapply (fused_ended_dead l1); eauto|eapply (fused_ended_dead l2); eauto].
  Qed.

  Lemma zipl_hint_ok : truthful uh1 -> truthful uh2 -> forall st,
    hint_ok (hint (zipl_m uh1 uh2) st) (len (zipl_ref st)).
  Proof.
    intros T1 T2 [[buf l1] l2]. destruct (T1 l1) as [L1 U1]. destruct (T2 l2) as [L2 U2].
    unfold hint_ok, zipl_ref, len, rem in *; simpl. unfold zipl_hint, zip_sides; simpl.
    rewrite zip_longest_ref_length, !app_length.
    destruct (uh1 l1) as [lo1 up1], (uh2 l2) as [lo2 up2]; simpl in *.
    unfold sat_add, chk_add.
    destruct buf as [[a|b]|]; cbn [bufl bufr length Nat.add fst snd]; (split; [lia|]);
      destruct up1 as [u1|], up2 as [u2|]; cbn [fst snd]; auto;
      repeat match goal with
             | |- context [?x + 1 <=? umax] => destruct (x + 1 <=? umax)
             end; cbn [fst snd]; auto; lia.
  Qed.

  (* ------------------------------------------------------------------ cross_singleton *)
  Definition cross_st_ref (st : cst A B) : list (A * B) :=
    let '(sing, li, ls) := st in
    match sing with
    | Some s => map (fun a => (a, s)) (items li)
    | None => cross_ref (items li) (items ls)
    end.
  Definition cmu (st : cst A B) : nat := let '(_, li, ls) := st in (length li + length ls)%nat.

  Lemma cross_runs : forall st, exists s', runs_to (cross_m B uh1) st (cross_st_ref st) s'.
  Proof.
    intros st. apply (@runs_by_measure _ (cross_m B uh1) (fun _ => True) cross_st_ref cmu); [|exact I].
    clear st. intros [[sing li] ls] _.
    destruct sing as [s|]; [|destruct ls as [|[s| |] rs]]; destruct li as [|[a| |] ri];
      simpl; repeat split; auto; lia.
  Qed.

  Definition cross_done (st : cst A B) : Prop :=
    let '(sing, li, ls) := st in
    match sing with None => dead ls | Some _ => dead li end.

  Lemma cross_dead : forall st, cross_done st -> ended_forever (cross_m B uh1) st.
  Proof.
    apply (@ended_forever_inv _ (cross_m B uh1) cross_done).
    intros [[sing li] ls] D; simpl in D. destruct sing as [s|].
    - destruct (dead_pull D) as [li' [P D']]. exists (Some s, li', ls). simpl. rewrite P. auto.
    - destruct (dead_pull D) as [ls' [P D']]. exists (None, li, ls'). simpl. rewrite P. auto.
  Qed.

  Lemma cross_fused : forall st s',
    fused_b (snd (fst st)) = true -> fused_b (snd st) = true ->
    pull1 (cross_m B uh1) st = (Ended, s') -> ended_forever (cross_m B uh1) s'.
  Proof.
    intros [[sing li] ls] s' Fi Fs E; simpl in *. apply cross_dead. destruct sing as [s|].
    - destruct (src_pull li) as [[x| |] li'] eqn:E1; inv E. simpl. eapply (fused_ended_dead li); eauto.
    - destruct (src_pull ls) as [[s| |] ls'] eqn:E2.
      + destruct (src_pull li) as [[x| |] li'] eqn:E1; inv E. simpl. eapply (fused_ended_dead li); eauto.
      + discriminate.
      + inv E. simpl. eapply (fused_ended_dead ls); eauto.
  Qed.

  Lemma cross_hint_ok : truthful uh1 -> forall st,
    hint_ok (hint (cross_m B uh1) st) (len (cross_st_ref st)).
  Proof.
    intros T1 [[sing li] ls]. destruct (T1 li) as [L1 U1].
    unfold hint_ok, cross_st_ref, len, rem in *; simpl. unfold cross_hint; simpl.
    destruct (uh1 li) as [lo up]; simpl in *. destruct sing as [s|]; simpl.
    - rewrite map_length. auto.
    - unfold cross_ref. destruct (items ls); simpl; [|rewrite map_length]; split; try lia;
        destruct up; auto; lia.
  Qed.
End Two.
