(* E4 Pipes, pull side -- C13 continued: the join operator over ticks with per-side
   'tick / 'static persistence, new-tick path = incremental path, and soundness of the
   executable property C13_holds_b. *)
From Coq Require Import Permutation.
From HV Require Import Pull.Model Pull.PCore Pull.ModelJoin Pull.PJoin Pull.PJoin2 Pull.CorrJoin.
Set Implicit Arguments.
Open Scope N_scope.

Ltac inv H := inversion H; subst; clear H.

Lemma drain_ev s : forall l h, keys_ok (table h) ->
  Permutation (rows (table (drain s h l))) (built_from s (rows (table h)) (items l)).
Proof.
  induction l as [|[[k v]| |] r IH]; intros h K; simpl; rewrite ?built_from_nil_r; auto.
  destruct (build s h k v) as [h' b] eqn:B. simpl.
  destruct (build_spec _ _ _ _ B K) as [_ [K' _]].
  etransitivity; [apply IH; exact K'|]. symmetry. apply (build_eventual (items r) B K).
Qed.

Lemma built_from_built s acc new : built_from s (built s acc) new = built s (acc ++ new).
Proof.
  destruct s; simpl; auto. unfold dedup. rewrite dedup_acc_app. f_equal.
  apply dedup_acc_same_mem. apply same_mem_of_In. intros x.
  rewrite In_dedup_acc, app_nil_r. simpl. tauto.
Qed.

(* a state that holds exactly what was built from the arrivals [acc] *)
Definition holds (s : sem) (h : half) (acc : list (N * N)) : Prop :=
  keys_ok (table h) /\ Permutation (rows (table h)) (built s acc).

Lemma holds_empty s : holds s half0 [].
Proof. split; [constructor|]. destruct s; apply Permutation_refl. Qed.

Lemma holds_drain s h acc l : holds s h acc -> holds s (drain s h l) (acc ++ items l).
Proof.
  intros [K P]. split; [apply drain_keys_ok; auto|].
  etransitivity; [apply drain_ev; auto|]. rewrite <- built_from_built.
  apply built_from_base_perm. exact P.
Qed.

(* C13 over ticks (the join operator always takes the new-tick path): each tick emits the join
   of everything that arrived within each side's persisted scope -- nothing missed, nothing
   repeated within a tick, whatever the Pending placements *)
Theorem run_ticks_ref s p1 p2 : forall ticks h1 h2 acc1 acc2,
  holds s h1 acc1 -> holds s h2 acc2 ->
  Forall2 (@Permutation _) (run_ticks s p1 p2 h1 h2 ticks) (ref_ticks s p1 p2 acc1 acc2 ticks).
Proof.
  induction ticks as [|[l1 l2] r IH]; intros h1 h2 acc1 acc2 H1 H2; simpl; [constructor|].
  pose proof (holds_drain l1 H1) as D1. pose proof (holds_drain l2 H2) as D2.
  pose proof (@new_tick_emits_join s h1 h2 l1 l2 (proj1 H1) (proj1 H2)) as NT.
  unfold new_tick in *. constructor.
  - etransitivity; [exact NT|]. unfold J. apply join_rows_perm; [apply D1|apply D2].
  - apply IH.
    + destruct p1; [exact D1|apply holds_empty].
    + destruct p2; [exact D2|apply holds_empty].
Qed.

(* the drain-then-enumerate path and the incremental path produce the same multiset *)
Theorem new_tick_same_as_incremental s l1 l2 out st' :
  fused_b l1 = true -> fused_b l2 = true ->
  runs_to (shj_m s) (half0, half0, l1, l2) out st' ->
  let '(_, _, out_tick) := new_tick s half0 half0 l1 l2 in Permutation out out_tick.
Proof.
  intros F1 F2 R. pose proof (shj_from_empty F1 F2 R) as H.
  pose proof (@run_ticks_ref s true true [(l1, l2)] half0 half0 [] [] (holds_empty s) (holds_empty s)) as T.
  simpl in T. unfold new_tick in *. inv T. etransitivity; [exact H|]. symmetry. exact H3.
Qed.
