(* E4 Pipes, pull side -- C13 continued: what the tables hold at the end of a run
   (deduplicated / all arrivals), each pair once, fuel adequacy, ticks. *)
From Coq Require Import Permutation.
From HV Require Import Pull.Model Pull.PCore Pull.ModelJoin Pull.PJoin.
Set Implicit Arguments.
Open Scope N_scope.

Ltac inv H := inversion H; subst; clear H.

(* ------------------------------------------------------------------------------------ *)
(* deduplication *)
Lemma kv_eqb_eq x y : kv_eqb x y = true <-> x = y.
Proof.
  destruct x as [a b], y as [c d]. unfold kv_eqb; simpl. rewrite andb_true_iff, !N.eqb_eq.
  split; [intros [-> ->]; auto|intros E; inv E; auto].
Qed.

Lemma mem_kv_In x l : mem_kv x l = true <-> In x l.
Proof.
  induction l as [|y r IH]; simpl; [split; [discriminate|tauto]|].
  rewrite orb_true_iff, kv_eqb_eq, IH. tauto.
Qed.

Definition same_mem (s1 s2 : list (N * N)) : Prop := forall x, mem_kv x s1 = mem_kv x s2.

Lemma same_mem_of_In s1 s2 : (forall x, In x s1 <-> In x s2) -> same_mem s1 s2.
Proof.
  intros H x. destruct (mem_kv x s1) eqn:E1, (mem_kv x s2) eqn:E2; auto.
  - apply mem_kv_In, H, mem_kv_In in E1. congruence.
  - apply mem_kv_In, H, mem_kv_In in E2. congruence.
Qed.

Lemma same_mem_perm s1 s2 : Permutation s1 s2 -> same_mem s1 s2.
Proof.
  intros P. apply same_mem_of_In. intros x. split; apply Permutation_in; auto. symmetry; auto.
Qed.

Lemma same_mem_cons x s1 s2 : same_mem s1 s2 -> same_mem (x :: s1) (x :: s2).
Proof. intros H y. simpl. rewrite H. reflexivity. Qed.

Lemma dedup_acc_same_mem : forall l s1 s2, same_mem s1 s2 -> dedup_acc s1 l = dedup_acc s2 l.
Proof.
  induction l as [|x r IH]; intros s1 s2 H; simpl; auto. rewrite (H x).
  destruct (mem_kv x s2); auto. f_equal. apply IH. apply same_mem_cons; auto.
Qed.

Lemma dedup_acc_app : forall a seen b,
  dedup_acc seen (a ++ b) = dedup_acc seen a ++ dedup_acc (a ++ seen) b.
Proof.
  induction a as [|x a IH]; intros seen b; simpl; auto.
  destruct (mem_kv x seen) eqn:E.
  - rewrite IH. f_equal. apply dedup_acc_same_mem. intros y. simpl.
    destruct (kv_eqb x y) eqn:E2; auto. apply kv_eqb_eq in E2. subst y. simpl.
    apply mem_kv_In. apply in_or_app. right. apply mem_kv_In. exact E.
  - simpl. f_equal. rewrite IH. f_equal. apply dedup_acc_same_mem. apply same_mem_of_In.
    intros y. simpl. rewrite !in_app_iff. simpl. tauto.
Qed.

Lemma In_dedup_acc : forall l seen x, In x (dedup_acc seen l) <-> In x l /\ ~ In x seen.
Proof.
  induction l as [|y r IH]; intros seen x; simpl; [tauto|].
  destruct (mem_kv y seen) eqn:E.
  - rewrite IH. apply mem_kv_In in E. split; [tauto|]. intros [[->|H] N]; tauto.
  - simpl. rewrite IH. simpl. assert (~ In y seen) by (rewrite <- mem_kv_In; congruence).
    split.
    + intros [->|[H1 H2]]; tauto.
    + intros [[->|H1] H2]; auto. destruct (kv_eqb y x) eqn:E2.
      * apply kv_eqb_eq in E2. auto.
      * right. split; auto. intros [->|H3]; auto. rewrite (proj2 (kv_eqb_eq x x) eq_refl) in E2.
        discriminate.
Qed.

Lemma NoDup_dedup_acc : forall l seen, NoDup (dedup_acc seen l).
Proof.
  induction l as [|y r IH]; intros seen; simpl; [constructor|].
  destruct (mem_kv y seen); auto. constructor; auto.
  rewrite In_dedup_acc. simpl. tauto.
Qed.

(* what a state holds after [new] arrives on top of [base] *)
Definition built_from (s : sem) (base new : list (N * N)) : list (N * N) :=
  match s with SetSem => base ++ dedup_acc base new | MultiSem => base ++ new end.

Lemma built_from_nil s new : built_from s [] new = built s new.
Proof. destruct s; reflexivity. Qed.

Lemma built_from_base_perm s b1 b2 new : Permutation b1 b2 ->
  Permutation (built_from s b1 new) (built_from s b2 new).
Proof.
  intros P. destruct s; simpl.
  - rewrite (dedup_acc_same_mem new (same_mem_perm P)). apply Permutation_app_tail; auto.
  - apply Permutation_app_tail; auto.
Qed.

Lemma NoDup_app_intro {A} (l1 l2 : list A) :
  NoDup l1 -> NoDup l2 -> (forall x, In x l1 -> ~ In x l2) -> NoDup (l1 ++ l2).
Proof.
  induction l1 as [|a r IH]; simpl; auto. intros N1 N2 D. inv N1. constructor.
  - rewrite in_app_iff. intros [H|H]; auto. eapply D; eauto.
  - apply IH; auto.
Qed.

Lemma NoDup_built_from_set base new : NoDup base -> NoDup (built_from SetSem base new).
Proof.
  intros Nb. simpl. apply NoDup_app_intro; auto using NoDup_dedup_acc.
  intros x H1 H2. apply In_dedup_acc in H2. tauto.
Qed.

(* ------------------------------------------------------------------------------------ *)
(* build keeps "rows of the table + what the remaining arrivals will add" invariant *)
Lemma memN_In v l : memN v l = true <-> In v l.
Proof.
  induction l as [|x r IH]; simpl; [split; [discriminate|tauto]|].
  rewrite orb_true_iff, N.eqb_eq, IH. tauto.
Qed.

Lemma In_rows t k v : In (k, v) (rows t) <-> exists vs, In (k, vs) t /\ In v vs.
Proof.
  induction t as [|[k' vs'] r IH]; [simpl; split; [tauto|intros [? [[] _]]]|].
  rewrite rows_cons, in_app_iff, IH, in_map_iff. split.
  - intros [[v' [E H]]|[vs [H1 H2]]].
    + inv E. exists vs'. simpl; auto.
    + exists vs. simpl; auto.
  - intros [vs [[E|H1] H2]].
    + inv E. left. exists v. auto.
    + right. exists vs. auto.
Qed.

Lemma tget_In t k vs : keys_ok t -> (tget t k = Some vs <-> In (k, vs) t).
Proof.
  unfold keys_ok. induction t as [|[k' vs'] r IH]; simpl; intros K; [split; [discriminate|tauto]|].
  inv K. destruct (k' =? k) eqn:E.
  - apply N.eqb_eq in E. subst. split; [intros H; inv H; auto|].
    intros [H|H]; [inv H; auto|]. exfalso. apply H1. change k with (fst (k, vs)). apply in_map. exact H.
  - apply N.eqb_neq in E. rewrite IH by auto. split; auto. intros [H|H]; auto. inv H. congruence.
Qed.

Lemma mem_rows t k v : keys_ok t ->
  mem_kv (k, v) (rows t) = match tget t k with Some vec => memN v vec | None => false end.
Proof.
  intros K. destruct (mem_kv (k, v) (rows t)) eqn:E.
  - apply mem_kv_In, In_rows in E. destruct E as [vs [H1 H2]].
    apply (tget_In k vs K) in H1. rewrite H1. symmetry. apply memN_In. exact H2.
  - destruct (tget t k) as [vec|] eqn:T; auto. destruct (memN v vec) eqn:M; auto.
    apply memN_In in M. apply (tget_In k vec K) in T.
    assert (In (k, v) (rows t)) as H by (apply In_rows; eauto).
    apply mem_kv_In in H. congruence.
Qed.

Lemma build_eventual s h k v h' b r : build s h k v = (h', b) -> keys_ok (table h) ->
  Permutation (built_from s (rows (table h)) ((k, v) :: r)) (built_from s (rows (table h')) r).
Proof.
  intros E K.
  assert (forall c n, Permutation (rows (table h) ++ (k, v) :: r)
                                  (rows (table (Half (tpush (table h) k v) c n)) ++ r)) as PM.
  { intros c n. simpl. etransitivity; [|apply Permutation_app_tail; symmetry; apply tpush_rows].
    rewrite <- app_assoc. apply Permutation_refl. }
  assert (forall c n, mem_kv (k, v) (rows (table h)) = false ->
            Permutation (built_from SetSem (rows (table h)) ((k, v) :: r))
                        (built_from SetSem (rows (table (Half (tpush (table h) k v) c n))) r)) as PS.
  { intros c n M. simpl. rewrite M.
    rewrite (@dedup_acc_same_mem r ((k, v) :: rows (table h)) (rows (tpush (table h) k v))).
    - etransitivity; [|apply Permutation_app_tail; symmetry; apply tpush_rows].
      rewrite <- app_assoc. apply Permutation_refl.
    - apply same_mem_perm. symmetry. etransitivity; [apply tpush_rows|].
      symmetry. apply Permutation_cons_append. }
  destruct s; simpl in E.
  - pose proof (mem_rows k v K) as MR.
    destruct (tget (table h) k) as [vec|].
    + destruct (memN v vec); inv E.
      * simpl. rewrite MR. apply Permutation_refl.
      * apply PS. exact MR.
    + inv E. apply PS. exact MR.
  - inv E. apply PM.
Qed.

Arguments build_eventual {s h k v h' b} r _ _.

(* one scripted answer of a fused source *)
Definition ready_item {A} (o : pstep A) : list A := match o with Ready a => [a] | _ => [] end.

Lemma items_step {A} (l l' : script A) o : fused_b l = true -> src_pull l = (o, l') ->
  items l = ready_item o ++ items l' /\ fused_b l' = true /\ (o = Ended -> items l' = []).
Proof.
  intros F E. pose proof (fused_step _ F E) as F'.
  destruct l as [|[a| |] r]; simpl in E; inv E; simpl; repeat split; auto; try discriminate.
  - symmetry. apply dead_items. exact F.
  - intros _. apply dead_items. exact F.
Qed.
Arguments items_step {A l l' o} _ _.

Definition ev (s : sem) (h : half) (l : script (N * N)) : list (N * N) :=
  built_from s (rows (table h)) (items l).

Definition fusedst (st : jst) : Prop :=
  let '(_, _, l1, l2) := st in fused_b l1 = true /\ fused_b l2 = true.
Definition ev1 (s : sem) (st : jst) := let '(h1, _, l1, _) := st in ev s h1 l1.
Definition ev2 (s : sem) (st : jst) := let '(_, h2, _, l2) := st in ev s h2 l2.
Definition drained (st : jst) : Prop := let '(_, _, l1, l2) := st in items l1 = [] /\ items l2 = [].

Lemma ev_tables s h h' : table h' = table h -> forall l, ev s h' l = ev s h l.
Proof. unfold ev. intros -> l. reflexivity. Qed.
Arguments ev_tables s {h h'} _ l.

(* the tables the run will end with are determined from the start: rows(table) plus what the
   remaining arrivals add is preserved by every poll *)
Lemma shj_loop_ev s : forall fuel st o st', wf st -> fusedst st ->
  shj_loop s fuel st = Some (o, st') ->
  fusedst st' /\ Permutation (ev1 s st) (ev1 s st') /\ Permutation (ev2 s st) (ev2 s st') /\
  (o = Ended -> drained st').
Proof.
  induction fuel as [|fuel IH]; intros [[[h1 h2] l1] l2] o st' [K1 K2] [F1 F2] E; [discriminate|].
  cbn [shj_loop] in E.
  destruct (pop_match h1) as [h1p [[[k0 v20] v10]|]] eqn:PM1.
  { destruct (pop_spec _ PM1) as [T1 _]. inv E. cbn [fusedst ev1 ev2]. rewrite (ev_tables s T1).
    repeat split; auto; discriminate. }
  destruct (pop_match h2) as [h2p [[[k0 v10] v20]|]] eqn:PM2.
  { destruct (pop_spec _ PM2) as [T2 _]. inv E. cbn [fusedst ev1 ev2]. rewrite (ev_tables s T2).
    repeat split; auto; discriminate. }
  destruct (src_pull l1) as [ls l1'] eqn:P1.
  destruct (items_step F1 P1) as [I1 [F1' D1]].
  assert (forall o st',
    (let (rhs_step, l2') := src_pull l2 in
      match rhs_step with
      | Ready (k, v2) =>
          let (rhs_state', built) := build s h2 k v2 in
          if built then
            match probe h1 k v2 with
            | (lhs_state', Some (k, v2, v1)) =>
                Some (Ready (k, (v1, v2)), (lhs_state', rhs_state', l1', l2'))
            | (lhs_state', None) => shj_loop s fuel (lhs_state', rhs_state', l1', l2')
            end
          else shj_loop s fuel (h1, rhs_state', l1', l2')
      | _ =>
          match ls, rhs_step with
          | Pending, _ | _, Pending => Some (Pending, (h1, h2, l1', l2'))
          | _, _ => Some (Ended, (h1, h2, l1', l2'))
          end
      end) = Some (o, st') ->
    ready_item ls = [] ->
    fusedst st' /\ Permutation (ev s h1 l1) (ev1 s st') /\ Permutation (ev s h2 l2) (ev2 s st') /\
    (o = Ended -> drained st')) as RHS.
  { clear E. intros o0 st0 E NR. rewrite NR in I1. simpl in I1.
    destruct (src_pull l2) as [rs l2'] eqn:P2. destruct (items_step F2 P2) as [I2 [F2' D2]].
    assert (ev s h1 l1 = ev s h1 l1') as E1 by (unfold ev; rewrite I1; reflexivity).
    destruct rs as [[k v2]| |].
    - destruct (build s h2 k v2) as [h2b b] eqn:B.
      destruct (build_spec _ _ _ _ B K2) as [_ [Kb _]].
      pose proof (build_eventual (items l2') B K2) as BE. simpl in I2.
      assert (Permutation (ev s h2 l2) (ev s h2b l2')) as E2 by (unfold ev; rewrite I2; exact BE).
      destruct b.
      + destruct (probe h1 k v2) as [h1q o2] eqn:PR.
        destruct (probe_spec _ _ _ PR) as [T1 _].
        destruct o2 as [[[k' v2'] v1]|].
        * inv E. cbn [fusedst ev1 ev2]. rewrite (ev_tables s T1), <- E1.
          repeat split; auto; discriminate.
        * apply IH in E; [|split; auto; rewrite T1; auto|split; auto].
          destruct E as [Fs [Q1 [Q2 Dr]]]. cbn [ev1 ev2] in Q1, Q2.
          rewrite (ev_tables s T1), <- E1 in Q1. repeat split; auto.
          etransitivity; eauto.
      + apply IH in E; [|split; auto|split; auto].
        destruct E as [Fs [Q1 [Q2 Dr]]]. cbn [ev1 ev2] in Q1, Q2. rewrite <- E1 in Q1.
        repeat split; auto. etransitivity; eauto.
    - simpl in I2. assert (o0 = Pending /\ st0 = (h1, h2, l1', l2')) as [-> ->] by (destruct ls; inv E; auto).
      cbn [fusedst ev1 ev2]. rewrite <- E1. unfold ev at 4. rewrite <- I2.
      repeat split; auto; discriminate.
    - simpl in I2. assert (st0 = (h1, h2, l1', l2') /\ (o0 = Ended -> ls = Ended)) as [-> Ho]
        by (destruct ls; inv E; split; auto; discriminate).
      cbn [fusedst ev1 ev2 drained]. rewrite <- E1. unfold ev at 4. rewrite <- I2.
      repeat split; auto; try (apply D1, Ho; assumption); try (apply D2; reflexivity); try (rewrite I2; apply D2; reflexivity). }
  destruct ls as [[k v1]| |]; [|apply RHS; auto|apply RHS; auto].
  clear RHS. simpl in I1.
  destruct (build s h1 k v1) as [h1b b] eqn:B.
  destruct (build_spec _ _ _ _ B K1) as [_ [Kb _]].
  pose proof (build_eventual (items l1') B K1) as BE.
  assert (Permutation (ev s h1 l1) (ev s h1b l1')) as E1 by (unfold ev; rewrite I1; exact BE).
  destruct b.
  - destruct (probe h2 k v1) as [h2q o2] eqn:PR.
    destruct (probe_spec _ _ _ PR) as [T2 _].
    destruct o2 as [[[k' v1'] v2]|].
    + inv E. cbn [fusedst ev1 ev2]. rewrite (ev_tables s T2). repeat split; auto; discriminate.
    + apply IH in E; [|split; auto; rewrite T2; auto|split; auto].
      destruct E as [Fs [Q1 [Q2 Dr]]]. cbn [ev1 ev2] in Q1, Q2.
      rewrite (ev_tables s T2) in Q2. repeat split; auto. etransitivity; eauto.
  - apply IH in E; [|split; auto|split; auto].
    destruct E as [Fs [Q1 [Q2 Dr]]]. cbn [ev1 ev2] in Q1, Q2.
    repeat split; auto. etransitivity; eauto.
Qed.

Lemma shj_pull_ev s st o st' : wf st -> fusedst st -> shj_pull s st = (o, st') ->
  fusedst st' /\ Permutation (ev1 s st) (ev1 s st') /\ Permutation (ev2 s st) (ev2 s st') /\
  (o = Ended -> drained st').
Proof.
  unfold shj_pull. intros W F E. destruct (shj_loop s (shj_fuel st) st) as [r|] eqn:L.
  - subst r. eapply shj_loop_ev; eauto.
  - inv E. repeat split; auto; discriminate.
Qed.

Lemma shj_runs_ev s st out st' : runs_to (shj_m s) st out st' -> wf st -> fusedst st ->
  Permutation (ev1 s st) (ev1 s st') /\ Permutation (ev2 s st) (ev2 s st') /\ drained st'.
Proof.
  induction 1 as [st st' E|st b s1 out s2 E R IH|st s1 out s2 E R IH]; intros W F; simpl in E;
    destruct (shj_pull_inv s st W E) as [W1 _];
    destruct (shj_pull_ev s st W F E) as [F1 [Q1 [Q2 D]]].
  - repeat split; auto.
  - destruct (IH W1 F1) as [R1 [R2 D2]]. repeat split; auto; etransitivity; eauto.
  - destruct (IH W1 F1) as [R1 [R2 D2]]. repeat split; auto; etransitivity; eauto.
Qed.

Lemma built_from_nil_r s base : built_from s base [] = base.
Proof. destruct s; simpl; apply app_nil_r. Qed.

(* C13, incremental path, full statement: the run emits, on top of what the tables it started
   from had already produced, exactly the join of everything that will have arrived:
   rows already in the tables plus the (deduplicated, for set state) items of the scripts *)
Theorem shj_emits_join_of_arrivals s st out st' :
  wf st -> pend st = [] -> fusedst st -> runs_to (shj_m s) st out st' ->
  Permutation (out ++ JS st) (join_rows (ev1 s st) (ev2 s st)).
Proof.
  intros W P0 F R. etransitivity; [apply (shj_emits_join W P0 R)|].
  destruct (shj_runs_ev R W F) as [Q1 [Q2 D]].
  destruct st' as [[[h1' h2'] l1'] l2']. destruct D as [D1 D2]. cbn [JS]. unfold J.
  symmetry. etransitivity; [apply (join_rows_perm Q1 Q2)|]. cbn [ev1 ev2]. unfold ev.
  rewrite D1, D2, !built_from_nil_r. apply Permutation_refl.
Qed.

Lemma wf_empty l1 l2 : wf (half0, half0, l1, l2).
Proof. split; constructor. Qed.

Corollary shj_from_empty s l1 l2 out st' :
  fused_b l1 = true -> fused_b l2 = true ->
  runs_to (shj_m s) (half0, half0, l1, l2) out st' ->
  Permutation out (join_rows (built s (items l1)) (built s (items l2))).
Proof.
  intros F1 F2 R.
  pose proof (@shj_emits_join_of_arrivals s _ out st' (wf_empty l1 l2) eq_refl (conj F1 F2) R) as H.
  cbn [JS ev1 ev2] in H. unfold J, ev in H. simpl (rows (table half0)) in H.
  rewrite !built_from_nil in H. unfold join_rows at 1 in H. simpl in H. rewrite app_nil_r in H.
  exact H.
Qed.

(* ------------------------------------------------------------------------------------ *)
(* each pair exactly once: the join of duplicate-free row sets is duplicate-free *)
Lemma In_join_rows a b r : In r (join_rows a b) <->
  In (fst r, fst (snd r)) a /\ In (fst r, snd (snd r)) b.
Proof.
  unfold join_rows. rewrite in_flat_map. split.
  - intros [[k v1] [Ha H]]. apply in_flat_map in H. destruct H as [[k' v2] [Hb H]]. simpl in H.
    destruct (k =? k') eqn:E; [|destruct H]. apply N.eqb_eq in E. subst k'.
    destruct H as [<-|[]]. simpl. auto.
  - destruct r as [k [v1 v2]]. simpl. intros [Ha Hb]. exists (k, v1). split; auto.
    apply in_flat_map. exists (k, v2). split; auto. simpl. rewrite N.eqb_refl. simpl. auto.
Qed.

Lemma NoDup_join_one (x : N * N) (b : list (N * N)) : NoDup b ->
  NoDup (flat_map (fun y : N * N => if fst x =? fst y then [(fst x, (snd x, snd y))] else []) b).
Proof.
  induction 1 as [|y b Hy Hb IH]; simpl; [constructor|].
  destruct (fst x =? fst y) eqn:E; auto. simpl. constructor; auto.
  rewrite in_flat_map. intros [[k' v'] [Hin H]]. simpl in H.
  destruct (fst x =? k') eqn:E2; [|destruct H]. destruct H as [H|[]].
  apply N.eqb_eq in E, E2. inv H. apply Hy. destruct y as [ky vy]. simpl in *. subst. congruence.
Qed.

Lemma NoDup_join_rows a b : NoDup a -> NoDup b -> NoDup (join_rows a b).
Proof.
  intros Na Nb. induction Na as [|x a Hx Na IH]; [constructor|].
  rewrite join_rows_cons_l. apply NoDup_app_intro; auto.
  - unfold join_rows; simpl. rewrite app_nil_r. apply NoDup_join_one; auto.
  - intros r H1 H2. apply In_join_rows in H1, H2. destruct H1 as [[H1|[]] _]. destruct H2 as [H2 _].
    rewrite <- H1 in H2. auto.
Qed.

Lemma NoDup_app_l {A} (l1 l2 : list A) : NoDup (l1 ++ l2) -> NoDup l1.
Proof.
  induction l1 as [|a r IH]; simpl; intros H; [constructor|]. inv H. constructor; auto.
  intros H. apply H2. apply in_or_app. auto.
Qed.

(* set state: no pair is emitted twice (even on top of persisted duplicate-free tables) *)
Theorem shj_set_nodup st out st' :
  wf st -> pend st = [] -> fusedst st -> runs_to (shj_m SetSem) st out st' ->
  (let '(h1, h2, _, _) := st in NoDup (rows (table h1)) /\ NoDup (rows (table h2))) ->
  NoDup out.
Proof.
  intros W P0 F R N. pose proof (shj_emits_join_of_arrivals W P0 F R) as H.
  destruct st as [[[h1 h2] l1] l2]. destruct N as [N1 N2]. cbn [ev1 ev2] in H. unfold ev in H.
  apply (@NoDup_app_l _ out (JS (h1, h2, l1, l2))).
  eapply Permutation_NoDup; [symmetry; exact H|].
  apply NoDup_join_rows; apply NoDup_built_from_set; auto.
Qed.

(* ------------------------------------------------------------------------------------ *)
(* the fuel of the `loop` is adequate, and every poll makes progress: termination *)
Definition lenS (st : jst) : nat := let '(_, _, l1, l2) := st in (length l1 + length l2)%nat.
Definition cml (st : jst) : nat := let '(h1, h2, _, _) := st in (length (cm h1) + length (cm h2))%nat.

Lemma src_pull_len {A} (l l' : script A) o : src_pull l = (o, l') ->
  (length l' <= length l)%nat /\ (o <> Ended -> length l' < length l)%nat.
Proof.
  destruct l as [|[a| |] r]; simpl; intros E; inv E; simpl; split; try lia; congruence.
Qed.

Lemma shj_loop_progress s : forall fuel st, (lenS st < fuel)%nat ->
  exists o st', shj_loop s fuel st = Some (o, st') /\ (lenS st' <= lenS st)%nat /\
                (o = Ended \/ (lenS st' < lenS st)%nat \/ (cml st' < cml st)%nat).
Proof.
  induction fuel as [|fuel IH]; intros [[[h1 h2] l1] l2] L; [lia|].
  cbn [shj_loop].
  destruct (pop_match h1) as [h1p [[[k0 v20] v10]|]] eqn:PM1.
  { destruct (pop_spec _ PM1) as [_ [C _]]. do 2 eexists. split; [reflexivity|].
    cbn [lenS cml]. rewrite C. simpl. split; [lia|]. right. right. lia. }
  destruct (pop_match h2) as [h2p [[[k0 v10] v20]|]] eqn:PM2.
  { destruct (pop_spec _ PM2) as [_ [C _]]. do 2 eexists. split; [reflexivity|].
    cbn [lenS cml]. rewrite C. simpl. split; [lia|]. right. right. lia. }
  cbn [lenS] in L.
  destruct (src_pull l1) as [ls l1'] eqn:P1. destruct (src_pull_len _ P1) as [Le1 Lt1].
  assert (forall mid, (lenS mid < lenS (h1, h2, l1, l2))%nat ->
            exists o st', shj_loop s fuel mid = Some (o, st') /\
              (lenS st' <= lenS (h1, h2, l1, l2))%nat /\
              (o = Ended \/ (lenS st' < lenS (h1, h2, l1, l2))%nat \/
               (cml st' < cml (h1, h2, l1, l2))%nat)) as REC.
  { intros mid Lm. cbn [lenS] in Lm. destruct (IH mid) as [o [st' [E [Le _]]]]; [lia|].
    exists o, st'. cbn [lenS]. split; auto. split; [lia|]. right. left. lia. }
  assert (ls <> Ended \/ ls = Ended) as DL by (destruct ls; auto; left; discriminate).
  destruct ls as [[k v1]| |].
  - assert (length l1' < length l1)%nat as Lt by (apply Lt1; discriminate).
    destruct (build s h1 k v1) as [h1b b]. destruct b.
    + destruct (probe h2 k v1) as [h2q [[[k' v1'] v2]|]].
      * do 2 eexists. split; [reflexivity|]. cbn [lenS]. split; [lia|]. right. left. lia.
      * apply REC. cbn [lenS]. lia.
    + apply REC. cbn [lenS]. lia.
  - assert (length l1' < length l1)%nat as Lt by (apply Lt1; discriminate).
    destruct (src_pull l2) as [rs l2'] eqn:P2. destruct (src_pull_len _ P2) as [Le2 Lt2].
    destruct rs as [[k v2]| |].
    + destruct (build s h2 k v2) as [h2b b]. destruct b.
      * destruct (probe h1 k v2) as [h1q [[[k' v2'] v1]|]].
        -- do 2 eexists. split; [reflexivity|]. cbn [lenS]. split; [lia|]. right. left. lia.
        -- apply REC. cbn [lenS]. lia.
      * apply REC. cbn [lenS]. lia.
    + do 2 eexists. split; [reflexivity|]. cbn [lenS]. split; [lia|]. right. left. lia.
    + do 2 eexists. split; [reflexivity|]. cbn [lenS]. split; [lia|]. right. left. lia.
  - destruct (src_pull l2) as [rs l2'] eqn:P2. destruct (src_pull_len _ P2) as [Le2 Lt2].
    destruct rs as [[k v2]| |].
    + assert (length l2' < length l2)%nat as Lt by (apply Lt2; discriminate).
      destruct (build s h2 k v2) as [h2b b]. destruct b.
      * destruct (probe h1 k v2) as [h1q [[[k' v2'] v1]|]].
        -- do 2 eexists. split; [reflexivity|]. cbn [lenS]. split; [lia|]. right. left. lia.
        -- apply REC. cbn [lenS]. lia.
      * apply REC. cbn [lenS]. lia.
    + assert (length l2' < length l2)%nat as Lt by (apply Lt2; discriminate).
      do 2 eexists. split; [reflexivity|]. cbn [lenS]. split; [lia|]. right. left. lia.
    + do 2 eexists. split; [reflexivity|]. cbn [lenS]. split; [lia|]. left. reflexivity.
Qed.

(* the `None` (out of fuel) branch of shj_pull is unreachable *)
Theorem shj_fuel_enough s st : shj_loop s (shj_fuel st) st = Some (shj_pull s st).
Proof.
  destruct (@shj_loop_progress s (shj_fuel st) st) as [o [st' [E _]]].
  - destruct st as [[[h1 h2] l1] l2]. simpl. lia.
  - unfold shj_pull. rewrite E. reflexivity.
Qed.

(* polling the join until it reports the end terminates, whatever the scripts *)
Theorem shj_terminates s : forall st, exists out st', runs_to (shj_m s) st out st'.
Proof.
  assert (forall n m st, (lenS st < n)%nat -> (cml st < m)%nat ->
            exists out st', runs_to (shj_m s) st out st') as H.
  { induction n as [|n IHn]; [intros; lia|].
    induction m as [|m IHm]; [intros; lia|]. intros st Ln Lm.
    destruct (@shj_loop_progress s (shj_fuel st) st) as [o [st1 [E [Le Pr]]]].
    { destruct st as [[[h1 h2] l1] l2]. simpl. lia. }
    assert (pull1 (shj_m s) st = (o, st1)) as P by (simpl; unfold shj_pull; rewrite E; reflexivity).
    destruct o as [b| |].
    - assert (exists out st', runs_to (shj_m s) st1 out st') as [out [st' R]].
      { destruct Pr as [Pr|[Pr|Pr]]; [discriminate| |].
        - apply (IHn (S (cml st1))); lia.
        - apply IHm; lia. }
      exists (b :: out), st'. eapply R_rdy; eauto.
    - assert (exists out st', runs_to (shj_m s) st1 out st') as [out [st' R]].
      { destruct Pr as [Pr|[Pr|Pr]]; [discriminate| |].
        - apply (IHn (S (cml st1))); lia.
        - apply IHm; lia. }
      exists out, st'. eapply R_pend; eauto.
    - exists [], st1. apply R_end. exact P. }
  intros st. apply (H (S (lenS st)) (S (cml st))); lia.
Qed.
