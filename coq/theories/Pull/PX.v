(* E4 Pipes, pull side -- proofs for the stream adaptors and the consuming futures (ModelX.v). *)
From HV Require Import Pull.Model Pull.PCore Pull.POne Pull.PSpec Pull.ModelX.
Set Implicit Arguments.
Open Scope N_scope.

Ltac inv H := inversion H; subst; clear H.

(* ------------------------------------------------------------------ stream_ready *)
Section SReady.
  Variable A : Type.
  Variable uh : script A -> hintT.

  Lemma sready_runs : forall l, exists l', runs_to (sready_m uh) l (items_now l) l'.
  Proof.
    induction l as [|[a| |] r [l' IH]]; simpl.
    - exists []. apply R_end. reflexivity.
    - exists l'. eapply R_rdy; [reflexivity|exact IH].
    - exists r. apply R_end. reflexivity.
    - exists r. apply R_end. reflexivity.
  Qed.

  Lemma items_now_le : forall l : script A, (length (items_now l) <= length (items l))%nat.
  Proof. induction l as [|[a| |] r IH]; simpl; lia. Qed.

  (* size_hint = (0, stream upper): brackets what is delivered before the reported end *)
  Lemma sready_hint_ok : truthful uh -> forall l,
    hint_ok (hint (sready_m uh) l) (len (items_now l)).
  Proof.
    intros T l. destruct (T l) as [_ U]. pose proof (items_now_le l).
    unfold hint_ok, len, rem in *; simpl. split; [lia|]. destruct (snd (uh l)); [lia|exact I].
  Qed.

  (* StreamReady has no FusedPull impl: the stream may resume after a Pending *)
  Theorem sready_spec : truthful uh ->
    C11_spec (sready_m uh) always never (fun l => items_now l).
  Proof.
    intros T. apply mk_spec.
    - intros l _. apply sready_runs.
    - intros l l' _ [].
    - intros l _. apply sready_hint_ok; auto.
  Qed.
End SReady.

(* ------------------------------------------------------------------ flat_map_stream / flatten_stream *)
Section FMS.
  Variables A B : Type.
  Variable g : A -> script B.
  Variable ih : script B -> hintT.
  Let m := fms_m g ih.

  Definition fms_ref (st : fms_st A B) : list B :=
    (match fst st with Some s => items s | None => [] end)
      ++ flat_map (fun a => items (g a)) (items (snd st)).

  Lemma fms_cur : forall l out st', runs_to m (None, l) out st' ->
    forall s, runs_to m (Some s, l) (items s ++ out) st'.
  Proof.
    intros l out st' R. induction s as [|[b| |] r IH]; simpl.
    - eapply runs_step_eq; [|exact R]. reflexivity.
    - eapply R_rdy; [reflexivity|exact IH].
    - eapply R_pend; [reflexivity|exact IH].
    - eapply runs_step_eq; [|exact R]. reflexivity.
  Qed.

  Lemma fms_runs_none : forall l,
    exists st', runs_to m (None, l) (flat_map (fun a => items (g a)) (items l)) st'.
  Proof.
    induction l as [|[a| |] r [st' IH]]; simpl.
    - exists (None, []). apply R_end. reflexivity.
    - exists st'. eapply runs_step_eq; [|apply fms_cur; exact IH]. reflexivity.
    - exists st'. eapply R_pend; [reflexivity|exact IH].
    - exists (None, r). apply R_end. reflexivity.
  Qed.

  Lemma fms_runs : forall st, exists st', runs_to m st (fms_ref st) st'.
  Proof.
    intros [[s|] l]; unfold fms_ref; simpl; destruct (fms_runs_none l) as [st' R]; exists st'.
    - apply fms_cur. exact R.
    - exact R.
  Qed.

  Lemma fms_dead : forall l, dead l -> ended_forever m (None, l).
  Proof.
    intros l D.
    apply (@ended_forever_inv _ m (fun s : fms_st A B => fst s = None /\ dead (snd s))); [|auto].
    intros [cur l0] [C D0]; simpl in *; subst.
    destruct l0 as [|x r]; [exists (None, []); split; [reflexivity|auto]|].
    apply dead_inv in D0. destruct D0 as [-> D0]. exists (None, r). split; [reflexivity|auto].
  Qed.

  Lemma fms_fetch_ended : forall l s', fused_b l = true ->
    fms_fetch g l = (Ended, s') -> fst s' = None /\ dead (snd s').
  Proof.
    induction l as [|[a| |] r IH]; simpl; intros s' F E.
    - inv E. split; [reflexivity|apply dead_nil].
    - destruct (src_pull (g a)) as [[b| |] s1]; try discriminate. apply IH; auto.
    - discriminate.
    - inv E. split; [reflexivity|exact F].
  Qed.

  Lemma fms_fused : forall st s', fused_b (snd st) = true ->
    pull1 m st = (Ended, s') -> ended_forever m s'.
  Proof.
    intros [cur l] s' F E. simpl in F.
    assert (fms_fetch g l = (Ended, s')) as E'.
    { destruct cur as [s|]; simpl in E; [|exact E].
      destruct (src_pull s) as [[b| |] s1]; try discriminate. exact E. }
    destruct (fms_fetch_ended _ F E') as [C D]. destruct s' as [c l']; simpl in *; subst.
    apply fms_dead. exact D.
  Qed.

  Lemma fms_hint_ok : truthful ih -> forall st, hint_ok (hint m st) (len (fms_ref st)).
  Proof.
    intros T [[s|] l]; unfold hint_ok, fms_ref, len; simpl; rewrite ?app_length; (split; [|exact I]).
    - destruct (T s) as [L _]. unfold rem in L. lia.
    - lia.
  Qed.

  Theorem fms_spec : truthful ih ->
    C11_spec m always (fun st => fused_b (snd st) = true) fms_ref.
  Proof.
    intros T. apply mk_spec.
    - intros st _. apply fms_runs.
    - intros st s' _ F. apply fms_fused; auto.
    - intros st _. apply fms_hint_ok; auto.
  Qed.
End FMS.

(* ------------------------------------------------------------------ filter_map_async *)
Section FMA.
  Variables A B : Type.
  Variable uh : script A -> hintT.
  Variable f : A -> nat * option B.
  Let m := fma_m uh f.

  Definition fut_out (cur : option (nat * option B)) : list B :=
    match cur with Some (_, Some b) => [b] | _ => [] end.
  Definition fma_ref (st : fma_st A B) : list B :=
    fut_out (fst st) ++ filter_map_ref (fun a => snd (f a)) (items (snd st)).

  Lemma fma_cur : forall l out st', runs_to m (None, l) out st' ->
    forall k o, runs_to m (Some (k, o), l) (fut_out (Some (k, o)) ++ out) st'.
  Proof.
    intros l out st' R. induction k as [|k IH]; intros o.
    - destruct o as [b|]; simpl.
      + eapply R_rdy; [reflexivity|exact R].
      + eapply runs_step_eq; [|exact R]. reflexivity.
    - eapply R_pend; [reflexivity|]. specialize (IH o). destruct o; exact IH.
  Qed.

  Lemma fma_runs_none : forall l,
    exists st', runs_to m (None, l) (filter_map_ref (fun a => snd (f a)) (items l)) st'.
  Proof.
    induction l as [|[a| |] r [st' IH]]; simpl.
    - exists (None, []). apply R_end. reflexivity.
    - exists st'. destruct (f a) as [k o] eqn:E. simpl.
      assert (pull1 m (None, Rdy a :: r) = pull1 m (Some (k, o), r)) as EQ
        by (simpl; rewrite E; destruct k; [destruct o|]; reflexivity).
      pose proof (fma_cur IH k o) as R2.
      destruct o; simpl in R2 |- *; (eapply runs_step_eq; [exact EQ|exact R2]).
    - exists st'. eapply R_pend; [reflexivity|exact IH].
    - exists (None, r). apply R_end. reflexivity.
  Qed.

  Lemma fma_runs : forall st, exists st', runs_to m st (fma_ref st) st'.
  Proof.
    intros [[[k o]|] l]; unfold fma_ref; simpl fst; simpl snd;
      destruct (fma_runs_none l) as [st' R]; exists st'.
    - apply fma_cur. exact R.
    - exact R.
  Qed.

  Lemma fma_dead : forall l, dead l -> ended_forever m (None, l).
  Proof.
    intros l D.
    apply (@ended_forever_inv _ m (fun s : fma_st A B => fst s = None /\ dead (snd s))); [|auto].
    intros [cur l0] [C D0]; simpl in *; subst.
    destruct l0 as [|x r]; [exists (None, []); split; [reflexivity|auto]|].
    apply dead_inv in D0. destruct D0 as [-> D0]. exists (None, r). split; [reflexivity|auto].
  Qed.

  Lemma fma_fetch_ended : forall l s', fused_b l = true ->
    fma_fetch f l = (Ended, s') -> fst s' = None /\ dead (snd s').
  Proof.
    induction l as [|[a| |] r IH]; simpl; intros s' F E.
    - inv E. split; [reflexivity|apply dead_nil].
    - destruct (f a) as [[|k] [b|]]; try discriminate. apply IH; auto.
    - discriminate.
    - inv E. split; [reflexivity|exact F].
  Qed.

  Lemma fma_fused : forall st s', fused_b (snd st) = true ->
    pull1 m st = (Ended, s') -> ended_forever m s'.
  Proof.
    intros [cur l] s' F E. simpl in F.
    assert (fma_fetch f l = (Ended, s')) as E'.
    { destruct cur as [[[|k] [b|]]|]; simpl in E; try discriminate; exact E. }
    destruct (fma_fetch_ended _ F E') as [C D]. destruct s' as [c l']; simpl in *; subst.
    apply fma_dead. exact D.
  Qed.

  (* size_hint counts the item an in-flight future may still deliver *)
  Lemma fma_hint_ok : truthful uh -> forall st, hint_ok (hint m st) (len (fma_ref st)).
  Proof.
    intros T [cur l]. destruct (T l) as [_ U].
    pose proof (filter_map_ref_length (fun a => snd (f a)) (items l)).
    unfold hint_ok, fma_ref, len, rem in *. simpl. unfold fma_hint; simpl. rewrite app_length.
    split; [lia|]. destruct cur as [[k [b|]]|]; simpl;
      destruct (snd (uh l)) as [u|]; auto; unfold chk_add;
      try (destruct (u + 1 <=? umax); [|exact I]); lia.
  Qed.

  Theorem fma_spec : truthful uh ->
    C11_spec m always (fun st => fused_b (snd st) = true) fma_ref.
  Proof.
    intros T. apply mk_spec.
    - intros st _. apply fma_runs.
    - intros st s' _ F. apply fma_fused; auto.
    - intros st _. apply fma_hint_ok; auto.
  Qed.
End FMA.

(* ------------------------------------------------------------------ consuming futures *)
Fixpoint pend_count {A} (l : script A) : nat :=
  match l with Pend :: r => S (pend_count r) | Rdy _ :: r => pend_count r | _ => O end.
(* what is left of a script after its first end: never touched by a consumer that stops there *)
Fixpoint after_end {A} (l : script A) : script A :=
  match l with [] => [] | End :: r => r | _ :: r => after_end r end.

Section DriveP.
  Variables A Acc : Type.
  Variable step : Acc -> A -> Acc.

  (* collect / for_each / accumulate_all: polled to completion, the future has applied its effect
     to exactly the items before the first end, in order; it returned Pending once per scripted
     Pending; and it never polled the pull again after the end *)
  Theorem drive_run_spec : forall l n acc, (length l < n)%nat ->
    drive_run step n acc l = Some (pend_count l, (fold_left step (items l) acc, after_end l)).
  Proof.
    induction l as [|[a| |] r IH]; intros [|n] acc L; simpl in L; try lia; simpl.
    - reflexivity.
    - change (drive_run step (S n) (step acc a) r = Some (pend_count r, (fold_left step (items r) (step acc a), after_end r))).
      apply IH. lia.
    - rewrite IH by lia. reflexivity.
    - reflexivity.
  Qed.
End DriveP.

Lemma fold_snoc {A} (l : list A) : forall acc, fold_left (fun acc x => acc ++ [x]) l acc = acc ++ l.
Proof.
  induction l as [|a r IH]; intros acc; simpl; [rewrite app_nil_r; reflexivity|].
  rewrite IH, <- app_assoc. reflexivity.
Qed.

Corollary collect_spec {A} (l : script A) :
  drive_run (fun acc x => acc ++ [x]) (S (length l)) [] l = Some (pend_count l, (items l, after_end l)).
Proof. rewrite drive_run_spec by lia. rewrite fold_snoc. reflexivity. Qed.

(* send_push / send_sink *)
Definition sends (log : list ev) : list N :=
  flat_map (fun e => match e with ESend x => [x] | _ => [] end) log.

Lemma sends_app a b : sends (a ++ b) = sends a ++ sends b.
Proof. unfold sends. apply flat_map_app. Qed.

Lemma send_loop_spec : forall l p d l' p', send_loop l p = (d, (l', p')) ->
  p_fin p' = p_fin p /\
  exists X, p_log p' = p_log p ++ X /\
    if d then sends X = items l /\ l' = after_end l
    else sends X ++ items l' = items l /\ after_end l' = after_end l.
Proof.
  induction l as [|[a| |] r IH]; intros p d l' p' E; simpl in E;
    destruct (pop_b (p_ready p)) as [rd ready'] eqn:PB; destruct rd; simpl in E.
  - inv E. simpl. split; auto. eexists. split; [reflexivity|]. simpl. auto.
  - inv E. simpl. split; auto. eexists. split; [reflexivity|]. simpl. auto.
  - apply IH in E. destruct E as [Ef [X [EL EX]]]. simpl in *. split; auto.
    eexists. split; [rewrite EL, <- !app_assoc; reflexivity|].
    rewrite !sends_app. simpl. destruct d; destruct EX as [E1 E2]; rewrite <- ?E1; auto.
  - inv E. simpl. split; auto. eexists. split; [reflexivity|]. simpl. auto.
  - inv E. simpl. split; auto. eexists. split; [reflexivity|]. simpl. auto.
  - inv E. simpl. split; auto. eexists. split; [reflexivity|]. simpl. auto.
  - inv E. simpl. split; auto. eexists. split; [reflexivity|]. simpl. auto.
  - inv E. simpl. split; auto. eexists. split; [reflexivity|]. simpl. auto.
Qed.

Lemma send_finalize_sends p d p' : send_finalize p = (d, p') -> sends (p_log p') = sends (p_log p).
Proof.
  unfold send_finalize. destruct (pop_b (p_fin p)) as [fd fin']. intros E. inv E. simpl.
  rewrite sends_app. simpl. apply app_nil_r.
Qed.

Fixpoint send_run (n : nat) (wh : bool) (uh : script N -> hintT) (s : sendS) : option (nat * sendS) :=
  match n with
  | O => None
  | S k => match send_poll wh uh s with
           | (true, s') => Some (O, s')
           | (false, s') => match send_run k wh uh s' with
                            | Some (p, s'') => Some (S p, s'')
                            | None => None
                            end
           end
  end.

(* send_push / send_sink polled to completion: the downstream was sent exactly the items before
   the pull's first end, in order, and the pull was not polled again after that end *)
Theorem send_run_spec wh uh : forall n s p s', send_run n wh uh s = Some (p, s') ->
  if pull_ended s
  then sends (p_log (s_push s')) = sends (p_log (s_push s)) /\ s_script s' = s_script s
  else sends (p_log (s_push s')) = sends (p_log (s_push s)) ++ items (s_script s) /\
       s_script s' = after_end (s_script s).
Proof.
  induction n as [|n IH]; intros s p s' E; [discriminate|]. simpl in E.
  unfold send_poll in E. destruct (pull_ended s) eqn:PE.
  - destruct (send_finalize (s_push s)) as [d p1] eqn:F. pose proof (send_finalize_sends _ F) as FS.
    destruct d.
    + inv E. simpl. auto.
    + destruct (send_run n wh uh _) as [[q s2]|] eqn:R; [|discriminate]. inv E.
      apply IH in R. simpl in R. destruct R as [R1 R2]. split; congruence.
  - set (p0 := if wh && negb (size_hinted s)
               then PushS (p_ready (s_push s)) (p_fin (s_push s))
                          (p_log (s_push s) ++ [EHint (uh (s_script s))])
               else s_push s) in *.
    assert (sends (p_log p0) = sends (p_log (s_push s))) as S0.
    { unfold p0. destruct (wh && negb (size_hinted s)); auto. simpl. rewrite sends_app. simpl.
      apply app_nil_r. }
    destruct (send_loop (s_script s) p0) as [dl [l' p']] eqn:L.
    destruct (send_loop_spec _ _ L) as [_ [X [EL EX]]].
    destruct dl.
    + destruct EX as [E1 E2].
      destruct (send_finalize p') as [d p2] eqn:F. pose proof (send_finalize_sends _ F) as FS.
      assert (sends (p_log p2) = sends (p_log (s_push s)) ++ items (s_script s)) as Hs
        by (rewrite FS, EL, sends_app, S0, E1; reflexivity).
      destruct d.
      * inv E. simpl. auto.
      * destruct (send_run n wh uh _) as [[q s2]|] eqn:R; [|discriminate]. inv E.
        apply IH in R. simpl in R. destruct R as [R1 R2]. split; congruence.
    + destruct EX as [E1 E2].
      destruct (send_run n wh uh _) as [[q s2]|] eqn:R; [|discriminate]. inv E.
      apply IH in R. simpl in R. destruct R as [R1 R2]. split; [|congruence].
      rewrite R1, EL, sends_app, S0, <- app_assoc, E1. reflexivity.
Qed.

(* ------------------------------------------------------------------ relays *)
(* stream.rs, stream_compat.rs, either.rs relay the wrapped source one to one: the source itself *)
Section Relay.
  Variable A : Type.
  Variable uh : script A -> hintT.

  Lemma src_runs : forall l, exists l', runs_to (src_m uh) l (items l) l'.
  Proof.
    induction l as [|[a| |] r [l' IH]]; simpl.
    - exists []. apply R_end. reflexivity.
    - exists l'. eapply R_rdy; [reflexivity|exact IH].
    - exists l'. eapply R_pend; [reflexivity|exact IH].
    - exists r. apply R_end. reflexivity.
  Qed.

  Lemma src_dead : forall l, dead l -> ended_forever (src_m uh) l.
  Proof.
    apply (@ended_forever_inv _ (src_m uh) (fun l => dead l)). intros l D.
    destruct (dead_pull D) as [l' [E D']]. exists l'. split; [exact E|exact D'].
  Qed.

  Theorem src_spec : truthful uh ->
    C11_spec (src_m uh) always (fun l => fused_b l = true) (fun l => items l).
  Proof.
    intros T. apply mk_spec.
    - intros l _. apply src_runs.
    - intros l l' _ F E. apply src_dead. eapply fused_ended_dead; eauto.
    - intros l _. apply T.
  Qed.
End Relay.
