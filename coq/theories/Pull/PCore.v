(* E4 Pipes, pull side -- generic facts about pull state machines. *)
From HV Require Import Pull.Model.
Set Implicit Arguments.
Open Scope N_scope.

(* [runs_to m s out s']: polling m from state s until it first reports Ended yields exactly
   the items [out], in this order, and leaves the machine in s'.  (Existence of such a run
   is termination of the consumer loop.) *)
Inductive runs_to {B} (m : machine B) : St m -> list B -> St m -> Prop :=
| R_end : forall s s', pull1 m s = (Ended, s') -> runs_to m s [] s'
| R_rdy : forall s b s' out s'',
    pull1 m s = (Ready b, s') -> runs_to m s' out s'' -> runs_to m s (b :: out) s''
| R_pend : forall s s' out s'',
    pull1 m s = (Pending, s') -> runs_to m s' out s'' -> runs_to m s out s''.

Lemma runs_to_fun {B} (m : machine B) s o1 s1 :
  runs_to m s o1 s1 -> forall o2 s2, runs_to m s o2 s2 -> o1 = o2 /\ s1 = s2.
Proof.
  induction 1 as [s s' E|s b s' out s'' E R IH|s s' out s'' E R IH]; intros o2 s2 R2;
  inversion R2 as [t t' E2|t b2 t' out2 t'' E2 R2'|t t' out2 t'' E2 R2']; subst;
  rewrite E in E2; inversion E2; subst; auto.
  - destruct (IH _ _ R2') as [-> ->]; auto.
Qed.

(* two states whose next poll coincides run identically *)
Lemma runs_step_eq {B} (m : machine B) s1 s2 out s' :
  pull1 m s1 = pull1 m s2 -> runs_to m s2 out s' -> runs_to m s1 out s'.
Proof.
  intros E R. inversion R; subst.
  - apply R_end. congruence.
  - eapply R_rdy; [|eassumption]. congruence.
  - eapply R_pend; [|eassumption]. congruence.
Qed.

(* the executable runner decides [runs_to] *)
Lemma run_fuel_sound {B} (m : machine B) n : forall s out s',
  run_fuel m n s = Some (out, s') -> runs_to m s out s'.
Proof.
  induction n; simpl; intros s out s' H; [discriminate|].
  destruct (pull1 m s) as [[b| |] s1] eqn:E.
  - destruct (run_fuel m n s1) as [[o s2]|] eqn:E2; [|discriminate].
    inversion H; subst. eapply R_rdy; eauto.
  - eapply R_pend; eauto.
  - inversion H; subst. apply R_end; auto.
Qed.

Lemma run_fuel_complete {B} (m : machine B) s out s' :
  runs_to m s out s' -> exists n, forall k, (n <= k)%nat -> run_fuel m k s = Some (out, s').
Proof.
  induction 1.
  - exists 1%nat. intros [|k] L; [lia|]. simpl. rewrite H. reflexivity.
  - destruct IHruns_to as [n Hn]. exists (S n). intros [|k] L; [lia|].
    simpl. rewrite H. rewrite Hn by lia. reflexivity.
  - destruct IHruns_to as [n Hn]. exists (S n). intros [|k] L; [lia|].
    simpl. rewrite H. apply Hn. lia.
Qed.

(* items of a poll trace up to its first Ended *)
Fixpoint emitted {B} (t : list (hintT * pstep B)) : list B :=
  match t with
  | (_, Ready b) :: r => b :: emitted r
  | (_, Pending) :: r => emitted r
  | _ => []
  end.

(* step-wise form: at every moment, what has been emitted so far is a prefix of the run's
   items -- nothing invented, nothing emitted twice, whatever sits in a buffer *)
Lemma emitted_prefix {B} (m : machine B) s out s' :
  runs_to m s out s' -> forall n, exists rest, out = emitted (polls m n s) ++ rest.
Proof.
  induction 1; intros [|n]; simpl; try (eexists; reflexivity).
  - rewrite H. simpl. eexists; reflexivity.
  - rewrite H. simpl. destruct (IHruns_to n) as [rest ->]. eexists; reflexivity.
  - rewrite H. simpl. apply IHruns_to.
Qed.

(* fusedness: from this state on, every poll answers Ended *)
Definition ended_forever {B} (m : machine B) (s : St m) : Prop :=
  forall n, Forall (fun x => snd x = Ended) (polls m n s).

Lemma ended_forever_inv {B} (m : machine B) (I : St m -> Prop) :
  (forall s, I s -> exists s', pull1 m s = (Ended, s') /\ I s') ->
  forall s, I s -> ended_forever m s.
Proof.
  intros step s Hs n. revert s Hs. induction n; intros s Hs; simpl; [constructor|].
  destruct (step s Hs) as [s' [E Hs']]. rewrite E. constructor; auto.
Qed.

Lemma ended_forever_step {B} (m : machine B) s :
  ended_forever m s -> exists s', pull1 m s = (Ended, s') /\ ended_forever m s'.
Proof.
  intros H. pose proof (H 1%nat) as H1. simpl in H1.
  destruct (pull1 m s) as [o s'] eqn:E. inversion H1; subst. simpl in *. subst.
  exists s'. split; [reflexivity|]. intros n. pose proof (H (S n)) as Hn. simpl in Hn.
  rewrite E in Hn. inversion Hn; auto.
Qed.

(* a size hint (lo, hi) brackets n *)
Definition hint_ok (h : hintT) (n : N) : Prop :=
  fst h <= n /\ match snd h with Some u => n <= u | None => True end.

Definition len {A} (l : list A) : N := N.of_nat (length l).

(* an upstream whose size_hint is truthful *)
Definition truthful {A} (uh : script A -> hintT) : Prop := forall l, hint_ok (uh l) (rem l).

Lemma slack_truthful {A} lo hi : truthful (@slack_hint A lo hi).
Proof.
  intros l. unfold hint_ok, slack_hint, chk_add; simpl. split; [lia|].
  destruct hi as [k|]; simpl; [|exact I].
  destruct (rem l + k <=? umax); simpl; [lia|exact I].
Qed.

(* dead scripts: only End answers are left *)
Definition dead {A} (l : script A) : Prop := forallb is_End l = true.

Lemma dead_nil {A} : dead (@nil (sstep A)).
Proof. reflexivity. Qed.

Lemma dead_inv {A} (x : sstep A) r : dead (x :: r) -> x = End /\ dead r.
Proof.
  unfold dead; simpl. intros H. apply andb_prop in H. destruct H as [H1 H2].
  destruct x; try discriminate. auto.
Qed.

Lemma dead_pull {A} (l : script A) :
  dead l -> exists l', src_pull l = (Ended, l') /\ dead l'.
Proof.
  destruct l as [|x r]; intros H.
  - exists []. split; [reflexivity|apply dead_nil].
  - apply dead_inv in H. destruct H as [-> H]. exists r. auto.
Qed.

Lemma dead_items {A} (l : script A) : dead l -> items l = [].
Proof. destruct l as [|x r]; intros H; [reflexivity|]. apply dead_inv in H. destruct H as [-> _]. reflexivity. Qed.

Lemma dead_fused {A} (l : script A) : dead l -> fused_b l = true.
Proof.
  destruct l as [|x r]; intros H; [reflexivity|].
  apply dead_inv in H. destruct H as [-> H]. exact H.
Qed.

(* a fused script that answers Ended is dead afterwards *)
Lemma fused_ended_dead {A} (l l' : script A) :
  fused_b l = true -> src_pull l = (Ended, l') -> dead l'.
Proof.
  destruct l as [|[a| |] r]; simpl; intros F E; inversion E; subst; auto.
Qed.

Lemma fused_tail {A} (x : sstep A) r : fused_b (x :: r) = true -> fused_b r = true.
Proof.
  destruct x; simpl; auto. intros H. apply dead_fused. exact H.
Qed.

Lemma fused_step {A} (l : script A) o l' :
  fused_b l = true -> src_pull l = (o, l') -> fused_b l' = true.
Proof.
  destruct l as [|x r]; simpl; intros F E.
  - inversion E; subst; reflexivity.
  - apply fused_tail in F. destruct x; inversion E; subst; auto.
Qed.
