(* E4 Pipes, pull side -- composition.  A combinator interacts with its upstream only through
   `pull`, so what an outer combinator sees of an inner one is the sequence of the inner
   machine's answers: its *behaviour script* [beh].  The C11 specification composes: the outer
   combinator's spec, applied to the behaviour script of the inner one, gives
   items (outer over inner) = ref_outer (ref_inner ...), and fusedness carries over. *)
From HV Require Import Pull.Model Pull.PCore Pull.PSpec.
Set Implicit Arguments.
Open Scope N_scope.

Definition to_sstep {B} (o : pstep B) : sstep B :=
  match o with Ready b => Rdy b | Pending => Pend | Ended => End end.

(* the first n answers of machine m from state s, as a script *)
Definition beh {B} (m : machine B) (n : nat) (s : St m) : script B :=
  map (fun x => to_sstep (snd x)) (polls m n s).

(* a scripted source over [beh m n s] replays m's answers poll for poll *)
Lemma beh_replays {B} (m : machine B) uh : forall k n s, (k <= n)%nat ->
  map snd (polls (src_m uh) k (beh m n s)) = map snd (polls m k s).
Proof.
  induction k as [|k IH]; intros n s L; [reflexivity|].
  destruct n as [|n]; [lia|]. unfold beh in *. simpl.
  destruct (pull1 m s) as [o s1] eqn:E. simpl.
  destruct o; simpl; f_equal; apply IH; lia.
Qed.

(* once the inner run is complete within the horizon n, the script holds exactly its items *)
Lemma beh_items {B} (m : machine B) s out s' : runs_to m s out s' ->
  exists n0, forall n, (n0 <= n)%nat -> items (beh m n s) = out.
Proof.
  induction 1 as [s s' E|s b s1 out s2 E R [n0 IH]|s s1 out s2 E R [n0 IH]].
  - exists 1%nat. intros [|n] L; [lia|]. unfold beh. simpl. rewrite E. reflexivity.
  - exists (S n0). intros [|n] L; [lia|]. unfold beh in *. simpl. rewrite E. simpl.
    f_equal. apply IH. lia.
  - exists (S n0). intros [|n] L; [lia|]. unfold beh in *. simpl. rewrite E. simpl.
    apply IH. lia.
Qed.

Lemma beh_dead {B} (m : machine B) s : ended_forever m s -> forall n, dead (beh m n s).
Proof.
  intros H n. specialize (H n). unfold dead, beh. revert H.
  induction (polls m n s) as [|[h o] r IH]; intros H; [reflexivity|].
  inversion H; subst. simpl in *. subst. simpl. apply IH. assumption.
Qed.

(* if the inner machine stays ended after its run, its behaviour script is a fused script *)
Lemma beh_fused {B} (m : machine B) s out s' : runs_to m s out s' -> ended_forever m s' ->
  forall n, fused_b (beh m n s) = true.
Proof.
  induction 1 as [s s' E|s b s1 out s2 E R IH|s s1 out s2 E R IH]; intros F [|n]; try reflexivity;
    unfold beh in *; simpl; rewrite E; simpl.
  - apply (beh_dead F n).
  - apply IH. exact F.
  - apply IH. exact F.
Qed.

(* The C11 specification composes.  [embed] builds the outer combinator's initial state from
   its upstream script; [refo] is its iterator adaptor. *)
Theorem C11_compose {A B} (inner : machine A) (outer : machine B)
        (pre fin : St outer -> Prop) (ref : St outer -> list B)
        (embed : script A -> St outer) (refo : list A -> list B) :
  C11_spec outer pre fin ref ->
  (forall l, ref (embed l) = refo (items l)) ->
  forall s out s', runs_to inner s out s' ->
  exists n0, forall n, (n0 <= n)%nat -> pre (embed (beh inner n s)) ->
    (exists s'', runs_to outer (embed (beh inner n s)) (refo out) s'') /\
    (forall k, exists rest, refo out = emitted (polls outer k (embed (beh inner n s))) ++ rest).
Proof.
  intros [S1 [S2 _]] Href s out s' R. destruct (beh_items R) as [n0 Hn]. exists n0.
  intros n L P. rewrite <- (Hn n L), <- Href. split; [apply S1; exact P|].
  intros k. apply S2. exact P.
Qed.

(* example: map f over filter p over any script -- items = map f (filter p items) *)
Corollary compose_map_filter {A B} (uh1 : script A -> hintT) (uh2 : script A -> hintT)
          (T2 : truthful uh2) (f : A -> B) (p : A -> bool) (l : script A) :
  exists n0, forall n, (n0 <= n)%nat ->
    exists s'', runs_to (map_m uh2 f) (beh (filter_m uh1 p) n l) (map f (filter p (items l))) s''.
Proof.
  destruct (@POne.filter_runs A uh1 p l) as [l' R].
  destruct (@C11_compose A B (filter_m uh1 p) (map_m uh2 f) always (fun l => fused_b l = true)
              (fun l => map f (items l)) (fun l => l) (map f) (map_spec T2 f)
              (fun l => eq_refl) l _ l' R) as [n0 H].
  exists n0. intros n L. destruct (H n L I) as [H1 _]. exact H1.
Qed.
