(* E4 Pipes, pull side -- composition.  A combinator interacts with its upstream only through
   `pull`, so what an outer combinator sees of an inner one is the sequence of the inner
   machine's answers: its *behaviour script* [beh].  The C11 specification composes: the outer
   combinator's spec, applied to the behaviour script of the inner one, gives
   items (outer over inner) = ref_outer (ref_inner ...), and fusedness carries over. *)
From HV Require Import Pull.Model Pull.PCore Pull.PSpec.
Set Implicit Arguments.
Open Scope N_scope.

Definition to_sstep {B} (o : pstep B) : sstep B :=
  match o with Ready b => Rdy b | Pending => Pend | Ended => End end.

(* the first n answers of machine m from state s, as a script *)
Definition beh {B} (m : machine B) (n : nat) (s : St m) : script B :=
  map (fun x => to_sstep (snd x)) (polls m n s).

(* a scripted source over [beh m n s] replays m's answers poll for poll *)
Lemma beh_replays {B} (m : machine B) uh : forall k n s, (k <= n)%nat ->
  map snd (polls (src_m uh) k (beh m n s)) = map snd (polls m k s).
Proof.
  induction k as [|k IH]; intros n s L; [reflexivity|].
  destruct n as [|n]; [lia|]. unfold beh in *. simpl.
  destruct (pull1 m s) as [o s1] eqn:E. simpl.
  destruct o; simpl; f_equal; apply IH; lia.
Qed.

(* once the inner run is complete within the horizon n, the script holds exactly its items *)
Lemma beh_items {B} (m : machine B) s out s' : runs_to m s out s' ->
  exists n0, forall n, (n0 <= n)%nat -> items (beh m n s) = out.
Proof.
  induction 1 as [s s' E|s b s1 out s2 E R [n0 IH]|s s1 out s2 E R [n0 IH]].
  - exists 1%nat. intros [|n] L; [lia|]. unfold beh. simpl. rewrite E. reflexivity.
  - exists (S n0). intros [|n] L; [lia|]. unfold beh in *. simpl. rewrite E. simpl.
    f_equal. apply IH. lia.
  - exists (S n0). intros [|n] L; [lia|]. unfold beh in *. simpl. rewrite E. simpl.
    apply IH. lia.
Qed.

Lemma beh_dead {B} (m : machine B) s : ended_forever m s -> forall n, dead (beh m n s).
Proof.
  intros H n. specialize (H n). unfold dead, beh. revert H.
  induction (polls m n s) as [|[h o] r IH]; intros H; [reflexivity|].
  inversion H; subst. simpl in *. subst. simpl. apply IH. assumption.
Qed.

(* if the inner machine stays ended after its run, its behaviour script is a fused script *)
Lemma beh_fused {B} (m : machine B) s out s' : runs_to m s out s' -> ended_forever m s' ->
  forall n, fused_b (beh m n s) = true.
Proof.
  induction 1 as [s s' E|s b s1 out s2 E R IH|s s1 out s2 E R IH]; intros F [|n]; try reflexivity;
    unfold beh in *; simpl; rewrite E; simpl.
  - apply (beh_dead F n).
  - apply IH. exact F.
  - apply IH. exact F.
Qed.

(* The C11 specification composes.  [embed] builds the outer combinator's initial state from
   its upstream script; [refo] is its iterator adaptor. *)
Theorem C11_compose {A B} (inner : machine A) (outer : machine B)
        (pre fin : St outer -> Prop) (ref : St outer -> list B)
        (embed : script A -> St outer) (refo : list A -> list B) :
  C11_spec outer pre fin ref ->
  (forall l, ref (embed l) = refo (items l)) ->
  forall s out s', runs_to inner s out s' ->
  exists n0, forall n, (n0 <= n)%nat -> pre (embed (beh inner n s)) ->
    (exists s'', runs_to outer (embed (beh inner n s)) (refo out) s'') /\
    (forall k, exists rest, refo out = emitted (polls outer k (embed (beh inner n s))) ++ rest).
Proof.
  intros [S1 [S2 _]] Href s out s' R. destruct (beh_items R) as [n0 Hn]. exists n0.
  intros n L P. rewrite <- (Hn n L), <- Href. split; [apply S1; exact P|].
  intros k. apply S2. exact P.
Qed.

(* example: map f over filter p over any script -- items = map f (filter p items) *)
Corollary compose_map_filter {A B} (uh1 : script A -> hintT) (uh2 : script A -> hintT)
          (T2 : truthful uh2) (f : A -> B) (p : A -> bool) (l : script A) :
  exists n0, forall n, (n0 <= n)%nat ->
    exists s'', runs_to (map_m uh2 f) (beh (filter_m uh1 p) n l) (map f (filter p (items l))) s''.
Proof.
  destruct (@POne.filter_runs A uh1 p l) as [l' R].
  destruct (@C11_compose A B (filter_m uh1 p) (map_m uh2 f) always (fun l => fused_b l = true)
              (fun l => map f (items l)) (fun l => l) (map f) (map_spec T2 f)
              (fun l => eq_refl) l _ l' R) as [n0 H].
  exists n0. intros n L. destruct (H n L I) as [H1 _]. exact H1.
Qed.

(* ------------------------------------------------------------------------------------ *)
(* size hints through composition.  The outer combinator reads the inner machine's size_hint
   at the state reached after as many polls as the behaviour script has lost answers. *)
Definition uh_of {A} (mi : machine A) (s : St mi) (H : nat) : script A -> hintT :=
  fun l => hint mi (state_after mi (H - length l) s).

(* [guard uh] is [uh] wherever uh is truthful, (0, None) elsewhere: truthful everywhere, so every
   per-combinator spec applies to it; and it IS the inner hint on the scripts that occur *)
Definition guard {A} (uh : script A -> hintT) : script A -> hintT :=
  fun l => if (fst (uh l) <=? rem l) && match snd (uh l) with Some u => rem l <=? u | None => true end
           then uh l else (0, None).

Lemma guard_truthful {A} (uh : script A -> hintT) : truthful (guard uh).
Proof.
  intros l. unfold guard.
  destruct ((fst (uh l) <=? rem l) && match snd (uh l) with Some u => rem l <=? u | None => true end) eqn:E.
  - apply andb_prop in E. destruct E as [E1 E2]. apply N.leb_le in E1. split; auto.
    destruct (snd (uh l)); auto. apply N.leb_le. exact E2.
  - split; simpl; [lia|exact I].
Qed.

Lemma guard_id {A} (uh : script A -> hintT) l : hint_ok (uh l) (rem l) -> guard uh l = uh l.
Proof.
  intros [L U]. unfold guard. apply N.leb_le in L. rewrite L. simpl.
  destruct (snd (uh l)); auto. apply N.leb_le in U. rewrite U. reflexivity.
Qed.

Lemma beh_length {B} (m : machine B) : forall n s, length (beh m n s) = n.
Proof.
  unfold beh. induction n as [|n IH]; intros s; simpl; auto.
  destruct (pull1 m s) as [o s1]. simpl. f_equal. apply IH.
Qed.

Lemma state_after_add {B} (m : machine B) : forall j k s,
  state_after m (k + j) s = state_after m j (state_after m k s).
Proof. intros j. induction k as [|k IH]; intros s; simpl; auto. Qed.

(* the behaviour script from a later state is a suffix, and hints re-base accordingly *)
Lemma beh_suffix {B} (m : machine B) : forall k n s,
  skipn k (beh m (k + n) s) = beh m n (state_after m k s).
Proof.
  unfold beh. induction k as [|k IH]; intros n s; simpl; auto.
  destruct (pull1 m s) as [o s1] eqn:E. simpl. rewrite IH. reflexivity.
Qed.

Lemma uh_of_rebase {A} (mi : machine A) s k n l : (length l <= n)%nat ->
  uh_of mi s (k + n) l = uh_of mi (state_after mi k s) n l.
Proof.
  intros L. unfold uh_of. replace (k + n - length l)%nat with (k + (n - length l))%nat by lia.
  rewrite state_after_add. reflexivity.
Qed.

Section ComposeHints.
  Variables A B : Type.
  Variable inner : machine A.
  Variables (prei fini : St inner -> Prop) (refi : St inner -> list A).
  Hypothesis SI : C11_spec inner prei fini refi.

  (* on the behaviour script itself the guard is transparent: the outer combinator sees the
     inner machine's real size_hint *)
  Lemma guard_exact_head s : prei s ->
    exists n0, forall H, (n0 <= H)%nat ->
      guard (uh_of inner s H) (beh inner H s) = hint inner s /\ items (beh inner H s) = refi s.
  Proof.
    intros P. destruct SI as [S1 [_ [_ S4]]]. destruct (S1 s P) as [s' R].
    destruct (beh_items R) as [n0 Hn]. exists n0. intros H L. split; [|apply Hn; exact L].
    assert (uh_of inner s H (beh inner H s) = hint inner s) as E.
    { unfold uh_of. rewrite beh_length. replace (H - H)%nat with O by lia. reflexivity. }
    rewrite guard_id; rewrite E; auto.
    unfold rem. rewrite (Hn H L). apply S4. exact P.
  Qed.

  (* C11 composes WITH size hints: [outer uh] is any combinator family whose spec holds for every
     truthful upstream hint (all sixteen are); over the inner machine it yields
     refo (refi s), and its size_hint -- computed from the inner machine's real size_hint --
     brackets that many items.  Every later state of the pipeline is again of this form
     (beh_suffix, uh_of_rebase), so the statement covers the whole run. *)
  Theorem C11_compose_hints
          (outer : (script A -> hintT) -> machine B)
          (embed : forall uh, script A -> St (outer uh))
          (pre fin : forall uh, St (outer uh) -> Prop) (ref : forall uh, St (outer uh) -> list B)
          (refo : list A -> list B) :
    (forall uh, truthful uh -> C11_spec (outer uh) (pre uh) (fin uh) (ref uh)) ->
    (forall uh l, ref uh (embed uh l) = refo (items l)) ->
    forall s, prei s ->
    exists n0, forall H, (n0 <= H)%nat ->
      let uh := guard (uh_of inner s H) in
      let st := embed uh (beh inner H s) in
      pre uh st ->
      uh (beh inner H s) = hint inner s /\
      (exists st', runs_to (outer uh) st (refo (refi s)) st') /\
      hint_ok (hint (outer uh) st) (len (refo (refi s))).
  Proof.
    intros SO Href s P. destruct (guard_exact_head P) as [n0 Hn]. exists n0.
    intros H L uh st Pst. destruct (Hn H L) as [E1 E2].
    destruct (SO uh (@guard_truthful A (uh_of inner s H))) as [S1 [_ [_ S4]]]. split; [exact E1|].
    unfold st in *. rewrite <- E2, <- (Href uh). split; [apply S1; exact Pst|apply S4; exact Pst].
  Qed.
End ComposeHints.
