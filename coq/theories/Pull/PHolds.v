(* E4 Pipes, pull side -- the model's own traces satisfy the executable form of C11:
   whenever a machine meets [C11_spec] (with step-closed side conditions), every poll trace of
   it that reaches the end passes [gen_ok]; hence [C11_holds_b c (run_case c n) = true].
   Together with PSound.v this ties the checker to the theorems in both directions. *)
From HV Require Import Pull.Model Pull.PCore Pull.POne Pull.PTwo Pull.PSpec Pull.Corr Pull.PSound.
Set Implicit Arguments.
Open Scope N_scope.

Ltac inv H := inversion H; subst; clear H.

Lemma val_eqb_refl x : val_eqb x x = true.
Proof. apply val_eqb_eq. reflexivity. Qed.

Lemma list_eqb_refl l : list_eqb val_eqb l l = true.
Proof. apply (list_eqb_eq val_eqb_eq). reflexivity. Qed.

Section Generic.
  Variable B : Type.
  Variable m : machine B.
  Variable inj : B -> val.
  Variables pre fin : St m -> Prop.
  Variable ref : St m -> list B.
  Hypothesis SP : C11_spec m pre fin ref.
  Hypothesis Cpre : forall s o s', pre s -> pull1 m s = (o, s') -> pre s'.
  Hypothesis Cfin : forall s o s', pre s -> fin s -> pull1 m s = (o, s') -> fin s'.

  Definition T (n : nat) (s : St m) : trace := conv inj (polls m n s).

  Lemma T_S n s : T (S n) s =
    (hint m s, match fst (pull1 m s) with Ready b => Ready (inj b) | Pending => Pending | Ended => Ended end)
      :: T n (snd (pull1 m s)).
  Proof. unfold T. simpl. destruct (pull1 m s) as [o s1]. reflexivity. Qed.

  Lemma T_items s out s' : runs_to m s out s' ->
    forall n its, tr_items (T n s) = Some its -> its = map inj out.
  Proof.
    induction 1 as [s s' E|s b s1 out s2 E R IH|s s1 out s2 E R IH]; intros [|n] its H;
      try discriminate; rewrite T_S, E in H; simpl in H.
    - inv H. reflexivity.
    - destruct (tr_items (T n s1)) as [its1|] eqn:E1; [|discriminate]. inv H.
      simpl. f_equal. eapply IH; eauto.
    - eapply IH; eauto.
  Qed.

  Lemma T_after s out s' : runs_to m s out s' ->
    forall n, tr_items (T n s) <> None -> exists k, tr_after_end (T n s) = T k s'.
  Proof.
    induction 1 as [s s' E|s b s1 out s2 E R IH|s s1 out s2 E R IH]; intros [|n] H;
      try (exfalso; apply H; reflexivity); rewrite T_S, E in *; simpl in *.
    - exists n. reflexivity.
    - apply IH. destruct (tr_items (T n s1)); [discriminate|]. exfalso. apply H. reflexivity.
    - apply IH. exact H.
  Qed.

  Lemma T_dead : forall k s, ended_forever m s -> forallb is_Ended (T k s) = true.
  Proof.
    induction k as [|k IH]; intros s F; [reflexivity|].
    destruct (ended_forever_step F) as [s' [E F']]. rewrite T_S, E. simpl. apply IH. exact F'.
  Qed.

  Lemma ref_nil_of_ended s : pre s -> ended_forever m s -> ref s = [].
  Proof.
    intros P F. destruct (ended_forever_step F) as [s' [E _]].
    destruct SP as [S1 _]. destruct (S1 s P) as [s2 R].
    pose proof (runs_to_fun (R_end m s E) R) as [H _]. auto.
  Qed.

  Lemma T_zero : forall k s, pre s -> ended_forever m s ->
    forallb (fun x : hintT * pstep val => fst (fst x) =? 0) (T k s) = true.
  Proof.
    induction k as [|k IH]; intros s P F; [reflexivity|].
    destruct (ended_forever_step F) as [s' [E F']]. rewrite T_S, E. simpl.
    destruct SP as [_ [_ [_ S4]]]. pose proof (S4 s P) as [L _].
    rewrite (ref_nil_of_ended P F) in L. unfold len in L. simpl in L.
    apply andb_true_intro. split.
    - apply N.eqb_eq. lia.
    - apply IH; eauto.
  Qed.

  Lemma sticky_run s out s' : runs_to m s out s' -> pre s -> fin s -> pre s' /\ ended_forever m s'.
  Proof.
    induction 1 as [s s' E|s b s1 out s2 E R IH|s s1 out s2 E R IH]; intros P F.
    - split; [eapply Cpre; eauto|]. destruct SP as [_ [_ [S3 _]]]. eapply S3; eauto.
    - apply IH; eauto.
    - apply IH; eauto.
  Qed.

  Lemma T_hints : forall n s, pre s -> tr_hints_ok (T n s) = true.
  Proof.
    induction n as [|n IH]; intros s P; [reflexivity|].
    rewrite T_S. destruct (pull1 m s) as [o s1] eqn:E. cbn [fst snd].
    set (o' := match o with Ready b => Ready (inj b) | Pending => Pending | Ended => Ended end).
    cbn [tr_hints_ok].
    destruct (tr_items ((hint m s, o') :: T n s1)) as [its|] eqn:I; [|reflexivity].
    apply andb_true_intro. split.
    - destruct SP as [S1 [_ [_ S4]]]. destruct (S1 s P) as [s2 R].
      assert (its = map inj (ref s)) as ->.
      { apply (T_items R (S n)). rewrite T_S, E. exact I. }
      rewrite map_length. apply brackets_ok. apply S4. exact P.
    - assert (tr_hints_ok (T n s1) = true) as H by (apply IH; eapply Cpre; eauto).
      subst o'. destruct o; auto.
  Qed.

  Theorem spec_gen_ok n s (f : bool) : pre s -> (f = true -> fin s) ->
    tr_items (T n s) <> None -> gen_ok (map inj (ref s)) f (T n s) = true.
  Proof.
    intros P F NE. unfold gen_ok. destruct SP as [S1 _]. destruct (S1 s P) as [s' R].
    destruct (tr_items (T n s)) as [its|] eqn:I; [|congruence].
    rewrite (T_items R n I), list_eqb_refl, (T_hints n P). simpl. rewrite andb_true_r.
    destruct f; [|reflexivity]. simpl.
    destruct (@T_after s _ s' R n) as [k ->]; [congruence|].
    destruct (sticky_run R P (F eq_refl)) as [P' F'].
    apply andb_true_intro. split; [apply T_dead; exact F'|apply T_zero; auto].
  Qed.
End Generic.

(* ------------------------------------------------------------------------------------ *)
(* the side conditions of the specs are closed under polling *)
Lemma always_closed {B} (m : machine B) :
  forall s o s', @always (St m) s -> pull1 m s = (o, s') -> @always (St m) s'.
Proof. intros; exact I. Qed.

Lemma never_closed {B} (m : machine B) (pre : St m -> Prop) :
  forall s o s', pre s -> @never (St m) s -> pull1 m s = (o, s') -> @never (St m) s'.
Proof. intros s o s' _ []. Qed.

Lemma always_fin_closed {B} (m : machine B) (pre : St m -> Prop) :
  forall s o s', pre s -> @always (St m) s -> pull1 m s = (o, s') -> @always (St m) s'.
Proof. intros; exact I. Qed.

Section Closed.
  Variables A B : Type.
  Variable uh : script A -> hintT.

  Ltac via_src l :=
    let o := fresh "o" in let l1 := fresh "l1" in let E := fresh "E" in
    destruct (src_pull l) as [o l1] eqn:E;
    pose proof (fun F => @fused_step _ l o l1 F E).

  Lemma map_fin_closed (f : A -> B) : forall s o s', always s -> fused_b s = true ->
    pull1 (map_m uh f) s = (o, s') -> fused_b s' = true.
  Proof.
    intros l o l' _ F E. simpl in E. unfold map_pull in E. via_src l. destruct o0; inv E; auto.
  Qed.

  Lemma inspect_fin_closed : forall s o s', always s -> fused_b s = true ->
    pull1 (inspect_m uh) s = (o, s') -> fused_b s' = true.
  Proof.
    intros l o l' _ F E. simpl in E. unfold inspect_pull in E. via_src l. destruct o0; inv E; auto.
  Qed.

  Lemma filter_map_fin_closed (f : A -> option B) : forall s o s', always s -> fused_b s = true ->
    pull1 (filter_map_m uh f) s = (o, s') -> fused_b s' = true.
  Proof.
    intros l o l' _. simpl. revert o l'. induction l as [|[a| |] r IH]; simpl; intros o l' F E.
    - inv E. reflexivity.
    - destruct (f a); [inv E; auto|eapply IH; eauto].
    - inv E. auto.
    - inv E. apply dead_fused. exact F.
  Qed.

  Lemma filter_fin_closed (p : A -> bool) : forall s o s', always s -> fused_b s = true ->
    pull1 (filter_m uh p) s = (o, s') -> fused_b s' = true.
  Proof.
    intros l o l' _. simpl. revert o l'. induction l as [|[a| |] r IH]; simpl; intros o l' F E.
    - inv E. reflexivity.
    - destruct (p a); [inv E; auto|eapply IH; eauto].
    - inv E. auto.
    - inv E. apply dead_fused. exact F.
  Qed.

  Lemma take_while_pre_closed (p : A -> bool) : True. Proof. exact I. Qed.

  Lemma flat_map_fetch_fused (g : A -> list B) : forall l o s', fused_b l = true ->
    flat_map_fetch g l = (o, s') -> fused_b (snd s') = true.
  Proof.
    induction l as [|[a| |] r IH]; simpl; intros o s' F E.
    - inv E. reflexivity.
    - destruct (g a); [eapply IH; eauto|inv E; auto].
    - inv E. auto.
    - inv E. apply dead_fused. exact F.
  Qed.

  Lemma flat_map_fin_closed (g : A -> list B) : forall s o s', always s -> fused_b (snd s) = true ->
    pull1 (flat_map_m g) s = (o, s') -> fused_b (snd s') = true.
  Proof.
    intros [[[|b bs]|] l] o s' _ F E; simpl in *.
    - eapply flat_map_fetch_fused; eauto.
    - inv E. auto.
    - eapply flat_map_fetch_fused; eauto.
  Qed.
End Closed.

Section Closed2.
  Variable A : Type.
  Variable uh : script A -> hintT.

  Lemma skip_while_fin_closed (p : A -> bool) : forall s o s', always s -> fused_b (snd s) = true ->
    pull1 (skip_while_m uh p) s = (o, s') -> fused_b (snd s') = true.
  Proof.
    intros [sk l] o s' _. simpl. unfold skip_while_pull. simpl. revert sk o s'.
    induction l as [|[a| |] r IH]; simpl; intros sk o s' F E.
    - inv E. reflexivity.
    - destruct (sk && p a); [eapply IH; eauto|inv E; auto].
    - inv E. auto.
    - inv E. apply dead_fused. exact F.
  Qed.

  Lemma skip_fin_closed : forall s o s', always s -> fused_b (snd s) = true ->
    pull1 (skip_m uh) s = (o, s') -> fused_b (snd s') = true.
  Proof.
    intros [k l] o s' _. simpl. unfold skip_pull. simpl. revert k o s'.
    induction l as [|[a| |] r IH]; simpl; intros k o s' F E.
    - inv E. reflexivity.
    - destruct (0 <? k); [eapply IH; eauto|inv E; auto].
    - inv E. auto.
    - inv E. apply dead_fused. exact F.
  Qed.

  Lemma enumerate_fin_closed : forall s o s', always s -> fused_b (snd s) = true ->
    pull1 (enumerate_m uh) s = (o, s') -> fused_b (snd s') = true.
  Proof.
    intros [i l] o s' _ F E. simpl in *. destruct (src_pull l) as [o1 l1] eqn:E1.
    pose proof (fused_step _ F E1). destruct o1; inv E; auto.
  Qed.

  Variable uh2 : script A -> hintT.

  Lemma chain_pre_closed : forall s o s', fused_b (fst s) = true ->
    pull1 (chain_m uh uh2) s = (o, s') -> fused_b (fst s') = true.
  Proof.
    intros [l1 l2] o s' F E. simpl in *. destruct (src_pull l1) as [o1 l1'] eqn:E1.
    pose proof (fused_step _ F E1). destruct o1; [inv E; auto|inv E; auto|].
    destruct (src_pull l2) as [o2 l2']. inv E. auto.
  Qed.

  Lemma chain_fin_closed : forall s o s', fused_b (fst s) = true -> fused_b (snd s) = true ->
    pull1 (chain_m uh uh2) s = (o, s') -> fused_b (snd s') = true.
  Proof.
    intros [l1 l2] o s' _ F E. simpl in *. destruct (src_pull l1) as [o1 l1'] eqn:E1.
    destruct o1; [inv E; auto|inv E; auto|].
    destruct (src_pull l2) as [o2 l2'] eqn:E2. pose proof (fused_step _ F E2). inv E. auto.
  Qed.
End Closed2.

Section Closed3.
  Variables A B : Type.
  Variable uh1 : script A -> hintT.
  Variable uh2 : script B -> hintT.

  Lemma zip_polls_fused : forall (buf : option (A + B)) (l1 : script A) (l2 : script B) pl pr l1' l2',
    fused_b l1 = true -> fused_b l2 = true ->
    zip_polls (buf, l1, l2) = (pl, pr, l1', l2') -> fused_b l1' = true /\ fused_b l2' = true.
  Proof.
    intros buf l1 l2 pl pr l1' l2' F1 F2 E. unfold zip_polls in E.
    destruct (src_pull l1) as [o1 m1] eqn:E1. destruct (src_pull l2) as [o2 m2] eqn:E2.
    pose proof (fused_step _ F1 E1). pose proof (fused_step _ F2 E2).
    destruct buf as [[a|b]|]; inv E; auto.
  Qed.

  Lemma zipl_pre_closed : forall s o s', zfused s -> pull1 (zipl_m uh1 uh2) s = (o, s') -> zfused s'.
  Proof.
    intros [[buf l1] l2] o s' [F1 F2] E. simpl in E. unfold zipl_pull in E.
    destruct (zip_polls (buf, l1, l2)) as [[[pl pr] l1'] l2'] eqn:Z.
    destruct (@zip_polls_fused buf l1 l2 pl pr l1' l2' F1 F2 Z) as [G1 G2].
    destruct pl, pr; inv E; simpl; auto.
  Qed.

  Lemma cross_fin_closed : forall s o s', always s ->
    fused_b (snd (fst s)) = true /\ fused_b (snd s) = true ->
    pull1 (cross_m B uh1) s = (o, s') ->
    fused_b (snd (fst s')) = true /\ fused_b (snd s') = true.
  Proof.
    intros [[sing li] ls] o s' _ [F1 F2] E. simpl in *.
    destruct (src_pull li) as [oi li'] eqn:Ei. destruct (src_pull ls) as [os ls'] eqn:Es.
    pose proof (fused_step _ F1 Ei). pose proof (fused_step _ F2 Es).
    destruct sing as [s|].
    - destruct oi; inv E; simpl; auto.
    - destruct os; [destruct oi|..]; inv E; simpl; auto.
  Qed.
End Closed3.

(* ------------------------------------------------------------------------------------ *)
(* every trace of the model that reaches the end passes the executable form of C11 *)
Lemma sh_truthful {A} (a : srcOf A) : truthful (sh a).
Proof. apply slack_truthful. Qed.

Theorem C11_model_holds c n : pre_case c = true -> tr_items (run_case c n) <> None ->
  C11_holds_b c (run_case c n) = true.
Proof.
  intros P NE. unfold C11_holds_b. rewrite P. cbn [negb orb].
  destruct c as [f a|a|p a|o a|g a|a|p a|p a|k a|k a|a|a|a b|a b|a b|a b];
    cbn [run_case ref_case promises_fused pre_case] in *.
  - refine (@spec_gen_ok _ (map_m (sh a) (ev_fn f)) VN always (fun l => fused_b l = true)
              (fun l => map (ev_fn f) (items l)) (map_spec (sh_truthful a) (ev_fn f))
              (@always_closed _ _) (@map_fin_closed _ _ (sh a) (ev_fn f)) n (s_scr a) _ I (fun H => H) NE).
  - refine (@spec_gen_ok _ (inspect_m (sh a)) VN always (fun l => fused_b l = true)
              (fun l => items l) (inspect_spec (sh_truthful a))
              (@always_closed _ _) (@inspect_fin_closed _ (sh a)) n (s_scr a) _ I (fun H => H) NE).
  - refine (@spec_gen_ok _ (filter_m (sh a) (ev_pr p)) VN always (fun l => fused_b l = true)
              (fun l => filter (ev_pr p) (items l)) (filter_spec (sh_truthful a) (ev_pr p))
              (@always_closed _ _) (@filter_fin_closed _ (sh a) (ev_pr p)) n (s_scr a) _ I (fun H => H) NE).
  - refine (@spec_gen_ok _ (filter_map_m (sh a) (ev_op o)) VN always (fun l => fused_b l = true)
              (fun l => filter_map_ref (ev_op o) (items l)) (filter_map_spec (sh_truthful a) (ev_op o))
              (@always_closed _ _) (@filter_map_fin_closed _ _ (sh a) (ev_op o)) n (s_scr a) _ I (fun H => H) NE).
  - refine (@spec_gen_ok _ (flat_map_m (ev_ls g)) VN always (fun st => fused_b (snd st) = true)
              (fun st => cur_items (fst st) ++ flat_map (ev_ls g) (items (snd st)))
              (flat_map_spec (ev_ls g))
              (@always_closed _ _) (@flat_map_fin_closed _ _ (ev_ls g)) n (None, s_scr a) _ I (fun H => H) NE).
  - refine (@spec_gen_ok _ (@flatten_m N) VN always (fun st => fused_b (snd st) = true)
              (fun st => cur_items (fst st) ++ concat (items (snd st)))
              (flatten_spec N)
              (@always_closed _ _) (@flat_map_fin_closed _ _ (fun x : list N => x)) n (None, s_scr a) _ I (fun H => H) NE).
  - refine (@spec_gen_ok _ (take_while_m (sh a) (ev_pr p)) VN always never
              (fun l => take_while_ref (ev_pr p) (items l)) (take_while_spec (sh_truthful a) (ev_pr p))
              (@always_closed _ _) (@never_closed _ _ _) n (s_scr a) false I _ NE). discriminate.
  - refine (@spec_gen_ok _ (skip_while_m (sh a) (ev_pr p)) VN always (fun st => fused_b (snd st) = true)
              (skip_while_st_ref (ev_pr p)) (skip_while_spec (sh_truthful a) (ev_pr p))
              (@always_closed _ _) (@skip_while_fin_closed _ (sh a) (ev_pr p)) n (true, s_scr a) _ I (fun H => H) NE).
  - refine (@spec_gen_ok _ (take_m (sh a)) VN always always (@take_ref N) (take_spec (sh_truthful a))
              (@always_closed _ _) (@always_fin_closed _ _ _) n (k, s_scr a) true I (fun _ => I) NE).
  - refine (@spec_gen_ok _ (skip_m (sh a)) VN always (fun st => fused_b (snd st) = true)
              (@skip_ref N) (skip_spec (sh_truthful a))
              (@always_closed _ _) (@skip_fin_closed _ (sh a)) n (k, s_scr a) _ I (fun H => H) NE).
  - refine (@spec_gen_ok _ (enumerate_m (sh a)) vpair always (fun st => fused_b (snd st) = true)
              (fun st => enumerate_from (fst st) (items (snd st))) (enumerate_spec (sh_truthful a))
              (@always_closed _ _) (@enumerate_fin_closed _ (sh a)) n (0, s_scr a) _ I (fun H => H) NE).
  - refine (@spec_gen_ok _ (fuse_m (sh a)) VN always always (@fuse_ref N) (fuse_spec (sh_truthful a))
              (@always_closed _ _) (@always_fin_closed _ _ _) n (Some (s_scr a)) true I (fun _ => I) NE).
  - refine (@spec_gen_ok _ (chain_m (sh a) (sh b)) VN (fun st => fused_b (fst st) = true)
              (fun st => fused_b (snd st) = true) (@chain_ref N)
              (chain_spec (sh_truthful a) (sh_truthful b))
              (@chain_pre_closed _ (sh a) (sh b)) (@chain_fin_closed _ (sh a) (sh b))
              n (s_scr a, s_scr b) _ P _ NE).
    intros H. apply andb_prop in H. apply H.
  - refine (@spec_gen_ok _ (zip_m (sh a) (sh b)) vpair always never (@zip_ref N N)
              (zip_spec (sh_truthful a) (sh_truthful b))
              (@always_closed _ _) (@never_closed _ _ _) n (None, s_scr a, s_scr b) false I _ NE).
    discriminate.
  - apply andb_prop in P.
    refine (@spec_gen_ok _ (zipl_m (sh a) (sh b)) veob (@zfused N N) always (@zipl_ref N N)
              (zip_longest_spec (sh_truthful a) (sh_truthful b))
              (@zipl_pre_closed _ _ (sh a) (sh b)) (@always_fin_closed _ _ _)
              n (None, s_scr a, s_scr b) _ P (fun _ => I) NE).
  - refine (@spec_gen_ok _ (@cross_m N N (sh a)) vpair always
              (fun st => fused_b (snd (fst st)) = true /\ fused_b (snd st) = true)
              (@cross_st_ref N N) (@cross_spec N N (sh a) (sh_truthful a))
              (@always_closed _ _) (@cross_fin_closed _ N (sh a))
              n (None, s_scr a, s_scr b) _ I _ NE).
    intros H. apply andb_prop in H. exact H.
Qed.
