(* E4 Pipes, pull side -- the checker's [gen_ok] (used for combinators, adaptors and pipelines
   alike) is sound for the Prop-level clauses, and complete on the model's traces of the adaptors
   (relays, stream_ready, flat_map_stream, flatten_stream, filter_map_async). *)
From HV Require Import Pull.Model Pull.PCore Pull.PSpec Pull.Corr Pull.PSound Pull.PHolds
  Pull.ModelX Pull.PX Pull.CorrX.
Set Implicit Arguments.
Open Scope N_scope.

Ltac inv H := inversion H; subst; clear H.

Theorem gen_ok_sound refv f t : gen_ok refv f t = true ->
  tr_items t = Some refv /\
  (f = true -> Forall (fun x => snd x = Ended /\ fst (fst x) = 0) (tr_after_end t)) /\
  hints_bracket t.
Proof.
  unfold gen_ok. intros H.
  apply andb_prop in H. destruct H as [H H3]. apply andb_prop in H. destruct H as [H1 H2].
  split; [|split].
  - destruct (tr_items t) as [its|]; [|discriminate].
    apply (list_eqb_eq val_eqb_eq) in H1. rewrite H1. reflexivity.
  - intros F. rewrite F in H2. simpl in H2. apply andb_prop in H2. destruct H2 as [A1 A2].
    rewrite forallb_forall in A1, A2. apply Forall_forall. intros x Hx. split.
    + specialize (A1 x Hx). destruct x as [hx ox]. unfold is_Ended in A1. simpl in *.
      destruct ox; try discriminate A1; reflexivity.
    + apply N.eqb_eq. apply A2. exact Hx.
  - apply tr_hints_ok_sound. exact H3.
Qed.

Lemma src_fin_closed {A} (uh : script A -> hintT) : forall s o s', always s -> fused_b s = true ->
  pull1 (src_m uh) s = (o, s') -> fused_b s' = true.
Proof. intros l o l' _ F E. simpl in E. eapply fused_step; eauto. Qed.

Lemma fms_fetch_fused {A B} (g : A -> script B) : forall l o s', fused_b l = true ->
  fms_fetch g l = (o, s') -> fused_b (snd s') = true.
Proof.
  induction l as [|[a| |] r IH]; simpl; intros o s' F E.
  - inv E. reflexivity.
  - destruct (src_pull (g a)) as [[b| |] s1]; [inv E; auto|inv E; auto|eapply IH; eauto].
  - inv E. auto.
  - inv E. apply dead_fused. exact F.
Qed.

Lemma fms_fin_closed {A B} (g : A -> script B) ih : forall s o s', always s ->
  fused_b (snd s) = true -> pull1 (fms_m g ih) s = (o, s') -> fused_b (snd s') = true.
Proof.
  intros [[s|] l] o s' _ F E; simpl in *.
  - destruct (src_pull s) as [[b| |] s1]; [inv E; auto|inv E; auto|eapply fms_fetch_fused; eauto].
  - eapply fms_fetch_fused; eauto.
Qed.

Lemma fma_fetch_fused {A B} (f : A -> nat * option B) : forall l o s', fused_b l = true ->
  fma_fetch f l = (o, s') -> fused_b (snd s') = true.
Proof.
  induction l as [|[a| |] r IH]; simpl; intros o s' F E.
  - inv E. reflexivity.
  - destruct (f a) as [[|k] [b|]]; [inv E; auto|eapply IH; eauto|inv E; auto|inv E; auto].
  - inv E. auto.
  - inv E. apply dead_fused. exact F.
Qed.

Lemma fma_fin_closed {A B} uh (f : A -> nat * option B) : forall s o s', always s ->
  fused_b (snd s) = true -> pull1 (fma_m uh f) s = (o, s') -> fused_b (snd s') = true.
Proof.
  intros [[[[|k] [b|]]|] l] o s' _ F E; simpl in *;
    try (inv E; auto; fail); eapply fma_fetch_fused; eauto.
Qed.

Lemma items_map_rdy {A} (xs : list A) : items (map (@Rdy A) xs) = xs.
Proof. induction xs; simpl; congruence. Qed.

Lemma fused_map_rdy {A} (xs : list A) : fused_b (map (@Rdy A) xs) = true.
Proof. induction xs; simpl; auto. Qed.

Theorem xmodel_holds c n :
  match c with XRelay _ | XSource _ | XStreamReady _ | XFlatMapStream _ _ | XFlattenStream _
           | XFilterMapAsync _ _ => True | _ => False end ->
  tr_items (xrun c n) <> None -> gen_ok (xref c) (xfused c) (xrun c n) = true.
Proof.
  destruct c as [a|xs|a|g a|a|f a|a|a|ac a|wh rd fn a]; intros OK NE; try contradiction;
    cbn [xrun xref xfused] in *.
  - refine (@spec_gen_ok _ (src_m (sh a)) VN always (fun l => fused_b l = true)
              (fun l => items l) (@src_spec _ (sh a) (sh_truthful a))
              (@always_closed _ _) (@src_fin_closed _ (sh a)) n (s_scr a) false I _ NE).
    discriminate.
  - rewrite <- (items_map_rdy xs) at 1.
    refine (@spec_gen_ok _ (src_m exact_hint) VN always (fun l => fused_b l = true)
              (fun l => items l) (@src_spec _ exact_hint (slack_truthful 0 (Some 0)))
              (@always_closed _ _) (@src_fin_closed _ exact_hint) n (map (@Rdy N) xs) true I
              (fun _ => fused_map_rdy xs) NE).
  - refine (@spec_gen_ok _ (sready_m (sh a)) VN always never (fun l => items_now l)
              (@sready_spec _ (sh a) (sh_truthful a))
              (@always_closed _ _) (@never_closed _ _ _) n (s_scr a) false I _ NE).
    discriminate.
  - refine (@spec_gen_ok _ (fms_m (ev_st g) exact_hint) VN always (fun st => fused_b (snd st) = true)
              (@fms_ref N N (ev_st g)) (@fms_spec N N (ev_st g) exact_hint (slack_truthful 0 (Some 0)))
              (@always_closed _ _) (@fms_fin_closed _ _ (ev_st g) exact_hint)
              n (None, s_scr a) _ I (fun H => H) NE).
  - refine (@spec_gen_ok _ (fms_m (fun s : script N => s) exact_hint) VN always
              (fun st => fused_b (snd st) = true)
              (@fms_ref (script N) N (fun s => s))
              (@fms_spec (script N) N (fun s => s) exact_hint (slack_truthful 0 (Some 0)))
              (@always_closed _ _) (@fms_fin_closed _ _ (fun s : script N => s) exact_hint)
              n (None, s_scr a) _ I (fun H => H) NE).
  - refine (@spec_gen_ok _ (fma_m (sh a) (ev_fu f)) VN always (fun st => fused_b (snd st) = true)
              (@fma_ref N N (ev_fu f)) (@fma_spec N N (sh a) (ev_fu f) (sh_truthful a))
              (@always_closed _ _) (@fma_fin_closed _ _ (sh a) (ev_fu f))
              n (None, s_scr a) _ I (fun H => H) NE).
Qed.
