(* E4 Pipes, pull side -- the rest of dfir_pipes::pull (definitions only):
   stream adaptors (stream, stream_ready, stream_compat, flat_map_stream, flatten_stream,
   filter_map_async), either, and the consuming futures (collect, for_each, next,
   accumulate_all, send_push, send_sink).
   A futures::Stream is a script like a Pull source (poll_next: Ready(Some a) = Rdy a, Pending =
   Pend, Ready(None) = End).  A scripted future pends k times and then resolves. *)
From HV Require Export Pull.Model.
Set Implicit Arguments.
Open Scope N_scope.

(* stream.rs / stream_compat.rs / either.rs: one-to-one relays of the wrapped source:
   the model is [src_m] itself (Stream::poll_next <-> PullStep via into_poll). *)

(* stream_ready.rs: Pending from the stream is reported as Ended (non-blocking batch);
   size_hint = (0, stream upper) since repair 037f9db078c *)
Section StreamReady.
  Variable A : Type.
  Variable uh : script A -> hintT.        (* Stream::size_hint *)
  Definition sready_pull (l : script A) : pstep A * script A :=
    match src_pull l with
    | (Ready item, l') => (Ready item, l')
    | (Pending, l') => (Ended, l')
    | (Ended, l') => (Ended, l')
    end.
  Definition sready_hint (l : script A) : hintT := (0, snd (uh l)).
  Definition sready_m : machine A :=
    {| St := script A; pull1 := sready_pull; hint := sready_hint |}.
End StreamReady.

(* items up to the first Pend or End *)
Fixpoint items_now {A} (l : script A) : list A :=
  match l with Rdy a :: r => a :: items_now r | _ => [] end.

(* flat_map_stream.rs (flatten_stream.rs with func = identity):
   current : Option<(St, Meta)>, the inner stream is itself a script *)
Section FlatMapStream.
  Variables A B : Type.
  Variable g : A -> script B.
  Variable ih : script B -> hintT.        (* the inner stream's size_hint *)
  Definition fms_st : Type := (option (script B) * script A)%type.
  (* the loop after `current` has been found None / set to None *)
  Fixpoint fms_fetch (l : script A) : pstep B * fms_st :=
    match l with
    | [] => (Ended, (None, []))
    | Rdy item :: r =>
        (* current = Some(func(item)); loop: poll it at once *)
        match src_pull (g item) with
        | (Ready b, s') => (Ready b, (Some s', r))
        | (Pending, s') => (Pending, (Some s', r))
        | (Ended, _) => fms_fetch r
        end
    | Pend :: r => (Pending, (None, r))
    | End :: r => (Ended, (None, r))
    end.
  Definition fms_pull (st : fms_st) : pstep B * fms_st :=
    match st with
    | (Some s, l) =>
        match src_pull s with
        | (Ready b, s') => (Ready b, (Some s', l))
        | (Pending, s') => (Pending, (Some s', l))
        | (Ended, _) => fms_fetch l
        end
    | (None, l) => fms_fetch l
    end.
  Definition fms_hint (st : fms_st) : hintT :=
    (match fst st with Some s => fst (ih s) | None => 0 end, None).
  Definition fms_m : machine B := {| St := fms_st; pull1 := fms_pull; hint := fms_hint |}.
End FlatMapStream.

(* filter_map_async.rs: current : Option<(Fut, Meta)>; a future = (polls still pending, output) *)
Section FilterMapAsync.
  Variables A B : Type.
  Variable uh : script A -> hintT.
  Variable f : A -> nat * option B.
  Definition fma_st : Type := (option (nat * option B) * script A)%type.
  Fixpoint fma_fetch (l : script A) : pstep B * fma_st :=
    match l with
    | [] => (Ended, (None, []))
    | Rdy item :: r =>
        match f item with
        | (S k, out) => (Pending, (Some (k, out), r))
        | (O, Some b) => (Ready b, (None, r))
        | (O, None) => fma_fetch r
        end
    | Pend :: r => (Pending, (None, r))
    | End :: r => (Ended, (None, r))
    end.
  Definition fma_pull (st : fma_st) : pstep B * fma_st :=
    match st with
    | (Some (S k, out), l) => (Pending, (Some (k, out), l))
    | (Some (O, Some b), l) => (Ready b, (None, l))
    | (Some (O, None), l) => fma_fetch l
    | (None, l) => fma_fetch l
    end.
  (* since repair b3ec35f8b2d the item held by the in-flight future is counted:
     upper.and_then(|u| u.checked_add(1)) while `current` is Some *)
  Definition fma_hint (st : fma_st) : hintT :=
    let upper := snd (uh (snd st)) in
    (0, match fst st with
        | Some _ => match upper with Some u => chk_add u 1 | None => None end
        | None => upper
        end).
  Definition fma_m : machine B := {| St := fma_st; pull1 := fma_pull; hint := fma_hint |}.
End FilterMapAsync.

(* ------------------------------------------------------------------------------------ *)
(* consuming futures.  collect.rs, for_each.rs, accumulator.rs (AccumulateAll) share the loop
     loop { match prev.pull() { Ready => effect; continue | Pending => Poll::Pending | Ended => Poll::Ready } }
   with a different effect on an accumulator. *)
Section Drive.
  Variables A Acc : Type.
  Variable step : Acc -> A -> Acc.
  (* one Future::poll: (completed?, accumulator, remaining script) *)
  Fixpoint drive_poll (acc : Acc) (l : script A) : bool * (Acc * script A) :=
    match l with
    | [] => (true, (acc, []))
    | Rdy item :: r => drive_poll (step acc item) r
    | Pend :: r => (false, (acc, r))
    | End :: r => (true, (acc, r))
    end.
  (* poll until completion, at most n polls: number of Pending polls, final state *)
  Fixpoint drive_run (n : nat) (acc : Acc) (l : script A) : option (nat * (Acc * script A)) :=
    match n with
    | O => None
    | S k => match drive_poll acc l with
             | (true, st) => Some (O, st)
             | (false, (acc', l')) =>
                 match drive_run k acc' l' with
                 | Some (p, st) => Some (S p, st)
                 | None => None
                 end
             end
    end.
End Drive.

(* next.rs: one poll of the pull, as Poll<Option<item>> *)
Definition next_poll {A} (l : script A) : pstep A * script A := src_pull l.

(* the accumulators of accumulator.rs on an association list (HashMap entry API) *)
Inductive accum := AFold | AReduce | AFoldFrom.
Fixpoint amap_upd (t : list (N * N)) (k : N) (f : option N -> N) : list (N * N) :=
  match t with
  | [] => [(k, f None)]
  | (k', v) :: r => if k' =? k then (k', f (Some v)) :: r else (k', v) :: amap_upd r k f
  end.
(* Fold: or_insert_with(init) then fold; Reduce: insert or reduce; FoldFrom: init_fn(item) or fold.
   vocabulary: init = 100, fold/reduce = (+), init_fn(x) = 2*x *)
Definition accum_step (a : accum) (t : list (N * N)) (kv : N * N) : list (N * N) :=
  let (k, x) := kv in
  amap_upd t k (fun old =>
    match a, old with
    | AFold, None => 100 + x
    | AFold, Some v => v + x
    | AReduce, None => x
    | AReduce, Some v => v + x
    | AFoldFrom, None => 2 * x
    | AFoldFrom, Some v => v + x
    end).

(* send_push.rs / send_sink.rs: the downstream answers poll_ready / poll_finalize (poll_close)
   from scripts of booleans (true = Done; exhausted = Done) and logs every call *)
Inductive ev := EHint (h : hintT) | EReady (done : bool) | ESend (x : N) | EFin (done : bool).
Record pushS := PushS { p_ready : list bool; p_fin : list bool; p_log : list ev }.
Definition pop_b (l : list bool) : bool * list bool :=
  match l with [] => (true, []) | b :: r => (b, r) end.

Record sendS := SendS { pull_ended : bool; size_hinted : bool; s_script : script N; s_push : pushS }.

(* the `loop` of SendPush::poll / SendSink::poll while the pull has not ended:
   returns None if it must return Poll::Pending, Some state once the pull ended *)
Fixpoint send_loop (l : script N) (p : pushS) : bool * (script N * pushS) :=
  let (rd, ready') := pop_b (p_ready p) in
  let p1 := PushS ready' (p_fin p) (p_log p ++ [EReady rd]) in
  if negb rd then (false, (l, p1)) else
  match l with
  | [] => (true, ([], p1))
  | Rdy item :: r => send_loop r (PushS ready' (p_fin p) (p_log p1 ++ [ESend item]))
  | Pend :: r => (false, (r, p1))
  | End :: r => (true, (r, p1))
  end.

Definition send_finalize (p : pushS) : bool * pushS :=
  let (fd, fin') := pop_b (p_fin p) in (fd, PushS (p_ready p) fin' (p_log p ++ [EFin fd])).

(* one Future::poll; [with_hint] = SendPush (forwards size_hint once), false = SendSink *)
Definition send_poll (with_hint : bool) (uh : script N -> hintT) (s : sendS) : bool * sendS :=
  if pull_ended s then
    let (d, p') := send_finalize (s_push s) in (d, SendS true (size_hinted s) (s_script s) p')
  else
    let p0 := if with_hint && negb (size_hinted s)
              then PushS (p_ready (s_push s)) (p_fin (s_push s)) (p_log (s_push s) ++ [EHint (uh (s_script s))])
              else s_push s in
    match send_loop (s_script s) p0 with
    | (false, (l', p')) => (false, SendS false true l' p')
    | (true, (l', p')) =>
        let (d, p'') := send_finalize p' in (d, SendS true true l' p'')
    end.
