(* E4 Pipes, pull side -- executable model of dfir_pipes::pull combinators.
   Definitions only (this file must keep compiling when a proof breaks).

   Polling protocol (DESIGN section 3).  An upstream source is a *script*: a list of
   answers [Rdy a | Pend | End]; once the list is exhausted the source answers Ended for
   ever.  An [End] in the middle of a script is a source that reports the end and then
   *continues* (a non-fused pull), so "keeps reporting the end" is a theorem about the
   combinators that promise it, never an assumption about sources.

   Every combinator is a state machine [pull1 : St -> pstep B * St] whose state is the
   combinator's own fields (Zip's buffer, FlatMap's current iterator, Take's counter, ...)
   together with the remaining script(s) of its upstream(s); each definition transcribes the
   Rust `Pull::pull` impl match arm by match arm; a Rust `loop { match prev.pull() .. continue }`
   becomes structural recursion on the upstream script.  `size_hint` is transcribed too, with
   usize arithmetic ([sat_add], [chk_add]) made explicit.  Closures are Section variables. *)
From Coq Require Export List Bool NArith Lia.
Export ListNotations.
Set Implicit Arguments.
Open Scope N_scope.

(* ---------------------------------------------------------------------------------- *)
(* PullStep (Meta = (), not modelled) *)
Inductive pstep (A : Type) : Type := Ready (a : A) | Pending | Ended.
Arguments Pending {A}. Arguments Ended {A}.

(* one scripted answer of a source *)
Inductive sstep (A : Type) : Type := Rdy (a : A) | Pend | End.
Arguments Pend {A}. Arguments End {A}.
Definition script (A : Type) := list (sstep A).

Definition hintT := (N * option N)%type.

(* usize arithmetic used by the size_hint impls *)
Definition umax : N := 18446744073709551615.
Definition sat_add (a b : N) : N := N.min (a + b) umax.            (* usize::saturating_add *)
Definition chk_add (a b : N) : option N :=                          (* usize::checked_add *)
  if a + b <=? umax then Some (a + b) else None.

(* the scripted source: `pull` pops one answer *)
Definition src_pull {A} (l : script A) : pstep A * script A :=
  match l with
  | [] => (Ended, [])
  | Rdy a :: r => (Ready a, r)
  | Pend :: r => (Pending, r)
  | End :: r => (Ended, r)
  end.

(* items a consumer that polls until the first Ended receives from a script *)
Fixpoint items {A} (l : script A) : list A :=
  match l with
  | Rdy a :: r => a :: items r
  | Pend :: r => items r
  | _ => []
  end.

(* number of items before the first end: what a truthful source hint must bracket *)
Definition rem {A} (l : script A) : N := N.of_nat (length (items l)).

(* a fused script: after the first End, only End *)
Definition is_End {A} (x : sstep A) : bool := match x with End => true | _ => false end.
Fixpoint fused_b {A} (l : script A) : bool :=
  match l with
  | [] => true
  | End :: r => forallb is_End r
  | _ :: r => fused_b r
  end.

(* the harness's source reports (rem.saturating_sub(lo), hi.and_then(|k| rem.checked_add(k))) *)
Definition slack_hint {A} (lo : N) (hi : option N) (l : script A) : hintT :=
  (rem l - lo, match hi with Some k => chk_add (rem l) k | None => None end).

(* ---------------------------------------------------------------------------------- *)
(* a pull state machine *)
Record machine (B : Type) : Type := Machine {
  St : Type;
  pull1 : St -> pstep B * St;
  hint : St -> hintT;
}.

(* the first n polls: size_hint before the poll, and the poll's answer *)
Fixpoint polls {B} (m : machine B) (n : nat) (s : St m) : list (hintT * pstep B) :=
  match n with
  | O => []
  | S k => let (o, s') := pull1 m s in (hint m s, o) :: polls m k s'
  end.

Fixpoint state_after {B} (m : machine B) (n : nat) (s : St m) : St m :=
  match n with
  | O => s
  | S k => state_after m k (snd (pull1 m s))
  end.

(* poll until the first Ended (at most n polls): the items, and the state after the end *)
Fixpoint run_fuel {B} (m : machine B) (n : nat) (s : St m) : option (list B * St m) :=
  match n with
  | O => None
  | S k => match pull1 m s with
           | (Ready b, s') => match run_fuel m k s' with
                              | Some (out, s'') => Some (b :: out, s'')
                              | None => None
                              end
           | (Pending, s') => run_fuel m k s'
           | (Ended, s') => Some ([], s')
           end
  end.

Definition src_m {A} (uh : script A -> hintT) : machine A :=
  {| St := script A; pull1 := src_pull; hint := uh |}.

(* ---------------------------------------------------------------------------------- *)
Section OneInput.
  Variables A B : Type.
  Variable uh : script A -> hintT.           (* upstream size_hint *)

  (* map.rs *)
  Section Map.
    Variable f : A -> B.
    Definition map_pull (l : script A) : pstep B * script A :=
      match src_pull l with
      | (Ready item, l') => (Ready (f item), l')
      | (Pending, l') => (Pending, l')
      | (Ended, l') => (Ended, l')
      end.
    Definition map_m : machine B := {| St := script A; pull1 := map_pull; hint := uh |}.
  End Map.

  (* filter_map.rs: loop { match prev.pull() { Ready => if let Some(m) = f(item) {Ready m} else continue .. } } *)
  Section FilterMap.
    Variable f : A -> option B.
    Fixpoint filter_map_pull (l : script A) : pstep B * script A :=
      match l with
      | [] => (Ended, [])
      | Rdy item :: r => match f item with
                         | Some mapped => (Ready mapped, r)
                         | None => filter_map_pull r
                         end
      | Pend :: r => (Pending, r)
      | End :: r => (Ended, r)
      end.
    Definition filter_map_hint (l : script A) : hintT := (0, snd (uh l)).
    Definition filter_map_m : machine B :=
      {| St := script A; pull1 := filter_map_pull; hint := filter_map_hint |}.
  End FilterMap.

  (* flat_map.rs: current : Option<(IntoIter, Meta)> *)
  Section FlatMap.
    Variable g : A -> list B.
    (* the loop entered with current = None *)
    Fixpoint flat_map_fetch (l : script A) : pstep B * (option (list B) * script A) :=
      match l with
      | [] => (Ended, (None, []))
      | Rdy item :: r => match g item with
                         | b :: bs => (Ready b, (Some bs, r))     (* insert; iter.next() = Some *)
                         | [] => flat_map_fetch r                  (* insert; next() = None; current = None; loop *)
                         end
      | Pend :: r => (Pending, (None, r))
      | End :: r => (Ended, (None, r))
      end.
    Definition flat_map_pull (st : option (list B) * script A) :=
      match st with
      | (Some (b :: bs), l) => (Ready b, (Some bs, l))
      | (Some [], l) => flat_map_fetch l
      | (None, l) => flat_map_fetch l
      end.
    Definition flat_map_hint (st : option (list B) * script A) : hintT :=
      (match fst st with Some it => N.of_nat (length it) | None => 0 end, None).
    Definition flat_map_m : machine B :=
      {| St := (option (list B) * script A)%type; pull1 := flat_map_pull; hint := flat_map_hint |}.
  End FlatMap.
End OneInput.

Section SameType.
  Variable A : Type.
  Variable uh : script A -> hintT.

  (* inspect.rs (the closure's side effect is not observable through the pull) *)
  Definition inspect_pull (l : script A) : pstep A * script A :=
    match src_pull l with
    | (Ready item, l') => (Ready item, l')
    | (Pending, l') => (Pending, l')
    | (Ended, l') => (Ended, l')
    end.
  Definition inspect_m : machine A := {| St := script A; pull1 := inspect_pull; hint := uh |}.

  (* filter.rs *)
  Section Filter.
    Variable p : A -> bool.
    Fixpoint filter_pull (l : script A) : pstep A * script A :=
      match l with
      | [] => (Ended, [])
      | Rdy item :: r => if p item then (Ready item, r) else filter_pull r
      | Pend :: r => (Pending, r)
      | End :: r => (Ended, r)
      end.
    Definition filter_hint (l : script A) : hintT := (0, snd (uh l)).
    Definition filter_m : machine A :=
      {| St := script A; pull1 := filter_pull; hint := filter_hint |}.

    (* take_while.rs: not fused; after the predicate fails it keeps polling prev *)
    Definition take_while_pull (l : script A) : pstep A * script A :=
      match src_pull l with
      | (Ready item, l') => if p item then (Ready item, l') else (Ended, l')
      | (Pending, l') => (Pending, l')
      | (Ended, l') => (Ended, l')
      end.
    Definition take_while_m : machine A :=
      {| St := script A; pull1 := take_while_pull; hint := filter_hint |}.

    (* skip_while.rs: skipping : bool *)
    Fixpoint skip_while_pull_l (skipping : bool) (l : script A) : pstep A * (bool * script A) :=
      match l with
      | [] => (Ended, (skipping, []))
      | Rdy item :: r => if skipping && p item then skip_while_pull_l skipping r
                         else (Ready item, (false, r))
      | Pend :: r => (Pending, (skipping, r))
      | End :: r => (Ended, (skipping, r))
      end.
    Definition skip_while_pull (st : bool * script A) := skip_while_pull_l (fst st) (snd st).
    Definition skip_while_hint (st : bool * script A) : hintT :=
      if fst st then (0, snd (uh (snd st))) else uh (snd st).
    Definition skip_while_m : machine A :=
      {| St := (bool * script A)%type; pull1 := skip_while_pull; hint := skip_while_hint |}.
  End Filter.

  (* take.rs: remaining : usize *)
  Definition take_pull (st : N * script A) : pstep A * (N * script A) :=
    let (remaining, l) := st in
    if remaining =? 0 then (Ended, (remaining, l)) else
    match src_pull l with
    | (Ready item, l') => (Ready item, (remaining - 1, l'))
    | (Pending, l') => (Pending, (remaining, l'))
    | (Ended, l') => (Ended, (0, l'))
    end.
  Definition take_hint (st : N * script A) : hintT :=
    let (remaining, l) := st in
    let (lower, upper) := uh l in
    (N.min lower remaining,
     match upper with Some u => Some (N.min u remaining) | None => Some remaining end).
  Definition take_m : machine A :=
    {| St := (N * script A)%type; pull1 := take_pull; hint := take_hint |}.

  (* skip.rs *)
  Fixpoint skip_pull_l (remaining : N) (l : script A) : pstep A * (N * script A) :=
    match l with
    | [] => (Ended, (remaining, []))
    | Rdy item :: r => if 0 <? remaining then skip_pull_l (remaining - 1) r
                       else (Ready item, (remaining, r))
    | Pend :: r => (Pending, (remaining, r))
    | End :: r => (Ended, (remaining, r))
    end.
  Definition skip_pull (st : N * script A) := skip_pull_l (fst st) (snd st).
  Definition skip_hint (st : N * script A) : hintT :=
    let (lower, upper) := uh (snd st) in
    (lower - fst st, option_map (fun u => u - fst st) upper).
  Definition skip_m : machine A :=
    {| St := (N * script A)%type; pull1 := skip_pull; hint := skip_hint |}.

  (* enumerate.rs: index : usize *)
  Definition enumerate_pull (st : N * script A) : pstep (N * A) * (N * script A) :=
    let (index, l) := st in
    match src_pull l with
    | (Ready item, l') => (Ready (index, item), (index + 1, l'))
    | (Pending, l') => (Pending, (index, l'))
    | (Ended, l') => (Ended, (index, l'))
    end.
  Definition enumerate_m : machine (N * A) :=
    {| St := (N * script A)%type; pull1 := enumerate_pull; hint := fun st => uh (snd st) |}.

  (* fuse.rs: prev : Option<Prev>; None once prev has reported the end *)
  Definition fuse_pull (st : option (script A)) : pstep A * option (script A) :=
    match st with
    | Some l => match src_pull l with
                | (Ready item, l') => (Ready item, Some l')
                | (Pending, l') => (Pending, Some l')
                | (Ended, _) => (Ended, None)
                end
    | None => (Ended, None)
    end.
  Definition fuse_hint (st : option (script A)) : hintT :=
    match st with Some l => uh l | None => (0, Some 0) end.
  Definition fuse_m : machine A :=
    {| St := option (script A); pull1 := fuse_pull; hint := fuse_hint |}.

  (* flatten.rs (items are themselves iterables) is FlatMap with the identity *)

  (* chain.rs: polls first on every call (relies on first being fused) *)
  Variable uh2 : script A -> hintT.
  Definition chain_pull (st : script A * script A) : pstep A * (script A * script A) :=
    let (l1, l2) := st in
    match src_pull l1 with
    | (Ready item, l1') => (Ready item, (l1', l2))
    | (Pending, l1') => (Pending, (l1', l2))
    | (Ended, l1') => let (x, l2') := src_pull l2 in (x, (l1', l2'))
    end.
  Definition chain_hint (st : script A * script A) : hintT :=
    let (a_lower, a_upper) := uh (fst st) in
    let (b_lower, b_upper) := uh2 (snd st) in
    (sat_add a_lower b_lower,
     match a_upper, b_upper with Some a, Some b => chk_add a b | _, _ => None end).
  Definition chain_m : machine A :=
    {| St := (script A * script A)%type; pull1 := chain_pull; hint := chain_hint |}.
End SameType.

(* flatten.rs: identical state machine to FlatMap with func = into_iter *)
Definition flatten_m {A} : machine A := flat_map_m (fun x : list A => x).

(* itertools::EitherOrBoth *)
Inductive eob (A B : Type) : Type := EBoth (a : A) (b : B) | ELeft (a : A) | ERight (b : B).
Arguments ELeft {A B}. Arguments ERight {A B}.

Section TwoInputs.
  Variables A B : Type.
  Variable uh1 : script A -> hintT.
  Variable uh2 : script B -> hintT.

  Definition zst : Type := (option (A + B) * script A * script B)%type.

  (* the two pulls at the head of Zip::pull / ZipLongest::pull: a buffered item stands in
     for its side's poll, the other side (or both) is polled *)
  Definition zip_polls (st : zst) : pstep A * pstep B * script A * script B :=
    let '(buffer, l1, l2) := st in
    let (pull_left, l1') :=
      match buffer with Some (inl left_item) => (Ready left_item, l1) | _ => src_pull l1 end in
    let (pull_right, l2') :=
      match buffer with Some (inr right_item) => (Ready right_item, l2) | _ => src_pull l2 end in
    (pull_left, pull_right, l1', l2').

  (* zip.rs *)
  Definition zip_pull (st : zst) : pstep (A * B) * zst :=
    let '(pull_left, pull_right, l1, l2) := zip_polls st in
    match pull_left, pull_right with
    | Ready left_item, Ready right_item => (Ready (left_item, right_item), (None, l1, l2))
    | Ready left_item, Pending => (Pending, (Some (inl left_item), l1, l2))
    | Pending, Ready right_item => (Pending, (Some (inr right_item), l1, l2))
    | Pending, Pending => (Pending, (None, l1, l2))
    | _, _ => (Ended, (None, l1, l2))
    end.

  (* the buffered item counts for its side *)
  Definition zip_sides (st : zst) : hintT * hintT :=
    let '(buffer, l1, l2) := st in
    let (min1, max1) := uh1 l1 in
    let (min2, max2) := uh2 l2 in
    match buffer with
    | Some (inl _) => ((sat_add min1 1, match max1 with Some m => chk_add m 1 | None => None end), (min2, max2))
    | Some (inr _) => ((min1, max1), (sat_add min2 1, match max2 with Some m => chk_add m 1 | None => None end))
    | None => ((min1, max1), (min2, max2))
    end.

  Definition zip_hint (st : zst) : hintT :=
    let '((min1, max1), (min2, max2)) := zip_sides st in
    (N.min min1 min2,
     match max1, max2 with
     | Some a, Some b => Some (N.min a b)
     | Some a, None => Some a
     | None, Some b => Some b
     | None, None => None
     end).
  Definition zip_m : machine (A * B) := {| St := zst; pull1 := zip_pull; hint := zip_hint |}.

  (* zip_longest.rs (both upstreams must be fused) *)
  Definition zipl_pull (st : zst) : pstep (eob A B) * zst :=
    let '(pull_left, pull_right, l1, l2) := zip_polls st in
    match pull_left, pull_right with
    | Ready left_item, Ready right_item => (Ready (EBoth left_item right_item), (None, l1, l2))
    | Ready left_item, Ended => (Ready (ELeft left_item), (None, l1, l2))
    | Ended, Ready right_item => (Ready (ERight right_item), (None, l1, l2))
    | Ready left_item, Pending => (Pending, (Some (inl left_item), l1, l2))
    | Pending, Ready right_item => (Pending, (Some (inr right_item), l1, l2))
    | Pending, Pending => (Pending, (None, l1, l2))
    | Pending, Ended => (Pending, (None, l1, l2))
    | Ended, Pending => (Pending, (None, l1, l2))
    | Ended, Ended => (Ended, (None, l1, l2))
    end.
  Definition zipl_hint (st : zst) : hintT :=
    let '((min1, max1), (min2, max2)) := zip_sides st in
    (N.max min1 min2,
     match max1, max2 with Some a, Some b => Some (N.max a b) | _, _ => None end).
  Definition zipl_m : machine (eob A B) := {| St := zst; pull1 := zipl_pull; hint := zipl_hint |}.

  (* cross_singleton.rs: singleton_state : Option<SinglePull::Item>; A = items, B = singleton *)
  Definition cst : Type := (option B * script A * script B)%type.
  Definition cross_pull (st : cst) : pstep (A * B) * cst :=
    let '(singleton_state, li, ls) := st in
    match singleton_state with
    | Some singleton =>
        match src_pull li with
        | (Ready item, li') => (Ready (item, singleton), (singleton_state, li', ls))
        | (Pending, li') => (Pending, (singleton_state, li', ls))
        | (Ended, li') => (Ended, (singleton_state, li', ls))
        end
    | None =>
        match src_pull ls with
        | (Ready singleton, ls') =>
            match src_pull li with
            | (Ready item, li') => (Ready (item, singleton), (Some singleton, li', ls'))
            | (Pending, li') => (Pending, (Some singleton, li', ls'))
            | (Ended, li') => (Ended, (Some singleton, li', ls'))
            end
        | (Pending, ls') => (Pending, (None, li, ls'))
        | (Ended, ls') => (Ended, (None, li, ls'))
        end
    end.
  Definition cross_hint (st : cst) : hintT :=
    let '(singleton_state, li, ls) := st in
    let (lower, upper) := uh1 li in
    (match singleton_state with None => 0 | Some _ => lower end, upper).
  Definition cross_m : machine (A * B) := {| St := cst; pull1 := cross_pull; hint := cross_hint |}.
End TwoInputs.

(* ---------------------------------------------------------------------------------- *)
(* reference (iterator adaptor) semantics on item lists *)
Fixpoint filter_map_ref {A B} (f : A -> option B) (l : list A) : list B :=
  match l with
  | [] => []
  | a :: r => match f a with Some b => b :: filter_map_ref f r | None => filter_map_ref f r end
  end.

Fixpoint take_while_ref {A} (p : A -> bool) (l : list A) : list A :=
  match l with
  | a :: r => if p a then a :: take_while_ref p r else []
  | [] => []
  end.

Fixpoint skip_while_ref {A} (p : A -> bool) (l : list A) : list A :=
  match l with
  | a :: r => if p a then skip_while_ref p r else a :: r
  | [] => []
  end.

Fixpoint enumerate_from {A} (i : N) (l : list A) : list (N * A) :=
  match l with
  | [] => []
  | a :: r => (i, a) :: enumerate_from (i + 1) r
  end.

Fixpoint zip_longest_ref {A B} (l1 : list A) (l2 : list B) : list (eob A B) :=
  match l1, l2 with
  | a :: r1, b :: r2 => EBoth a b :: zip_longest_ref r1 r2
  | _ :: _, [] => map ELeft l1
  | [], _ => map ERight l2
  end.

Definition cross_ref {A B} (li : list A) (ls : list B) : list (A * B) :=
  match ls with
  | [] => []
  | s :: _ => map (fun a => (a, s)) li
  end.
