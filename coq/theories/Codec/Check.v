(* E11 Codec -- verdict functions evaluated (vm_compute) by the C35 correspondence check.
   bit 0 = the real crates differ from the model, bit 1 = the property fails on the
   implementation's outputs.  Definitions only. *)
From HV Require Export Codec.Model.

Definition bor (a b : N) : N := N.lor a b.
Definition bit (ok : bool) (v : N) : N := if ok then 0 else v.

Definition optval_eqb (a b : option val) : bool :=
  match a, b with
  | Some x, Some y => val_eqb x y
  | None, None => true
  | _, _ => false
  end.

Definition optbytes_eqb (a : option (list N)) (b : list N) : bool :=
  match a with Some x => bytes_eqb x b | None => false end.

(* the model's view of `bincode::deserialize` (trailing bytes allowed) *)
Definition decode_top (t : pty) (bs : list N) : option val :=
  match decode t bs with Some (v, _) => Some v | None => None end.

(* one value: `mbytes` = reference encoding shipped to the harness, `ibytes` = real serialize,
   `rt` = real deserialize of ibytes, `fm` = real deserialize of mbytes, `tr` = real deserialize
   of ibytes followed by junk *)
Definition chk_val (t : pty) (v : val) (mbytes ibytes : list N) (rt fm tr : option val) : N :=
  let e := encode t v in
  bor (bit (optbytes_eqb e ibytes && optbytes_eqb e mbytes && optval_eqb fm (Some v) &&
            optval_eqb (decode_top t ibytes) (Some v)) 1)
      (bit (optval_eqb rt (Some v) && optval_eqb tr (Some v)) 2).

Definition chk_dec (t : pty) (bs : list N) (r : option val) : N :=
  bit (optval_eqb (decode_top t bs) r) 1.

(* a concrete derive-based Rust type: `v` is its image in the value universe, rt_ok the real
   `deserialize(serialize x) == x` *)
Definition chk_concrete (t : pty) (v : val) (ibytes : list N) (rt_ok : bool) : N :=
  bor (bit (optbytes_eqb (encode t v) ibytes && optval_eqb (decode_top t ibytes) (Some v)) 1)
      (bit rt_ok 2).

Definition chk_member (raw : N) (ibytes tbytes : list N) (same tagless_again : bool)
           (raw_back tagless_raw de_raw : N) : N :=
  bor (bit (optbytes_eqb (encode member_pty (member_val raw)) ibytes && bytes_eqb ibytes tbytes) 1)
      (bit (same && tagless_again && (raw_back =? raw) && (tagless_raw =? raw) && (de_raw =? raw)) 2).

Definition queue_eqb (a b : list N) : bool := bytes_eqb a b.

(* demux_map over collecting sinks: r = None when the real sink panicked *)
Definition chk_demux (keys : list N) (items : list (N * N)) (r : option (list (N * list N))) : N :=
  let init := map (fun k => (k, @nil N)) keys in
  match send_all N.eqb init items, r with
  | None, None => 0
  | Some s, Some qs =>
      bor (bit (forallb (fun kq => match queue_of N.eqb s (fst kq) with
                                   | Some q => queue_eqb q (snd kq) | None => false end) qs) 1)
          (bit (forallb (fun kq => queue_eqb (snd kq) (addressed_to N.eqb (fst kq) items)) qs) 2)
  | _, _ => 1
  end.

Fixpoint recv_eqb (a b : list (member_id * val)) : bool :=
  match a, b with
  | [], [] => true
  | (m, v) :: a', (m', v') :: b' =>
      tagless_eqb (into_tagless m) (into_tagless m') && val_eqb v v' && recv_eqb a' b'
  | _, _ => false
  end.

(* the whole cluster-addressed path; recv = per member the (sender, value) pairs the real
   receive closure produced *)
Definition chk_wire (t : pty) (sender : N) (members : list N) (items : list (N * val))
           (recv : list (N * list (N * val))) : N :=
  let items' := map (fun p => (from_raw_id (fst p), snd p)) items in
  let chans := map Legacy members in
  let conv := map (fun p : N * val => (from_raw_id (fst p), snd p)) in
  bor (bit (forallb (fun r => match deliver t (from_raw_id sender) chans items' (Legacy (fst r)) with
                              | Some got => recv_eqb got (conv (snd r)) | None => false end) recv) 1)
      (bit (forallb (fun r =>
              recv_eqb (conv (snd r))
                       (map (fun p => (from_raw_id sender, snd p))
                            (filter (fun p => fst p =? fst r) items))) recv) 2).

(* the generated closures themselves (embedded code generation of a cluster->cluster demux):
   `wire` = what the sender's generated dataflow handed to the network, `recv` = what each
   member's generated receiver dataflow produced from the frames addressed to it *)
Fixpoint wire_eqb (a : list (tagless * list N)) (b : list (N * list N)) : bool :=
  match a, b with
  | [], [] => true
  | (t, x) :: a', (d, y) :: b' => tagless_eqb t (Legacy d) && bytes_eqb x y && wire_eqb a' b'
  | _, _ => false
  end.

Definition chk_emb (t : pty) (sender : N) (members : list N) (items : list (N * val))
           (wire : list (N * list N)) (recv : list (N * list (N * val))) : N :=
  let items' := map (fun p => (from_raw_id (fst p), snd p)) items in
  bor (bit (match map_opt (ser_demux t) items' with Some w => wire_eqb w wire | None => false end) 1)
      (chk_wire t sender members items recv).

(* demux_map under back-pressure: scripted one-slot member sinks, a contract-following sender.
   impl = per member (key, (delivered, lost)) and the readiness the demux reported at each poll;
   answers = per member the readiness answers it actually gave, one per poll *)
Fixpoint wait_tr (fuel : nat) (d : dstate) (acc : list bool) : option (dstate * list bool) :=
  match fuel with
  | O => None
  | S f => let '(d', r) := demux_poll d in
           if r then Some (d', acc ++ [true]) else wait_tr f d' (acc ++ [false])
  end.

Fixpoint bp_tr (fuel : nat) (d : dstate) (items : list (N * N)) (acc : list bool) : option (dstate * list bool) :=
  match items with
  | [] => Some (map (fun km => (fst km, ms_take (snd km))) d, acc)
  | (k, x) :: r =>
      match wait_tr fuel d acc with
      | None => None
      | Some (d1, acc1) => match d_send d1 k x with Some d2 => bp_tr fuel d2 r acc1 | None => None end
      end
  end.

Fixpoint bools_eqb (a b : list bool) : bool :=
  match a, b with
  | [], [] => true
  | x :: a', y :: b' => Bool.eqb x y && bools_eqb a' b'
  | _, _ => false
  end.

Definition chk_bp (fuel : nat) (init : list (N * list bool)) (items : list (N * N))
           (impl : option (list (N * (list N * N)) * list bool)) (answers : list (N * list bool)) : N :=
  let d0 := map (fun ks => (fst ks, mkMS (snd ks) None [] 0)) init in
  match bp_tr fuel d0 items [], impl with
  | None, None => 0
  | Some (d', polls), Some (mem, ipolls) =>
      bor (bit (bools_eqb polls ipolls &&
                forallb (fun m => match d_get d' (fst m) with
                                  | Some s => bytes_eqb (ms_got s) (fst (snd m)) && (ms_lost s =? snd (snd m))
                                  | None => false end) mem) 1)
          (bit (forallb (fun m => bytes_eqb (fst (snd m)) (addressed_to N.eqb (fst m) items) && (snd (snd m) =? 0)) mem &&
                forallb (fun i => negb (nth i ipolls false) ||
                                  forallb (fun ka => nth i (snd ka) true) answers)
                        (seq 0 (length ipolls))) 2)
  | _, _ => 3
  end.
