(* E11 Codec -- demux_map under back-pressure: with the all-members readiness conjunction, a sender
   that follows the Sink contract (poll_ready until Ready, then start_send) never overwrites a
   mailbox: every message reaches exactly the addressed member, once, in order, nothing is lost --
   for every readiness script of every member. *)
From Coq Require Import Lia ZifyBool ZifyN.
From HV Require Import Codec.Model.

Arguments N.add : simpl never.
Arguments N.eqb : simpl never.

Definition content (s : msink) : list N :=
  ms_got s ++ match ms_slot s with Some x => [x] | None => [] end.

(* readiness clause: the demux is Ready exactly when every member answered Ready in that poll *)
Theorem demux_ready_all : forall d,
  snd (demux_poll d) = true <-> forall km, In km d -> snd (ms_poll (snd km)) = true.
Proof. intro d. unfold demux_poll; cbn [snd]. apply forallb_forall. Qed.

Lemma ms_take_facts : forall s, content (ms_take s) = content s /\ ms_lost (ms_take s) = ms_lost s /\
  ms_slot (ms_take s) = None /\ ms_script (ms_take s) = ms_script s /\ ms_got (ms_take s) = content s.
Proof.
  intros [sc [x|] g l]; unfold ms_take, content; cbn; repeat split; auto; rewrite ?app_nil_r; auto.
Qed.

(* one poll of one member *)
Definition P1 (s s1 : msink) (r : bool) : Prop :=
  content s1 = content s /\ ms_lost s1 = ms_lost s /\ (r = true -> ms_slot s1 = None) /\
  length (ms_script s1) = pred (length (ms_script s)) /\ (ms_script s = [] -> r = true).

Lemma ms_poll_facts : forall s, P1 s (fst (ms_poll s)) (snd (ms_poll s)).
Proof.
  intros s. unfold ms_poll. destruct (ms_script s) as [|[|] r] eqn:E; cbn [fst snd].
  - destruct (ms_take_facts s) as (A & B & C & D & _). unfold P1. rewrite A, B, C, D, E. repeat split; auto.
  - destruct (ms_take_facts (mkMS r (ms_slot s) (ms_got s) (ms_lost s))) as (A & B & C & D & _).
    unfold P1. rewrite A, B, C, D. cbn. rewrite E. cbn. repeat split; auto; try discriminate.
  - unfold P1, content; cbn. rewrite E. cbn. repeat split; auto; try discriminate.
Qed.

(* same keys, members related pointwise *)
Definition drel (P : msink -> msink -> Prop) (d d' : dstate) : Prop :=
  Forall2 (fun a b => fst a = fst b /\ P (snd a) (snd b)) d d'.

Lemma drel_get : forall P d d', drel P d d' -> forall k s, d_get d k = Some s ->
  exists s', d_get d' k = Some s' /\ P s s'.
Proof.
  induction 1 as [|[k1 s1] [k2 s2] d d' [E R] F IH]; intros k s H; cbn in *; [discriminate|].
  subst k2. destruct (k =? k1); [inversion H; subst; eauto|auto].
Qed.

Lemma drel_Forall : forall (P : msink -> msink -> Prop) (Q : msink -> Prop) d d',
  drel P d d' -> (forall a b, P a b -> Q a -> Q b) ->
  Forall (fun km => Q (snd km)) d -> Forall (fun km => Q (snd km)) d'.
Proof.
  induction 1 as [|a b d d' [E R] F IH]; intros HPQ HF; [constructor|].
  inversion HF; subst. constructor; eauto.
Qed.

Lemma Forall2_impl' : forall A B (P Q : A -> B -> Prop) l l',
  (forall a b, P a b -> Q a b) -> Forall2 P l l' -> Forall2 Q l l'.
Proof. intros A B P Q l l' H F. induction F; constructor; auto. Qed.

Definition W (s s' : msink) : Prop :=
  content s' = content s /\ ms_lost s' = ms_lost s /\ ms_slot s' = None /\
  (length (ms_script s') <= length (ms_script s))%nat.

Lemma demux_poll_rel : forall d,
  drel (fun s s1 => content s1 = content s /\ ms_lost s1 = ms_lost s /\
                    (snd (demux_poll d) = true -> ms_slot s1 = None) /\
                    length (ms_script s1) = pred (length (ms_script s))) d (fst (demux_poll d)).
Proof.
  intro d. unfold demux_poll at 2; cbn [fst]. unfold drel.
  assert (forall km, In km d -> snd (demux_poll d) = true -> snd (ms_poll (snd km)) = true) as HR.
  { intros km Hin R. apply (proj1 (demux_ready_all d) R km Hin). }
  revert HR. generalize (snd (demux_poll d)). intros r HR.
  induction d as [|[k s] t IH]; cbn [map]; constructor.
  - cbn [fst snd]. split; auto. destruct (ms_poll_facts s) as (A & B & C & D & _). repeat split; auto.
    intro R. apply C. apply (HR (k, s)); [left; auto|auto].
  - apply IH. intros km Hin R. apply HR; auto. right; auto.
Qed.

Lemma wait_ready_ok : forall f d,
  Forall (fun km => (length (ms_script (snd km)) <= f)%nat) d ->
  exists d', wait_ready (S f) d = Some d' /\ drel W d d'.
Proof.
  induction f as [|f IH]; intros d HB; cbn [wait_ready]; destruct (demux_poll d) as [d1 r] eqn:E;
    pose proof (demux_poll_rel d) as R; rewrite E in R; cbn [fst snd] in R.
  - (* all scripts exhausted: every member answers Ready *)
    assert (r = true) as ->.
    { replace r with (snd (demux_poll d)) by (rewrite E; auto). apply demux_ready_all.
      intros km Hin. rewrite Forall_forall in HB. specialize (HB km Hin).
      destruct (ms_poll_facts (snd km)) as (_ & _ & _ & _ & Z). apply Z.
      destruct (ms_script (snd km)); auto. cbn in HB. lia. }
    exists d1. split; auto. unfold drel in *. eapply Forall2_impl'; [|exact R].
    intros a b (K & A & B & C & D). split; auto. unfold W. repeat split; auto. lia.
  - destruct r.
    + exists d1. split; auto. unfold drel in *. eapply Forall2_impl'; [|exact R].
      intros a b (K & A & B & C & D). split; auto. unfold W. repeat split; auto. lia.
    + assert (Forall (fun km => (length (ms_script (snd km)) <= f)%nat) d1) as HB1.
      { clear - R HB. induction R as [|a b d d1 (K & A & B & C & D) F IHR]; [constructor|].
        inversion HB; subst. constructor; auto. lia. }
      destruct (IH d1 HB1) as (d' & Hw & RW). exists d'. split; auto.
      clear - R RW. revert d' RW. induction R as [|a b d d1 (K & A & B & C & D) F IHR]; intros d' RW.
      * inversion RW; constructor.
      * inversion RW as [|b' c d1' d'' (K2 & A2 & B2 & C2 & D2) F2]; subst. constructor.
        -- split; [congruence|]. unfold W. repeat split; try congruence. lia.
        -- apply IHR; auto.
Qed.

Lemma d_send_get : forall d k x d2, d_send d k x = Some d2 ->
  forall k', d_get d2 k' = if k' =? k then option_map (fun s => ms_send s x) (d_get d k') else d_get d k'.
Proof.
  induction d as [|[k1 s1] r IH]; intros k x d2 H k'; cbn [d_send d_get] in *; [discriminate|].
  destruct (k =? k1) eqn:E.
  - inversion H; subst; clear H. assert (k = k1) by lia. subst. cbn [d_get].
    destruct (k' =? k1); auto.
  - destruct (d_send r k x) as [r'|] eqn:Er; [|discriminate]. inversion H; subst; clear H. cbn [d_get].
    destruct (k' =? k1) eqn:E1.
    + destruct (k' =? k) eqn:E2; auto. lia.
    + apply IH; auto.
Qed.

Lemma d_send_total : forall d k x, d_get d k <> None -> d_send d k x <> None.
Proof.
  induction d as [|[k1 s1] r IH]; intros k x H; cbn [d_send d_get] in *; [congruence|].
  destruct (k =? k1); [discriminate|]. specialize (IH k x H). destruct (d_send r k x); congruence.
Qed.

Lemma d_send_bound : forall (Q : msink -> Prop) d k x d2, d_send d k x = Some d2 ->
  (forall s, Q s -> Q (ms_send s x)) ->
  Forall (fun km => Q (snd km)) d -> Forall (fun km => Q (snd km)) d2.
Proof.
  induction d as [|[k1 s1] r IH]; intros k x d2 H HQ HF; cbn [d_send] in H; [discriminate|].
  inversion HF; subst. destruct (k =? k1).
  - inversion H; subst. constructor; auto. cbn. apply HQ; auto.
  - destruct (d_send r k x) as [r'|] eqn:Er; [|discriminate]. inversion H; subst. constructor; eauto.
Qed.

Lemma flush_get : forall d k, d_get (map (fun km => (fst km, ms_take (snd km))) d) k = option_map ms_take (d_get d k).
Proof. induction d as [|[k1 s1] r IH]; intro k; cbn; auto. destruct (k =? k1); auto. Qed.

(* delivery under back-pressure *)
Theorem bp_delivery : forall items f d,
  Forall (fun km => (length (ms_script (snd km)) <= f)%nat) d ->
  (forall it, In it items -> d_get d (fst it) <> None) ->
  exists d', bp_run (S f) d items = Some d' /\
    forall k s, d_get d k = Some s ->
      exists s', d_get d' k = Some s' /\
                 ms_got s' = content s ++ addressed_to N.eqb k items /\
                 ms_lost s' = ms_lost s /\ ms_slot s' = None.
Proof.
  induction items as [|[k0 x] r IH]; intros f d HB HK; cbn [bp_run].
  - eexists. split; [reflexivity|]. intros k s H. rewrite flush_get, H. cbn.
    destruct (ms_take_facts s) as (A & B & C & D & E). exists (ms_take s).
    unfold addressed_to; cbn. rewrite app_nil_r. auto.
  - destruct (wait_ready_ok f d HB) as (d1 & Hw & RW). rewrite Hw.
    assert (d_get d1 k0 <> None) as Hk1.
    { pose proof (HK (k0, x) (or_introl eq_refl)) as H0. cbn in H0.
      destruct (d_get d k0) as [s0|] eqn:E0; [|congruence].
      destruct (drel_get _ _ _ RW _ _ E0) as (s' & E' & _). congruence. }
    destruct (d_send d1 k0 x) as [d2|] eqn:Es; [|exfalso; eapply d_send_total; eauto].
    assert (Forall (fun km => (length (ms_script (snd km)) <= f)%nat) d2) as HB2.
    { eapply (d_send_bound (fun s => (length (ms_script s) <= f)%nat)); eauto.
      eapply (drel_Forall W (fun s => (length (ms_script s) <= f)%nat)); eauto.
      intros a b (_ & _ & _ & L) Ha. lia. }
    destruct (IH f d2 HB2) as (d' & Hr & HD).
    { intros it Hit. rewrite (d_send_get _ _ _ _ Es).
      pose proof (HK it (or_intror Hit)) as H0.
      destruct (d_get d (fst it)) as [s0|] eqn:E0; [|congruence].
      destruct (drel_get _ _ _ RW _ _ E0) as (s' & E' & _). rewrite E'.
      destruct (fst it =? k0); cbn; congruence. }
    exists d'. split; auto. intros k s H.
    destruct (drel_get _ _ _ RW _ _ H) as (s1 & E1 & (C1 & L1 & S1 & _)).
    pose proof (d_send_get _ _ _ _ Es k) as G. rewrite E1 in G.
    unfold addressed_to in *. cbn [filter fst map snd].
    destruct (k =? k0) eqn:Ek; cbn [option_map] in G.
    + destruct (HD _ _ G) as (s' & E' & A' & B' & C'). exists s'. split; auto.
      assert (content (ms_send s1 x) = content s ++ [x]) as Hc.
      { rewrite <- C1. unfold content, ms_send; cbn. rewrite S1, app_nil_r. auto. }
      rewrite A', Hc, <- app_assoc. cbn [map snd app]. repeat split; auto.
      rewrite B'. unfold ms_send; cbn. rewrite S1. auto.
    + destruct (HD _ _ G) as (s' & E' & A' & B' & C'). exists s'. split; auto.
      rewrite A', C1, B', L1. auto.
Qed.
