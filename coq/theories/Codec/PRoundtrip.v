(* E11 Codec -- proofs: decode inverts encode for every type code and every value, with an
   arbitrary continuation of the byte stream (round trip + prefix-freeness: concatenated frames
   do not bleed into each other). *)
From Coq Require Import Lia ZifyBool ZifyN.
From HV Require Import Codec.Model.

Arguments N.add : simpl never.
Arguments N.mul : simpl never.
Arguments N.sub : simpl never.
Arguments N.div : simpl never.
Arguments N.modulo : simpl never.
Arguments N.pow : simpl never.
Arguments N.ltb : simpl never.
Arguments N.leb : simpl never.
Arguments N.eqb : simpl never.

(* ------------------------------------------------------------------ induction over type codes *)
Section PtyInd.
  Variable P : pty -> Prop.
  Hypothesis HU8 : P U8.
  Hypothesis HU16 : P U16.
  Hypothesis HU32 : P U32.
  Hypothesis HU64 : P U64.
  Hypothesis HI64 : P I64.
  Hypothesis HBool : P PBool.
  Hypothesis HStr : P Str.
  Hypothesis HOpt : forall t, P t -> P (Opt t).
  Hypothesis HVec : forall t, P t -> P (Vec t).
  Hypothesis HTup : forall ts, Forall P ts -> P (Tup ts).
  Hypothesis HEnum : forall ts, Forall P ts -> P (Enum ts).

  Fixpoint pty_ind' (t : pty) : P t :=
    match t with
    | U8 => HU8 | U16 => HU16 | U32 => HU32 | U64 => HU64 | I64 => HI64 | PBool => HBool | Str => HStr
    | Opt t' => HOpt t' (pty_ind' t')
    | Vec t' => HVec t' (pty_ind' t')
    | Tup ts => HTup ts ((fix go (ts : list pty) : Forall P ts :=
                            match ts with
                            | [] => Forall_nil P
                            | t1 :: r => Forall_cons t1 (pty_ind' t1) (go r)
                            end) ts)
    | Enum ts => HEnum ts ((fix go (ts : list pty) : Forall P ts :=
                              match ts with
                              | [] => Forall_nil P
                              | t1 :: r => Forall_cons t1 (pty_ind' t1) (go r)
                              end) ts)
    end.
End PtyInd.

(* ------------------------------------------------------------------ named forms of the nested loops *)
Definition enc_list (f : val -> option (list N)) :=
  fix go (vs : list val) : option (list N) :=
    match vs with
    | [] => Some []
    | v1 :: r => match f v1, go r with Some a, Some b => Some (a ++ b) | _, _ => None end
    end.

Definition dec_list (g : list N -> option (val * list N)) :=
  fix go (k : nat) (bs : list N) : option (list val * list N) :=
    match k with
    | O => Some ([], bs)
    | S k' => match g bs with
              | Some (v, r1) => match go k' r1 with Some (vs, r2) => Some (v :: vs, r2) | None => None end
              | None => None
              end
    end.

Definition enc_tup (enc : pty -> val -> option (list N)) :=
  fix go (ts : list pty) (vs : list val) : option (list N) :=
    match ts, vs with
    | [], [] => Some []
    | t1 :: ts', v1 :: vs' => match enc t1 v1, go ts' vs' with Some a, Some b => Some (a ++ b) | _, _ => None end
    | _, _ => None
    end.

Definition dec_tup (dec : pty -> list N -> option (val * list N)) :=
  fix go (ts : list pty) (bs : list N) : option (list val * list N) :=
    match ts with
    | [] => Some ([], bs)
    | t1 :: ts' => match dec t1 bs with
                   | Some (v, r1) => match go ts' r1 with Some (vs, r2) => Some (v :: vs, r2) | None => None end
                   | None => None
                   end
    end.

Definition enc_pick (enc : pty -> val -> option (list N)) (v' : val) :=
  fix go (ts : list pty) (k : N) : option (list N) :=
    match ts with
    | [] => None
    | t1 :: ts' => if k =? 0 then enc t1 v' else go ts' (k - 1)
    end.

Definition dec_pick (dec : pty -> list N -> option (val * list N)) (r : list N) :=
  fix go (ts : list pty) (k : N) : option (val * list N) :=
    match ts with
    | [] => None
    | t1 :: ts' => if k =? 0 then dec t1 r else go ts' (k - 1)
    end.

Lemma encode_Vec : forall t' vs, encode (Vec t') (VVec vs) =
  match enc_uint 8 (len vs), enc_list (encode t') vs with Some l, Some b => Some (l ++ b) | _, _ => None end.
Proof. reflexivity. Qed.
Lemma encode_Tup : forall ts vs, encode (Tup ts) (VTup vs) = enc_tup encode ts vs.
Proof. reflexivity. Qed.
Lemma encode_Enum : forall ts tag v', encode (Enum ts) (VEnum tag v') =
  match enc_uint 4 tag, enc_pick encode v' ts tag with Some l, Some b => Some (l ++ b) | _, _ => None end.
Proof. reflexivity. Qed.
Lemma decode_Vec : forall t' bs, decode (Vec t') bs =
  match dec_le 8 bs with
  | Some (n, r) => match dec_list (decode t') (N.to_nat n) r with Some (vs, r') => Some (VVec vs, r') | None => None end
  | None => None end.
Proof. reflexivity. Qed.
Lemma decode_Tup : forall ts bs, decode (Tup ts) bs =
  match dec_tup decode ts bs with Some (vs, r) => Some (VTup vs, r) | None => None end.
Proof. reflexivity. Qed.
Lemma decode_Enum : forall ts bs, decode (Enum ts) bs =
  match dec_le 4 bs with
  | Some (tag, r) => match dec_pick decode r ts tag with Some (v, r') => Some (VEnum tag v, r') | None => None end
  | None => None end.
Proof. reflexivity. Qed.

(* ------------------------------------------------------------------ integers *)
Lemma pow256_succ : forall k, 256 ^ N.of_nat (S k) = 256 * 256 ^ N.of_nat k.
Proof. intro k. rewrite Nat2N.inj_succ, N.pow_succ_r'; auto. Qed.

Lemma dec_enc_le : forall k n rest, n < 256 ^ N.of_nat k -> dec_le k (enc_le k n ++ rest) = Some (n, rest).
Proof.
  induction k as [|k IH]; intros n rest H.
  - cbn in *. change (256 ^ 0) with 1 in H. f_equal. f_equal. lia.
  - cbn [enc_le dec_le app]. rewrite pow256_succ in H.
    assert (n / 256 < 256 ^ N.of_nat k) as Hd by (apply N.div_lt_upper_bound; lia).
    rewrite (IH _ rest Hd). f_equal. f_equal.
    pose proof (N.div_mod' n 256). lia.
Qed.

Arguments enc_le : simpl never.
Arguments dec_le : simpl never.

Lemma enc_uint_some : forall k n l, enc_uint k n = Some l -> l = enc_le k n /\ n < 256 ^ N.of_nat k.
Proof.
  intros k n l; unfold enc_uint. destruct (n <? 256 ^ N.of_nat k) eqn:E; [|discriminate].
  intro H; inversion H; split; auto. lia.
Qed.

Lemma dec_enc_uint : forall k n l rest, enc_uint k n = Some l -> dec_le k (l ++ rest) = Some (n, rest).
Proof. intros k n l rest H. apply enc_uint_some in H. destruct H as [-> H]. apply dec_enc_le; auto. Qed.

Lemma firstn_len_app : forall A (a b : list A), firstn (length a) (a ++ b) = a.
Proof. induction a; cbn; intros; f_equal; auto. Qed.
Lemma skipn_len_app : forall A (a b : list A), skipn (length a) (a ++ b) = b.
Proof. induction a; cbn; intros; auto. Qed.

Lemma to_nat_len : forall A (l : list A), N.to_nat (len l) = length l.
Proof. intros; unfold len; apply Nat2N.id. Qed.

(* ------------------------------------------------------------------ the round trip *)
Definition RT (t : pty) : Prop :=
  forall v bs rest, encode t v = Some bs -> decode t (bs ++ rest) = Some (v, rest).

Lemma rt_list : forall f g, (forall v bs rest, f v = Some bs -> g (bs ++ rest) = Some (v, rest)) ->
  forall vs b rest, enc_list f vs = Some b -> dec_list g (length vs) (b ++ rest) = Some (vs, rest).
Proof.
  intros f g H; induction vs as [|v1 r IH]; intros b rest E; cbn [enc_list dec_list length] in *.
  - inversion E; subst; auto.
  - destruct (f v1) as [a|] eqn:E1; [|discriminate].
    destruct (enc_list f r) as [b'|] eqn:E2; [|discriminate].
    inversion E; subst; clear E. rewrite <- app_assoc. rewrite (H _ _ _ E1). rewrite (IH _ _ eq_refl). auto.
Qed.

Lemma rt_tup : forall ts, Forall RT ts ->
  forall vs b rest, enc_tup encode ts vs = Some b -> dec_tup decode ts (b ++ rest) = Some (vs, rest).
Proof.
  induction 1 as [|t1 ts H1 HF IH]; intros vs b rest E; destruct vs as [|v1 vs']; cbn [enc_tup dec_tup] in *;
    try discriminate.
  - inversion E; subst; auto.
  - destruct (encode t1 v1) as [a|] eqn:E1; [|discriminate].
    destruct (enc_tup encode ts vs') as [b'|] eqn:E2; [|discriminate].
    inversion E; subst; clear E. rewrite <- app_assoc. rewrite (H1 _ _ _ E1). rewrite (IH _ _ _ E2). auto.
Qed.

Lemma rt_pick : forall ts, Forall RT ts ->
  forall v' k b rest, enc_pick encode v' ts k = Some b -> dec_pick decode (b ++ rest) ts k = Some (v', rest).
Proof.
  induction 1 as [|t1 ts H1 HF IH]; intros v' k b rest E; cbn [enc_pick dec_pick] in *; [discriminate|].
  destruct (k =? 0); auto.
Qed.

Lemma i64_roundtrip : forall z, (- two63 <= z < two63)%Z ->
  let n := Z.to_N (z mod two64) in
  n < 256 ^ N.of_nat 8 /\ (if (Z.of_N n <? two63)%Z then Z.of_N n else (Z.of_N n - two64)%Z) = z.
Proof.
  intros z H n. subst n. unfold two63, two64 in *.
  change (256 ^ N.of_nat 8) with 18446744073709551616.
  destruct (Z_lt_le_dec z 0) as [Hn|Hp].
  - assert (z mod 18446744073709551616 = z + 18446744073709551616)%Z as ->.
    { rewrite <- (Z_mod_plus_full z 1 18446744073709551616). rewrite Z.mod_small; lia. }
    split; [lia|]. destruct (Z.ltb_spec (Z.of_N (Z.to_N (z + 18446744073709551616))) 9223372036854775808); lia.
  - rewrite Z.mod_small by lia. split; [lia|].
    destruct (Z.ltb_spec (Z.of_N (Z.to_N z)) 9223372036854775808); lia.
Qed.

Theorem roundtrip : forall t, RT t.
Proof.
  induction t using pty_ind'; intros v bs rest E.
  - destruct v; cbn [encode] in E; try discriminate. cbn [decode]. rewrite (dec_enc_uint _ _ _ _ E); auto.
  - destruct v; cbn [encode] in E; try discriminate. cbn [decode]. rewrite (dec_enc_uint _ _ _ _ E); auto.
  - destruct v; cbn [encode] in E; try discriminate. cbn [decode]. rewrite (dec_enc_uint _ _ _ _ E); auto.
  - destruct v; cbn [encode] in E; try discriminate. cbn [decode]. rewrite (dec_enc_uint _ _ _ _ E); auto.
  - (* I64 *)
    destruct v; cbn [encode] in E; try discriminate.
    destruct ((- two63 <=? z)%Z && (z <? two63)%Z) eqn:G; [|discriminate]. inversion E; subst; clear E.
    assert (- two63 <= z < two63)%Z as Hz by lia.
    destruct (i64_roundtrip z Hz) as [H1 H2]. cbn [decode]. rewrite (dec_enc_le 8 _ rest H1).
    rewrite H2; auto.
  - (* bool *)
    destruct v; cbn [encode] in E; try discriminate. inversion E; subst. destruct b; reflexivity.
  - (* string *)
    destruct v; cbn [encode] in E; try discriminate.
    destruct (forallb (fun b => b <? 256) bytes); [|discriminate].
    destruct (enc_uint 8 (len bytes)) as [l|] eqn:El; [|discriminate]. inversion E; subst; clear E.
    cbn [decode]. rewrite <- app_assoc. rewrite (dec_enc_uint _ _ _ _ El).
    assert (len bytes <=? len (bytes ++ rest) = true) as ->.
    { unfold len. rewrite app_length. lia. }
    rewrite to_nat_len, firstn_len_app, skipn_len_app; auto.
  - (* option *)
    destruct v; cbn [encode] in E; try discriminate.
    + inversion E; subst; reflexivity.
    + destruct (encode t v) as [b|] eqn:E1; [|discriminate]. inversion E; subst; clear E.
      cbn [decode app]. rewrite (IHt _ _ _ E1); auto.
  - (* vec *)
    destruct v; try (cbn [encode] in E; discriminate). rewrite encode_Vec in E.
    destruct (enc_uint 8 (len l)) as [lb|] eqn:El; [|discriminate].
    destruct (enc_list (encode t) l) as [b|] eqn:Eb; [|discriminate]. inversion E; subst; clear E.
    rewrite decode_Vec, <- app_assoc, (dec_enc_uint _ _ _ _ El), to_nat_len.
    rewrite (rt_list (encode t) (decode t) IHt _ _ _ Eb); auto.
  - (* tuple *)
    destruct v; try (cbn [encode] in E; discriminate). rewrite encode_Tup in E.
    rewrite decode_Tup, (rt_tup ts H _ _ _ E); auto.
  - (* enum *)
    destruct v; try (cbn [encode] in E; discriminate). rewrite encode_Enum in E.
    destruct (enc_uint 4 tag) as [lb|] eqn:El; [|discriminate].
    destruct (enc_pick encode v ts tag) as [b|] eqn:Eb; [|discriminate]. inversion E; subst; clear E.
    rewrite decode_Enum, <- app_assoc, (dec_enc_uint _ _ _ _ El).
    rewrite (rt_pick ts H _ _ _ _ Eb); auto.
Qed.

(* plain round trip *)
Corollary decode_encode : forall t v bs, encode t v = Some bs -> decode t bs = Some (v, []).
Proof. intros t v bs E. rewrite <- (app_nil_r bs). apply roundtrip; auto. Qed.

(* prefix-freeness: two encodings of one type followed by anything coincide only if the values
   and the continuations coincide *)
Corollary prefix_free : forall t v1 v2 b1 b2 r1 r2,
  encode t v1 = Some b1 -> encode t v2 = Some b2 -> b1 ++ r1 = b2 ++ r2 -> v1 = v2 /\ b1 = b2 /\ r1 = r2.
Proof.
  intros t v1 v2 b1 b2 r1 r2 E1 E2 H.
  pose proof (roundtrip t v1 b1 r1 E1) as D1. pose proof (roundtrip t v2 b2 r2 E2) as D2.
  rewrite H in D1. rewrite D1 in D2. inversion D2; subst. repeat split; auto. congruence.
Qed.

(* concatenated frames decode back frame by frame *)
Corollary frames_do_not_bleed : forall t vs bs rest,
  encode_all t vs = Some bs -> decode_n t (length vs) (bs ++ rest) = Some (vs, rest).
Proof.
  induction vs as [|v r IH]; intros bs rest E; cbn [encode_all decode_n length] in *.
  - inversion E; subst; auto.
  - destruct (encode t v) as [a|] eqn:E1; [|discriminate].
    destruct (encode_all t r) as [b|] eqn:E2; [|discriminate]. inversion E; subst; clear E.
    rewrite <- app_assoc, (roundtrip t _ _ _ E1), (IH _ _ eq_refl); auto.
Qed.

(* ------------------------------------------------------------------ member ids *)
Theorem tagless_roundtrip : forall m, from_tagless (into_tagless m) = m.
Proof. intros [i]; reflexivity. Qed.

Theorem tagless_roundtrip' : forall t, into_tagless (from_tagless t) = t.
Proof. reflexivity. Qed.

Lemma bytes_eqb_spec : forall a b, bytes_eqb a b = true <-> a = b.
Proof.
  induction a as [|x a IH]; destruct b as [|y b]; cbn; split; intro H; try discriminate; auto.
  - apply andb_prop in H. destruct H as [H1 H2]. apply IH in H2. f_equal; auto. lia.
  - inversion H; subst. rewrite N.eqb_refl. cbn. apply IH; auto.
Qed.

Lemma tagless_eqb_spec : forall a b, tagless_eqb a b = true <-> a = b.
Proof.
  intros [x|x|x] [y|y|y]; cbn; split; intro H; try discriminate; try (inversion H; subst).
  - f_equal; lia.
  - apply N.eqb_refl.
  - f_equal; apply bytes_eqb_spec; auto.
  - apply bytes_eqb_spec; auto.
  - f_equal; apply bytes_eqb_spec; auto.
  - apply bytes_eqb_spec; auto.
Qed.

(* the wire form of a Legacy member id round-trips too *)
Lemma member_val_roundtrip : forall raw bs, encode member_pty (member_val raw) = Some bs ->
  decode member_pty bs = Some (member_val raw, []).
Proof. intros; apply decode_encode; auto. Qed.

(* ------------------------------------------------------------------ demux routing *)
Section DemuxProofs.
  Variables (K I : Type) (keqb : K -> K -> bool).
  Hypothesis keqb_spec : forall a b, keqb a b = true <-> a = b.

  Lemma keqb_refl : forall a, keqb a a = true.
  Proof. intro a; apply keqb_spec; auto. Qed.

  Lemma start_send_queue : forall (s s' : sinks K I) k2 x, start_send keqb s k2 x = Some s' ->
    forall k, queue_of keqb s' k =
              if keqb k k2 then option_map (fun q => q ++ [x]) (queue_of keqb s k) else queue_of keqb s k.
  Proof.
    induction s as [|[k' q] r IH]; intros s' k2 x H k; cbn [start_send queue_of] in *; [discriminate|].
    destruct (keqb k2 k') eqn:E2.
    - inversion H; subst; clear H. apply keqb_spec in E2; subst k'. cbn [queue_of].
      destruct (keqb k k2); auto.
    - destruct (start_send keqb r k2 x) as [r'|] eqn:Er; [|discriminate]. inversion H; subst; clear H.
      cbn [queue_of]. destruct (keqb k k') eqn:E1.
      + destruct (keqb k k2) eqn:E3; auto. apply keqb_spec in E1, E3. subst. rewrite keqb_refl in E2. discriminate.
      + apply IH; auto.
  Qed.

  Lemma start_send_present : forall (s : sinks K I) k x,
    queue_of keqb s k <> None -> start_send keqb s k x <> None.
  Proof.
    induction s as [|[k' q] r IH]; intros k x H; cbn [start_send queue_of] in *; [congruence|].
    destruct (keqb k k'); [discriminate|]. specialize (IH k x H).
    destruct (start_send keqb r k x); congruence.
  Qed.

  (* demux_map routing: after sending `items`, the queue of every key k holds what it held before
     followed by exactly the items addressed to k, in order; nothing else changes *)
  Theorem send_all_queues : forall items (s s' : sinks K I), send_all keqb s items = Some s' ->
    forall k, queue_of keqb s' k = option_map (fun q => q ++ addressed_to keqb k items) (queue_of keqb s k).
  Proof.
    induction items as [|[k2 x] r IH]; intros s s' H k; cbn [send_all] in H.
    - inversion H; subst. unfold addressed_to; cbn. destruct (queue_of keqb s' k); cbn; auto.
      rewrite app_nil_r; auto.
    - destruct (start_send keqb s k2 x) as [s1|] eqn:E1; [|discriminate].
      rewrite (IH _ _ H k), (start_send_queue _ _ _ _ E1 k).
      unfold addressed_to; cbn [filter fst]. destruct (keqb k k2); cbn [map snd]; auto.
      destruct (queue_of keqb s k); cbn; auto. rewrite <- app_assoc; auto.
  Qed.

  Theorem send_all_succeeds : forall items (s : sinks K I),
    (forall it, In it items -> queue_of keqb s (fst it) <> None) -> send_all keqb s items <> None.
  Proof.
    induction items as [|[k2 x] r IH]; intros s H; cbn [send_all]; [discriminate|].
    destruct (start_send keqb s k2 x) as [s1|] eqn:E1.
    - apply IH. intros it Hit. rewrite (start_send_queue _ _ _ _ E1).
      pose proof (H it (or_intror Hit)) as Hq.
      destruct (keqb (fst it) k2); auto. destruct (queue_of keqb s (fst it)); cbn; congruence.
    - exfalso. eapply start_send_present; [|exact E1]. apply (H (k2, x)). left; auto.
  Qed.
End DemuxProofs.

(* ------------------------------------------------------------------ end to end *)
Lemma queue_of_init : forall chans d, In d chans ->
  queue_of tagless_eqb (map (fun c => (c, @nil (list N))) chans) d = Some [].
Proof.
  induction chans as [|c r IH]; intros d H; [destruct H|]. cbn [map queue_of].
  destruct (tagless_eqb d c) eqn:E; auto. apply IH. destruct H as [->|H]; auto.
  exfalso. assert (tagless_eqb d d = true) by (apply tagless_eqb_spec; auto). congruence.
Qed.

Lemma map_opt_spec : forall A B (f : A -> option B) l l', map_opt f l = Some l' ->
  Forall2 (fun a b => f a = Some b) l l'.
Proof.
  induction l as [|a r IH]; intros l' H; cbn [map_opt] in H.
  - inversion H; constructor.
  - destruct (f a) eqn:E1; [|discriminate]. destruct (map_opt f r) eqn:E2; [|discriminate].
    inversion H; subst. constructor; auto.
Qed.

Lemma map_opt_total : forall A B (f : A -> option B) l, (forall a, In a l -> f a <> None) -> map_opt f l <> None.
Proof.
  induction l as [|a r IH]; intro H; cbn [map_opt]; [discriminate|].
  pose proof (H a (or_introl eq_refl)). destruct (f a); [|congruence].
  assert (map_opt f r <> None) by (apply IH; intros; apply H; right; auto).
  destruct (map_opt f r); congruence.
Qed.

(* every payload addressed to member d by `sender` arrives at d, exactly reconstructed, carrying
   the sender's member id, in order; payloads addressed to other members do not arrive at d *)
Theorem deliver_exact : forall t sender chans items d,
  (forall it, In it items -> encode t (snd it) <> None) ->
  (forall it, In it items -> In (into_tagless (fst it)) chans) ->
  In d chans ->
  deliver t sender chans items d =
  Some (map (fun it => (sender, snd it))
            (filter (fun it => tagless_eqb d (into_tagless (fst it))) items)).
Proof.
  intros t sender chans items d Henc Hch Hd. unfold deliver.
  destruct (map_opt (ser_demux t) items) as [wire|] eqn:Ew.
  2:{ exfalso. eapply map_opt_total; [|exact Ew]. intros a Ha. unfold ser_demux.
      specialize (Henc a Ha). destruct (encode t (snd a)); congruence. }
  pose proof (map_opt_spec _ _ _ _ _ Ew) as F2.
  assert (forall w, In w wire -> In (fst w) chans) as Hw.
  { clear - F2 Hch. induction F2 as [|a b l l' Hab F IH]; intros w Hin; [destruct Hin|].
    destruct Hin as [<-|Hin].
    - unfold ser_demux in Hab. destruct (encode t (snd a)); [|discriminate]. inversion Hab; subst. cbn.
      apply Hch; left; auto.
    - apply IH; auto. intros; apply Hch; right; auto. }
  destruct (send_all tagless_eqb (map (fun c => (c, [])) chans) wire) as [s|] eqn:Es.
  2:{ exfalso. eapply (send_all_succeeds _ _ tagless_eqb tagless_eqb_spec); [|exact Es].
      intros it Hit. rewrite queue_of_init; [discriminate|]. apply Hw; auto. }
  rewrite (send_all_queues _ _ tagless_eqb tagless_eqb_spec _ _ _ Es d), queue_of_init by auto.
  cbn [option_map app]. clear Es Hw s Hd Hch Ew.
  induction F2 as [|a b l l' Hab F IH]; [reflexivity|].
  unfold addressed_to in *. cbn [filter map].
  unfold ser_demux in Hab. destruct (encode t (snd a)) as [ba|] eqn:Ea; [|discriminate].
  inversion Hab; subst b; clear Hab. cbn [fst snd].
  assert (map_opt (fun b => deser_tagged t (into_tagless sender, b))
            (map snd (filter (fun it => tagless_eqb d (fst it)) l')) =
          Some (map (fun it => (sender, snd it))
                    (filter (fun it => tagless_eqb d (into_tagless (fst it))) l))) as IH'.
  { apply IH. intros; apply Henc; right; auto. }
  destruct (tagless_eqb d (into_tagless (fst a))); cbn [map snd map_opt]; auto.
  rewrite IH'. unfold deser_tagged at 1. cbn [snd fst].
  rewrite (decode_encode _ _ _ Ea). rewrite tagless_roundtrip. destruct a; auto.
Qed.
