(* E11 Codec -- model of the bincode 1.x wire format with default options as used by
   hydro_lang's generated networking code (`bincode::serialize` / `bincode::deserialize`):
   little-endian fixed-width integers, u64 lengths, u32 enum variant tags, u8 option tags,
   u8 bools, structs/tuples as the concatenation of their fields; plus the tagless member-id
   conversion and `sinktools::demux_map` routing.  Definitions only.

   serde and bincode themselves are MODELLED here, not verified: the theorems are about this
   model of the wire format, which the correspondence check validates byte for byte against the
   real crates on generated values. *)
From Coq Require Export List NArith ZArith Bool.
Export ListNotations.
Open Scope N_scope.

Inductive pty :=
| U8 | U16 | U32 | U64 | I64 | PBool | Str
| Opt (t : pty) | Vec (t : pty) | Tup (ts : list pty) | Enum (ts : list pty).

(* simply-typed value universe; `encode t v` is defined only when v has type t *)
Inductive val :=
| VN (n : N)                 (* u8/u16/u32/u64 (usize travels as u64) *)
| VZ (z : Z)                 (* i64 *)
| VB (b : bool)
| VS (bytes : list N)        (* String: its UTF-8 bytes *)
| VNone | VSome (v : val)
| VVec (l : list val)
| VTup (l : list val)        (* tuples and structs (field order) *)
| VEnum (tag : N) (v : val). (* variant index + payload (unit variants carry VTup []) *)

Definition len {A} (l : list A) : N := N.of_nat (length l).

(* k little-endian bytes *)
Fixpoint enc_le (k : nat) (n : N) : list N :=
  match k with O => [] | S k' => (n mod 256) :: enc_le k' (n / 256) end.

Fixpoint dec_le (k : nat) (bs : list N) : option (N * list N) :=
  match k with
  | O => Some (0, bs)
  | S k' =>
      match bs with
      | [] => None
      | b :: r => match dec_le k' r with Some (n, r') => Some (b + 256 * n, r') | None => None end
      end
  end.

Definition enc_uint (k : nat) (n : N) : option (list N) :=
  if n <? 256 ^ N.of_nat k then Some (enc_le k n) else None.

Definition two63 : Z := 9223372036854775808%Z.
Definition two64 : Z := 18446744073709551616%Z.

Fixpoint pick {A} (ts : list A) (k : N) : option A :=
  match ts with
  | [] => None
  | t :: r => if k =? 0 then Some t else pick r (k - 1)
  end.

Fixpoint encode (t : pty) (v : val) {struct t} : option (list N) :=
  match t, v with
  | U8, VN n => enc_uint 1 n
  | U16, VN n => enc_uint 2 n
  | U32, VN n => enc_uint 4 n
  | U64, VN n => enc_uint 8 n
  | I64, VZ z =>
      if ((- two63 <=? z) && (z <? two63))%Z then Some (enc_le 8 (Z.to_N (z mod two64))) else None
  | PBool, VB b => Some [if b then 1 else 0]
  | Str, VS bs =>
      if forallb (fun b => b <? 256) bs then
        match enc_uint 8 (len bs) with Some l => Some (l ++ bs) | None => None end
      else None
  | Opt _, VNone => Some [0]
  | Opt t', VSome v' => match encode t' v' with Some b => Some (1 :: b) | None => None end
  | Vec t', VVec vs =>
      match enc_uint 8 (len vs),
            (fix go (vs : list val) : option (list N) :=
               match vs with
               | [] => Some []
               | v1 :: r => match encode t' v1, go r with
                            | Some a, Some b => Some (a ++ b) | _, _ => None end
               end) vs with
      | Some l, Some b => Some (l ++ b)
      | _, _ => None
      end
  | Tup ts, VTup vs =>
      (fix go (ts : list pty) (vs : list val) : option (list N) :=
         match ts, vs with
         | [], [] => Some []
         | t1 :: ts', v1 :: vs' => match encode t1 v1, go ts' vs' with
                                   | Some a, Some b => Some (a ++ b) | _, _ => None end
         | _, _ => None
         end) ts vs
  | Enum ts, VEnum tag v' =>
      match enc_uint 4 tag,
            (fix go (ts : list pty) (k : N) : option (list N) :=
               match ts with
               | [] => None
               | t1 :: ts' => if k =? 0 then encode t1 v' else go ts' (k - 1)
               end) ts tag with
      | Some l, Some b => Some (l ++ b)
      | _, _ => None
      end
  | _, _ => None
  end.

Fixpoint decode (t : pty) (bs : list N) {struct t} : option (val * list N) :=
  match t with
  | U8 => match dec_le 1 bs with Some (n, r) => Some (VN n, r) | None => None end
  | U16 => match dec_le 2 bs with Some (n, r) => Some (VN n, r) | None => None end
  | U32 => match dec_le 4 bs with Some (n, r) => Some (VN n, r) | None => None end
  | U64 => match dec_le 8 bs with Some (n, r) => Some (VN n, r) | None => None end
  | I64 =>
      match dec_le 8 bs with
      | Some (n, r) =>
          Some (VZ (if (Z.of_N n <? two63)%Z then Z.of_N n else (Z.of_N n - two64)%Z), r)
      | None => None
      end
  | PBool =>
      match bs with
      | 0 :: r => Some (VB false, r)
      | 1 :: r => Some (VB true, r)
      | _ => None                                      (* bincode: invalid bool encoding *)
      end
  | Str =>
      match dec_le 8 bs with
      | Some (n, r) =>
          if n <=? len r then Some (VS (firstn (N.to_nat n) r), skipn (N.to_nat n) r) else None
      | None => None
      end
  | Opt t' =>
      match bs with
      | 0 :: r => Some (VNone, r)
      | 1 :: r => match decode t' r with Some (v, r') => Some (VSome v, r') | None => None end
      | _ => None                                      (* bincode: invalid option tag *)
      end
  | Vec t' =>
      match dec_le 8 bs with
      | Some (n, r) =>
          match (fix go (k : nat) (bs : list N) : option (list val * list N) :=
                   match k with
                   | O => Some ([], bs)
                   | S k' => match decode t' bs with
                             | Some (v, r1) => match go k' r1 with
                                               | Some (vs, r2) => Some (v :: vs, r2)
                                               | None => None end
                             | None => None
                             end
                   end) (N.to_nat n) r with
          | Some (vs, r') => Some (VVec vs, r')
          | None => None
          end
      | None => None
      end
  | Tup ts =>
      match (fix go (ts : list pty) (bs : list N) : option (list val * list N) :=
               match ts with
               | [] => Some ([], bs)
               | t1 :: ts' => match decode t1 bs with
                              | Some (v, r1) => match go ts' r1 with
                                                | Some (vs, r2) => Some (v :: vs, r2)
                                                | None => None end
                              | None => None
                              end
               end) ts bs with
      | Some (vs, r) => Some (VTup vs, r)
      | None => None
      end
  | Enum ts =>
      match dec_le 4 bs with
      | Some (tag, r) =>
          match (fix go (ts : list pty) (k : N) : option (val * list N) :=
                   match ts with
                   | [] => None                        (* serde: unknown variant index *)
                   | t1 :: ts' => if k =? 0 then decode t1 r else go ts' (k - 1)
                   end) ts tag with
          | Some (v, r') => Some (VEnum tag v, r')
          | None => None
          end
      | None => None
      end
  end.

(* a stream of frames of one type, as produced by consecutive sends on one channel *)
Fixpoint encode_all (t : pty) (vs : list val) : option (list N) :=
  match vs with
  | [] => Some []
  | v :: r => match encode t v, encode_all t r with Some a, Some b => Some (a ++ b) | _, _ => None end
  end.

Fixpoint decode_n (t : pty) (k : nat) (bs : list N) : option (list val * list N) :=
  match k with
  | O => Some ([], bs)
  | S k' => match decode t bs with
            | Some (v, r) => match decode_n t k' r with
                             | Some (vs, r') => Some (v :: vs, r')
                             | None => None end
            | None => None
            end
  end.

(* ------------------------------------------------------------------ decidable equality of values *)
Fixpoint val_eqb (a b : val) {struct a} : bool :=
  match a, b with
  | VN x, VN y => x =? y
  | VZ x, VZ y => (x =? y)%Z
  | VB x, VB y => Bool.eqb x y
  | VS x, VS y => (fix go (x y : list N) := match x, y with
                                            | [], [] => true
                                            | p :: x', q :: y' => (p =? q) && go x' y'
                                            | _, _ => false end) x y
  | VNone, VNone => true
  | VSome x, VSome y => val_eqb x y
  | VVec x, VVec y | VTup x, VTup y =>
      (fix go (x y : list val) := match x, y with
                                  | [], [] => true
                                  | p :: x', q :: y' => val_eqb p q && go x' y'
                                  | _, _ => false end) x y
  | VEnum t x, VEnum u y => (t =? u) && val_eqb x y
  | _, _ => false
  end.

Fixpoint bytes_eqb (a b : list N) : bool :=
  match a, b with
  | [], [] => true
  | x :: a', y :: b' => (x =? y) && bytes_eqb a' b'
  | _, _ => false
  end.

(* ------------------------------------------------------------------ member ids *)

(* hydro_lang/src/location/member_id.rs *)
Inductive tagless :=
| Legacy (raw_id : N)
| Docker (container_name : list N)
| Maelstrom (node_id : list N).

Record member_id := mkMember { m_inner : tagless }.      (* MemberId<Tag> { inner, _phantom } *)

Definition into_tagless (m : member_id) : tagless := m_inner m.
Definition from_tagless (t : tagless) : member_id := mkMember t.
Definition from_raw_id (n : N) : member_id := mkMember (Legacy n).

Definition tagless_eqb (a b : tagless) : bool :=
  match a, b with
  | Legacy x, Legacy y => x =? y
  | Docker x, Docker y | Maelstrom x, Maelstrom y => bytes_eqb x y
  | _, _ => false
  end.

(* wire type of TaglessMemberId as serde derives it when only `Legacy` is compiled in (the
   variant set depends on cargo features): enum { Legacy { raw_id: u32 } } *)
Definition member_pty : pty := Enum [Tup [U32]].
Definition member_val (raw : N) : val := VEnum 0 (VTup [VN raw]).

(* ------------------------------------------------------------------ sinktools::demux_map *)

Section Demux.
  Variables (K I : Type) (keqb : K -> K -> bool).

  (* HashMap<Key, Sink>; a sink is the queue of items it has been sent, oldest first *)
  Definition sinks := list (K * list I).

  Fixpoint queue_of (s : sinks) (k : K) : option (list I) :=
    match s with
    | [] => None
    | (k', q) :: r => if keqb k k' then Some q else queue_of r k
    end.

  (* DemuxMap::start_send; None = panic "`DemuxMap` missing key" *)
  Fixpoint start_send (s : sinks) (k : K) (x : I) : option sinks :=
    match s with
    | [] => None
    | (k', q) :: r =>
        if keqb k k' then Some ((k', q ++ [x]) :: r)
        else match start_send r k x with Some r' => Some ((k', q) :: r') | None => None end
    end.

  Fixpoint send_all (s : sinks) (items : list (K * I)) : option sinks :=
    match items with
    | [] => Some s
    | (k, x) :: r => match start_send s k x with Some s' => send_all s' r | None => None end
    end.

  Definition addressed_to (k : K) (items : list (K * I)) : list I :=
    map snd (filter (fun it => keqb k (fst it)) items).
End Demux.

Arguments queue_of {K I}.
Arguments start_send {K I}.
Arguments send_all {K I}.
Arguments addressed_to {K I}.


(* ------------------------------------------------------------------ demux_map under back-pressure *)

(* A member sink with a one-slot mailbox and a scripted readiness: `poll_ready` answers the next
   script entry (Ready once the script is exhausted); a Ready answer means the receiver has taken
   the mailbox content; `start_send` into an occupied mailbox overwrites (loses) the old message. *)
Record msink := mkMS { ms_script : list bool; ms_slot : option N; ms_got : list N; ms_lost : N }.

Definition ms_take (s : msink) : msink :=
  match ms_slot s with
  | Some x => mkMS (ms_script s) None (ms_got s ++ [x]) (ms_lost s)
  | None => s
  end.

Definition ms_poll (s : msink) : msink * bool :=
  match ms_script s with
  | [] => (ms_take s, true)
  | true :: r => (ms_take (mkMS r (ms_slot s) (ms_got s) (ms_lost s)), true)
  | false :: r => (mkMS r (ms_slot s) (ms_got s) (ms_lost s), false)
  end.

Definition ms_send (s : msink) (x : N) : msink :=
  mkMS (ms_script s) (Some x) (ms_got s) (match ms_slot s with Some _ => ms_lost s + 1 | None => ms_lost s end).

Definition dstate := list (N * msink).

(* DemuxMap::poll_ready: every member sink is polled; Ready only if ALL of them are ready *)
Definition demux_poll (d : dstate) : dstate * bool :=
  (map (fun km => (fst km, fst (ms_poll (snd km)))) d,
   forallb (fun km => snd (ms_poll (snd km))) d).

(* a sender that follows the Sink contract: poll_ready until Ready (at most `fuel` polls) *)
Fixpoint wait_ready (fuel : nat) (d : dstate) : option dstate :=
  match fuel with
  | O => None
  | S f => let '(d', r) := demux_poll d in if r then Some d' else wait_ready f d'
  end.

Fixpoint d_send (d : dstate) (k x : N) : option dstate :=
  match d with
  | [] => None
  | (k', s) :: r =>
      if k =? k' then Some ((k', ms_send s x) :: r)
      else match d_send r k x with Some r' => Some ((k', s) :: r') | None => None end
  end.

Fixpoint bp_run (fuel : nat) (d : dstate) (items : list (N * N)) : option dstate :=
  match items with
  | [] => Some (map (fun km => (fst km, ms_take (snd km))) d)          (* poll_flush *)
  | (k, x) :: r =>
      match wait_ready fuel d with
      | None => None
      | Some d1 => match d_send d1 k x with Some d2 => bp_run fuel d2 r | None => None end
      end
  end.

Fixpoint d_get (d : dstate) (k : N) : option msink :=
  match d with [] => None | (k', s) :: r => if k =? k' then Some s else d_get r k end.

(* ------------------------------------------------------------------ the generated closures *)

(* serialize_bincode_with_type(is_demux = true):
     |(id, data)| (id.into_tagless(), bincode::serialize(&data).unwrap().into())          *)
Definition ser_demux (t : pty) (x : member_id * val) : option (tagless * list N) :=
  match encode t (snd x) with Some b => Some (into_tagless (fst x), b) | None => None end.

(* deserialize_bincode_with_type(tagged = Some(..)):
     |res| { let (id, b) = res.unwrap(); (MemberId::from_tagless(id), bincode::deserialize::<T>(&b).unwrap()) }
   bincode::deserialize allows trailing bytes; None = the unwrap panics *)
Definition deser_tagged (t : pty) (x : tagless * list N) : option (member_id * val) :=
  match decode t (snd x) with Some (v, _) => Some (from_tagless (fst x), v) | None => None end.

Fixpoint map_opt {A B} (f : A -> option B) (l : list A) : option (list B) :=
  match l with
  | [] => Some []
  | a :: r => match f a, map_opt f r with Some b, Some bs => Some (b :: bs) | _, _ => None end
  end.

(* one sender's cluster-addressed stream: serialize, demux by destination onto the per-member
   channels; the channel to member d delivers each frame tagged with the SENDER's id, and d's
   receive closure rebuilds (sender, value).  `chans` = the destinations with an open channel. *)
Definition deliver (t : pty) (sender : member_id) (chans : list tagless)
           (items : list (member_id * val)) (d : tagless) : option (list (member_id * val)) :=
  match map_opt (ser_demux t) items with
  | None => None
  | Some wire =>
      match send_all tagless_eqb (map (fun c => (c, [])) chans) wire with
      | None => None
      | Some s =>
          match queue_of tagless_eqb s d with
          | None => None
          | Some q => map_opt (fun b => deser_tagged t (into_tagless sender, b)) q
          end
      end
  end.

Definition bad (vs : list N) : list (N * N) :=
  filter (fun p => negb (snd p =? 0)) (combine (map N.of_nat (seq 0 (length vs))) vs).
