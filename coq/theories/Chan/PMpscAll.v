(* Engine Chan: since the repair 904d17adb85 (wake every registered sender on recv) no sender is
   ever stranded -- for EVERY executor policy (spurious polls, cancelled senders), any number of
   outstanding sends per task, any capacity, all label sequences. *)
From Coq Require Import List Arith Bool NArith Lia.
From HV Require Import Chan.ModelMpsc Chan.PMpscLive.
Import ListNotations.

Record FInv (s : state) : Prop := mkFInv {
  f_wait : forall t, t < ntasks s -> waiting (tasks s t) = true -> In t (sw s);
  f_full : sw s <> [] -> rx s = RxOpen /\ full (cap s) (buf s) = true
}.

(* one send poll keeps: registered => open and full *)
Lemma poll_sends_finv : forall c r t xs ch rem os ws ch',
  poll_sends c r t xs ch = (rem, os, ws, ch') ->
  (c_sw ch <> [] -> r = RxOpen /\ full c (c_buf ch) = true) ->
  (c_sw ch' <> [] -> r = RxOpen /\ full c (c_buf ch') = true) /\
  (forall u, In u (c_sw ch) -> In u (c_sw ch')) /\
  (rem <> [] -> In t (c_sw ch')) /\
  (forall w, In w ws -> w = WRecv).
Proof.
  intros c r t xs. induction xs as [|x xs IH]; intros ch rem os ws ch' E H; cbn in E.
  - inversion E; subst. split; [exact H|]. split; [auto|]. split; [intro K; contradiction|intros w []].
  - destruct (send1 c r t x ch) as [[[pend o1] w1] ch1] eqn:S1.
    destruct (poll_sends c r t xs ch1) as [[[rem2 os2] ws2] ch2] eqn:P2.
    inversion E; subst; clear E.
    unfold send1 in S1.
    assert (H1 : (c_sw ch1 <> [] -> r = RxOpen /\ full c (c_buf ch1) = true) /\
                 (forall u, In u (c_sw ch) -> In u (c_sw ch1)) /\
                 (pend = true -> In t (c_sw ch1)) /\ (forall w, In w w1 -> w = WRecv)).
    { destruct r.
      - destruct (full c (c_buf ch)) eqn:Fu.
        + inversion S1; subst; cbn. split; [intros _; split; [reflexivity|exact Fu]|].
          split; [intros u Hu; right; exact Hu|]. split; [intros _; left; reflexivity|intros w []].
        + inversion S1; subst; cbn. split.
          * intros K. destruct (H K) as [_ F]. congruence.
          * split; [auto|]. split; [discriminate|]. intros w Hw. destruct (c_rw ch); [destruct Hw as [<-|[]]; reflexivity|destruct Hw].
      - inversion S1; subst. split; [exact H|]. split; [auto|]. split; [discriminate|intros w []].
      - inversion S1; subst. split; [exact H|]. split; [auto|]. split; [discriminate|intros w []]. }
    destruct H1 as [A1 [B1 [C1 D1]]].
    destruct (IH _ _ _ _ _ P2 A1) as [A2 [B2 [C2 D2]]].
    split; [exact A2|]. split; [intros u Hu; apply B2; apply B1; exact Hu|]. split.
    + intros K. destruct pend.
      * apply B2. apply C1. reflexivity.
      * apply C2. exact K.
    + intros w Hw. apply in_app_or in Hw. destruct Hw as [Hw|Hw]; [apply D1|apply D2]; exact Hw.
Qed.

Lemma done_not_waiting : forall tk1,
  waiting (mkTask (cur tk1) (rest tk1) true (negb (finished tk1))) = false.
Proof.
  intros tk1. unfold waiting, finished. cbn. destruct (cur tk1); destruct (rest tk1); reflexivity.
Qed.

Lemma wake_tasks_wrecv_only : forall ws f i, (forall w, In w ws -> w = WRecv) -> wake_tasks ws f i = f i.
Proof.
  intros ws f i H. unfold wake_tasks.
  destruct (existsb (is_wsend i) ws) eqn:E; [|reflexivity].
  apply existsb_exists in E. destruct E as [w [Hw Ew]]. rewrite (H w Hw) in Ew. discriminate.
Qed.

Lemma finv_closed : forall s r', FInv s -> r' <> RxOpen ->
  FInv (mkState (buf s) (cap s) [] false r' (rx_woken s) (rx_done s) (ntasks s)
          (wake_tasks (map WSend (rev (sw s))) (tasks s)) (sent s) (recvd s)).
Proof.
  intros s r' I NR. constructor; cbn.
  - intros u Hu W. destruct (in_dec Nat.eq_dec u (rev (sw s))) as [H|H].
    + rewrite wake_all_in, waiting_set_woken in W by assumption. discriminate.
    + rewrite wake_all_notin in W by assumption. exfalso. apply H. apply in_rev.
      rewrite rev_involutive. apply (f_wait s I); assumption.
  - intros H. contradiction.
Qed.

Lemma pollrx_empty : forall p s s' o, step p s PollRx = Some (s', o) -> buf s = [] ->
  sw s' = sw s /\ tasks s' = tasks s /\ buf s' = [] /\ cap s' = cap s /\ rx s' = rx s /\
  ntasks s' = ntasks s.
Proof.
  intros p s s' o St Bf. cbn [step] in St. rewrite Bf in St.
  destruct (rx_alive s && (spurious p || rx_woken s && negb (rx_done s))); [|discriminate].
  destruct (Nat.eqb _ 0); inversion St; subst; cbn; repeat split; reflexivity.
Qed.

Lemma finv_step : forall p s l s' o, FInv s -> step p s l = Some (s', o) -> FInv s'.
Proof.
  intros p s l s' o I St. destruct l.
  - (* Poll *)
    cbn [step] in St.
    destruct (Nat.ltb t (ntasks s)) eqn:Lt; [|discriminate]. apply Nat.ltb_lt in Lt.
    destruct (_ && _) in St; [|discriminate].
    destruct (poll_sends _ _ _ _ _) as [[[rem os] ws] ch] eqn:PS.
    inversion St; subst; clear St.
    destruct (poll_sends_finv _ _ _ _ _ _ _ _ _ PS (f_full s I)) as [A [B [C D]]]. cbn in A, B, C.
    constructor; cbn.
    + intros u Hu W. destruct (Nat.eq_dec u t) as [->|Ne].
      * rewrite upd_same in W.
        destruct rem as [|x rem'].
        -- (* stage complete: the task is runnable or finished *)
           rewrite done_not_waiting in W. discriminate.
        -- apply C. discriminate.
      * rewrite upd_other in W by assumption. apply B. apply (f_wait s I); assumption.
    + exact A.
  - (* PollRx *)
    destruct (buf s) as [|v b'] eqn:Bf.
    + destruct (pollrx_empty _ _ _ _ St Bf) as (E1 & E2 & E3 & E4 & E5 & E6).
      constructor.
      * rewrite E1, E2, E6. apply (f_wait s I).
      * rewrite E1, E3, E4, E5. intros H. destruct (f_full s I H) as [X Y]. split; [exact X|].
        rewrite Bf in Y. exact Y.
    + cbn [step] in St. rewrite Bf in St. destruct (_ && _) in St; [|discriminate].
      inversion St; subst; clear St. constructor; cbn.
      * intros u Hu W. destruct (in_dec Nat.eq_dec u (rev (sw s))) as [H|H].
        -- rewrite wake_all_in, waiting_set_woken in W by assumption. discriminate.
        -- rewrite wake_all_notin in W by assumption. exfalso. apply H. apply in_rev.
           rewrite rev_involutive. apply (f_wait s I); assumption.
      * intros H. contradiction.
  - (* DropSender *)
    cbn [step] in St.
    destruct (Nat.ltb t (ntasks s)) eqn:Lt; [|discriminate].
    destruct (_ && _) in St; [|discriminate]. inversion St; subst; clear St.
    constructor; cbn.
    + intros u Hu W. destruct (Nat.eq_dec u t) as [->|Ne].
      * rewrite upd_same in W. discriminate.
      * rewrite upd_other in W by assumption. apply (f_wait s I); assumption.
    + intros H. destruct (f_full s I H) as [X Y]. rewrite X. split; [reflexivity|exact Y].
  - (* CloseSender *)
    cbn [step] in St.
    destruct (_ && _) in St; [|discriminate]. inversion St; subst; clear St.
    constructor; cbn.
    + intros u Hu W. destruct (Nat.eq_dec u t) as [->|Ne].
      * rewrite upd_same in W. discriminate.
      * rewrite upd_other in W by assumption. apply (f_wait s I); assumption.
    + intros H. destruct (f_full s I H) as [X Y]. rewrite X. split; [reflexivity|exact Y].
  - (* TrySend *)
    cbn [step] in St. destruct (_ && _) in St; [|discriminate].
    destruct (rx s) eqn:RX; [destruct (full (cap s) (buf s)) eqn:Fu|..]; inversion St; subst; clear St;
      try exact I.
    constructor; cbn.
    + apply (f_wait s I).
    + intros H. destruct (f_full s I H) as [_ Y]. congruence.
  - (* CloneSender *)
    cbn [step] in St. destruct (_ && _) in St; [|discriminate]. inversion St; subst; clear St.
    constructor; cbn.
    + intros u Hu W. destruct (Nat.eq_dec u (ntasks s)) as [->|Ne].
      * rewrite upd_same in W. unfold waiting, init_task, advance in W. cbn in W.
        destruct prog; cbn in W; discriminate.
      * rewrite upd_other in W by assumption. apply (f_wait s I); [lia|exact W].
    + apply (f_full s I).
  - (* CancelSend *)
    cbn [step] in St. destruct (_ && _) in St; [|discriminate]. inversion St; subst; clear St.
    constructor; cbn.
    + intros u Hu W. destruct (Nat.eq_dec u t) as [->|Ne].
      * rewrite upd_same, done_not_waiting in W. discriminate.
      * rewrite upd_other in W by assumption. apply (f_wait s I); assumption.
    + apply (f_full s I).
  - cbn [step] in St. destruct (rx s) eqn:RX; try discriminate. destruct (_ || _) in St; [|discriminate].
    inversion St; subst. apply finv_closed; [exact I|discriminate].
  - cbn [step] in St. destruct (rx s) eqn:RX; try discriminate; inversion St; subst;
      (apply finv_closed; [exact I|discriminate]).
Qed.

Lemma finv_init : forall c progs, FInv (init c progs).
Proof.
  intros c progs. constructor; cbn.
  - intros t Ht W. unfold waiting, init_task, advance in W. cbn in W.
    destruct (nth t progs []); cbn in W; discriminate.
  - intros H. contradiction.
Qed.

Theorem no_strand_all : forall p c progs tr s,
  reachable p (init c progs) tr s -> ~ Stranded s.
Proof.
  intros p c progs tr s R.
  assert (I : FInv s).
  { induction R; [apply finv_init|eapply finv_step; eassumption]. }
  intros [_ [_ [[t [Lt W]] Room]]].
  pose proof (f_wait s I t Lt W) as InT.
  assert (NE : sw s <> []) by (intro E; rewrite E in InT; destruct InT).
  destruct (f_full s I NE) as [_ F]. unfold has_room in Room. rewrite F in Room. discriminate.
Qed.

(* ------------------------------------------------------------------ the receiver's side *)

(* while the receiver is parked: the buffer is empty, its waker is registered, and some sender
   is still alive -- for every policy (every way a sender goes away wakes the receiver) *)
Record RInv (s : state) : Prop := mkRInv {
  r_parked : rx s = RxOpen -> rx_woken s = false -> rx_done s = false ->
             buf s = [] /\ rw s = true /\ exists t, t < ntasks s /\ alive (tasks s t) = true
}.

Lemma poll_sends_quiet : forall c r t xs ch rem os ws ch',
  poll_sends c r t xs ch = (rem, os, ws, ch') ->
  c_rw ch = true -> existsb is_wrecv ws = false ->
  c_buf ch' = c_buf ch /\ c_rw ch' = true.
Proof.
  intros c r t xs. induction xs as [|x xs IH]; intros ch rem os ws ch' E Rw Q; cbn in E.
  - inversion E; subst. split; [reflexivity|exact Rw].
  - destruct (send1 c r t x ch) as [[[pend o1] w1] ch1] eqn:S1.
    destruct (poll_sends c r t xs ch1) as [[[rem2 os2] ws2] ch2] eqn:P2.
    inversion E; subst; clear E. rewrite existsb_app in Q. apply orb_false_iff in Q. destruct Q as [Q1 Q2].
    unfold send1 in S1. destruct r.
    + destruct (full c (c_buf ch)).
      * inversion S1; subst. cbn in *. apply (IH _ _ _ _ _ P2); assumption.
      * inversion S1; subst. rewrite Rw in Q1. cbn in Q1. discriminate.
    + inversion S1; subst. apply (IH _ _ _ _ _ P2); assumption.
    + inversion S1; subst. apply (IH _ _ _ _ _ P2); assumption.
Qed.

Lemma count_alive_pos : forall n f, count_alive n f <> 0 -> exists t, t < n /\ alive (f t) = true.
Proof.
  induction n as [|n IH]; intros f H; cbn in H; [contradiction|].
  destruct (alive (f n)) eqn:A.
  - exists n. split; [lia|exact A].
  - cbn in H. destruct (IH f H) as [t [Lt At]]. exists t. split; [lia|exact At].
Qed.

Lemma rinv_step : forall p s l s' o, RInv s -> step p s l = Some (s', o) -> RInv s'.
Proof.
  intros p s l s' o I St. destruct l; cbn [step] in St.
  - (* Poll *)
    destruct (Nat.ltb t (ntasks s)) eqn:Lt; [|discriminate]. apply Nat.ltb_lt in Lt.
    destruct (_ && _) in St; [|discriminate].
    destruct (poll_sends _ _ _ _ _) as [[[rem os] ws] ch] eqn:PS.
    inversion St; subst; clear St. constructor; cbn. intros RX A D.
    apply orb_false_iff in A. destruct A as [A1 A2].
    destruct (r_parked s I RX A1 D) as [Bf [Rw _]].
    destruct (poll_sends_quiet _ _ _ _ _ _ _ _ _ PS Rw A2) as [E1 E2]. cbn in E1.
    split; [rewrite E1; exact Bf|]. split; [exact E2|].
    exists t. split; [exact Lt|]. rewrite upd_same. reflexivity.
  - (* PollRx *)
    destruct (_ && _) in St; [|discriminate].
    destruct (buf s) as [|v b'] eqn:Bf.
    + destruct (Nat.eqb _ 0) eqn:W; inversion St; subst; clear St; constructor; cbn.
      * intros _ _ H. discriminate.
      * intros RX _ _. split; [reflexivity|]. split; [reflexivity|].
        rewrite RX in W. apply Nat.eqb_neq in W. apply count_alive_pos. exact W.
    + inversion St; subst; clear St. constructor; cbn. intros _ H. discriminate.
  - (* DropSender: Drop wakes the parked receiver *)
    destruct (_ && _) in St; [|discriminate]. inversion St; subst; clear St.
    constructor; cbn. intros RX A D. rewrite RX in A. apply orb_false_iff in A. destruct A as [A1 A2].
    destruct (r_parked s I RX A1 D) as [_ [Rw _]]. congruence.
  - (* CloseSender: so does close_this_sender *)
    destruct (_ && _) in St; [|discriminate]. inversion St; subst; clear St.
    constructor; cbn. intros RX A D. rewrite RX in A. apply orb_false_iff in A. destruct A as [A1 A2].
    destruct (r_parked s I RX A1 D) as [_ [Rw _]]. congruence.
  - (* TrySend *)
    destruct (_ && _) in St; [|discriminate].
    destruct (rx s) eqn:RX; [destruct (full (cap s) (buf s))|..]; inversion St; subst; clear St;
      try exact I.
    constructor; cbn. intros _ A D. apply orb_false_iff in A. destruct A as [A1 A2].
    destruct (r_parked s I RX A1 D) as [_ [Rw _]]. congruence.
  - (* CloneSender *)
    destruct (_ && _) in St; [|discriminate]. inversion St; subst; clear St.
    constructor; cbn. intros RX A D. destruct (r_parked s I RX A D) as [Bf [Rw [u [Lu Au]]]].
    split; [exact Bf|]. split; [exact Rw|]. exists u. split; [lia|].
    rewrite upd_other by lia. exact Au.
  - (* CancelSend *)
    destruct (Nat.ltb t (ntasks s)) eqn:Lt.
    2:{ rewrite andb_false_r in St. cbn in St. discriminate. }
    destruct (_ && _) in St; [|discriminate]. inversion St; subst; clear St.
    constructor; cbn. intros RX A D. destruct (r_parked s I RX A D) as [Bf [Rw [u [Lu Au]]]].
    split; [exact Bf|]. split; [exact Rw|].
    destruct (Nat.eq_dec u t) as [->|Ne].
    + exists t. split; [exact Lu|]. rewrite upd_same. reflexivity.
    + exists u. split; [exact Lu|]. rewrite upd_other by assumption. exact Au.
  - destruct (rx s); try discriminate. destruct (_ || _) in St; [|discriminate].
    inversion St; subst. constructor; cbn. intros H. discriminate.
  - destruct (rx s); try discriminate; inversion St; subst; constructor; cbn; intros H; discriminate.
Qed.

Theorem no_rx_strand_all : forall p c progs tr s,
  reachable p (init c progs) tr s -> ~ RxStranded s.
Proof.
  intros p c progs tr s R.
  assert (I : RInv s).
  { induction R; [constructor; cbn; intros _ H; discriminate|eapply rinv_step; eassumption]. }
  intros [_ [RR [RX [RD Learn]]]].
  unfold rx_runnable, rx_alive in RR. rewrite RX, RD in RR. cbn in RR. rewrite andb_true_r in RR.
  destruct (r_parked s I RX RR RD) as [Bf [_ [t [Lt A]]]].
  destruct Learn as [NE|Dead]; [apply NE; exact Bf|].
  rewrite (Dead t Lt) in A. discriminate.
Qed.
