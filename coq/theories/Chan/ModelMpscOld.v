(* Engine Chan: the mpsc model as the code was BEFORE /repo commits 904d17adb85 ("fix: unsync mpsc
   wakes every parked sender when capacity frees up": `wake_sender` popped ONE registered waker
   per received item) and fdb5498e919 ("fix: Sender::close_this_sender wakes a parked receiver":
   close_this_sender woke nobody).  Kept only for the refutation witnesses that documented the three defects
   repaired by that commit; not used by the correspondence check. *)
From Coq Require Import List Arith Bool NArith.
From HV Require Import Chan.ModelMpsc.
Import ListNotations.

Definition step_old (p : policy) (s : state) (l : label) : option (state * obs) :=
  match l with
  | PollRx =>
      if rx_alive s && (spurious p || (rx_woken s && negb (rx_done s))) then
        match buf s with
        | v :: b' =>
            (* shared.wake_sender(): pop one waker *)
            let '(ws, sw') := match sw s with t :: r => ([WSend t], r) | [] => ([], []) end in
            Some (mkState b' (cap s) sw' (rw s) (rx s) true (rx_done s) (ntasks s)
                    (wake_tasks ws (tasks s)) (sent s) (recvd s ++ [v]),
                  ORecv (RSome v) ws)
        | [] => step p s PollRx
        end
      else None
  | CloseSender t =>
      let tk := tasks s t in
      if Nat.ltb t (ntasks s) && alive tk && finished tk then
        (* self.weak = Weak::new(): the weak count drops, NOBODY is woken *)
        Some (mkState (buf s) (cap s) (sw s) (rw s) (rx s) (rx_woken s) (rx_done s) (ntasks s)
                (upd (tasks s) t (mkTask [] [] false (woken tk))) (sent s) (recvd s),
              OAct [])
      else None
  | _ => step p s l
  end.

Inductive reachable_old (p : policy) (s0 : state) : list label -> state -> Prop :=
| ro_nil : reachable_old p s0 [] s0
| ro_snoc : forall tr s l s' o,
    reachable_old p s0 tr s -> step_old p s l = Some (s', o) -> reachable_old p s0 (tr ++ [l]) s'.

Fixpoint run_enabled_old (p : policy) (s : state) (ls : list label) : option state :=
  match ls with
  | [] => Some s
  | l :: ls' => match step_old p s l with Some (s', _) => run_enabled_old p s' ls' | None => None end
  end.
