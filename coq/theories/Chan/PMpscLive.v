(* Engine Chan: the counting invariant of the strict single-outstanding class (used for the
   progress form and the receiver-side theorem; NoStrand itself is proved for every policy in
   PMpscAll.v).  Originally: NoStrand for the class that excludes the recorded findings:
   strict executor (tasks polled only when woken, senders dropped only when finished) and
   one outstanding send per task.  Explicit inductive invariant over all label sequences. *)
From Coq Require Import List Arith Bool NArith Lia.
From HV Require Import Chan.ModelMpsc Chan.PMpscSafe.
Import ListNotations.

(* ------------------------------------------------------------------ counting *)

Definition b2n (b : bool) : nat := if b then 1 else 0.

Fixpoint count (P : task -> bool) (n : nat) (f : nat -> task) : nat :=
  match n with
  | O => O
  | S k => b2n (P (f k)) + count P k f
  end.

Lemma upd_same : forall f t x, upd f t x t = x.
Proof. intros. unfold upd. rewrite Nat.eqb_refl. reflexivity. Qed.
Lemma upd_other : forall f t x i, i <> t -> upd f t x i = f i.
Proof. intros. unfold upd. apply Nat.eqb_neq in H. rewrite H. reflexivity. Qed.

Lemma count_ext : forall P n f g, (forall i, i < n -> P (f i) = P (g i)) -> count P n f = count P n g.
Proof.
  induction n as [|n IH]; intros f g H; cbn; [reflexivity|].
  rewrite (H n) by lia. f_equal. apply IH. intros i Hi. apply H. lia.
Qed.

Lemma count_upd : forall P n f t x, t < n ->
  count P n (upd f t x) + b2n (P (f t)) = count P n f + b2n (P x).
Proof.
  induction n as [|n IH]; intros f t x Ht; [lia|]. cbn.
  destruct (Nat.eq_dec t n) as [->|Ne].
  - rewrite upd_same.
    rewrite (count_ext P n (upd f n x) f) by (intros i Hi; rewrite upd_other by lia; reflexivity).
    lia.
  - rewrite upd_other by lia. specialize (IH f t x). lia.
Qed.

Lemma count_pos : forall P n f, 0 < count P n f -> exists t, t < n /\ P (f t) = true.
Proof.
  induction n as [|n IH]; intros f H; cbn in H; [lia|].
  destruct (P (f n)) eqn:E.
  - exists n. split; [lia|exact E].
  - cbn in H. destruct (IH f H) as [t [Ht Pt]]. exists t. split; [lia|exact Pt].
Qed.

(* ------------------------------------------------------------------ the invariant *)

(* woken, alive, with an outstanding send: will use a free slot when polled *)
Definition eager (tk : task) : bool :=
  alive tk && woken tk && match cur tk with [] => false | _ => true end.

Definition shape (tk : task) : Prop :=
  (cur tk = [] -> rest tk = []) /\ length (cur tk) <= 1 /\
  Forall (fun st => length st = 1) (rest tk).

Record Inv (s : state) : Prop := mkInv {
  i_nodup : NoDup (sw s);
  i_sw_parked : forall t, In t (sw s) -> t < ntasks s /\ waiting (tasks s t) = true;
  i_parked_sw : forall t, t < ntasks s -> waiting (tasks s t) = true -> In t (sw s);
  i_rx_parked : rx s = RxOpen -> rx_woken s = false -> rx_done s = false ->
                buf s = [] /\ rw s = true;
  i_cap : forall c, cap s = Some c ->
          1 <= c /\ length (buf s) <= c /\
          (sw s <> [] -> c - length (buf s) <= count eager (ntasks s) (tasks s));
  i_unb : cap s = None -> sw s = [];
  i_closed : rx s <> RxOpen -> sw s = [];
  i_done : rx_done s = true -> rx s = RxOpen -> forall t, t < ntasks s -> alive (tasks s t) = false;
  i_shape : forall t, t < ntasks s -> shape (tasks s t)
}.

Lemma waiting_not_eager : forall tk, waiting tk = true -> eager tk = false.
Proof.
  unfold waiting, eager. intros tk H. apply andb_true_iff in H. destruct H as [H _].
  apply andb_true_iff in H. destruct H as [_ H]. apply negb_true_iff in H. rewrite H.
  rewrite andb_false_r. reflexivity.
Qed.

Lemma waiting_woken : forall tk, waiting tk = true -> woken tk = false.
Proof.
  unfold waiting. intros tk H. apply andb_true_iff in H. destruct H as [H _].
  apply andb_true_iff in H. destruct H as [_ H]. apply negb_true_iff in H. exact H.
Qed.

Lemma waiting_set_woken : forall tk, waiting (set_woken tk) = false.
Proof. intros. unfold waiting, set_woken. cbn. rewrite andb_false_r. reflexivity. Qed.

Lemma eager_set_woken : forall tk, waiting tk = true -> eager (set_woken tk) = true.
Proof.
  unfold waiting, eager, set_woken. intros tk H. cbn.
  apply andb_true_iff in H. destruct H as [H C].
  apply andb_true_iff in H. destruct H as [A _]. rewrite A, C. reflexivity.
Qed.

Lemma shape_set_woken : forall tk, shape tk -> shape (set_woken tk).
Proof. intros tk H. exact H. Qed.

Lemma wake1 : forall f t i, wake_tasks [WSend t] f i = upd f t (set_woken (f t)) i.
Proof.
  intros. unfold wake_tasks, upd. cbn. rewrite orb_false_r.
  rewrite (Nat.eqb_sym t i). destruct (Nat.eqb i t) eqn:E; [|reflexivity].
  apply Nat.eqb_eq in E. subst. reflexivity.
Qed.

Lemma wake0 : forall f i, wake_tasks [] f i = f i.
Proof. reflexivity. Qed.

Lemma wake_all_in : forall l f i, In i l -> wake_tasks (map WSend l) f i = set_woken (f i).
Proof.
  intros l f i H. unfold wake_tasks.
  assert (E : existsb (is_wsend i) (map WSend l) = true).
  { apply existsb_exists. exists (WSend i). split; [apply in_map; exact H|cbn; apply Nat.eqb_refl]. }
  rewrite E. reflexivity.
Qed.

Lemma wake_all_notin : forall l f i, ~ In i l -> wake_tasks (map WSend l) f i = f i.
Proof.
  intros l f i H. unfold wake_tasks.
  destruct (existsb (is_wsend i) (map WSend l)) eqn:E; [|reflexivity].
  apply existsb_exists in E. destruct E as [w [Hw Ew]]. apply in_map_iff in Hw.
  destruct Hw as [u [<- Hu]]. cbn in Ew. apply Nat.eqb_eq in Ew. subst. contradiction.
Qed.

Lemma wake_all_cases : forall l f i,
  wake_tasks (map WSend l) f i = set_woken (f i) \/ wake_tasks (map WSend l) f i = f i.
Proof. intros. unfold wake_tasks. destruct (existsb _ _); [left|right]; reflexivity. Qed.

(* the stage of a task of the class: exactly one outstanding send *)
Lemma shape_cur : forall tk, shape tk -> finished tk = false -> exists x, cur tk = [x].
Proof.
  intros tk [A [B _]] F. unfold finished in F. destruct (cur tk) as [|x [|y r]] eqn:C.
  - rewrite (A eq_refl) in F. discriminate.
  - exists x. reflexivity.
  - cbn in B. lia.
Qed.

(* the task after completing its only send *)
Definition done_task (rst : list (list item)) : task :=
  let tk1 := advance (mkTask [] rst true false) in
  mkTask (cur tk1) (rest tk1) true (negb (finished tk1)).

Lemma done_task_facts : forall rst, Forall (fun st => length st = 1) rst ->
  waiting (done_task rst) = false /\ shape (done_task rst) /\ alive (done_task rst) = true.
Proof.
  intros rst H. unfold done_task, advance. cbn.
  destruct rst as [|st r]; cbn.
  - split; [reflexivity|]. split; [|reflexivity]. repeat split; auto.
  - inversion H; subst. destruct st as [|x [|y q]]; cbn in *; try lia.
    split; [reflexivity|]. split; [|reflexivity]. unfold shape. cbn.
    split; [discriminate|]. split; [lia|assumption].
Qed.

Lemma poll_single : forall c r t x b w rwf snt,
  poll_sends c r t [x] (mkChan b w rwf snt) =
  match r with
  | RxOpen => if full c b
              then ([x], [SFull], [], mkChan b (t :: w) rwf snt)
              else ([], [SSent], (if rwf then [WRecv] else []), mkChan (b ++ [x]) w false (snt ++ [x]))
  | _ => ([], [SClosed], [], mkChan b w rwf snt)
  end.
Proof.
  intros. cbn. destruct r; cbn; [destruct (full c b); cbn; rewrite ?app_nil_r|..]; reflexivity.
Qed.

(* ------------------------------------------------------------------ preservation *)

Lemma inv_init : forall c progs, cap_ok c = true -> single_progs progs = true -> Inv (init c progs).
Proof.
  intros c progs C S. constructor; cbn.
  - constructor.
  - intros t [].
  - intros t Ht W. unfold waiting, init_task, advance in W. cbn in W.
    destruct (nth t progs []); cbn in W; discriminate.
  - intros _ H. discriminate.
  - intros c0 E. subst. unfold cap_ok in C. apply Nat.leb_le in C. repeat split; try lia. intros H. contradiction.
  - reflexivity.
  - reflexivity.
  - intros H. discriminate.
  - intros t Ht. unfold init_task, advance. cbn.
    assert (SP : single_prog (nth t progs []) = true).
    { unfold single_progs in S. rewrite forallb_forall in S. apply S. apply nth_In. exact Ht. }
    destruct (nth t progs []) as [|st r]; cbn.
    + unfold shape. cbn. repeat split; auto.
    + unfold single_prog in SP. cbn in SP. apply andb_true_iff in SP. destruct SP as [L R].
      apply Nat.eqb_eq in L. unfold shape. cbn. split; [intro E; rewrite E in L; discriminate|].
      split; [lia|]. apply Forall_forall. intros x Hx. rewrite forallb_forall in R.
      apply Nat.eqb_eq. apply R. exact Hx.
Qed.

Lemma inv_poll : forall s t s' o, Inv s -> step strict s (Poll t) = Some (s', o) -> Inv s'.
Proof.
  intros s t s' o I St. cbn [step] in St.
  destruct (Nat.ltb t (ntasks s)) eqn:Lt; [|discriminate]. apply Nat.ltb_lt in Lt.
  destruct (alive (tasks s t)) eqn:Al; [|discriminate].
  destruct (finished (tasks s t)) eqn:Fi; [discriminate|].
  cbn [strict spurious negb andb orb] in St. rewrite orb_false_r in St.
  destruct (woken (tasks s t)) eqn:Wk; [|discriminate].
  cbn [andb] in St.
  destruct (shape_cur _ (i_shape s I t Lt) Fi) as [x Cx].
  destruct (i_shape s I t Lt) as [_ [_ ShR]].
  assert (NotIn : ~ In t (sw s)).
  { intro H. apply (i_sw_parked s I) in H. destruct H as [_ H]. apply waiting_woken in H. congruence. }
  assert (EagerT : eager (tasks s t) = true).
  { unfold eager. rewrite Al, Wk, Cx. reflexivity. }
  rewrite Cx, poll_single in St.
  destruct (rx s) eqn:RX.
  - (* open *)
    destruct (full (cap s) (buf s)) eqn:Fu.
    + (* full: park *)
      inversion St; subst; clear St. cbn [advance cur rest].
      constructor; cbn.
      * constructor; [exact NotIn|apply (i_nodup s I)].
      * intros u [<-|H].
        -- split; [exact Lt|]. rewrite upd_same. reflexivity.
        -- assert (u <> t) by (intro; subst; contradiction).
           rewrite upd_other by assumption. apply (i_sw_parked s I). exact H.
      * intros u Hu W. destruct (Nat.eq_dec u t) as [->|Ne]; [left; reflexivity|].
        right. rewrite upd_other in W by assumption. apply (i_parked_sw s I); assumption.
      * rewrite orb_false_r. intros _ A B. apply (i_rx_parked s I); assumption.
      * intros c Ec. destruct (i_cap s I c Ec) as [A [B _]].
        repeat split; try assumption. intros _.
        unfold full in Fu. rewrite Ec in Fu. apply Nat.leb_le in Fu. lia.
      * intros Ec. unfold full in Fu. rewrite Ec in Fu. discriminate.
      * intros H. exfalso. apply H. reflexivity.
      * intros D _ u Hu. destruct (Nat.eq_dec u t) as [->|Ne].
        -- rewrite (i_done s I D RX t Lt) in Al. discriminate.
        -- rewrite upd_other by assumption. apply (i_done s I D RX). exact Hu.
      * intros u Hu. destruct (Nat.eq_dec u t) as [->|Ne].
        -- rewrite upd_same. unfold shape. cbn. split; [discriminate|]. split; [lia|exact ShR].
        -- rewrite upd_other by assumption. apply (i_shape s I). exact Hu.
    + (* room: send *)
      inversion St; subst; clear St.
      destruct (done_task_facts (rest (tasks s t)) ShR) as [DW [DS DA]].
      fold (done_task (rest (tasks s t))).
      change (mkTask (cur (advance (mkTask [] (rest (tasks s t)) true false)))
                     (rest (advance (mkTask [] (rest (tasks s t)) true false))) true
                     (negb (finished (advance (mkTask [] (rest (tasks s t)) true false)))))
        with (done_task (rest (tasks s t))).
      constructor; cbn.
      * apply (i_nodup s I).
      * intros u H. assert (u <> t) by (intro; subst; contradiction).
        rewrite upd_other by assumption. apply (i_sw_parked s I). exact H.
      * intros u Hu W. destruct (Nat.eq_dec u t) as [->|Ne].
        -- rewrite upd_same in W. congruence.
        -- rewrite upd_other in W by assumption. apply (i_parked_sw s I); assumption.
      * intros _ A B. apply orb_false_iff in A. destruct A as [A1 A2].
        destruct (i_rx_parked s I RX A1 B) as [_ Rw]. rewrite Rw in A2. cbn in A2. discriminate.
      * intros c Ec. destruct (i_cap s I c Ec) as [A [B K]].
        unfold full in Fu. rewrite Ec in Fu. apply Nat.leb_gt in Fu.
        rewrite app_length. cbn [length].
        repeat split; try lia. intros NE. specialize (K NE).
        pose proof (count_upd eager (ntasks s) (tasks s) t (done_task (rest (tasks s t))) Lt) as CU.
        rewrite EagerT in CU. cbn [b2n] in CU.
        destruct (eager (done_task (rest (tasks s t)))); cbn [b2n] in CU; lia.
      * apply (i_unb s I).
      * intros H. exfalso. apply H. reflexivity.
      * intros D _ u Hu. destruct (Nat.eq_dec u t) as [->|Ne].
        -- rewrite (i_done s I D RX t Lt) in Al. discriminate.
        -- rewrite upd_other by assumption. apply (i_done s I D RX). exact Hu.
      * intros u Hu. destruct (Nat.eq_dec u t) as [->|Ne].
        -- rewrite upd_same. exact DS.
        -- rewrite upd_other by assumption. apply (i_shape s I). exact Hu.
  - (* closed *)
    inversion St; subst; clear St.
    destruct (done_task_facts (rest (tasks s t)) ShR) as [DW [DS DA]].
    change (mkTask (cur (advance (mkTask [] (rest (tasks s t)) true false)))
                   (rest (advance (mkTask [] (rest (tasks s t)) true false))) true
                   (negb (finished (advance (mkTask [] (rest (tasks s t)) true false)))))
      with (done_task (rest (tasks s t))).
    assert (SW : sw s = []) by (apply (i_closed s I); rewrite RX; discriminate).
    constructor; cbn.
    + apply (i_nodup s I).
    + rewrite SW. intros u [].
    + intros u Hu W. destruct (Nat.eq_dec u t) as [->|Ne].
      * rewrite upd_same in W. congruence.
      * rewrite upd_other in W by assumption. apply (i_parked_sw s I); assumption.
    + try rewrite RX; discriminate.
    + intros c Ec. destruct (i_cap s I c Ec) as [A [B _]]. repeat split; try assumption.
      intro H. rewrite SW in H. contradiction.
    + apply (i_unb s I).
    + intros _. exact SW.
    + try rewrite RX; discriminate.
    + intros u Hu. destruct (Nat.eq_dec u t) as [->|Ne].
      * rewrite upd_same. exact DS.
      * rewrite upd_other by assumption. apply (i_shape s I). exact Hu.
  - (* dropped *)
    inversion St; subst; clear St.
    destruct (done_task_facts (rest (tasks s t)) ShR) as [DW [DS DA]].
    change (mkTask (cur (advance (mkTask [] (rest (tasks s t)) true false)))
                   (rest (advance (mkTask [] (rest (tasks s t)) true false))) true
                   (negb (finished (advance (mkTask [] (rest (tasks s t)) true false)))))
      with (done_task (rest (tasks s t))).
    assert (SW : sw s = []) by (apply (i_closed s I); rewrite RX; discriminate).
    constructor; cbn.
    + apply (i_nodup s I).
    + rewrite SW. intros u [].
    + intros u Hu W. destruct (Nat.eq_dec u t) as [->|Ne].
      * rewrite upd_same in W. congruence.
      * rewrite upd_other in W by assumption. apply (i_parked_sw s I); assumption.
    + try rewrite RX; discriminate.
    + intros c Ec. destruct (i_cap s I c Ec) as [A [B _]]. repeat split; try assumption.
      intro H. rewrite SW in H. contradiction.
    + apply (i_unb s I).
    + intros _. exact SW.
    + try rewrite RX; discriminate.
    + intros u Hu. destruct (Nat.eq_dec u t) as [->|Ne].
      * rewrite upd_same. exact DS.
      * rewrite upd_other by assumption. apply (i_shape s I). exact Hu.
Qed.

Lemma inv_pollrx : forall s s' o, Inv s -> step strict s PollRx = Some (s', o) -> Inv s'.
Proof.
  intros s s' o I St. cbn [step] in St.
  destruct (rx_alive s) eqn:RA; [|discriminate].
  cbn [strict spurious andb orb] in St.
  destruct (rx_woken s) eqn:RW; [|discriminate].
  destruct (rx_done s) eqn:RD; [discriminate|]. cbn [negb andb] in St.
  destruct (buf s) as [|v b'] eqn:Bf.
  - destruct (Nat.eqb _ 0) eqn:W; inversion St; subst; clear St.
    + (* None *)
      constructor; cbn.
      * apply (i_nodup s I).
      * apply (i_sw_parked s I).
      * apply (i_parked_sw s I).
      * intros _ _ H. discriminate.
      * intros c Ec. destruct (i_cap s I c Ec) as [A [B K]]. rewrite Bf in *. cbn in *. auto.
      * apply (i_unb s I).
      * apply (i_closed s I).
      * intros _ RX. rewrite RX in W. apply Nat.eqb_eq in W. apply count_alive_zero. exact W.
      * apply (i_shape s I).
    + (* Pending *)
      constructor; cbn.
      * apply (i_nodup s I).
      * apply (i_sw_parked s I).
      * apply (i_parked_sw s I).
      * intros _ _ _. split; reflexivity.
      * intros c Ec. destruct (i_cap s I c Ec) as [A [B K]]. rewrite Bf in *. cbn in *. auto.
      * apply (i_unb s I).
      * apply (i_closed s I).
      * intros H. try rewrite RD in H. discriminate.
      * apply (i_shape s I).
  - (* Some: every registered sender is woken, the stack is emptied *)
    inversion St; subst; clear St.
    constructor; cbn.
    + constructor.
    + intros t [].
    + intros u Hu W. destruct (in_dec Nat.eq_dec u (rev (sw s))) as [H|H].
      * rewrite wake_all_in, waiting_set_woken in W by assumption. discriminate.
      * rewrite wake_all_notin in W by assumption. exfalso. apply H. apply in_rev.
        rewrite rev_involutive. apply (i_parked_sw s I); assumption.
    + intros _ H. discriminate.
    + intros c Ec. destruct (i_cap s I c Ec) as [A [B K]]. rewrite Bf in B. cbn in B.
      repeat split; try lia. intro H. contradiction.
    + reflexivity.
    + reflexivity.
    + intros H. try rewrite RD in H. discriminate.
    + intros u Hu. destruct (wake_all_cases (rev (sw s)) (tasks s) u) as [-> | ->].
      * apply shape_set_woken. apply (i_shape s I). exact Hu.
      * apply (i_shape s I). exact Hu.
Qed.

Lemma inv_dropsender : forall s t s' o, Inv s -> step strict s (DropSender t) = Some (s', o) -> Inv s'.
Proof.
  intros s t s' o I St. cbn [step] in St.
  destruct (Nat.ltb t (ntasks s)) eqn:Lt; [|discriminate]. apply Nat.ltb_lt in Lt.
  destruct (alive (tasks s t)) eqn:Al; [|discriminate].
  cbn [strict cancel andb orb] in St. rewrite orb_false_r in St.
  destruct (finished (tasks s t)) eqn:Fi; [|discriminate].
  inversion St; subst; clear St.
  assert (Cu : cur (tasks s t) = []).
  { unfold finished in Fi. destruct (cur (tasks s t)); [reflexivity|discriminate]. }
  assert (NW : waiting (tasks s t) = false).
  { unfold waiting. rewrite Cu. apply andb_false_r. }
  assert (NE : eager (tasks s t) = false).
  { unfold eager. rewrite Cu. apply andb_false_r. }
  assert (NotIn : ~ In t (sw s)).
  { intro H. apply (i_sw_parked s I) in H. destruct H as [_ H]. congruence. }
  constructor; cbn.
  - apply (i_nodup s I).
  - intros u H. assert (u <> t) by (intro; subst; contradiction).
    rewrite upd_other by assumption. apply (i_sw_parked s I). exact H.
  - intros u Hu W. destruct (Nat.eq_dec u t) as [->|Ne].
    + rewrite upd_same in W. discriminate.
    + rewrite upd_other in W by assumption. apply (i_parked_sw s I); assumption.
  - intros RX A B. rewrite RX in *. apply orb_false_iff in A. destruct A as [A1 A2].
    destruct (i_rx_parked s I RX A1 B) as [_ Rw]. congruence.
  - intros c Ec. destruct (i_cap s I c Ec) as [A [B K]]. repeat split; try assumption.
    intros H. specialize (K H).
    pose proof (count_upd eager (ntasks s) (tasks s) t (mkTask [] [] false (woken (tasks s t))) Lt) as CU.
    rewrite NE in CU. cbn in CU. lia.
  - apply (i_unb s I).
  - apply (i_closed s I).
  - intros D RX u Hu. destruct (Nat.eq_dec u t) as [->|Ne].
    + rewrite upd_same. reflexivity.
    + rewrite upd_other by assumption. apply (i_done s I D RX). exact Hu.
  - intros u Hu. destruct (Nat.eq_dec u t) as [->|Ne].
    + rewrite upd_same. unfold shape. cbn. repeat split; auto.
    + rewrite upd_other by assumption. apply (i_shape s I). exact Hu.
Qed.

Lemma inv_closesender : forall s t s' o, Inv s -> step strict s (CloseSender t) = Some (s', o) -> Inv s'.
Proof.
  intros s t s' o I St. cbn [step] in St.
  destruct (Nat.ltb t (ntasks s)) eqn:Lt; [|discriminate]. apply Nat.ltb_lt in Lt.
  destruct (alive (tasks s t)) eqn:Al; [|discriminate].
  destruct (finished (tasks s t)) eqn:Fi; [|discriminate].
  inversion St; subst; clear St.
  assert (Cu : cur (tasks s t) = []).
  { unfold finished in Fi. destruct (cur (tasks s t)); [reflexivity|discriminate]. }
  assert (NW : waiting (tasks s t) = false).
  { unfold waiting. rewrite Cu. apply andb_false_r. }
  assert (NE : eager (tasks s t) = false).
  { unfold eager. rewrite Cu. apply andb_false_r. }
  assert (NotIn : ~ In t (sw s)).
  { intro H. apply (i_sw_parked s I) in H. destruct H as [_ H]. congruence. }
  constructor; cbn.
  - apply (i_nodup s I).
  - intros u H. assert (u <> t) by (intro; subst; contradiction).
    rewrite upd_other by assumption. apply (i_sw_parked s I). exact H.
  - intros u Hu W. destruct (Nat.eq_dec u t) as [->|Ne].
    + rewrite upd_same in W. discriminate.
    + rewrite upd_other in W by assumption. apply (i_parked_sw s I); assumption.
  - intros RX A B. rewrite RX in *. apply orb_false_iff in A. destruct A as [A1 A2].
    destruct (i_rx_parked s I RX A1 B) as [_ Rw]. congruence.
  - intros c Ec. destruct (i_cap s I c Ec) as [A [B K]]. repeat split; try assumption.
    intros H. specialize (K H).
    pose proof (count_upd eager (ntasks s) (tasks s) t (mkTask [] [] false (woken (tasks s t))) Lt) as CU.
    rewrite NE in CU. cbn in CU. lia.
  - apply (i_unb s I).
  - apply (i_closed s I).
  - intros D RX u Hu. destruct (Nat.eq_dec u t) as [->|Ne].
    + rewrite upd_same. reflexivity.
    + rewrite upd_other by assumption. apply (i_done s I D RX). exact Hu.
  - intros u Hu. destruct (Nat.eq_dec u t) as [->|Ne].
    + rewrite upd_same. unfold shape. cbn. repeat split; auto.
    + rewrite upd_other by assumption. apply (i_shape s I). exact Hu.
Qed.

(* close()/drop of the receiver: wake_all_senders, every later send fails *)
Lemma inv_closed : forall s r', Inv s -> r' <> RxOpen ->
  Inv (mkState (buf s) (cap s) [] false r' (rx_woken s) (rx_done s) (ntasks s)
         (wake_tasks (map WSend (rev (sw s))) (tasks s)) (sent s) (recvd s)).
Proof.
  intros s r' I NR. constructor; cbn.
  - constructor.
  - intros t [].
  - intros u Hu W. destruct (in_dec Nat.eq_dec u (rev (sw s))) as [H|H].
    + rewrite wake_all_in, waiting_set_woken in W by assumption. discriminate.
    + rewrite wake_all_notin in W by assumption. exfalso. apply H. apply in_rev.
      rewrite rev_involutive. apply (i_parked_sw s I); assumption.
  - intros H. contradiction.
  - intros c Ec. destruct (i_cap s I c Ec) as [A [B _]]. repeat split; try assumption.
    intro H. contradiction.
  - reflexivity.
  - reflexivity.
  - intros _ H. contradiction.
  - intros u Hu. destruct (wake_all_cases (rev (sw s)) (tasks s) u) as [-> | ->].
    + apply shape_set_woken. apply (i_shape s I). exact Hu.
    + apply (i_shape s I). exact Hu.
Qed.

Lemma inv_step : forall s l s' o, basic l = true -> Inv s -> step strict s l = Some (s', o) -> Inv s'.
Proof.
  intros s l s' o Ba I St. destruct l; try discriminate Ba.
  - eapply inv_poll; eassumption.
  - eapply inv_pollrx; eassumption.
  - eapply inv_dropsender; eassumption.
  - eapply inv_closesender; eassumption.
  - cbn [step] in St. destruct (rx s) eqn:RX; try discriminate.
    destruct (_ || _) in St; [|discriminate]. inversion St; subst.
    apply inv_closed; [exact I|discriminate].
  - cbn [step] in St. destruct (rx s) eqn:RX; try discriminate; inversion St; subst;
      (apply inv_closed; [exact I|discriminate]).
Qed.

Lemma inv_reachable : forall s0 tr s, Inv s0 -> reachable strict s0 tr s ->
  forallb basic tr = true -> Inv s.
Proof.
  intros s0 tr s I R. induction R as [|tr s l s' o R IH St]; intros B; [exact I|].
  rewrite forallb_app in B. apply andb_true_iff in B. destruct B as [B1 B2]. cbn in B2.
  rewrite andb_true_r in B2. eapply inv_step; [exact B2|apply IH; exact B1|exact St].
Qed.

(* ------------------------------------------------------------------ NoStrand *)

Lemma inv_not_stranded : forall s, Inv s -> ~ Stranded s.
Proof.
  intros s I [NR [RR [[t [Lt W]] Room]]].
  pose proof (i_parked_sw s I t Lt W) as InT.
  assert (NE : sw s <> []) by (intro E; rewrite E in InT; destruct InT).
  unfold rx_runnable, rx_alive in RR.
  destruct (rx s) eqn:RX.
  - cbn in RR. destruct (rx_done s) eqn:RD.
    + (* the receiver saw None: no sender is alive *)
      pose proof (i_done s I RD RX t Lt) as A. unfold waiting in W. rewrite A in W. discriminate.
    + rewrite andb_true_r in RR.
      destruct (i_rx_parked s I RX RR RD) as [Bf _].
      destruct (cap s) as [c|] eqn:Ec.
      * destruct (i_cap s I c Ec) as [A [_ K]]. specialize (K NE). rewrite Bf in K. cbn in K.
        destruct (count_pos eager (ntasks s) (tasks s)) as [u [Lu Eu]]; [lia|].
        specialize (NR u Lu). unfold runnable in NR. unfold eager in Eu.
        apply andb_true_iff in Eu. destruct Eu as [Eu C]. rewrite Eu in NR. cbn in NR.
        unfold finished in NR. destruct (cur (tasks s u)); [discriminate C|discriminate NR].
      * apply NE. apply (i_unb s I Ec).
  - apply NE. apply (i_closed s I). rewrite RX. discriminate.
  - apply NE. apply (i_closed s I). rewrite RX. discriminate.
Qed.

Theorem no_strand : forall c progs tr s,
  cap_ok c = true -> single_progs progs = true ->
  reachable strict (init c progs) tr s -> forallb basic tr = true -> ~ Stranded s.
Proof.
  intros c progs tr s C S R B. apply inv_not_stranded.
  eapply inv_reachable; [|exact R|exact B]. apply inv_init; assumption.
Qed.

(* progress form: in every reachable state in which some sender waits for capacity, some task
   is runnable (so a fair executor polls it) -- even if the buffer is full *)
Theorem waiting_implies_runnable : forall c progs tr s t,
  cap_ok c = true -> single_progs progs = true ->
  reachable strict (init c progs) tr s -> forallb basic tr = true ->
  t < ntasks s -> waiting (tasks s t) = true ->
  rx_runnable s = true \/ exists u, u < ntasks s /\ runnable (tasks s u) = true.
Proof.
  intros c progs tr s t C S R B Lt W.
  assert (I : Inv s) by (eapply inv_reachable; [|exact R|exact B]; apply inv_init; assumption).
  destruct (rx_runnable s) eqn:RR; [left; reflexivity|right].
  pose proof (i_parked_sw s I t Lt W) as InT.
  assert (NE : sw s <> []) by (intro E; rewrite E in InT; destruct InT).
  unfold rx_runnable, rx_alive in RR.
  destruct (rx s) eqn:RX.
  - cbn in RR. destruct (rx_done s) eqn:RD.
    + pose proof (i_done s I RD RX t Lt) as A. unfold waiting in W. rewrite A in W. discriminate.
    + rewrite andb_true_r in RR.
      destruct (i_rx_parked s I RX RR RD) as [Bf _].
      destruct (cap s) as [c0|] eqn:Ec.
      * destruct (i_cap s I c0 Ec) as [A [_ K]]. specialize (K NE). rewrite Bf in K. cbn in K.
        destruct (count_pos eager (ntasks s) (tasks s)) as [u [Lu Eu]]; [lia|].
        exists u. split; [exact Lu|]. unfold runnable. unfold eager in Eu.
        apply andb_true_iff in Eu. destruct Eu as [Eu Cu]. rewrite Eu. cbn.
        unfold finished. destruct (cur (tasks s u)); [discriminate Cu|reflexivity].
      * exfalso. apply NE. apply (i_unb s I Ec).
  - exfalso. apply NE. apply (i_closed s I). rewrite RX. discriminate.
  - exfalso. apply NE. apply (i_closed s I). rewrite RX. discriminate.
Qed.

