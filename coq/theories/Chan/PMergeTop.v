(* Engine Chan / MergeSource: the C15 theorems about the cursor machine of the code (mrun),
   obtained from the queue-level theorems through the refinement mpoll_refines. *)
From Coq Require Import List Arith Bool NArith Lia.
From HV Require Import Chan.ModelMerge Chan.PMergeQ Chan.PMergeRef.
Import ListNotations.

Definition res_of (x : mres * nat * nat) : mres := fst (fst x).

Definition obs_ok (x : mres * nat * nat) : Prop :=
  let '(o, c, n) := x in o <> MPanic /\ (c < n \/ (n = 0 /\ c = 0)).

Lemma mrun_refines : forall n ss c, inb ss c ->
  let '(os, (ss', c')) := mrun n ss c in
  qrun n (rot c ss) = (map res_of os, rot c' ss') /\ inb ss' c' /\ Forall obs_ok os.
Proof.
  induction n as [|n IH]; intros ss c I; cbn.
  - split; [reflexivity|]. split; [exact I|constructor].
  - pose proof (mpoll_refines ss c I) as R. destruct (mpoll ss c) as [[o ss1] c1].
    destruct R as [Q [I1 NP]].
    specialize (IH ss1 c1 I1). destruct (mrun n ss1 c1) as [os [ss2 c2]].
    destruct IH as [Q2 [I2 F]]. rewrite Q, Q2. cbn.
    split; [reflexivity|]. split; [exact I2|]. constructor; [|exact F].
    split; [exact NP|]. destruct I1 as [H|[-> ->]]; [left; exact H|right; split; reflexivity].
Qed.

Lemma inb0 : forall ss, inb ss 0.
Proof. intros [|s ss]; [right; split; reflexivity|left; cbn; lia]. Qed.

Lemma rot0 : forall (A : Type) (l : list A), rot 0 l = l.
Proof. intros. unfold rot. cbn. apply app_nil_r. Qed.

Lemma remf_rot : forall c ss t, NoDup (map tag (rot c ss)) -> remf (rot c ss) t = remf ss t.
Proof.
  intros c ss t ND. unfold rot in *. rewrite (remf_comm _ _ t ND). rewrite firstn_skipn. reflexivity.
Qed.

Lemma in_rot : forall (A : Type) c (l : list A) x, In x (rot c l) <-> In x l.
Proof.
  intros. unfold rot. rewrite in_app_iff. rewrite <- (firstn_skipn c l) at 3. rewrite in_app_iff. tauto.
Qed.

(* (1) refinement + no panic + cursor in bounds, for every number of polls *)
Theorem refines_round_robin : forall n ss,
  let '(os, (ss', c')) := mrun n ss 0 in
  qrun n ss = (map res_of os, rot c' ss') /\ inb ss' c' /\ Forall obs_ok os.
Proof.
  intros n ss. pose proof (mrun_refines n ss 0 (inb0 ss)) as H.
  destruct (mrun n ss 0) as [os [ss' c']]. rewrite rot0 in H. exact H.
Qed.

(* (2) per source: emitted ++ remaining = the source's items; emitted tags are source tags *)
Theorem order_no_loss : forall n ss, NoDup (map tag ss) ->
  let '(os, (ss', c')) := mrun n ss 0 in
  let outs := readys (map res_of os) in
  (forall t, remf ss t = of_tag t outs ++ remf ss' t) /\
  (forall t a, In (t, a) outs -> In t (map tag ss)) /\
  NoDup (map tag ss').
Proof.
  intros n ss ND. pose proof (refines_round_robin n ss) as H.
  destruct (mrun n ss 0) as [os [ss' c']]. destruct H as [Q _].
  destruct (q_order_no_loss n ss _ _ ND Q) as [A [B C]].
  split; [|split; [exact B|]].
  - intros t. rewrite (A t). rewrite remf_rot by exact C. reflexivity.
  - unfold rot in C. rewrite map_app in C. apply nodup_app_comm in C. rewrite <- map_app, firstn_skipn in C. exact C.
Qed.

Lemma forallb_rot : forall (A : Type) (f : A -> bool) c l, forallb f (rot c l) = forallb f l.
Proof.
  intros. unfold rot. rewrite forallb_app. rewrite <- (firstn_skipn c l) at 3. rewrite forallb_app.
  apply andb_comm.
Qed.

(* (3) Ready(None) exactly when every remaining source answers None in this poll, i.e. all
   sources have ended; then no source remains and the answer is Ready(None) forever *)
Theorem ends_iff_all_ended : forall ss c, inb ss c ->
  let '(o, ss', c') := mpoll ss c in
  (o = MNone <-> forallb answers_end ss = true) /\
  (o = MNone -> ss' = [] /\ c' = 0 /\ forall t, remf ss t = []) /\
  (forall n, fst (mrun n [] 0) = repeat (MNone, 0, 0) n).
Proof.
  intros ss c I. pose proof (mpoll_refines ss c I) as R.
  destruct (mpoll ss c) as [[o ss'] c']. destruct R as [Q [I' NP]].
  destruct (q_none_iff (rot c ss)) as [A [B _]]. rewrite Q in A, B. cbn [fst snd] in A, B.
  rewrite forallb_rot in A.
  split; [exact A|]. split.
  - intros E. specialize (B E).
    assert (Z : ss' = []).
    { destruct ss' as [|x l]; [reflexivity|]. apply (f_equal (@length src)) in B.
      rewrite rot_length in B. discriminate. }
    subst ss'. split; [reflexivity|]. split.
    + destruct I' as [H|[_ H]]; [cbn in H; lia|exact H].
    + intros t. apply A in E. clear -E. induction ss as [|s ss IH]; [reflexivity|].
      cbn in E. apply andb_true_iff in E. destruct E as [E1 E2]. rewrite remf_cons, (IH E2).
      unfold answers_end in E1. destruct (poll_src s) as [[x| |] s'] eqn:P; cbn in E1; try discriminate.
      rewrite (poll_src_end _ _ P). destruct (N.eqb (tag s) t); reflexivity.
  - induction n as [|n IH]; [reflexivity|]. cbn in *. destruct (mrun n [] 0) as [os fin]. cbn in *.
    rewrite IH. reflexivity.
Qed.

(* (5) fairness: a source whose next answer is Ready, i positions after the cursor in
   round-robin order (i <= n-1), is served after at most i items of other sources, and no poll
   in between returns Pending *)
Theorem fair_within_one_round : forall ss c i s a r, inb ss c ->
  nth_error (rot c ss) i = Some s -> script s = Rdy a :: r ->
  i < length ss /\
  exists j, j <= i /\
    nth_error (map res_of (fst (mrun (S j) ss c))) j = Some (MReady (tag s, a)) /\
    forall m, m < j -> exists x, nth_error (map res_of (fst (mrun (S j) ss c))) m = Some (MReady x).
Proof.
  intros ss c i s a r I Nth Sc. split.
  - rewrite <- (rot_length c ss). apply nth_error_Some. rewrite Nth. discriminate.
  - destruct (q_fair i (rot c ss) s a r Nth Sc) as [j [Le [E1 E2]]].
    exists j. split; [exact Le|].
    pose proof (mrun_refines (S j) ss c I) as R.
    destruct (mrun (S j) ss c) as [os [ss' c']]. destruct R as [Q _]. rewrite Q in E1, E2.
    cbn [fst] in *. split; [exact E1|exact E2].
Qed.
