(* Engine Chan: small shared definitions (verdict codes of the correspondence check). *)
From Coq Require Import List NArith Bool.
Import ListNotations.

(* indices (from 0) of non-zero verdicts, with their verdict *)
Fixpoint bad_from (n : N) (l : list N) : list (N * N) :=
  match l with
  | [] => []
  | v :: r => if N.eqb v 0 then bad_from (n + 1) r else (n, v) :: bad_from (n + 1) r
  end.
Definition bad (l : list N) : list (N * N) := bad_from 0 l.

Fixpoint list_eqb {A} (e : A -> A -> bool) (a b : list A) : bool :=
  match a, b with
  | [], [] => true
  | x :: a', y :: b' => e x y && list_eqb e a' b'
  | _, _ => false
  end.

Definition b2N (b : bool) (k : N) : N := if b then k else 0%N.
