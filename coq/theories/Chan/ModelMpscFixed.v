(* Engine Chan: the mpsc model with the PROPOSED repair fixes/C16_wake_all_senders.diff applied
   (wake_sender wakes every registered sender).  Definitions only; not used by the check of the
   unchanged tree, only by the theorem that the repair removes the stranded-sender state. *)
From Coq Require Import List Arith Bool NArith.
From HV Require Import Chan.ModelMpsc.
Import ListNotations.

Definition step_fixed (p : policy) (s : state) (l : label) : option (state * obs) :=
  match l with
  | PollRx =>
      if rx_alive s && (spurious p || (rx_woken s && negb (rx_done s))) then
        match buf s with
        | v :: b' =>
            (* wake_sender() := wake_all_senders() *)
            let ws := map WSend (rev (sw s)) in
            Some (mkState b' (cap s) [] (rw s) (rx s) true (rx_done s) (ntasks s)
                    (wake_tasks ws (tasks s)) (sent s) (recvd s ++ [v]),
                  ORecv (RSome v) ws)
        | [] => step p s PollRx
        end
      else None
  | _ => step p s l
  end.

Inductive reachable_fixed (p : policy) (s0 : state) : list label -> state -> Prop :=
| rf_nil : reachable_fixed p s0 [] s0
| rf_snoc : forall tr s l s' o,
    reachable_fixed p s0 tr s -> step_fixed p s l = Some (s', o) -> reachable_fixed p s0 (tr ++ [l]) s'.

Fixpoint run_enabled_fixed (p : policy) (s : state) (ls : list label) : option state :=
  match ls with
  | [] => Some s
  | l :: ls' => match step_fixed p s l with Some (s', _) => run_enabled_fixed p s' ls' | None => None end
  end.
