(* Engine Chan, part 1: executable model of dfir_rs/src/util/unsync/mpsc.rs driven by a
   deterministic single-thread executor (definitions only; proofs are in PMpsc*.v).

   Transcription table (Rust -> model):
     Shared.buffer                    buf   (front = head of the list)
     Shared.capacity                  cap   (None = unbounded; Some c with 1 <= c)
     Shared.send_wakers (SmallVec)    sw    (head of the list = LAST pushed; push = cons, pop = head)
     Shared.recv_waker                rw    (bool: the single receiver task's waker is stored)
     Rc alive / Weak::upgrade         rx    (RxOpen: senders can upgrade; RxClosed: close() replaced
                                             the Rc, receiver still drains; RxDropped)
     Rc::weak_count                   number of alive sender handles (RxOpen), 0 after close()
   A sender task owns one Sender handle and runs a program: a list of stages, each stage a list
   of items sent by futures that are outstanding *together* (join!): a poll of the task polls
   every not yet completed future of the stage in order.  The receiver task receives until None. *)
From Coq Require Import List Arith Bool NArith Lia.
Import ListNotations.

Definition item := N.

Record task := mkTask {
  cur : list item;            (* outstanding sends of the current stage, in join order *)
  rest : list (list item);    (* later stages *)
  alive : bool;               (* Sender handle not dropped *)
  woken : bool                (* runnable: its waker fired since its last poll, or it never ran,
                                 or its last poll completed a stage *)
}.

Inductive rxst := RxOpen | RxClosed | RxDropped.

Definition rxst_eqb (a b : rxst) : bool :=
  match a, b with
  | RxOpen, RxOpen | RxClosed, RxClosed | RxDropped, RxDropped => true
  | _, _ => false
  end.

Record state := mkState {
  buf : list item;
  cap : option nat;
  sw : list nat;
  rw : bool;
  rx : rxst;
  rx_woken : bool;
  rx_done : bool;             (* the receiver task has seen None *)
  ntasks : nat;
  tasks : nat -> task;
  sent : list item;           (* ghost: successfully sent items, in order *)
  recvd : list item           (* ghost: received items, in order *)
}.

(* executor policy: which label sequences are allowed *)
Record policy := mkPolicy {
  spurious : bool;  (* tasks may be polled although not woken *)
  cancel : bool     (* a sender task may be dropped before its program is finished *)
}.
Definition strict : policy := mkPolicy false false.

Inductive label :=
| Poll (t : nat)          (* poll sender task t *)
| PollRx                  (* poll the receiver task: one poll_recv *)
| DropSender (t : nat)    (* drop task t with its Sender handle and outstanding futures *)
| CloseSender (t : nat)   (* Sender::close_this_sender (also Sink::poll_close) of a finished task *)
| TrySend (t : nat) (x : item)   (* task t calls Sender::try_send(x) *)
| CloneSender (t : nat) (prog : list (list item))
                          (* task t clones its Sender for a new task running prog *)
| CancelSend (t k : nat)  (* task t drops the k-th outstanding send future of its stage
                             (select!-style cancellation), keeping its Sender *)
| CloseRx                 (* Receiver::close *)
| DropRx.                 (* drop the Receiver *)

Inductive wake := WSend (t : nat) | WRecv.
Inductive sres := SSent | SFull | SClosed.
Inductive rres := RSome (x : item) | RNone | RPending.
Inductive obs :=
| OPoll (rs : list sres) (fin : bool) (ws : list wake)
| ORecv (r : rres) (ws : list wake)
| OAct (ws : list wake)
| OTry (r : sres) (ws : list wake)
| ODisabled.

Definition finished (tk : task) : bool :=
  match cur tk, rest tk with [], [] => true | _, _ => false end.

(* move to the next stage when the current one is complete *)
Definition advance (tk : task) : task :=
  match cur tk, rest tk with
  | [], st :: r => mkTask st r (alive tk) (woken tk)
  | _, _ => tk
  end.

Definition init_task (p : list (list item)) : task := advance (mkTask [] p true true).

Definition upd (f : nat -> task) (t : nat) (x : task) : nat -> task :=
  fun i => if Nat.eqb i t then x else f i.

Definition set_woken (tk : task) : task := mkTask (cur tk) (rest tk) (alive tk) true.

Definition is_wsend (t : nat) (w : wake) : bool :=
  match w with WSend u => Nat.eqb u t | WRecv => false end.
Definition is_wrecv (w : wake) : bool := match w with WRecv => true | _ => false end.

(* the executor marks every task whose waker fired as runnable *)
Definition wake_tasks (ws : list wake) (f : nat -> task) : nat -> task :=
  fun i => if existsb (is_wsend i) ws then set_woken (f i) else f i.

Definition full (c : option nat) (b : list item) : bool :=
  match c with Some n => Nat.leb n (length b) | None => false end.

Fixpoint count_alive (n : nat) (f : nat -> task) : nat :=
  match n with
  | O => O
  | S k => (if alive (f k) then 1 else 0) + count_alive k f
  end.

(* the channel part of the state touched by one `send` poll *)
Record chan := mkChan { c_buf : list item; c_sw : list nat; c_rw : bool; c_sent : list item }.

(* one poll of the future returned by Sender::send, by task t.
   returns (still pending, result, wakers fired, channel) *)
Definition send1 (c : option nat) (r : rxst) (t : nat) (x : item) (ch : chan)
  : bool * sres * list wake * chan :=
  match r with
  | RxOpen =>
      if full c (c_buf ch)
      then (true, SFull, [], mkChan (c_buf ch) (t :: c_sw ch) (c_rw ch) (c_sent ch))
      else (false, SSent, (if c_rw ch then [WRecv] else []),
            mkChan (c_buf ch ++ [x]) (c_sw ch) false (c_sent ch ++ [x]))
  | _ => (false, SClosed, [], ch)
  end.

(* poll every outstanding future of the stage in order (join!) *)
Fixpoint poll_sends (c : option nat) (r : rxst) (t : nat) (xs : list item) (ch : chan)
  : list item * list sres * list wake * chan :=
  match xs with
  | [] => ([], [], [], ch)
  | x :: xs' =>
      let '(pend, o1, w1, ch1) := send1 c r t x ch in
      let '(rem, os, ws, ch2) := poll_sends c r t xs' ch1 in
      ((if pend then x :: rem else rem), o1 :: os, w1 ++ ws, ch2)
  end.

Definition remove_nth {A} (k : nat) (l : list A) : list A := firstn k l ++ skipn (S k) l.

Definition rx_alive (s : state) : bool := negb (rxst_eqb (rx s) RxDropped).

Definition step (p : policy) (s : state) (l : label) : option (state * obs) :=
  match l with
  | Poll t =>
      let tk := tasks s t in
      if Nat.ltb t (ntasks s) && alive tk && negb (finished tk) && (woken tk || spurious p) then
        let '(rem, os, ws, ch) :=
          poll_sends (cap s) (rx s) t (cur tk) (mkChan (buf s) (sw s) (rw s) (sent s)) in
        let tk1 := advance (mkTask rem (rest tk) true false) in
        (* a task that completed its stage and has more to do keeps running *)
        let tk2 := mkTask (cur tk1) (rest tk1) true
                     (match rem with [] => negb (finished tk1) | _ => false end) in
        Some (mkState (c_buf ch) (cap s) (c_sw ch) (c_rw ch) (rx s)
                (rx_woken s || existsb is_wrecv ws) (rx_done s) (ntasks s)
                (upd (tasks s) t tk2) (c_sent ch) (recvd s),
              OPoll os (finished tk2) ws)
      else None
  | PollRx =>
      if rx_alive s && (spurious p || (rx_woken s && negb (rx_done s))) then
        match buf s with
        | v :: b' =>
            (* shared.wake_sender(), since /repo commit 904d17adb85 = wake_all_senders():
               drains send_wakers from the front (oldest first) and wakes every entry.
               (Before that commit it popped ONE waker: see ModelMpscOld.v.) *)
            let ws := map WSend (rev (sw s)) in
            Some (mkState b' (cap s) [] (rw s) (rx s) true (rx_done s) (ntasks s)
                    (wake_tasks ws (tasks s)) (sent s) (recvd s ++ [v]),
                  ORecv (RSome v) ws)
        | [] =>
            let weak := match rx s with RxOpen => count_alive (ntasks s) (tasks s) | _ => 0 end in
            if Nat.eqb weak 0
            then Some (mkState [] (cap s) (sw s) (rw s) (rx s) false true (ntasks s)
                         (tasks s) (sent s) (recvd s), ORecv RNone [])
            else Some (mkState [] (cap s) (sw s) true (rx s) false (rx_done s) (ntasks s)
                         (tasks s) (sent s) (recvd s), ORecv RPending [])
        end
      else None
  | DropSender t =>
      let tk := tasks s t in
      if Nat.ltb t (ntasks s) && alive tk && (finished tk || cancel p) then
        (* Drop for Sender: wake_receiver if the Rc is still there *)
        let fire := match rx s with RxOpen => rw s | _ => false end in
        Some (mkState (buf s) (cap s) (sw s) (match rx s with RxOpen => false | _ => rw s end)
                (rx s) (rx_woken s || fire) (rx_done s) (ntasks s)
                (upd (tasks s) t (mkTask [] [] false (woken tk))) (sent s) (recvd s),
              OAct (if fire then [WRecv] else []))
      else None
  | CloseSender t =>
      let tk := tasks s t in
      if Nat.ltb t (ntasks s) && alive tk && finished tk then
        (* since /repo commit fdb5498e919: wake_receiver (if the Rc is still there), then
           self.weak = Weak::new().  (Before: nobody was woken, see ModelMpscOld.v.) *)
        let fire := match rx s with RxOpen => rw s | _ => false end in
        Some (mkState (buf s) (cap s) (sw s) (match rx s with RxOpen => false | _ => rw s end)
                (rx s) (rx_woken s || fire) (rx_done s) (ntasks s)
                (upd (tasks s) t (mkTask [] [] false (woken tk))) (sent s) (recvd s),
              OAct (if fire then [WRecv] else []))
      else None
  | TrySend t x =>
      let tk := tasks s t in
      if Nat.ltb t (ntasks s) && alive tk && ((woken tk && negb (finished tk)) || spurious p) then
        match rx s with
        | RxOpen =>
            if full (cap s) (buf s) then Some (s, OTry SFull [])
            else Some (mkState (buf s ++ [x]) (cap s) (sw s) false (rx s) (rx_woken s || rw s)
                         (rx_done s) (ntasks s) (tasks s) (sent s ++ [x]) (recvd s),
                       OTry SSent (if rw s then [WRecv] else []))
        | _ => Some (s, OTry SClosed [])
        end
      else None
  | CloneSender t prog =>
      let tk := tasks s t in
      if Nat.ltb t (ntasks s) && alive tk then
        (* Weak::clone: one more sender handle, owned by a new runnable task *)
        Some (mkState (buf s) (cap s) (sw s) (rw s) (rx s) (rx_woken s) (rx_done s) (S (ntasks s))
                (upd (tasks s) (ntasks s) (init_task prog)) (sent s) (recvd s), OAct [])
      else None
  | CancelSend t k =>
      let tk := tasks s t in
      if cancel p && Nat.ltb t (ntasks s) && alive tk && Nat.ltb k (length (cur tk)) then
        (* the future is dropped (its registered waker, if any, stays in send_wakers); the task
           is running: it goes on with the rest of its stage / its next stage *)
        let tk1 := advance (mkTask (remove_nth k (cur tk)) (rest tk) true true) in
        Some (mkState (buf s) (cap s) (sw s) (rw s) (rx s) (rx_woken s) (rx_done s) (ntasks s)
                (upd (tasks s) t (mkTask (cur tk1) (rest tk1) true (negb (finished tk1))))
                (sent s) (recvd s), OAct [])
      else None
  | CloseRx =>
      match rx s with
      | RxOpen =>
          if rx_woken s || spurious p then
            (* wake_all_senders drains from the front (oldest first); fresh Shared *)
            let ws := map WSend (rev (sw s)) in
            Some (mkState (buf s) (cap s) [] false RxClosed (rx_woken s) (rx_done s) (ntasks s)
                    (wake_tasks ws (tasks s)) (sent s) (recvd s), OAct ws)
          else None
      | _ => None
      end
  | DropRx =>
      match rx s with
      | RxDropped => None
      | _ =>
          let ws := map WSend (rev (sw s)) in
          Some (mkState (buf s) (cap s) [] false RxDropped (rx_woken s) (rx_done s) (ntasks s)
                  (wake_tasks ws (tasks s)) (sent s) (recvd s), OAct ws)
      end
  end.

(* initial state: every task is runnable, the stage futures exist but are not polled yet *)

Definition init (c : option nat) (progs : list (list (list item))) : state :=
  mkState [] c [] false RxOpen true false (length progs)
    (fun i => init_task (nth i progs [])) [] [].

Inductive reachable (p : policy) (s0 : state) : list label -> state -> Prop :=
| r_nil : reachable p s0 [] s0
| r_snoc : forall tr s l s' o,
    reachable p s0 tr s -> step p s l = Some (s', o) -> reachable p s0 (tr ++ [l]) s'.

(* run a label sequence; a disabled label is reported and skipped *)
Fixpoint run (p : policy) (s : state) (ls : list label) : list obs * state :=
  match ls with
  | [] => ([], s)
  | l :: ls' =>
      match step p s l with
      | Some (s', o) => let '(os, sf) := run p s' ls' in (o :: os, sf)
      | None => let '(os, sf) := run p s ls' in (ODisabled :: os, sf)
      end
  end.

(* ------------------------------------------------------------------ the bad quiescent state *)

(* waits for capacity: an outstanding send, not runnable *)
Definition waiting (tk : task) : bool :=
  alive tk && negb (woken tk) && match cur tk with [] => false | _ => true end.
Definition runnable (tk : task) : bool := alive tk && woken tk && negb (finished tk).
Definition rx_runnable (s : state) : bool := rx_alive s && rx_woken s && negb (rx_done s).

Definition has_room (s : state) : bool := negb (full (cap s) (buf s)).

Definition Stranded (s : state) : Prop :=
  (forall t, t < ntasks s -> runnable (tasks s t) = false) /\ rx_runnable s = false /\
  (exists t, t < ntasks s /\ waiting (tasks s t) = true) /\
  has_room s = true.

Definition stranded_b (s : state) : bool :=
  forallb (fun t => negb (runnable (tasks s t))) (seq 0 (ntasks s)) &&
  negb (rx_runnable s) &&
  existsb (fun t => waiting (tasks s t)) (seq 0 (ntasks s)) &&
  has_room s.

(* the dual bad quiescent state: nothing is runnable, the receiver is parked, and there is
   something it should be told (an item, or that every sender is gone) *)
Definition all_dead (s : state) : bool :=
  forallb (fun t => negb (alive (tasks s t))) (seq 0 (ntasks s)).

Definition RxStranded (s : state) : Prop :=
  (forall t, t < ntasks s -> runnable (tasks s t) = false) /\ rx_runnable s = false /\
  rx s = RxOpen /\ rx_done s = false /\
  (buf s <> [] \/ forall t, t < ntasks s -> alive (tasks s t) = false).

Definition rx_stranded_b (s : state) : bool :=
  forallb (fun t => negb (runnable (tasks s t))) (seq 0 (ntasks s)) &&
  negb (rx_runnable s) && rxst_eqb (rx s) RxOpen && negb (rx_done s) &&
  (match buf s with [] => false | _ => true end || all_dead s).

Definition is_close_sender (l : label) : bool :=
  match l with CloseSender _ => true | _ => false end.

(* the labels of the original alphabet (the counting invariant of PMpscLive.v is about them) *)
Definition basic (l : label) : bool :=
  match l with TrySend _ _ | CloneSender _ _ | CancelSend _ _ => false | _ => true end.

(* the class of programs for which NoStrand is proved: one outstanding send per task *)
Definition single_prog (p : list (list item)) : bool :=
  forallb (fun st => Nat.eqb (length st) 1) p.
Definition single_progs (ps : list (list (list item))) : bool := forallb single_prog ps.

Definition cap_ok (c : option nat) : bool :=
  match c with Some n => Nat.leb 1 n | None => true end.
