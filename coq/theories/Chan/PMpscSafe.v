(* Engine Chan: safety of the mpsc model for EVERY executor policy and every label sequence:
   FIFO / exactly once / no loss, and closure consistency. *)
From Coq Require Import List Arith Bool NArith Lia.
From HV Require Import Chan.Base Chan.ModelMpsc Chan.ModelMpscChk.
Import ListNotations.

(* ------------------------------------------------------------------ poll_sends *)

Lemma poll_sends_spec : forall c r t xs ch rem os ws ch',
  poll_sends c r t xs ch = (rem, os, ws, ch') ->
  c_sent ch' = c_sent ch ++ snd (apply_results xs os) /\
  c_buf ch' = c_buf ch ++ snd (apply_results xs os) /\
  rem = fst (apply_results xs os) /\
  length os = length xs /\
  (forall o, In o os -> (o = SClosed <-> r <> RxOpen)).
Proof.
  intros c r t xs. induction xs as [|x xs IH]; intros ch rem os ws ch' E; cbn in E.
  - inversion E; subst. cbn. rewrite !app_nil_r.
    split; [reflexivity|split; [reflexivity|split; [reflexivity|split; [reflexivity|]]]].
    intros o [].
  - destruct (send1 c r t x ch) as [[[pend o1] w1] ch1] eqn:S1.
    destruct (poll_sends c r t xs ch1) as [[[rem2 os2] ws2] ch2] eqn:P2.
    inversion E; subst; clear E.
    destruct (IH _ _ _ _ _ P2) as (A & B & C & D & F).
    unfold send1 in S1. cbn [apply_results].
    destruct (apply_results xs os2) as [rem' snt'] eqn:AR. cbn [fst snd] in *.
    assert (G : forall o, In o (o1 :: os2) -> (o = SClosed <-> r <> RxOpen) ->
                (o = SClosed <-> r <> RxOpen)) by auto.
    destruct r.
    + destruct (full c (c_buf ch)).
      * inversion S1; subst; clear S1. cbn in *.
        split; [congruence|split; [congruence|split; [congruence|split; [congruence|]]]].
        intros o [<- | H]; [|apply F; exact H].
        split; [discriminate|intro K; exfalso; apply K; reflexivity].
      * inversion S1; subst; clear S1. cbn in *. rewrite A, B, <- !app_assoc. cbn.
        split; [congruence|split; [congruence|split; [congruence|split; [congruence|]]]].
        intros o [<- | H]; [|apply F; exact H].
        split; [discriminate|intro K; exfalso; apply K; reflexivity].
    + inversion S1; subst; clear S1. cbn in *.
      split; [congruence|split; [congruence|split; [congruence|split; [congruence|]]]].
      intros o [<- | H]; [|apply F; exact H].
      split; [discriminate|reflexivity].
    + inversion S1; subst; clear S1. cbn in *.
      split; [congruence|split; [congruence|split; [congruence|split; [congruence|]]]].
      intros o [<- | H]; [|apply F; exact H].
      split; [discriminate|reflexivity].
Qed.

(* ------------------------------------------------------------------ FIFO, exactly once *)

Definition Fifo (s : state) : Prop := sent s = recvd s ++ buf s.

Lemma step_fifo : forall p s l s' o, Fifo s -> step p s l = Some (s', o) -> Fifo s'.
Proof.
  unfold Fifo. intros p s l s' o F St. destruct l; cbn [step] in St.
  - destruct (_ && _) in St; [|discriminate].
    destruct (poll_sends _ _ _ _ _) as [[[rem os] ws] ch] eqn:PS.
    inversion St; subst; clear St. cbn.
    destruct (poll_sends_spec _ _ _ _ _ _ _ _ _ PS) as (A & B & _). cbn in A, B.
    rewrite A, B, F, app_assoc. reflexivity.
  - destruct (_ && _) in St; [|discriminate].
    destruct (buf s) as [|v b'] eqn:Bf.
    + destruct (Nat.eqb _ 0); inversion St; subst; cbn; rewrite F; reflexivity.
    + inversion St; subst; cbn; rewrite F, <- app_assoc; reflexivity.
  - destruct (_ && _) in St; [|discriminate]. inversion St; subst; cbn. exact F.
  - destruct (_ && _) in St; [|discriminate]. inversion St; subst; cbn. exact F.
  - destruct (_ && _) in St; [|discriminate].
    destruct (rx s); [destruct (full _ _)|..]; inversion St; subst; cbn; try exact F.
    rewrite F, app_assoc. reflexivity.
  - destruct (_ && _) in St; [|discriminate]. inversion St; subst; cbn. exact F.
  - destruct (_ && _) in St; [|discriminate]. inversion St; subst; cbn. exact F.
  - destruct (rx s); try discriminate. destruct (_ || _) in St; [|discriminate].
    inversion St; subst; cbn. exact F.
  - destruct (rx s); try discriminate; inversion St; subst; cbn; exact F.
Qed.

Lemma reachable_fifo : forall p s0 tr s, Fifo s0 -> reachable p s0 tr s -> Fifo s.
Proof. intros p s0 tr s F R. induction R; [exact F|]. eapply step_fifo; eassumption. Qed.

(* the ghost sequences are exactly what the observations say: the items of the current stage
   whose send returned Ok are appended to `sent`, a received item is appended to `recvd` *)
Definition obs_recv (o : obs) : list item :=
  match o with ORecv (RSome v) _ => [v] | _ => [] end.
Definition obs_sent (s : state) (l : label) (o : obs) : list item :=
  match l, o with
  | Poll t, OPoll rs _ _ => snd (apply_results (cur (tasks s t)) rs)
  | TrySend _ x, OTry SSent _ => [x]
  | _, _ => []
  end.

Lemma step_ghost : forall p s l s' o, step p s l = Some (s', o) ->
  sent s' = sent s ++ obs_sent s l o /\ recvd s' = recvd s ++ obs_recv o.
Proof.
  intros p s l s' o St. destruct l; cbn [step] in St.
  - destruct (_ && _) in St; [|discriminate].
    destruct (poll_sends _ _ _ _ _) as [[[rem os] ws] ch] eqn:PS.
    inversion St; subst; clear St. cbn.
    destruct (poll_sends_spec _ _ _ _ _ _ _ _ _ PS) as (A & _). cbn in A.
    rewrite A, app_nil_r. split; reflexivity.
  - destruct (_ && _) in St; [|discriminate].
    destruct (buf s) as [|v b'] eqn:Bf.
    + destruct (Nat.eqb _ 0); inversion St; subst; cbn; rewrite !app_nil_r; split; reflexivity.
    + inversion St; subst; cbn; rewrite !app_nil_r; split; reflexivity.
  - destruct (_ && _) in St; [|discriminate]. inversion St; subst; cbn.
    rewrite !app_nil_r; split; reflexivity.
  - destruct (_ && _) in St; [|discriminate]. inversion St; subst; cbn.
    rewrite !app_nil_r; split; reflexivity.
  - destruct (_ && _) in St; [|discriminate].
    destruct (rx s); [destruct (full _ _)|..]; inversion St; subst; cbn; rewrite ?app_nil_r; split; reflexivity.
  - destruct (_ && _) in St; [|discriminate]. inversion St; subst; cbn.
    rewrite !app_nil_r; split; reflexivity.
  - destruct (_ && _) in St; [|discriminate]. inversion St; subst; cbn.
    rewrite !app_nil_r; split; reflexivity.
  - destruct (rx s); try discriminate. destruct (_ || _) in St; [|discriminate].
    inversion St; subst; cbn. rewrite !app_nil_r; split; reflexivity.
  - destruct (rx s); try discriminate; inversion St; subst; cbn; rewrite !app_nil_r; split; reflexivity.
Qed.

Lemma fifo_exactly_once : forall p c progs tr s,
  reachable p (init c progs) tr s ->
  sent s = recvd s ++ buf s /\ recvd s = firstn (length (recvd s)) (sent s).
Proof.
  intros p c progs tr s R.
  assert (F : Fifo s) by (eapply reachable_fifo; [|exact R]; reflexivity).
  split; [exact F|]. rewrite F, firstn_app, Nat.sub_diag, firstn_all. cbn. rewrite app_nil_r. reflexivity.
Qed.

(* ------------------------------------------------------------------ closure consistency *)

Definition is_close (l : label) : bool :=
  match l with CloseRx | DropRx => true | _ => false end.

Lemma step_rx : forall p s l s' o, step p s l = Some (s', o) ->
  (rx s' = RxOpen <-> rx s = RxOpen /\ is_close l = false).
Proof.
  intros p s l s' o St. destruct l; cbn [step] in St.
  - destruct (_ && _) in St; [|discriminate].
    destruct (poll_sends _ _ _ _ _) as [[[rem os] ws] ch].
    inversion St; subst; cbn. tauto.
  - destruct (_ && _) in St; [|discriminate].
    destruct (buf s); [destruct (Nat.eqb _ 0)|]; inversion St; subst; cbn; tauto.
  - destruct (_ && _) in St; [|discriminate]. inversion St; subst; cbn. tauto.
  - destruct (_ && _) in St; [|discriminate]. inversion St; subst; cbn. tauto.
  - destruct (_ && _) in St; [|discriminate].
    destruct (rx s) eqn:E; [destruct (full _ _)|..]; inversion St; subst; cbn; rewrite ?E; tauto.
  - destruct (_ && _) in St; [|discriminate]. inversion St; subst; cbn. tauto.
  - destruct (_ && _) in St; [|discriminate]. inversion St; subst; cbn. tauto.
  - destruct (rx s) eqn:E; try discriminate. destruct (_ || _) in St; [|discriminate].
    inversion St; subst; cbn. split; [discriminate|intros [_ H]; discriminate].
  - destruct (rx s) eqn:E; try discriminate; inversion St; subst; cbn;
      (split; [discriminate|intros [_ H]; discriminate]).
Qed.

Lemma reachable_rx : forall p c progs tr s, reachable p (init c progs) tr s ->
  (rx s = RxOpen <-> existsb is_close tr = false).
Proof.
  intros p c progs tr s R. induction R.
  - cbn. tauto.
  - rewrite existsb_app. cbn. rewrite orb_false_r, orb_false_iff.
    rewrite (step_rx _ _ _ _ _ H). tauto.
Qed.

Lemma count_alive_zero : forall n f, count_alive n f = 0 <-> (forall t, t < n -> alive (f t) = false).
Proof.
  induction n as [|n IH]; intros f; cbn.
  - split; [intros _ t Ht; lia|reflexivity].
  - split.
    + intros H t Ht. destruct (alive (f n)) eqn:A; [discriminate|].
      destruct (Nat.eq_dec t n) as [->|Ne]; [exact A|]. apply IH; [exact H|lia].
    + intros H. rewrite (H n) by lia. cbn. apply IH. intros t Ht. apply H. lia.
Qed.

(* send errs iff the receiver is gone (closed or dropped earlier in the trace);
   recv yields None iff everything sent has been received and no sender can send any more *)
Lemma closure_consistent : forall p c progs tr s l s' o,
  reachable p (init c progs) tr s -> step p s l = Some (s', o) ->
  (forall rs fin ws r, o = OPoll rs fin ws -> In r rs ->
     (r = SClosed <-> existsb is_close tr = true)) /\
  (forall r ws, o = ORecv r ws ->
     (r = RNone <-> sent s = recvd s /\
                    (existsb is_close tr = true \/ forall t, t < ntasks s -> alive (tasks s t) = false))).
Proof.
  intros p c progs tr s l s' o R St.
  pose proof (reachable_rx _ _ _ _ _ R) as RX.
  assert (F : Fifo s) by (eapply reachable_fifo; [|exact R]; reflexivity).
  assert (CL : rx s <> RxOpen <-> existsb is_close tr = true).
  { rewrite RX. destruct (existsb is_close tr); split; congruence. }
  destruct l; cbn [step] in St.
  - destruct (_ && _) in St; [|discriminate].
    destruct (poll_sends _ _ _ _ _) as [[[rem os] ws] ch] eqn:PS.
    inversion St; subst; clear St.
    destruct (poll_sends_spec _ _ _ _ _ _ _ _ _ PS) as (_ & _ & _ & _ & K).
    split; [|intros r ws0 E; discriminate].
    intros rs fin ws0 r E I. inversion E; subst. rewrite (K r I). exact CL.
  - destruct (_ && _) in St; [|discriminate].
    unfold Fifo in F.
    destruct (buf s) as [|v b'] eqn:Bf.
    + rewrite app_nil_r in F.
      destruct (Nat.eqb _ 0) eqn:W; inversion St; subst; clear St;
        (split; [intros rs fin ws r E; discriminate|]); intros r ws E; inversion E; subst.
      * split; [intros _|reflexivity]. split; [exact F|].
        apply Nat.eqb_eq in W. destruct (rx s) eqn:RXS.
        -- right. apply count_alive_zero. exact W.
        -- left. apply CL. try rewrite RXS. discriminate.
        -- left. apply CL. try rewrite RXS. discriminate.
      * split; [discriminate|]. intros [_ [C|A]].
        -- apply CL in C. destruct (rx s) eqn:RXS; [exfalso; apply C; reflexivity|discriminate W|discriminate W].
        -- apply count_alive_zero in A. destruct (rx s) eqn:RXS; [rewrite A in W; discriminate W|discriminate W|discriminate W].
    + inversion St; subst; clear St;
        (split; [intros rs fin ws r E; discriminate|]); intros r ws E; inversion E; subst;
        (split; [discriminate|]); intros [Eq _]; rewrite F in Eq;
        apply (f_equal (@length item)) in Eq; rewrite app_length in Eq; cbn in Eq; lia.
  - destruct (_ && _) in St; [|discriminate]. inversion St; subst.
    split; intros; discriminate.
  - destruct (_ && _) in St; [|discriminate]. inversion St; subst.
    split; intros; discriminate.
  - destruct (_ && _) in St; [|discriminate].
    destruct (rx s); [destruct (full _ _)|..]; inversion St; subst; split; intros; discriminate.
  - destruct (_ && _) in St; [|discriminate]. inversion St; subst.
    split; intros; discriminate.
  - destruct (_ && _) in St; [|discriminate]. inversion St; subst.
    split; intros; discriminate.
  - destruct (rx s); try discriminate. destruct (_ || _) in St; [|discriminate].
    inversion St; subst. split; intros; discriminate.
  - destruct (rx s); try discriminate; inversion St; subst; split; intros; discriminate.
Qed.

(* try_send errs with Closed iff the receiver was closed or dropped earlier in the trace *)
Lemma try_send_closure : forall p c progs tr s t x s' r ws,
  reachable p (init c progs) tr s -> step p s (TrySend t x) = Some (s', OTry r ws) ->
  (r = SClosed <-> existsb is_close tr = true).
Proof.
  intros p c progs tr s t x s' r ws R St.
  pose proof (reachable_rx _ _ _ _ _ R) as RX.
  cbn [step] in St. destruct (_ && _) in St; [|discriminate].
  destruct (rx s) eqn:E; [destruct (full _ _)|..]; inversion St; subst;
    destruct (existsb is_close tr); split; intros H; try discriminate; try reflexivity;
    exfalso; destruct RX as [R1 R2]; try (specialize (R1 eq_refl); discriminate);
    try (specialize (R2 eq_refl); discriminate).
Qed.
