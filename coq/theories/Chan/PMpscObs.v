(* Engine Chan: the executable form of C16 used by the correspondence check (the observer
   C16_fail_mask of ModelMpscChk.v, which sees only labels and observations) is tied to the
   theorems: on the observations of ANY behaviour of the model the observer reconstructs the
   model's scheduler state exactly (simulation), all its clauses pass, and therefore
     "the property fails on the implementation's outputs" (verdict bit 1)
       implies "the implementation differs from the model" (verdict bit 0). *)
From Coq Require Import List Arith Bool NArith Lia.
From HV Require Import Chan.Base Chan.ModelMpsc Chan.ModelMpscChk Chan.PMpscSafe Chan.PMpscLive
                       Chan.PMpscAll Chan.PMpscRefute.
Import ListNotations.

(* observer state b tracks model state a *)
Record Sim (a b : state) : Prop := mkSim {
  s_buf : buf b = buf a;
  s_cap : cap b = cap a;
  s_rx : rx b = rx a;
  s_rxw : rx_woken b = rx_woken a;
  s_rxd : rx_done b = rx_done a;
  s_n : ntasks b = ntasks a;
  s_tasks : forall i, tasks b i = tasks a i;
  s_sent : sent b = sent a;
  s_recvd : recvd b = recvd a
}.

Lemma forallb_ext' : forall (A : Type) (f g : A -> bool) l, (forall x, f x = g x) -> forallb f l = forallb g l.
Proof. intros A f g l H. induction l as [|x l IH]; cbn; [reflexivity|]. rewrite H, IH. reflexivity. Qed.
Lemma existsb_ext' : forall (A : Type) (f g : A -> bool) l, (forall x, f x = g x) -> existsb f l = existsb g l.
Proof. intros A f g l H. induction l as [|x l IH]; cbn; [reflexivity|]. rewrite H, IH. reflexivity. Qed.

Lemma count_alive_ext : forall n f g, (forall i, f i = g i) -> count_alive n f = count_alive n g.
Proof. induction n as [|n IH]; intros f g H; cbn; [reflexivity|]. rewrite H, (IH f g H). reflexivity. Qed.

Lemma sim_stranded : forall a b, Sim a b -> stranded_b b = stranded_b a.
Proof.
  intros a b S. unfold stranded_b, rx_runnable, rx_alive, has_room.
  rewrite (s_n a b S), (s_rx a b S), (s_rxw a b S), (s_rxd a b S), (s_cap a b S), (s_buf a b S).
  rewrite (forallb_ext' _ (fun t => negb (runnable (tasks b t))) (fun t => negb (runnable (tasks a t))))
    by (intro x; rewrite (s_tasks a b S); reflexivity).
  rewrite (existsb_ext' _ (fun t => waiting (tasks b t)) (fun t => waiting (tasks a t)))
    by (intro x; rewrite (s_tasks a b S); reflexivity).
  reflexivity.
Qed.

Lemma sim_rx_stranded : forall a b, Sim a b -> rx_stranded_b b = rx_stranded_b a.
Proof.
  intros a b S. unfold rx_stranded_b, all_dead, rx_runnable, rx_alive.
  rewrite (s_n a b S), (s_rx a b S), (s_rxw a b S), (s_rxd a b S), (s_buf a b S).
  rewrite (forallb_ext' _ (fun t => negb (runnable (tasks b t))) (fun t => negb (runnable (tasks a t))))
    by (intro x; rewrite (s_tasks a b S); reflexivity).
  rewrite (forallb_ext' _ (fun t => negb (alive (tasks b t))) (fun t => negb (alive (tasks a t))))
    by (intro x; rewrite (s_tasks a b S); reflexivity).
  reflexivity.
Qed.

Lemma wake_tasks_ext : forall ws f g i, (forall j, f j = g j) -> wake_tasks ws f i = wake_tasks ws g i.
Proof. intros. unfold wake_tasks. rewrite H. reflexivity. Qed.

Lemma upd_ext : forall f g t x i, (forall j, f j = g j) -> upd f t x i = upd g t x i.
Proof. intros. unfold upd. destruct (Nat.eqb i t); [reflexivity|apply H]. Qed.

Lemma no_wrecv_in_wsends : forall l, existsb is_wrecv (map WSend l) = false.
Proof. induction l as [|x l IH]; cbn; [reflexivity|exact IH]. Qed.

Lemma wrecv_only_if : forall (b : bool), forall w, In w (if b then [WRecv] else []) -> w = WRecv.
Proof. intros [|] w H; cbn in H; [destruct H as [<-|[]]; reflexivity|destruct H]. Qed.

Lemma existsb_wrecv_if : forall (b : bool), existsb is_wrecv (if b then [WRecv] else []) = b.
Proof. intros [|]; reflexivity. Qed.

Lemma closure_forallb : forall r os,
  (forall o, In o os -> (o = SClosed <-> r <> RxOpen)) ->
  forallb (fun o => Bool.eqb (sres_eqb o SClosed) (negb (rxst_eqb r RxOpen))) os = true.
Proof.
  intros r os H. apply forallb_forall. intros o Ho. specialize (H o Ho).
  destruct o; destruct r; cbn; try reflexivity; exfalso.
  - destruct H as [_ H]. assert (K : SSent = SClosed) by (apply H; discriminate). discriminate.
  - destruct H as [_ H]. assert (K : SSent = SClosed) by (apply H; discriminate). discriminate.
  - destruct H as [_ H]. assert (K : SFull = SClosed) by (apply H; discriminate). discriminate.
  - destruct H as [_ H]. assert (K : SFull = SClosed) by (apply H; discriminate). discriminate.
  - destruct H as [H _]. apply (H eq_refl). reflexivity.
Qed.

(* one step: the observer, fed the model's observation, reaches the projection of the model's
   next state and raises no clause *)
Lemma observe_sim : forall p a b l a' o, Sim a b -> step p a l = Some (a', o) ->
  exists b', observe b l o = (b', 0%N) /\ Sim a' b'.
Proof.
  intros p a b l a' o S St. destruct l; cbn [step] in St.
  - (* Poll *)
    destruct (_ && _) in St; [|discriminate].
    destruct (poll_sends _ _ _ _ _) as [[[rem os] ws] ch] eqn:PS.
    inversion St; subst; clear St.
    destruct (poll_sends_spec _ _ _ _ _ _ _ _ _ PS) as (A & B & C & D & E). cbn in A, B.
    cbn [observe]. rewrite (s_tasks a b S t).
    destruct (apply_results (cur (tasks a t)) os) as [rem' snt] eqn:AR. cbn [fst snd] in *. subst rem'.
    rewrite (s_rx a b S). rewrite (closure_forallb _ _ E). cbn [negb b2N].
    eexists. split; [reflexivity|].
    assert (WO : forall w, In w ws -> w = WRecv).
    { clear -PS. revert PS. generalize (mkChan (buf a) (sw a) (rw a) (sent a)). generalize (cur (tasks a t)).
      intros xs. revert rem os ws ch. induction xs as [|x xs IH]; intros rem os ws ch ch0 PS w Hw; cbn in PS.
      - inversion PS; subst. destruct Hw.
      - destruct (send1 (cap a) (rx a) t x ch0) as [[[pend o1] w1] ch1] eqn:S1.
        destruct (poll_sends (cap a) (rx a) t xs ch1) as [[[rem2 os2] ws2] ch2] eqn:P2.
        inversion PS; subst. apply in_app_or in Hw. destruct Hw as [Hw|Hw]; [|eapply IH; eassumption].
        unfold send1 in S1. destruct (rx a); [destruct (full _ _)|..]; inversion S1; subst;
          try (destruct Hw); destruct (c_rw ch0); cbn in Hw; [destruct Hw as [<-|[]]; reflexivity|destruct Hw]. }
    constructor; cbn.
    + rewrite (s_buf a b S), B. reflexivity.
    + apply (s_cap a b S).
    + reflexivity.
    + rewrite (s_rxw a b S). reflexivity.
    + apply (s_rxd a b S).
    + apply (s_n a b S).
    + intros i. rewrite (wake_tasks_wrecv_only ws _ i WO). apply upd_ext. apply (s_tasks a b S).
    + rewrite (s_sent a b S), A. reflexivity.
    + apply (s_recvd a b S).
  - (* PollRx *)
    destruct (_ && _) in St; [|discriminate].
    destruct (buf a) as [|v b0] eqn:Bf.
    + destruct (Nat.eqb _ 0) eqn:W; inversion St; subst; clear St; cbn [observe];
        rewrite (s_buf a b S), Bf, (s_rx a b S), (s_n a b S),
                (count_alive_ext _ (tasks b) (tasks a) (s_tasks a b S)), W; cbn;
        (eexists; split; [reflexivity|]); constructor; cbn;
        try reflexivity; try apply (s_cap a b S); try apply (s_n a b S); try apply (s_sent a b S);
        try apply (s_recvd a b S); try apply (s_rxd a b S); try (rewrite (s_buf a b S); exact Bf);
        try (intros i; apply (s_tasks a b S)); try apply (s_rx a b S).
    + inversion St; subst; clear St. cbn [observe].
      rewrite (s_buf a b S), Bf. cbn. rewrite N.eqb_refl. cbn.
      eexists. split; [reflexivity|]. constructor; cbn; try reflexivity.
      * apply (s_cap a b S).
      * apply (s_rx a b S).
      * apply (s_rxd a b S).
      * apply (s_n a b S).
      * intros i. apply wake_tasks_ext. apply (s_tasks a b S).
      * apply (s_sent a b S).
      * rewrite (s_recvd a b S). reflexivity.
  - (* DropSender *)
    destruct (_ && _) in St; [|discriminate]. inversion St; subst; clear St. cbn [observe].
    eexists. split; [reflexivity|]. constructor; cbn; try reflexivity.
    + apply (s_buf a b S).
    + apply (s_cap a b S).
    + apply (s_rx a b S).
    + rewrite existsb_wrecv_if, (s_rxw a b S). reflexivity.
    + apply (s_rxd a b S).
    + apply (s_n a b S).
    + intros i. rewrite (wake_tasks_wrecv_only _ _ i (wrecv_only_if _)).
      rewrite (s_tasks a b S t). apply upd_ext. apply (s_tasks a b S).
    + apply (s_sent a b S).
    + apply (s_recvd a b S).
  - (* CloseSender *)
    destruct (_ && _) in St; [|discriminate]. inversion St; subst; clear St. cbn [observe].
    eexists. split; [reflexivity|]. constructor; cbn; try reflexivity.
    + apply (s_buf a b S).
    + apply (s_cap a b S).
    + apply (s_rx a b S).
    + rewrite existsb_wrecv_if, (s_rxw a b S). reflexivity.
    + apply (s_rxd a b S).
    + apply (s_n a b S).
    + intros i. rewrite (wake_tasks_wrecv_only _ _ i (wrecv_only_if _)).
      rewrite (s_tasks a b S t). apply upd_ext. apply (s_tasks a b S).
    + apply (s_sent a b S).
    + apply (s_recvd a b S).
  - (* TrySend *)
    destruct (_ && _) in St; [|discriminate].
    destruct (rx a) eqn:RX.
    + destruct (full (cap a) (buf a)).
      * injection St as <- <-. cbn [observe]. rewrite (s_rx a b S), RX. cbn.
        eexists. split; [reflexivity|]. (constructor; cbn; rewrite ?app_nil_r, ?orb_false_r;
          try apply (s_buf a b S); try apply (s_cap a b S); try apply (s_rx a b S);
          try apply (s_rxw a b S); try apply (s_rxd a b S); try apply (s_n a b S);
          try apply (s_sent a b S); try apply (s_recvd a b S); try (intros i; apply (s_tasks a b S));
          try (symmetry; exact RX); try (rewrite (s_rx a b S); exact RX)).
      * injection St as <- <-. cbn [observe]. rewrite (s_rx a b S), RX. cbn.
        eexists. split; [reflexivity|]. constructor; cbn; rewrite ?existsb_wrecv_if.
        -- rewrite (s_buf a b S). reflexivity.
        -- apply (s_cap a b S).
        -- first [symmetry; exact RX|rewrite (s_rx a b S); exact RX|exact RX|reflexivity].
        -- rewrite (s_rxw a b S). reflexivity.
        -- apply (s_rxd a b S).
        -- apply (s_n a b S).
        -- intros i. rewrite (wake_tasks_wrecv_only _ _ i (wrecv_only_if _)). apply (s_tasks a b S).
        -- rewrite (s_sent a b S). reflexivity.
        -- apply (s_recvd a b S).
    + injection St as <- <-. cbn [observe]. rewrite (s_rx a b S), RX. cbn.
      eexists. split; [reflexivity|]. (constructor; cbn; rewrite ?app_nil_r, ?orb_false_r;
          try apply (s_buf a b S); try apply (s_cap a b S); try apply (s_rx a b S);
          try apply (s_rxw a b S); try apply (s_rxd a b S); try apply (s_n a b S);
          try apply (s_sent a b S); try apply (s_recvd a b S); try (intros i; apply (s_tasks a b S));
          try (symmetry; exact RX); try (rewrite (s_rx a b S); exact RX)).
    + injection St as <- <-. cbn [observe]. rewrite (s_rx a b S), RX. cbn.
      eexists. split; [reflexivity|]. (constructor; cbn; rewrite ?app_nil_r, ?orb_false_r;
          try apply (s_buf a b S); try apply (s_cap a b S); try apply (s_rx a b S);
          try apply (s_rxw a b S); try apply (s_rxd a b S); try apply (s_n a b S);
          try apply (s_sent a b S); try apply (s_recvd a b S); try (intros i; apply (s_tasks a b S));
          try (symmetry; exact RX); try (rewrite (s_rx a b S); exact RX)).
  - (* CloneSender *)
    destruct (_ && _) in St; [|discriminate]. inversion St; subst; clear St. cbn [observe].
    eexists. split; [reflexivity|]. constructor; cbn; rewrite ?orb_false_r; try reflexivity.
    + apply (s_buf a b S).
    + apply (s_cap a b S).
    + apply (s_rx a b S).
    + apply (s_rxw a b S).
    + apply (s_rxd a b S).
    + rewrite (s_n a b S). reflexivity.
    + intros i. rewrite (s_n a b S). apply upd_ext. apply (s_tasks a b S).
    + apply (s_sent a b S).
    + apply (s_recvd a b S).
  - (* CancelSend *)
    destruct (_ && _) in St; [|discriminate]. inversion St; subst; clear St. cbn [observe].
    eexists. split; [reflexivity|]. constructor; cbn; rewrite ?orb_false_r; try reflexivity.
    + apply (s_buf a b S).
    + apply (s_cap a b S).
    + apply (s_rx a b S).
    + apply (s_rxw a b S).
    + apply (s_rxd a b S).
    + apply (s_n a b S).
    + intros i. rewrite (s_tasks a b S t). apply upd_ext. apply (s_tasks a b S).
    + apply (s_sent a b S).
    + apply (s_recvd a b S).
  - (* CloseRx *)
    destruct (rx a) eqn:RX; try discriminate. destruct (_ || _) in St; [|discriminate].
    inversion St; subst; clear St. cbn [observe].
    eexists. split; [reflexivity|]. constructor; cbn; try reflexivity.
    + apply (s_buf a b S).
    + apply (s_cap a b S).
    + rewrite no_wrecv_in_wsends, orb_false_r. apply (s_rxw a b S).
    + apply (s_rxd a b S).
    + apply (s_n a b S).
    + intros i. apply wake_tasks_ext. apply (s_tasks a b S).
    + apply (s_sent a b S).
    + apply (s_recvd a b S).
  - (* DropRx *)
    destruct (rx a) eqn:RX; try discriminate; inversion St; subst; clear St; cbn [observe];
      (eexists; split; [reflexivity|]); constructor; cbn; try reflexivity;
      try apply (s_buf a b S); try apply (s_cap a b S); try apply (s_rxd a b S); try apply (s_n a b S);
      try apply (s_sent a b S); try apply (s_recvd a b S);
      try (rewrite no_wrecv_in_wsends, orb_false_r; apply (s_rxw a b S));
      try (intros i; apply wake_tasks_ext; apply (s_tasks a b S)).
Qed.

Lemma not_stranded_b : forall p c progs tr s, reachable p (init c progs) tr s ->
  stranded_b s = false /\ rx_stranded_b s = false.
Proof.
  intros p c progs tr s R. split.
  - destruct (stranded_b s) eqn:E; [|reflexivity]. exfalso.
    apply (no_strand_all p c progs tr s R). apply stranded_b_iff. exact E.
  - destruct (rx_stranded_b s) eqn:E; [|reflexivity]. exfalso.
    apply (no_rx_strand_all p c progs tr s R). apply rx_stranded_b_iff. exact E.
Qed.

Lemma observe_all_model : forall p c progs ls tr a b,
  reachable p (init c progs) tr a -> Sim a b ->
  observe_all b ls (fst (run p a ls)) = 0%N.
Proof.
  intros p c progs ls. induction ls as [|l ls IH]; intros tr a b R S; [reflexivity|].
  cbn [run]. destruct (step p a l) as [[a' o]|] eqn:St.
  - destruct (run p a' ls) as [os sf] eqn:Rn. cbn [fst observe_all].
    destruct (observe_sim p a b l a' o S St) as [b' [Ob S']]. rewrite Ob.
    assert (R' : reachable p (init c progs) (tr ++ [l]) a') by (eapply r_snoc; eassumption).
    destruct (not_stranded_b _ _ _ _ _ R') as [N1 N2].
    rewrite (sim_stranded a' b' S'), (sim_rx_stranded a' b' S'), N1, N2. cbn.
    specialize (IH (tr ++ [l]) a' b' R' S'). rewrite Rn in IH. exact IH.
  - destruct (run p a ls) as [os sf] eqn:Rn. cbn [fst observe_all].
    assert (Ob : observe b l ODisabled = (b, 0%N)) by (destruct l; reflexivity). rewrite Ob.
    destruct (not_stranded_b _ _ _ _ _ R) as [N1 N2].
    rewrite (sim_stranded a b S), (sim_rx_stranded a b S), N1, N2. cbn.
    specialize (IH tr a b R S). rewrite Rn in IH. exact IH.
Qed.

(* on every behaviour of the model the executable form of C16 holds *)
Theorem holds_b_on_model : forall p c progs ls,
  C16_holds_b c progs ls (fst (run p (init c progs) ls)) = true.
Proof.
  intros p c progs ls. unfold C16_holds_b, C16_fail_mask.
  rewrite (observe_all_model p c progs ls [] (init c progs) (init c progs) (r_nil _ _)).
  - reflexivity.
  - constructor; reflexivity.
Qed.

(* ---- decidable equality used by the verdict is sound ---- *)
Lemma list_eqb_sound : forall (A : Type) (e : A -> A -> bool),
  (forall x y, e x y = true -> x = y) -> forall a b, list_eqb e a b = true -> a = b.
Proof.
  intros A e H. induction a as [|x a IH]; intros [|y b] E; cbn in E; try discriminate; [reflexivity|].
  apply andb_true_iff in E. destruct E as [E1 E2]. rewrite (H x y E1), (IH b E2). reflexivity.
Qed.

Lemma wake_eqb_sound : forall x y, wake_eqb x y = true -> x = y.
Proof. intros [x|] [y|] E; cbn in E; try discriminate; [apply Nat.eqb_eq in E; subst|]; reflexivity. Qed.
Lemma sres_eqb_sound : forall x y, sres_eqb x y = true -> x = y.
Proof. intros [] [] E; cbn in E; try discriminate; reflexivity. Qed.
Lemma rres_eqb_sound : forall x y, rres_eqb x y = true -> x = y.
Proof. intros [x| |] [y| |] E; cbn in E; try discriminate; [apply N.eqb_eq in E; subst|..]; reflexivity. Qed.

Lemma obs_eqb_sound : forall x y, obs_eqb x y = true -> x = y.
Proof.
  intros [r f w|r w|w|r w|] [r' f' w'|r' w'|w'|r' w'|] E; cbn in E; try discriminate; try reflexivity.
  - apply andb_true_iff in E. destruct E as [E E3]. apply andb_true_iff in E. destruct E as [E1 E2].
    rewrite (list_eqb_sound _ _ sres_eqb_sound _ _ E1), (Bool.eqb_prop _ _ E2),
            (list_eqb_sound _ _ wake_eqb_sound _ _ E3). reflexivity.
  - apply andb_true_iff in E. destruct E as [E1 E2].
    rewrite (rres_eqb_sound _ _ E1), (list_eqb_sound _ _ wake_eqb_sound _ _ E2). reflexivity.
  - rewrite (list_eqb_sound _ _ wake_eqb_sound _ _ E). reflexivity.
  - apply andb_true_iff in E. destruct E as [E1 E2].
    rewrite (sres_eqb_sound _ _ E1), (list_eqb_sound _ _ wake_eqb_sound _ _ E2). reflexivity.
Qed.

(* the verdict of a correspondence case: if the implementation's observations agree with the
   model's (bit 0 clear) then the executable form of C16 holds on them (bit 1 clear) and the
   whole verdict is 0: a property failure on the implementation's outputs can only be reported
   together with a model/implementation disagreement *)
Theorem agree_implies_holds : forall c progs spur canc ls impl,
  list_eqb obs_eqb (fst (run (mkPolicy spur canc) (init c progs) ls)) impl = true ->
  C16_holds_b c progs ls impl = true /\ chk16 c progs spur canc ls impl = 0%N.
Proof.
  intros c progs spur canc ls impl E.
  assert (H : C16_holds_b c progs ls impl = true).
  { apply (list_eqb_sound _ _ obs_eqb_sound) in E. rewrite <- E. apply holds_b_on_model. }
  split; [exact H|]. unfold chk16. rewrite E. unfold C16_holds_b in H. rewrite H.
  apply N.eqb_eq in H. rewrite H. reflexivity.
Qed.
