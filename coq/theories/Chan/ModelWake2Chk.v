(* Engine Chan: deterministic schedules over ModelWake2.step2 for the correspondence check, and
   the executable form of C27 on the implementation's event log (definitions only).
   An external action fires when the runner is about to execute a given step for the k-th time:
   push = producer's send (enqueue; if the source holds the waker: wake_by_ref = store, notify),
   wake = raw wake_by_ref.  `defers` lists the ticks (0-based) whose body leaves deferred data. *)
From Coq Require Import List Arith Bool NArith.
From HV Require Import Chan.Base Chan.ModelWake2.
Import ListNotations.

Definition point2 (p : pc2) : nat :=
  match p with A0 => 0 | T1 => 1 | T2 => 2 | T3 => 3 | A1 => 4 | A2 => 5 | I1 => 6 | I2 => 7
             | Parked => 8 | T2b => 10 end.

Inductive ev := EPoint (p : nat) | ETick (consumed : nat) | EDefer | EAct (i : nat) | EPark
              | EOutOfFuel | EBad.

(* (point, occurrence, is_push, fired) *)
Definition sched2 := list (nat * nat * bool * bool).

Definition do_step (s : st2) (l : lab2) : st2 :=
  match step2 s l with Some (x, _) => x | None => s end.

Definition do_act (is_push : bool) (s : st2) : st2 :=
  if is_push then
    let s1 := do_step s Push in
    if Nat.ltb (pre s) (pre s1) then do_step (do_step s1 WStore) WNotify else s1
  else do_step (do_step (do_step s WRaw) WStore) WNotify.

Fixpoint fire2 (p occ i : nat) (ws : sched2) (s : st2) : sched2 * st2 * list ev :=
  match ws with
  | [] => ([], s, [])
  | (wp, wo, ip, fired) :: r =>
      if Nat.eqb wp p && Nat.eqb wo occ && negb fired then
        let '(r', s3, evs) := fire2 p occ (S i) r (do_act ip s) in
        ((wp, wo, ip, true) :: r', s3, EAct i :: evs)
      else
        let '(r', s3, evs) := fire2 p occ (S i) r s in
        ((wp, wo, ip, fired) :: r', s3, evs)
  end.

Fixpoint bump2 (p : nat) (counts : list nat) : list nat :=
  match counts, p with
  | [], _ => []
  | c :: r, O => S c :: r
  | c :: r, S k => c :: bump2 k r
  end.

Fixpoint wsim2 (fuel : nat) (s : st2) (ws : sched2) (counts : list nat) (ticks : nat)
         (defers : list nat) : list ev :=
  match fuel with
  | O => [EOutOfFuel]
  | S f =>
      match p2 s with
      | Parked =>
          let '(ws1, s1, ev1) := fire2 8 (nth 8 counts 0) 0 ws s in
          let counts1 := bump2 8 counts in
          if woken s1 then
            (EPoint 8 :: ev1) ++ wsim2 f (do_step s1 Runner) ws1 counts1 ticks defers
          else
            let '(ws2, s2, ev2) := fire2 9 (nth 9 counts1 0) 0 ws1 s1 in
            let counts2 := bump2 9 counts1 in
            if woken s2 then
              (EPoint 8 :: ev1) ++ ev2 ++ wsim2 f (do_step s2 Runner) ws2 counts2 ticks defers
            else (EPoint 8 :: ev1) ++ ev2 ++ [EPark]
      | pcv =>
          let p := point2 pcv in
          let '(ws1, s1, ev1) := fire2 p (nth p counts 0) 0 ws s in
          let counts1 := bump2 p counts in
          match pcv with
          | T2 => (EPoint p :: ev1) ++ [ETick (q s1)] ++ wsim2 f (do_step s1 Runner) ws1 counts1 ticks defers
          | T2b =>
              if existsb (Nat.eqb ticks) defers
              then (EPoint p :: ev1) ++ [EDefer] ++ wsim2 f (do_step s1 RunnerDefer) ws1 counts1 (S ticks) defers
              else (EPoint p :: ev1) ++ wsim2 f (do_step s1 Runner) ws1 counts1 (S ticks) defers
          | _ => (EPoint p :: ev1) ++ wsim2 f (do_step s1 Runner) ws1 counts1 ticks defers
          end
      end
  end.

Definition wsim2_run (acts : list (nat * nat * bool)) (defers : list nat) : list ev :=
  wsim2 600 init2 (map (fun a => (fst (fst a), snd (fst a), snd a, false)) acts) (repeat 0 11) 0 defers.

Definition ev_eqb (a b : ev) : bool :=
  match a, b with
  | EPoint p, EPoint r => Nat.eqb p r
  | ETick k, ETick j => Nat.eqb k j
  | EAct i, EAct j => Nat.eqb i j
  | EDefer, EDefer | EPark, EPark | EOutOfFuel, EOutOfFuel | EBad, EBad => true
  | _, _ => false
  end.

Definition is_tick (e : ev) : bool := match e with ETick _ => true | _ => false end.
Definition consumed_of (e : ev) : nat := match e with ETick k => k | _ => 0 end.

(* a tick starts somewhere after every event satisfying `trig` *)
Fixpoint tick_after (trig : ev -> bool) (log : list ev) : bool :=
  match log with
  | [] => true
  | e :: r => (negb (trig e) || existsb is_tick r) && tick_after trig r
  end.

Definition is_act_or_defer (e : ev) : bool :=
  match e with EAct _ | EDefer => true | _ => false end.

Definition is_fired_push (acts : list (nat * nat * bool)) (e : ev) : bool :=
  match e with EAct i => snd (nth i acts (0, 0, false)) | _ => false end.

(* C27 on a log: every external action that fired (push or raw wake) and every deferral is
   followed by the start of a tick (4); every pushed item is consumed by some tick (8);
   the run ends parked (16) *)
Definition C27b_fail_mask (acts : list (nat * nat * bool)) (log : list ev) : N :=
  (b2N (negb (tick_after is_act_or_defer log)) 4 +
   b2N (negb (Nat.eqb (list_sum (map consumed_of log)) (length (filter (is_fired_push acts) log)))) 8 +
   b2N (negb (match rev log with EPark :: _ => true | _ => false end)) 16)%N.

Definition chk27b (acts : list (nat * nat * bool)) (defers : list nat) (impl : list ev) : N :=
  let mo := wsim2_run acts defers in
  let m := C27b_fail_mask acts impl in
  (b2N (negb (list_eqb ev_eqb mo impl)) 1 + b2N (negb (N.eqb m 0)) 2 + m)%N.
