(* Engine Chan / MergeSource: the cursor machine of the code (mloop/mpoll: index arithmetic
   modulo the length, None-marking, retain with cursor fix-up) IS the round-robin queue machine
   (qpoll) on the rotation of the source list by the cursor; no index out of bounds, no unwrap
   of a removed source, cursor in bounds after every poll. *)
From Coq Require Import List Arith Bool NArith Lia.
From HV Require Import Chan.ModelMerge Chan.PMergeQ.
Import ListNotations.

(* ------------------------------------------------------------------ list helpers *)
Section Lists.
Context {A : Type}.
Implicit Types l a b : list A.

Lemma nth_error_skipn' : forall c l j, nth_error (skipn c l) j = nth_error l (c + j).
Proof.
  induction c as [|c IH]; intros l j; [reflexivity|].
  destruct l as [|x l]; cbn; [destruct j; reflexivity|apply IH].
Qed.

Lemma nth_error_firstn' : forall c l j, j < c -> nth_error (firstn c l) j = nth_error l j.
Proof.
  induction c as [|c IH]; intros l j H; [lia|].
  destruct l as [|x l]; cbn; [reflexivity|]. destruct j as [|j]; cbn; [reflexivity|apply IH; lia].
Qed.

Lemma skipn_skipn' : forall x y l, skipn x (skipn y l) = skipn (y + x) l.
Proof.
  intros x y. induction y as [|y IH]; intros l; [reflexivity|].
  destruct l as [|h l]; cbn; [destruct x; reflexivity|apply IH].
Qed.

Lemma firstn_add : forall x y l, firstn (x + y) l = firstn x l ++ firstn y (skipn x l).
Proof.
  induction x as [|x IH]; intros y l; [reflexivity|].
  destruct l as [|h l]; cbn; [destruct y; reflexivity|]. rewrite IH. reflexivity.
Qed.

Lemma set_nth_nil : forall n (v : A), set_nth n v [] = [].
Proof. destruct n; reflexivity. Qed.

Lemma set_nth_length : forall n (v : A) l, length (set_nth n v l) = length l.
Proof.
  induction n as [|n IH]; intros v l; destruct l as [|x l]; cbn; try reflexivity. rewrite IH. reflexivity.
Qed.

Lemma set_nth_split : forall j (v : A) l, j < length l ->
  set_nth j v l = firstn j l ++ v :: skipn (S j) l.
Proof.
  induction j as [|j IH]; intros v l H; destruct l as [|x l]; cbn in *; try lia; [reflexivity|].
  rewrite IH by lia. reflexivity.
Qed.

Lemma set_nth_app1 : forall j (v : A) a b, j < length a -> set_nth j v (a ++ b) = set_nth j v a ++ b.
Proof.
  induction j as [|j IH]; intros v a b H; destruct a as [|x a]; cbn in *; try lia; [reflexivity|].
  rewrite IH by lia. reflexivity.
Qed.

Lemma set_nth_app2 : forall j (v : A) a b, length a <= j ->
  set_nth j v (a ++ b) = a ++ set_nth (j - length a) v b.
Proof.
  intros j v a. revert j. induction a as [|x a IH]; intros j b H; cbn in *.
  - rewrite Nat.sub_0_r. reflexivity.
  - destruct j as [|j]; [lia|]. cbn. rewrite IH by lia. reflexivity.
Qed.

Lemma skipn_set_nth_ge : forall c j (v : A) l, skipn c (set_nth (c + j) v l) = set_nth j v (skipn c l).
Proof.
  induction c as [|c IH]; intros j v l; [reflexivity|].
  destruct l as [|x l]; [cbn; rewrite ?set_nth_nil; reflexivity|cbn; apply IH].
Qed.

Lemma firstn_set_nth_ge : forall c i (v : A) l, c <= i -> firstn c (set_nth i v l) = firstn c l.
Proof.
  induction c as [|c IH]; intros i v l H; [reflexivity|].
  destruct l as [|x l]; [rewrite set_nth_nil; reflexivity|]. destruct i as [|i]; [lia|]. cbn. rewrite IH by lia. reflexivity.
Qed.

Lemma skipn_set_nth_lt : forall c i (v : A) l, i < c -> skipn c (set_nth i v l) = skipn c l.
Proof.
  induction c as [|c IH]; intros i v l H; [lia|].
  destruct l as [|x l]; [rewrite set_nth_nil; reflexivity|]. destruct i as [|i]; cbn; [reflexivity|apply IH; lia].
Qed.

Lemma firstn_set_nth_lt : forall c i (v : A) l, i < c ->
  firstn c (set_nth i v l) = set_nth i v (firstn c l).
Proof.
  induction c as [|c IH]; intros i v l H; [lia|].
  destruct l as [|x l]; [rewrite !set_nth_nil; reflexivity|]. destruct i as [|i]; cbn; [reflexivity|]. rewrite IH by lia. reflexivity.
Qed.

Lemma skipn_nth : forall j l e, nth_error l j = Some e -> skipn j l = e :: skipn (S j) l.
Proof.
  induction j as [|j IH]; intros l e H; destruct l as [|x l]; cbn in *; try discriminate.
  - inversion H; reflexivity.
  - apply IH. exact H.
Qed.

Lemma rot_length : forall c l, length (rot c l) = length l.
Proof.
  intros. unfold rot. rewrite app_length, skipn_length, firstn_length. lia.
Qed.

End Lists.

(* index of the j-th element of the rotation by c *)
Definition idx (c j len : nat) : nat := if Nat.ltb (c + j) len then c + j else c + j - len.

Lemma idx_mod : forall c j len, c < len -> j <= len -> (c + j) mod len = idx c j len.
Proof.
  intros c j len Hc Hj. unfold idx. destruct (Nat.ltb (c + j) len) eqn:E.
  - apply Nat.ltb_lt in E. apply Nat.mod_small. exact E.
  - apply Nat.ltb_ge in E. symmetry. apply (Nat.mod_unique (c + j) len 1 (c + j - len)); lia.
Qed.

Lemma idx_lt : forall c j len, c < len -> j <= len -> idx c j len < len.
Proof.
  intros. unfold idx. destruct (Nat.ltb (c + j) len) eqn:E;
    [apply Nat.ltb_lt in E|apply Nat.ltb_ge in E]; lia.
Qed.

Lemma idx_next : forall c j len, c < len -> j < len ->
  (idx c j len + 1) mod len = idx c (j + 1) len.
Proof.
  intros c j len Hc Hj. rewrite <- (idx_mod c j len) by lia.
  rewrite Nat.add_mod_idemp_l by lia. rewrite <- Nat.add_assoc. apply idx_mod; lia.
Qed.

Lemma idx_stop : forall c j len, c < len -> j < len ->
  Nat.eqb (idx c (j + 1) len) c = Nat.eqb (j + 1) len.
Proof.
  intros c j len Hc Hj. unfold idx.
  destruct (Nat.ltb (c + (j + 1)) len) eqn:E; [apply Nat.ltb_lt in E|apply Nat.ltb_ge in E];
    destruct (Nat.eqb (j + 1) len) eqn:E2; [apply Nat.eqb_eq in E2|apply Nat.eqb_neq in E2|
                                            apply Nat.eqb_eq in E2|apply Nat.eqb_neq in E2];
    try (apply Nat.eqb_eq; lia); try (apply Nat.eqb_neq; lia).
Qed.

Section Rot.
Context {A : Type}.

Lemma rot_nth : forall c j (l : list A), c < length l -> j < length l ->
  nth_error l (idx c j (length l)) = nth_error (rot c l) j.
Proof.
  intros c j l Hc Hj. unfold idx, rot.
  destruct (Nat.ltb (c + j) (length l)) eqn:E; [apply Nat.ltb_lt in E|apply Nat.ltb_ge in E].
  - rewrite nth_error_app1 by (rewrite skipn_length; lia). rewrite nth_error_skipn'. reflexivity.
  - rewrite nth_error_app2 by (rewrite skipn_length; lia). rewrite skipn_length.
    rewrite nth_error_firstn' by lia. f_equal. lia.
Qed.

Lemma rot_set_nth : forall c j (v : A) (l : list A), c < length l -> j < length l ->
  rot c (set_nth (idx c j (length l)) v l) = set_nth j v (rot c l).
Proof.
  intros c j v l Hc Hj. unfold idx, rot.
  destruct (Nat.ltb (c + j) (length l)) eqn:E; [apply Nat.ltb_lt in E|apply Nat.ltb_ge in E].
  - rewrite skipn_set_nth_ge, firstn_set_nth_ge by lia.
    rewrite set_nth_app1 by (rewrite skipn_length; lia). reflexivity.
  - rewrite skipn_set_nth_lt, firstn_set_nth_lt by lia.
    rewrite set_nth_app2 by (rewrite skipn_length; lia). rewrite skipn_length.
    replace (j - (length l - c)) with (c + j - length l) by lia. reflexivity.
Qed.

Lemma rot_rot_aux : forall (x y : list A) m, m <= length x ->
  rot (length y + m) (y ++ x) = rot m (x ++ y).
Proof.
  intros x y m H. unfold rot. rewrite !skipn_app, !firstn_app.
  replace (length y + m - length y) with m by lia. replace (m - length x) with 0 by lia.
  rewrite (skipn_all2 y) by lia. rewrite (firstn_all2 y) by lia. cbn.
  rewrite app_nil_r. rewrite <- app_assoc. reflexivity.
Qed.

Lemma rot_rot : forall c k (l : list A), c < length l -> k <= length l ->
  rot k (rot c l) = rot (idx c k (length l)) l.
Proof.
  intros c k l Hc Hk. unfold idx.
  destruct (Nat.ltb (c + k) (length l)) eqn:E; [apply Nat.ltb_lt in E|apply Nat.ltb_ge in E].
  - unfold rot. rewrite skipn_app, firstn_app, skipn_length.
    replace (k - (length l - c)) with 0 by lia. cbn [firstn skipn]. rewrite app_nil_r.
    rewrite skipn_skipn'. rewrite firstn_add. rewrite <- app_assoc. reflexivity.
  - transitivity (rot (c + k - length l) (firstn c l ++ skipn c l));
      [|rewrite firstn_skipn; reflexivity].
    change (rot c l) with (skipn c l ++ firstn c l).
    replace k with (length (skipn c l) + (c + k - length l)) at 1 by (rewrite skipn_length; lia).
    apply rot_rot_aux. rewrite firstn_length. lia.
Qed.

End Rot.

(* ------------------------------------------------------------------ the loop is a scan *)

(* scan of the rotated working list: (result, number of entries visited, updated entries) *)
Fixpoint scan (R : list (option src)) : mres * nat * list (option src) :=
  match R with
  | [] => (MPending, 0, [])
  | None :: _ => (MPanic, 0, R)
  | Some s :: R' =>
      match poll_src s with
      | (PRdy x, s') => (MReady x, 1, Some s' :: R')
      | (PPend, s') => let '(o, k, T) := scan R' in (o, S k, Some s' :: T)
      | (PEnd, _) => let '(o, k, T) := scan R' in (o, S k, None :: T)
      end
  end.

Lemma skipn_app_exact : forall (A : Type) (a b : list A) n, length a = n -> skipn n (a ++ b) = b.
Proof.
  intros A a b n H. rewrite skipn_app, skipn_all2 by lia. rewrite H, Nat.sub_diag. reflexivity.
Qed.

Lemma firstn_app_exact : forall (A : Type) (a b : list A) n, length a = n -> firstn n (a ++ b) = a.
Proof.
  intros A a b n H. rewrite firstn_app, firstn_all2 by lia. rewrite H, Nat.sub_diag. cbn.
  apply app_nil_r.
Qed.

Lemma mloop_scan : forall len c f j ws o k T,
  length ws = len -> c < len -> j + f = len -> 0 < f ->
  scan (skipn j (rot c ws)) = (o, k, T) -> o <> MPanic ->
  exists ws', mloop f c (idx c j len) ws = (o, idx c (j + k) len, ws') /\
              length ws' = len /\ rot c ws' = firstn j (rot c ws) ++ T /\
              j + k <= len /\ 1 <= k.
Proof.
  intros len c f. induction f as [|f IH]; intros j ws o k T L Hc Hf Pos Sc NP; [lia|].
  assert (Hj : j < len) by lia.
  assert (LR : length (rot c ws) = len) by (rewrite rot_length; exact L).
  destruct (nth_error (rot c ws) j) as [e|] eqn:Nth;
    [|apply nth_error_None in Nth; lia].
  rewrite (skipn_nth _ _ _ Nth) in Sc.
  assert (NthW : nth_error ws (idx c j len) = Some e).
  { rewrite <- L. rewrite rot_nth by lia. exact Nth. }
  cbn [mloop]. rewrite NthW. rewrite L.
  rewrite (idx_next c j len Hc Hj).
  destruct e as [s|]; [|cbn in Sc; inversion Sc; subst; contradiction].
  cbn [scan] in Sc.
  assert (RS : forall v, rot c (set_nth (idx c j len) v ws) =
                         firstn j (rot c ws) ++ v :: skipn (S j) (rot c ws)).
  { intros v. rewrite <- L. rewrite rot_set_nth by lia. apply set_nth_split. lia. }
  destruct (poll_src s) as [[x| |] s'] eqn:P.
  - inversion Sc; subst; clear Sc.
    eexists. split; [reflexivity|]. split; [rewrite set_nth_length; reflexivity|].
    split; [apply RS|lia].
  - destruct (scan (skipn (S j) (rot c ws))) as [[o' k'] T'] eqn:Sc'.
    inversion Sc; subst; clear Sc.
    rewrite (idx_stop c j (length ws) Hc Hj).
    destruct (Nat.eqb (j + 1) (length ws)) eqn:E.
    + apply Nat.eqb_eq in E.
      rewrite skipn_all2 in Sc' by lia. cbn in Sc'. inversion Sc'; subst.
      eexists. split; [replace (j + 1) with (j + 1) by lia; reflexivity|].
      split; [rewrite set_nth_length; reflexivity|]. split; [|lia].
      rewrite RS. rewrite skipn_all2 by lia. reflexivity.
    + apply Nat.eqb_neq in E.
      destruct (IH (j + 1) (set_nth (idx c j (length ws)) (Some s') ws) o k' T') as [ws' [M [L' [R' [B1 B2]]]]].
      * rewrite set_nth_length. reflexivity.
      * exact Hc.
      * lia.
      * lia.
      * rewrite RS. replace (j + 1) with (S j) by lia.
        replace (firstn j (rot c ws) ++ Some s' :: skipn (S j) (rot c ws))
          with ((firstn j (rot c ws) ++ [Some s']) ++ skipn (S j) (rot c ws))
          by (rewrite <- app_assoc; reflexivity).
        rewrite skipn_app_exact by (rewrite app_length, firstn_length; cbn; lia). exact Sc'.
      * exact NP.
      * exists ws'. split; [rewrite M; f_equal; f_equal; f_equal; lia|].
        split; [exact L'|]. split; [|lia].
        rewrite R'. rewrite RS. replace (j + 1) with (S j) by lia.
        replace (firstn j (rot c ws) ++ Some s' :: skipn (S j) (rot c ws))
          with ((firstn j (rot c ws) ++ [Some s']) ++ skipn (S j) (rot c ws))
          by (rewrite <- app_assoc; reflexivity).
        rewrite firstn_app_exact by (rewrite app_length, firstn_length; cbn; lia).
        rewrite <- app_assoc. reflexivity.
  - destruct (scan (skipn (S j) (rot c ws))) as [[o' k'] T'] eqn:Sc'.
    inversion Sc; subst; clear Sc.
    rewrite (idx_stop c j (length ws) Hc Hj).
    destruct (Nat.eqb (j + 1) (length ws)) eqn:E.
    + apply Nat.eqb_eq in E.
      rewrite skipn_all2 in Sc' by lia. cbn in Sc'. inversion Sc'; subst.
      eexists. split; [reflexivity|].
      split; [rewrite set_nth_length; reflexivity|]. split; [|lia].
      rewrite RS. rewrite skipn_all2 by lia. reflexivity.
    + apply Nat.eqb_neq in E.
      destruct (IH (j + 1) (set_nth (idx c j (length ws)) None ws) o k' T') as [ws' [M [L' [R' [B1 B2]]]]].
      * rewrite set_nth_length. reflexivity.
      * exact Hc.
      * lia.
      * lia.
      * rewrite RS. replace (j + 1) with (S j) by lia.
        replace (firstn j (rot c ws) ++ None :: skipn (S j) (rot c ws))
          with ((firstn j (rot c ws) ++ [None]) ++ skipn (S j) (rot c ws))
          by (rewrite <- app_assoc; reflexivity).
        rewrite skipn_app_exact by (rewrite app_length, firstn_length; cbn; lia). exact Sc'.
      * exact NP.
      * exists ws'. split; [rewrite M; f_equal; f_equal; f_equal; lia|].
        split; [exact L'|]. split; [|lia].
        rewrite R'. rewrite RS. replace (j + 1) with (S j) by lia.
        replace (firstn j (rot c ws) ++ None :: skipn (S j) (rot c ws))
          with ((firstn j (rot c ws) ++ [None]) ++ skipn (S j) (rot c ws))
          by (rewrite <- app_assoc; reflexivity).
        rewrite firstn_app_exact by (rewrite app_length, firstn_length; cbn; lia).
        rewrite <- app_assoc. reflexivity.
Qed.

(* ------------------------------------------------------------------ scan = queue scan *)

Lemma somes_app : forall (A : Type) (a b : list (option A)), somes (a ++ b) = somes a ++ somes b.
Proof.
  intros A a b. induction a as [|[x|] a IH]; cbn; [reflexivity| |exact IH]. rewrite IH. reflexivity.
Qed.

Lemma somes_map_Some : forall (A : Type) (l : list A), somes (map Some l) = l.
Proof. induction l as [|x l IH]; cbn; [reflexivity|]. rewrite IH. reflexivity. Qed.

Lemma somes_count : forall (A : Type) (l : list (option A)),
  length (somes l) + count_none l = length l.
Proof.
  intros A l. unfold count_none. induction l as [|[x|] l IH]; cbn; lia.
Qed.

Lemma somes_length : forall (A : Type) (l : list (option A)),
  length (somes l) = length l - count_none l.
Proof. intros A l. pose proof (somes_count A l). lia. Qed.

Lemma scan_qs : forall q o k u, qs q = (o, k, u) ->
  exists kk T, scan (map Some q) = (o, kk, T) /\
               somes (firstn kk T) = k /\ somes (skipn kk T) = u /\ kk <= length q.
Proof.
  induction q as [|s q IH]; intros o k u H; cbn in H.
  - inversion H; subst. exists 0, []. repeat split; reflexivity.
  - cbn [map scan]. destruct (poll_src s) as [[x| |] s'].
    + inversion H; subst. exists 1, (Some s' :: map Some u). cbn.
      repeat split; try reflexivity; [apply somes_map_Some|lia].
    + destruct (qs q) as [[o' k'] u'] eqn:Q. inversion H; subst.
      destruct (IH _ _ _ eq_refl) as [kk [T [S1 [S2 [S3 S4]]]]]. rewrite S1.
      exists (S kk), (Some s' :: T). cbn. rewrite S2, S3. repeat split; try reflexivity. lia.
    + destruct (qs q) as [[o' k'] u'] eqn:Q. inversion H; subst.
      destruct (IH _ _ _ eq_refl) as [kk [T [S1 [S2 [S3 S4]]]]]. rewrite S1.
      exists (S kk), (None :: T). cbn. rewrite S2, S3. repeat split; try reflexivity. lia.
Qed.

Lemma qs_not_panic : forall q o k u, qs q = (o, k, u) -> o <> MPanic.
Proof.
  induction q as [|s q IH]; intros o k u H; cbn in H.
  - inversion H; subst. discriminate.
  - destruct (poll_src s) as [[x| |] s'].
    + inversion H; subst. discriminate.
    + destruct (qs q) as [[o' k'] u'] eqn:Q. inversion H; subst. eapply IH. reflexivity.
    + destruct (qs q) as [[o' k'] u'] eqn:Q. inversion H; subst. eapply IH. reflexivity.
Qed.

Lemma qs_not_none : forall q o k u, qs q = (o, k, u) -> o <> MNone.
Proof.
  induction q as [|s q IH]; intros o k u H; cbn in H.
  - inversion H; subst. discriminate.
  - destruct (poll_src s) as [[x| |] s'].
    + inversion H; subst. discriminate.
    + destruct (qs q) as [[o' k'] u'] eqn:Q. inversion H; subst. eapply IH. reflexivity.
    + destruct (qs q) as [[o' k'] u'] eqn:Q. inversion H; subst. eapply IH. reflexivity.
Qed.

Lemma rot_map : forall (A B : Type) (f : A -> B) c l, rot c (map f l) = map f (rot c l).
Proof. intros. unfold rot. rewrite map_app, skipn_map, firstn_map. reflexivity. Qed.

Lemma rot_app_len : forall (A : Type) (a b : list A), rot (length a) (a ++ b) = b ++ a.
Proof.
  intros. unfold rot. rewrite skipn_app_exact, firstn_app_exact by reflexivity. reflexivity.
Qed.

(* cursor in bounds *)
Definition inb (ss : list src) (c : nat) : Prop := c < length ss \/ (ss = [] /\ c = 0).

(* THE refinement: one poll_next of the cursor machine = one poll of the queue machine on the
   rotation; never panics; the new cursor is in bounds *)
Theorem mpoll_refines : forall ss c, inb ss c ->
  let '(o, ss', c') := mpoll ss c in
  qpoll (rot c ss) = (o, rot c' ss') /\ inb ss' c' /\ o <> MPanic.
Proof.
  intros ss c [Hc|[-> ->]].
  2:{ cbn. split; [reflexivity|]. split; [right; split; reflexivity|discriminate]. }
  unfold mpoll.
  destruct ss as [|s0 ss0] eqn:Ess; [cbn in Hc; lia|]. rewrite <- Ess in *. clear Ess s0 ss0.
  set (len := length ss) in *.
  rewrite qpoll_qs.
  destruct (qs (rot c ss)) as [[o k] u] eqn:Q.
  destruct (scan_qs _ _ _ _ Q) as [kk [T [S1 [S2 [S3 S4]]]]].
  pose proof (qs_not_panic _ _ _ _ Q) as NP.
  rewrite rot_length in S4.
  assert (L0 : length (map Some ss) = len) by (rewrite map_length; reflexivity).
  destruct (mloop_scan len c len 0 (map Some ss) o kk T L0 Hc) as [ws' [M [L' [R' [B1 B2]]]]];
    try lia; try exact NP.
  { cbn [skipn]. rewrite rot_map. exact S1. }
  cbn [firstn app] in R'.
  assert (I0 : idx c 0 len = c) by (unfold idx; rewrite Nat.add_0_r; apply Nat.ltb_lt in Hc; rewrite Hc; reflexivity).
  rewrite I0 in M. rewrite M. cbn [Nat.add] in *.
  set (c1 := idx c kk len) in *.
  assert (C1 : c1 < len) by (apply idx_lt; lia).
  (* the survivors, split at the cursor *)
  assert (SP : somes ws' = somes (firstn c1 ws') ++ somes (skipn c1 ws')).
  { rewrite <- somes_app, firstn_skipn. reflexivity. }
  assert (C2 : c1 - count_none (firstn c1 ws') = length (somes (firstn c1 ws'))).
  { rewrite somes_length, firstn_length. replace (Nat.min c1 (length ws')) with c1 by lia. reflexivity. }
  assert (UK : u ++ k = somes (skipn c1 ws') ++ somes (firstn c1 ws')).
  { rewrite <- S2, <- S3, <- somes_app. change (somes (rot kk T) = somes (skipn c1 ws') ++ somes (firstn c1 ws')).
    rewrite <- R'. rewrite rot_rot by lia. rewrite L'. fold c1. unfold rot. apply somes_app. }
  rewrite C2.
  assert (ROT : rot (if Nat.eqb (length (somes (firstn c1 ws'))) (length (somes ws')) then 0
                     else length (somes (firstn c1 ws'))) (somes ws') = u ++ k).
  { rewrite UK. destruct (Nat.eqb _ _) eqn:E.
    - apply Nat.eqb_eq in E. rewrite SP in E. rewrite app_length in E.
      assert (Z : somes (skipn c1 ws') = []) by (destruct (somes (skipn c1 ws')); [reflexivity|cbn in E; lia]).
      rewrite SP, Z. cbn. rewrite app_nil_r. unfold rot. cbn. apply app_nil_r.
    - rewrite SP. apply rot_app_len. }
  assert (INB : inb (somes ws') (if Nat.eqb (length (somes (firstn c1 ws'))) (length (somes ws')) then 0
                                 else length (somes (firstn c1 ws')))).
  { destruct (Nat.eqb _ _) eqn:E.
    - destruct (somes ws') eqn:E2; [right; split; reflexivity|left; cbn; lia].
    - apply Nat.eqb_neq in E. left. rewrite SP in *. rewrite app_length in *. lia. }
  assert (LE : length (u ++ k) = length (somes ws')) by (rewrite <- ROT; apply rot_length).
  pose proof (qs_not_none _ _ _ _ Q) as NN.
  destruct o as [x| | |]; try (exfalso; apply NP; reflexivity); try (exfalso; apply NN; reflexivity);
    lazy beta iota zeta; rewrite ROT.
  - split; [|split; [exact INB|]].
    + destruct (u ++ k) as [|a1 l1]; destruct (somes ws') as [|a2 l2]; cbn in LE; try discriminate LE; reflexivity.
    + destruct (somes ws'); discriminate.
  - split; [|split; [exact INB|]].
    + destruct (u ++ k) as [|a1 l1]; destruct (somes ws') as [|a2 l2]; cbn in LE; try discriminate LE; reflexivity.
    + destruct (somes ws'); discriminate.
Qed.
