(* Engine Chan, part 2b: the wake path of dfir_rs/src/scheduled/context.rs together with the
   scheduler bookkeeping that surrounds it in this tree (inline codegen, dfir_lang
   graph/meta_graph.rs `as_code` and ops/source_stream.rs):

     - the external event queue: an external source (channel) with `q` queued items and the
       WakeState waker registered with it or not (`src_reg`).  `source_stream` polls it INSIDE
       the tick body with `Context::waker()` and drains until Pending, which registers the waker;
       a producer's push enqueues and, if a waker is registered, takes it and calls
       wake_by_ref (two halves: can_start_tick.store(true), then task_waker.wake()).
     - other external wakers (`schedule_subgraph(true)` from outside, spawned tasks, ...): a raw
       wake_by_ref with the ghost `owed`.
     - defer_tick: at the end of the tick body, if a non-lazy deferred buffer is non-empty the
       generated code calls `schedule_subgraph(true)` = wake_by_ref by the runner itself.
     - run / run_available / run_tick as in ModelWake.v, the tick body split into the source poll
       (T2: tick start, drains the queue, registers) and the rest of the body (T2b: defer check).

   This tree has no `events_received_tick`, no `try_recv_events`/`recv_events_async` event queue
   and no per-subgraph `is_scheduled` cells (those belonged to the former scheduled-graph
   runtime); the bookkeeping above is what exists around the wake path now.
   Steps are sequentially consistent; see checks/C27.json for the atomics actually used. *)
From Coq Require Import List Arith Bool NArith Lia.
Import ListNotations.

Inductive pc2 := A0 | T1 | T2 | T2b | T3 | A1 | A2 | I1 | I2 | Parked.

Record st2 := mk2 {
  p2 : pc2;
  flag : bool;      (* can_start_tick *)
  reg : bool;       (* task_waker holds the runner's waker *)
  woken : bool;     (* the runner's task waker fired since the executor last polled it *)
  pre : nat;        (* wake_by_ref calls entered (waker taken) whose store has not happened *)
  mid : nat;        (* wake_by_ref calls between their store and their notify *)
  q : nat;          (* items queued in the external source *)
  src_reg : bool;   (* the source holds the WakeState waker *)
  deferred : bool;  (* a non-lazy defer_tick buffer holds data for the next tick *)
  owed : bool       (* ghost: a raw external wake was issued and no tick has started since *)
}.

Inductive lab2 :=
| Runner        (* the runner's next atomic action *)
| RunnerDefer   (* at T2b: the tick leaves deferred data: schedule_subgraph(true) *)
| Push          (* a producer enqueues an item (and takes the registered waker) *)
| WRaw          (* some other external waker enters wake_by_ref *)
| WStore        (* can_start_tick.store(true) of a wake_by_ref in progress *)
| WNotify.      (* task_waker.wake() of a wake_by_ref in progress *)

Inductive ev2 := ENone | ETickStart (consumed : nat).

Definition runner_enabled (s : st2) : bool :=
  match p2 s with Parked => woken s | _ => true end.

Definition step2 (s : st2) (l : lab2) : option (st2 * ev2) :=
  let '(mk2 pc f r w pr mi qq sr d o) := s in
  match l with
  | Runner =>
      match pc with
      | A0 => Some (mk2 T1 false r w pr mi qq sr d o, ENone)
      | T1 => Some (mk2 T2 false r w pr mi qq sr d o, ENone)
      | T2 => (* tick start: source_stream drains the queue until Pending (registers the waker);
                 deferred data of the last tick is consumed *)
              Some (mk2 T2b f r w pr mi 0 true false false, ETickStart qq)
      | T2b => Some (mk2 T3 f r w pr mi qq sr d o, ENone)
      | T3 => Some (mk2 A1 f r w pr mi qq sr d o, ENone)
      | A1 => if f then Some (mk2 A2 false r w pr mi qq sr d o, ENone)
              else Some (mk2 I1 false r w pr mi qq sr d o, ENone)
      | A2 => Some (mk2 T1 f r false pr mi qq sr d o, ENone)
      | I1 => Some (mk2 I2 f true w pr mi qq sr d o, ENone)
      | I2 => if f then Some (mk2 A0 f r w pr mi qq sr d o, ENone)
              else Some (mk2 Parked f r w pr mi qq sr d o, ENone)
      | Parked => if w then Some (mk2 I1 f r false pr mi qq sr d o, ENone) else None
      end
  | RunnerDefer =>
      match pc with
      | T2b => (* wake_by_ref by the runner itself: store, then notify *)
          if r then Some (mk2 T3 true false true pr mi qq sr true o, ENone)
          else Some (mk2 T3 true r w pr mi qq sr true o, ENone)
      | _ => None
      end
  | Push =>
      if sr then Some (mk2 pc f r w (S pr) mi (S qq) false d o, ENone)
      else Some (mk2 pc f r w pr mi (S qq) false d o, ENone)
  | WRaw => Some (mk2 pc f r w (S pr) mi qq sr d true, ENone)
  | WStore =>
      match pr with
      | O => None
      | S pr' => Some (mk2 pc true r w pr' (S mi) qq sr d o, ENone)
      end
  | WNotify =>
      match mi with
      | O => None
      | S mi' => if r then Some (mk2 pc f false true pr mi' qq sr d o, ENone)
                 else Some (mk2 pc f r w pr mi' qq sr d o, ENone)
      end
  end.

Definition init2 : st2 := mk2 A0 false false false 0 0 0 false false false.

Inductive reach2 : st2 -> Prop :=
| r2_init : reach2 init2
| r2_step : forall s l s' e, reach2 s -> step2 s l = Some (s', e) -> reach2 s'.

(* there is input that a tick has to consume *)
Definition pending (s : st2) : bool := Nat.ltb 0 (q s) || owed s || deferred s.

(* nothing will ever move again without a new external event *)
Definition stuck2 (s : st2) : bool :=
  match p2 s with
  | Parked => negb (woken s) && Nat.eqb (mid s) 0 && Nat.eqb (pre s) 0
  | _ => false
  end.

Definition fast (p : pc2) : bool := match p with A0 | T1 | T2 | A2 => true | _ => false end.

(* the flag is set, or the runner is on the straight path to the next tick start *)
Definition armed (s : st2) : bool := flag s || fast (p2 s).

(* number of runner steps after which the next tick has certainly started, when armed *)
Definition rank2 (s : st2) : nat :=
  match p2 s with
  | T2 => 1
  | T1 => 2
  | A0 => 3
  | A2 => 3
  | A1 => if flag s then 4 else 30
  | I2 => if flag s then 4 else 30
  | T3 => if flag s then 5 else 31
  | I1 => if flag s then 5 else 31
  | T2b => if flag s then 6 else 32
  | Parked => if flag s then (if woken s then 6 else 7) else 33
  end.

Definition is_runner (l : lab2) : bool := match l with Runner | RunnerDefer => true | _ => false end.

(* run a label sequence (every label enabled): final state and the largest number of items a
   tick start in the fragment consumed, if a tick started *)
Fixpoint run2 (s : st2) (tr : list lab2) : option (st2 * option nat) :=
  match tr with
  | [] => Some (s, None)
  | l :: tr' =>
      match step2 s l with
      | Some (s', e) =>
          match run2 s' tr' with
          | Some (sf, t) =>
              Some (sf, match e, t with
                        | ETickStart k, _ => Some k   (* the FIRST tick start of the fragment *)
                        | ENone, t => t
                        end)
          | None => None
          end
      | None => None
      end
  end.

Definition count_runner2 (tr : list lab2) : nat := length (filter is_runner tr).
