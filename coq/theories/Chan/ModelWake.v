(* Engine Chan, part 2: WakeState / Dfir::run / run_available / run_tick
   (dfir_rs/src/scheduled/context.rs) as a transition system over the runner's atomic actions
   and the two halves of an external `wake_by_ref`.  Definitions only.

     run:            loop { run_available().await; poll_fn(|cx| { I1: task_waker.register(cx.waker());
                                                                  I2: if can_start_tick.load() { Ready } else { Pending } }).await }
     run_available:  A0: can_start_tick.store(false);
                     loop { run_tick().await; A1: if !can_start_tick.swap(false) { break }; A2: yield_now().await }
     run_tick:       T1: had_external = can_start_tick.swap(false); T2: tick body; T3: can_start_tick.load()
     wake_by_ref:    WStore: can_start_tick.store(true);  WNotify: task_waker.wake()
                     IN THIS ORDER: a WNotify step is only enabled for a waker that has done its
                     WStore (`mid` counts the wakers between the two halves).  The opposite
                     order (wstep_nf below) misses wake-ups: PWake.v notify_first_refuted.

   Every step is sequentially consistent (the code uses Ordering::Relaxed: reorderings on weakly
   ordered hardware are NOT modelled), AtomicWaker::register / wake are atomic steps, the tick
   body is one step that does not suspend, tokio is replaced by "a task whose waker fired is
   polled again". *)
From Coq Require Import List Arith Bool NArith Lia.
Import ListNotations.

Inductive pc := A0 | T1 | T2 | T3 | A1 | A2 | I1 | I2 | Parked.

Record wstate := mkW {
  w_pc : pc;
  flag : bool;      (* can_start_tick *)
  reg : bool;       (* task_waker holds the runner's waker *)
  woken : bool;     (* the runner task's waker fired since the executor last polled it *)
  mid : nat;        (* external wakers between their store and their notify *)
  owed : bool       (* ghost: data arrived (store) and no tick has STARTED since *)
}.

Inductive wlabel := Runner | WStore | WNotify.

Definition runner_enabled (s : wstate) : bool :=
  match w_pc s with Parked => woken s | _ => true end.

(* `tick` in the result: this step started a tick body *)
Definition wstep (s : wstate) (l : wlabel) : option (wstate * bool) :=
  match l with
  | Runner =>
      match w_pc s with
      | A0 => Some (mkW T1 false (reg s) (woken s) (mid s) (owed s), false)
      | T1 => Some (mkW T2 false (reg s) (woken s) (mid s) (owed s), false)
      | T2 => Some (mkW T3 (flag s) (reg s) (woken s) (mid s) false, true)
      | T3 => Some (mkW A1 (flag s) (reg s) (woken s) (mid s) (owed s), false)
      | A1 => if flag s
              then Some (mkW A2 false (reg s) (woken s) (mid s) (owed s), false)
              else Some (mkW I1 false (reg s) (woken s) (mid s) (owed s), false)
      | A2 => (* yield_now: wakes itself, returns Pending, is polled again *)
              Some (mkW T1 (flag s) (reg s) false (mid s) (owed s), false)
      | I1 => Some (mkW I2 (flag s) true (woken s) (mid s) (owed s), false)
      | I2 => if flag s
              then Some (mkW A0 (flag s) (reg s) (woken s) (mid s) (owed s), false)
              else Some (mkW Parked (flag s) (reg s) (woken s) (mid s) (owed s), false)
      | Parked => if woken s
                  then Some (mkW I1 (flag s) (reg s) false (mid s) (owed s), false)
                  else None
      end
  | WStore => Some (mkW (w_pc s) true (reg s) (woken s) (S (mid s)) true, false)
  | WNotify =>
      match mid s with
      | O => None
      | S m => if reg s
               then Some (mkW (w_pc s) (flag s) false true m (owed s), false)
               else Some (mkW (w_pc s) (flag s) (reg s) (woken s) m (owed s), false)
      end
  end.

(* the same system with the two halves of wake_by_ref in the OPPOSITE order: task_waker.wake()
   first (always enabled; `mid` now counts the wakers that have notified but not yet stored),
   can_start_tick.store(true) second.  Data has arrived when wake_by_ref is entered. *)
Definition wstep_nf (s : wstate) (l : wlabel) : option (wstate * bool) :=
  match l with
  | Runner => wstep s Runner
  | WNotify =>
      if reg s
      then Some (mkW (w_pc s) (flag s) false true (S (mid s)) true, false)
      else Some (mkW (w_pc s) (flag s) (reg s) (woken s) (S (mid s)) true, false)
  | WStore =>
      match mid s with
      | O => None
      | S m => Some (mkW (w_pc s) true (reg s) (woken s) m (owed s), false)
      end
  end.

Definition winit : wstate := mkW A0 false false false 0 false.

Inductive wreach : wstate -> Prop :=
| wr_init : wreach winit
| wr_step : forall s l s' t, wreach s -> wstep s l = Some (s', t) -> wreach s'.

Inductive wreach_nf : wstate -> Prop :=
| wrn_init : wreach_nf winit
| wrn_step : forall s l s' t, wreach_nf s -> wstep_nf s l = Some (s', t) -> wreach_nf s'.

Fixpoint wrun_nf (s : wstate) (tr : list wlabel) : option wstate :=
  match tr with
  | [] => Some s
  | l :: tr' => match wstep_nf s l with Some (s', _) => wrun_nf s' tr' | None => None end
  end.

(* the runner is stuck: parked, not woken, and no notification is on its way *)
Definition stuck (s : wstate) : bool :=
  match w_pc s with Parked => negb (woken s) && Nat.eqb (mid s) 0 | _ => false end.

(* run a label sequence (every label must be enabled); returns the final state and whether a
   tick started *)
Fixpoint wrun (s : wstate) (tr : list wlabel) : option (wstate * bool) :=
  match tr with
  | [] => Some (s, false)
  | l :: tr' =>
      match wstep s l with
      | Some (s', t) => match wrun s' tr' with Some (sf, t') => Some (sf, t || t') | None => None end
      | None => None
      end
  end.

Definition count_runner (tr : list wlabel) : nat :=
  length (filter (fun l => match l with Runner => true | _ => false end) tr).

(* number of runner steps after which a tick has certainly started, when a tick is owed *)
Definition rank (s : wstate) : nat :=
  match w_pc s with
  | T2 => 1
  | T1 => 2
  | A2 => 3
  | A0 => 3
  | A1 => if flag s then 4 else 20
  | I2 => if flag s then 4 else 20
  | T3 => if flag s then 5 else 21
  | I1 => if flag s then 5 else 21
  | Parked => if flag s then (if woken s then 6 else 7) else 22
  end.

(* ------------------------------------------------------------------ deterministic schedules
   for the correspondence check: an external wake_by_ref (store + notify, back to back) is
   fired when the runner is about to execute a given step for the k-th time. *)

Definition pc_point (p : pc) : nat :=
  match p with A0 => 0 | T1 => 1 | T2 => 2 | T3 => 3 | A1 => 4 | A2 => 5 | I1 => 6 | I2 => 7 | Parked => 8 end.

Inductive wevent := EPoint (p : nat) | ETick | EWake (i : nat) | EPark | EOutOfFuel | EBad.

(* wakes: (point, occurrence, fired) *)
Definition sched := list (nat * nat * bool).

Fixpoint fire_at (p occ : nat) (i : nat) (ws : sched) (s : wstate) : sched * wstate * list wevent :=
  match ws with
  | [] => ([], s, [])
  | (wp, wo, fired) :: r =>
      if Nat.eqb wp p && Nat.eqb wo occ && negb fired then
        (* wake_by_ref: store, then notify *)
        let s1 := match wstep s WStore with Some (x, _) => x | None => s end in
        let s2 := match wstep s1 WNotify with Some (x, _) => x | None => s1 end in
        let '(r', s3, ev) := fire_at p occ (S i) r s2 in
        ((wp, wo, true) :: r', s3, EWake i :: ev)
      else
        let '(r', s3, ev) := fire_at p occ (S i) r s in
        ((wp, wo, fired) :: r', s3, ev)
  end.

Fixpoint bump (p : nat) (counts : list nat) : list nat :=
  match counts, p with
  | [], _ => []
  | c :: r, O => S c :: r
  | c :: r, S k => c :: bump k r
  end.

(* one event log per schedule; the executor polls the task again iff its waker fired.
   At pc = Parked (the idle load returned false): point 8 (about to return Pending), then the
   executor either polls again (woken) or is idle = point 9, where the remaining wakes may fire. *)
Fixpoint wsim (fuel : nat) (s : wstate) (ws : sched) (counts : list nat) : list wevent :=
  match fuel with
  | O => [EOutOfFuel]
  | S f =>
      match w_pc s with
      | Parked =>
          let '(ws1, s1, ev1) := fire_at 8 (nth 8 counts 0) 0 ws s in
          let counts1 := bump 8 counts in
          if woken s1 then
            match wstep s1 Runner with
            | Some (s2, _) => (EPoint 8 :: ev1) ++ wsim f s2 ws1 counts1
            | None => [EBad]
            end
          else
            let '(ws2, s2, ev2) := fire_at 9 (nth 9 counts1 0) 0 ws1 s1 in
            let counts2 := bump 9 counts1 in
            if woken s2 then
              match wstep s2 Runner with
              | Some (s3, _) => (EPoint 8 :: ev1) ++ ev2 ++ wsim f s3 ws2 counts2
              | None => [EBad]
              end
            else (EPoint 8 :: ev1) ++ ev2 ++ [EPark]
      | _ =>
          let p := pc_point (w_pc s) in
          let '(ws1, s1, ev1) := fire_at p (nth p counts 0) 0 ws s in
          match wstep s1 Runner with
          | Some (s2, t) => (EPoint p :: ev1) ++ (if t then [ETick] else []) ++ wsim f s2 ws1 (bump p counts)
          | None => [EBad]
          end
      end
  end.

Definition wsim_run (wakes : list (nat * nat)) : list wevent :=
  wsim 400 winit (map (fun w => (fst w, snd w, false)) wakes) (repeat 0 10).
