(* Engine Chan / wake path with the surrounding bookkeeping (ModelWake2.v): the inductive invariant
   (exhaustive case analysis, slow: kept in its own file);
   "pending input is never stranded", enabledness, and the liveness half with an explicit bound
   (rank function) -- for any number of producers / wakers, all interleavings. *)
From Coq Require Import List Arith Bool NArith Lia.
From HV Require Import Chan.ModelWake2.
Import ListNotations.

Definition idle (p : pc2) : bool := match p with I2 | Parked => true | _ => false end.
Definition parked (p : pc2) : bool := match p with Parked => true | _ => false end.

Definition good2 (s : st2) : bool :=
  (negb (src_reg s) || Nat.eqb (q s) 0) &&
  (src_reg s || flag s || fast (p2 s) || Nat.ltb 0 (pre s)) &&
  (negb (owed s) || flag s || fast (p2 s) || Nat.ltb 0 (pre s)) &&
  (negb (deferred s) || flag s || fast (p2 s)) &&
  (negb (idle (p2 s)) || reg s || woken s) &&
  (negb (parked (p2 s) && flag s) || woken s || Nat.ltb 0 (mid s)).

Lemma good2_init : good2 init2 = true.
Proof. reflexivity. Qed.

Ltac crunch St :=
  cbn in *; try discriminate; inversion St; subst; cbn in *; try reflexivity; try discriminate.

Lemma good2_step : forall s l s' e, good2 s = true -> step2 s l = Some (s', e) -> good2 s' = true.
Proof.
  intros [pc f r w pr mi qq sr d o] l s' e G St.
  destruct l.
  - destruct pc, f, r, w, sr, d, o; destruct pr as [|pr], qq as [|qq], mi as [|mi]; crunch St.
  - destruct pc, f, r, w, sr, d, o; destruct pr as [|pr], qq as [|qq], mi as [|mi]; crunch St.
  - destruct pc, f, r, w, sr, d, o; destruct pr as [|pr], qq as [|qq], mi as [|mi]; crunch St.
  - destruct pc, f, r, w, sr, d, o; destruct pr as [|pr], qq as [|qq], mi as [|mi]; crunch St.
  - destruct pc, f, r, w, sr, d, o; destruct pr as [|pr], qq as [|qq], mi as [|mi]; crunch St.
  - destruct pc, f, r, w, sr, d, o; destruct pr as [|pr], qq as [|qq], mi as [|mi]; crunch St.
Qed.

Lemma reach2_good : forall s, reach2 s -> good2 s = true.
Proof. intros s R. induction R; [apply good2_init|eapply good2_step; eassumption]. Qed.

