(* Engine Chan: the executable form of C16 evaluated on the IMPLEMENTATION's observations,
   and the verdict code of one correspondence case (definitions only).
   The observer below knows the executor (task programs, which wakers fired, labels) but
   nothing about the channel's internals: it reconstructs who is runnable and what is in
   flight purely from what the real Sender/Receiver returned. *)
From Coq Require Import List Arith Bool NArith.
From HV Require Import Chan.Base Chan.ModelMpsc.
Import ListNotations.

Definition wake_eqb (a b : wake) : bool :=
  match a, b with
  | WSend x, WSend y => Nat.eqb x y
  | WRecv, WRecv => true
  | _, _ => false
  end.
Definition sres_eqb (a b : sres) : bool :=
  match a, b with
  | SSent, SSent | SFull, SFull | SClosed, SClosed => true
  | _, _ => false
  end.
Definition rres_eqb (a b : rres) : bool :=
  match a, b with
  | RSome x, RSome y => N.eqb x y
  | RNone, RNone | RPending, RPending => true
  | _, _ => false
  end.
Definition obs_eqb (a b : obs) : bool :=
  match a, b with
  | OPoll r f w, OPoll r' f' w' => list_eqb sres_eqb r r' && Bool.eqb f f' && list_eqb wake_eqb w w'
  | ORecv r w, ORecv r' w' => rres_eqb r r' && list_eqb wake_eqb w w'
  | OAct w, OAct w' => list_eqb wake_eqb w w'
  | OTry r w, OTry r' w' => sres_eqb r r' && list_eqb wake_eqb w w'
  | ODisabled, ODisabled => true
  | _, _ => false
  end.

(* apply the implementation's results of one task poll to the stage:
   (remaining items, items sent) *)
Fixpoint apply_results (xs : list item) (rs : list sres) : list item * list item :=
  match xs, rs with
  | x :: xs', r :: rs' =>
      let '(rem, snt) := apply_results xs' rs' in
      match r with
      | SSent => (rem, x :: snt)
      | SFull => (x :: rem, snt)
      | SClosed => (rem, snt)
      end
  | _, _ => (xs, [])
  end.

(* clause codes: 4 = FIFO/exactly-once, 8 = closure consistency, 16 = stranded sender,
   32 = stranded receiver *)
Definition in_flight (s : state) : list item := skipn (length (recvd s)) (sent s).

(* observer step: returns the new observer state and the failed-clause mask of this step *)
Definition observe (s : state) (l : label) (o : obs) : state * N :=
  match l, o with
  | Poll t, OPoll rs _ ws =>
      let tk := tasks s t in
      let '(rem, snt) := apply_results (cur tk) rs in
      let tk1 := advance (mkTask rem (rest tk) true false) in
      let tk2 := mkTask (cur tk1) (rest tk1) true
                   (match rem with [] => negb (finished tk1) | _ => false end) in
      let closure_ok :=
        forallb (fun r => Bool.eqb (sres_eqb r SClosed) (negb (rxst_eqb (rx s) RxOpen))) rs in
      (mkState (buf s ++ snt) (cap s) [] false (rx s) (rx_woken s || existsb is_wrecv ws) (rx_done s)
         (ntasks s) (wake_tasks ws (upd (tasks s) t tk2)) (sent s ++ snt) (recvd s),
       b2N (negb closure_ok) 8)
  | PollRx, ORecv r ws =>
      let weak := match rx s with RxOpen => count_alive (ntasks s) (tasks s) | _ => 0 end in
      let none_expected := match buf s with [] => Nat.eqb weak 0 | _ => false end in
      let closure_ok := Bool.eqb (rres_eqb r RNone) none_expected in
      let fifo_ok := match r with
                     | RSome v => match buf s with x :: _ => N.eqb x v | [] => false end
                     | _ => true
                     end in
      let s' := match r with
                | RSome v => mkState (tl (buf s)) (cap s) [] false (rx s) true (rx_done s) (ntasks s)
                               (wake_tasks ws (tasks s)) (sent s) (recvd s ++ [v])
                | RNone => mkState (buf s) (cap s) [] false (rx s) false true (ntasks s)
                               (wake_tasks ws (tasks s)) (sent s) (recvd s)
                | RPending => mkState (buf s) (cap s) [] false (rx s) false (rx_done s) (ntasks s)
                               (wake_tasks ws (tasks s)) (sent s) (recvd s)
                end in
      (s', (b2N (negb fifo_ok) 4 + b2N (negb closure_ok) 8)%N)
  | DropSender t, OAct ws =>
      (mkState (buf s) (cap s) [] false (rx s) (rx_woken s || existsb is_wrecv ws) (rx_done s)
         (ntasks s) (wake_tasks ws (upd (tasks s) t (mkTask [] [] false (woken (tasks s t)))))
         (sent s) (recvd s), 0%N)
  | CloseSender t, OAct ws =>
      (mkState (buf s) (cap s) [] false (rx s) (rx_woken s || existsb is_wrecv ws) (rx_done s)
         (ntasks s) (wake_tasks ws (upd (tasks s) t (mkTask [] [] false (woken (tasks s t)))))
         (sent s) (recvd s), 0%N)
  | TrySend t x, OTry r ws =>
      let closure_ok := Bool.eqb (sres_eqb r SClosed) (negb (rxst_eqb (rx s) RxOpen)) in
      let snt := match r with SSent => [x] | _ => [] end in
      (mkState (buf s ++ snt) (cap s) [] false (rx s) (rx_woken s || existsb is_wrecv ws) (rx_done s)
         (ntasks s) (wake_tasks ws (tasks s)) (sent s ++ snt) (recvd s), b2N (negb closure_ok) 8)
  | CloneSender t prog, OAct ws =>
      (mkState (buf s) (cap s) [] false (rx s) (rx_woken s || existsb is_wrecv ws) (rx_done s)
         (S (ntasks s)) (wake_tasks ws (upd (tasks s) (ntasks s) (init_task prog))) (sent s) (recvd s), 0%N)
  | CancelSend t k, OAct ws =>
      let tk := tasks s t in
      let tk1 := advance (mkTask (remove_nth k (cur tk)) (rest tk) true true) in
      (mkState (buf s) (cap s) [] false (rx s) (rx_woken s || existsb is_wrecv ws) (rx_done s)
         (ntasks s) (wake_tasks ws (upd (tasks s) t (mkTask (cur tk1) (rest tk1) true (negb (finished tk1)))))
         (sent s) (recvd s), 0%N)
  | CloseRx, OAct ws =>
      (mkState (buf s) (cap s) [] false RxClosed (rx_woken s || existsb is_wrecv ws) (rx_done s)
         (ntasks s) (wake_tasks ws (tasks s)) (sent s) (recvd s), 0%N)
  | DropRx, OAct ws =>
      (mkState (buf s) (cap s) [] false RxDropped (rx_woken s || existsb is_wrecv ws) (rx_done s)
         (ntasks s) (wake_tasks ws (tasks s)) (sent s) (recvd s), 0%N)
  | _, _ => (s, 0%N)   (* disabled label: nothing happened *)
  end.

Fixpoint observe_all (s : state) (ls : list label) (os : list obs) : N :=
  match ls, os with
  | l :: ls', o :: os' =>
      let '(s', m) := observe s l o in
      N.lor (N.lor m (b2N (stranded_b s') 16 + b2N (rx_stranded_b s') 32)%N) (observe_all s' ls' os')
  | _, _ => 0%N
  end.

(* mask of the clauses of C16 that fail on the implementation's observations (0 = holds) *)
Definition C16_fail_mask (c : option nat) (progs : list (list (list item)))
           (ls : list label) (impl : list obs) : N :=
  observe_all (init c progs) ls impl.

Definition C16_holds_b c progs ls impl : bool := N.eqb (C16_fail_mask c progs ls impl) 0.

(* verdict of one correspondence case: bit0 = implementation differs from the model,
   bit1 = C16 fails on the implementation's outputs, bits 2.. = which clause *)
Definition chk16 (c : option nat) (progs : list (list (list item))) (spur canc : bool)
           (ls : list label) (impl : list obs) : N :=
  let mo := fst (run (mkPolicy spur canc) (init c progs) ls) in
  let m := C16_fail_mask c progs ls impl in
  (b2N (negb (list_eqb obs_eqb mo impl)) 1 + b2N (negb (N.eqb m 0)) 2 + m)%N.
