(* Engine Chan: executable form of C15 evaluated on the IMPLEMENTATION's observations and the
   verdict code of one correspondence case (definitions only). *)
From Coq Require Import List Arith Bool NArith.
From HV Require Import Chan.Base Chan.ModelMerge.
Import ListNotations.

(* one observation per poll of the merged stream:
   (Poll value, poll_cursor after, sources.len() after, tags of the sources polled, in order) *)
Definition mobs : Type := (mres * nat * nat * list N)%type.

Definition mres_eqb (a b : mres) : bool :=
  match a, b with
  | MReady (t, x), MReady (u, y) => N.eqb t u && N.eqb x y
  | MPending, MPending | MNone, MNone | MPanic, MPanic => true
  | _, _ => false
  end.

Definition mobs_eqb (a b : mobs) : bool :=
  let '(r, c, n, p) := a in let '(r', c', n', p') := b in
  mres_eqb r r' && Nat.eqb c c' && Nat.eqb n n' && list_N_eqb p p'.

(* the model's observations of n polls *)
Fixpoint mrun_obs (n : nat) (ss : list src) (c : nat) : list mobs :=
  match n with
  | O => []
  | S k =>
      let '(o, ss', c') := mpoll ss c in
      (o, c', length ss', qpolled (rot c ss)) :: mrun_obs k ss' c'
  end.

(* ---- observer: per source, how many times it has been polled (from the harness log) *)
Fixpoint count_tag (t : N) (l : list N) : nat :=
  match l with [] => O | x :: r => (if N.eqb x t then 1 else 0) + count_tag t r end.

(* index of the poll at which the script answers End (explicitly or by running out) *)
Fixpoint end_pos (sc : list sstep) : nat :=
  match sc with [] => O | End :: _ => O | _ :: r => S (end_pos r) end.

Definition head_ready (sc : list sstep) (polls : nat) : bool :=
  Nat.leb polls (end_pos sc) && match nth_error sc polls with Some (Rdy _) => true | _ => false end.

Definition has_ended (sc : list sstep) (polls : nat) : bool := Nat.ltb (end_pos sc) polls.

Definition in_bounds (c n : nat) : bool := Nat.ltb c n || (Nat.eqb n 0 && Nat.eqb c 0).

(* observer state: polled-so-far log, per-source wait counters (same order as srcs), outputs
   so far, number of sources before this poll *)
Fixpoint observe_merge (srcs : list src) (polled : list N) (waits : list nat) (outs : list (N * N))
         (prev_len : nat) (seen_none : bool) (os : list mobs) : N :=
  match os with
  | [] => 0%N
  | (r, c, n, p) :: os' =>
      let heads := map (fun s => head_ready (script s) (count_tag (tag s) polled)) srcs in
      let any_ready := existsb (fun b => b) heads in
      let emitted t := match r with MReady (u, _) => N.eqb u t | _ => false end in
      let waits' := map (fun '(s, (h, w)) => if h && negb (emitted (tag s)) then S w else O)
                        (combine srcs (combine heads waits)) in
      let fair_ok := (negb any_ready || is_mready r) &&
                     forallb (fun w => Nat.leb w (prev_len - 1)) waits' in
      let outs' := match r with MReady x => outs ++ [x] | _ => outs end in
      let order_ok :=
        match r with
        | MReady (t, _) =>
            existsb (fun s => N.eqb (tag s) t) srcs &&
            forallb (fun s => prefixb (of_tag (tag s) outs') (items (script s))) srcs
        | _ => true
        end in
      let polled' := polled ++ p in
      let all_ended := forallb (fun s => has_ended (script s) (count_tag (tag s) polled')) srcs in
      let none_ok := Bool.eqb (is_mnone r) all_ended &&
                     (negb (is_mnone r) ||
                      forallb (fun s => list_N_eqb (of_tag (tag s) outs') (items (script s))) srcs) &&
                     (negb seen_none || is_mnone r) in
      let panic := match r with MPanic => true | _ => false end in
      N.lor (b2N (negb order_ok) 4 + b2N (negb none_ok) 8 + b2N (negb (in_bounds c n)) 16 +
             b2N (negb fair_ok) 32 + b2N panic 64)%N
            (observe_merge srcs polled' waits' outs' n (seen_none || is_mnone r) os')
  end.

Definition C15_fail_mask (srcs : list src) (impl : list mobs) : N :=
  observe_merge srcs [] (map (fun _ => O) srcs) [] (length srcs) false impl.

Definition C15_holds_b (srcs : list src) (impl : list mobs) : bool := N.eqb (C15_fail_mask srcs impl) 0.

Fixpoint list_eqb2 {A} (e : A -> A -> bool) (a b : list A) : bool :=
  match a, b with
  | [], [] => true
  | x :: a', y :: b' => e x y && list_eqb2 e a' b'
  | _, _ => false
  end.

Definition chk15 (srcs : list src) (impl : list mobs) : N :=
  let mo := mrun_obs (length impl) srcs 0 in
  let m := C15_fail_mask srcs impl in
  (b2N (negb (list_eqb2 mobs_eqb mo impl)) 1 + b2N (negb (N.eqb m 0)) 2 + m)%N.
