(* Engine Chan / MergeSource: theorems about the round-robin QUEUE semantics (qpoll), for any
   number of sources and all scripts.  PMergeRef.v proves that the cursor machine of the code
   (mpoll) is this queue machine. *)
From Coq Require Import List Arith Bool NArith Lia Permutation.
From HV Require Import Chan.ModelMerge.
Import ListNotations.

(* non-accumulating form of one scan: (result, polled survivors in order, untouched suffix) *)
Fixpoint qs (q : list src) : mres * list src * list src :=
  match q with
  | [] => (MPending, [], [])
  | s :: q' =>
      match poll_src s with
      | (PRdy x, s') => (MReady x, [s'], q')
      | (PPend, s') => let '(o, k, u) := qs q' in (o, s' :: k, u)
      | (PEnd, _) => let '(o, k, u) := qs q' in (o, k, u)
      end
  end.

Lemma qscan_qs : forall q acc,
  qscan q acc = let '(o, k, u) := qs q in (o, u ++ rev acc ++ k).
Proof.
  induction q as [|s q IH]; intros acc; cbn.
  - rewrite app_nil_r. reflexivity.
  - destruct (poll_src s) as [[x| |] s'].
    + reflexivity.
    + rewrite IH. destruct (qs q) as [[o k] u]. cbn. rewrite <- !app_assoc. reflexivity.
    + rewrite IH. destruct (qs q) as [[o k] u]. reflexivity.
Qed.

Lemma qpoll_qs : forall q,
  qpoll q = let '(o, k, u) := qs q in (match u ++ k with [] => MNone | _ => o end, u ++ k).
Proof.
  intros q. unfold qpoll. rewrite qscan_qs. destruct (qs q) as [[o k] u]. reflexivity.
Qed.

(* ------------------------------------------------------------------ poll_src *)

Lemma poll_src_rdy : forall s x s', poll_src s = (PRdy x, s') ->
  exists a, x = (tag s, a) /\ tag s' = tag s /\ items (script s) = a :: items (script s') /\
            exists r, script s = Rdy a :: r.
Proof.
  intros s x s' H. unfold poll_src in H. destruct (script s) as [|[a| |] r] eqn:E; inversion H; subst.
  exists a. cbn. repeat split; try reflexivity. exists r. reflexivity.
Qed.

Lemma poll_src_pend : forall s s', poll_src s = (PPend, s') ->
  tag s' = tag s /\ items (script s') = items (script s).
Proof.
  intros s s' H. unfold poll_src in H. destruct (script s) as [|[a| |] r] eqn:E; inversion H; subst.
  cbn. split; reflexivity.
Qed.

Lemma poll_src_end : forall s s', poll_src s = (PEnd, s') -> items (script s) = [].
Proof.
  intros s s' H. unfold poll_src in H. destruct (script s) as [|[a| |] r] eqn:E; inversion H; subst; reflexivity.
Qed.

(* ------------------------------------------------------------------ what remains, by tag *)

Definition remf (q : list src) (t : N) : list N :=
  flat_map (fun s => if N.eqb (tag s) t then items (script s) else []) q.

Definition em (o : mres) (t : N) : list N :=
  match o with MReady (u, a) => if N.eqb u t then [a] else [] | _ => [] end.

Lemma remf_app : forall a b t, remf (a ++ b) t = remf a t ++ remf b t.
Proof. intros. unfold remf. apply flat_map_app. Qed.

Lemma remf_notin : forall q t, ~ In t (map tag q) -> remf q t = [].
Proof.
  induction q as [|s q IH]; intros t H; cbn; [reflexivity|].
  destruct (N.eqb (tag s) t) eqn:E.
  - apply N.eqb_eq in E. exfalso. apply H. left. exact E.
  - cbn. apply IH. intro K. apply H. right. exact K.
Qed.

Lemma remf_comm : forall a b t, NoDup (map tag (a ++ b)) -> remf (a ++ b) t = remf (b ++ a) t.
Proof.
  intros a b t ND. rewrite !remf_app. rewrite map_app in ND.
  destruct (in_dec N.eq_dec t (map tag a)) as [Ia|Na].
  - assert (Nb : ~ In t (map tag b)).
    { intro Ib. revert ND Ia Ib. generalize (map tag a) (map tag b). intros la lb ND Ia Ib.
      induction la as [|x la IH]; [destruct Ia|]. cbn in ND. inversion ND; subst.
      destruct Ia as [->|Ia]; [apply H1; apply in_or_app; right; exact Ib|apply IH; assumption]. }
    rewrite (remf_notin b t Nb). rewrite app_nil_r. reflexivity.
  - rewrite (remf_notin a t Na). rewrite app_nil_r. reflexivity.
Qed.

Lemma qs_emit_tag : forall q t a k u, qs q = (MReady (t, a), k, u) -> In t (map tag q).
Proof.
  induction q as [|s q IH]; intros t a k u H; cbn in H; [discriminate|].
  destruct (poll_src s) as [[x| |] s'] eqn:P.
  - inversion H; subst. destruct (poll_src_rdy _ _ _ P) as [a' [E _]]. inversion E; subst. left. reflexivity.
  - destruct (qs q) as [[o k'] u'] eqn:Q. inversion H; subst. right. eapply IH. reflexivity.
  - destruct (qs q) as [[o k'] u'] eqn:Q. inversion H; subst. right. eapply IH. reflexivity.
Qed.

Lemma qs_tags : forall q o k u, qs q = (o, k, u) ->
  forall t, In t (map tag (k ++ u)) -> In t (map tag q).
Proof.
  induction q as [|s q IH]; intros o k u H t I; cbn in H.
  - inversion H; subst. exact I.
  - destruct (poll_src s) as [[x| |] s'] eqn:P.
    + inversion H; subst. destruct (poll_src_rdy _ _ _ P) as [a [_ [T _]]].
      cbn in I. destruct I as [<-|I]; [left; symmetry; exact T|right; exact I].
    + destruct (qs q) as [[o' k'] u'] eqn:Q. inversion H; subst.
      destruct (poll_src_pend _ _ P) as [T _].
      cbn in I. destruct I as [<-|I]; [left; symmetry; exact T|right; eapply IH; [reflexivity|exact I]].
    + destruct (qs q) as [[o' k'] u'] eqn:Q. inversion H; subst. right. eapply IH; [reflexivity|exact I].
Qed.

Lemma qs_nodup : forall q o k u, NoDup (map tag q) -> qs q = (o, k, u) -> NoDup (map tag (k ++ u)).
Proof.
  induction q as [|s q IH]; intros o k u ND H; cbn in H.
  - inversion H; subst. constructor.
  - cbn in ND. inversion ND as [|? ? Nin ND']; subst.
    destruct (poll_src s) as [[x| |] s'] eqn:P.
    + inversion H; subst. destruct (poll_src_rdy _ _ _ P) as [a [_ [T _]]].
      cbn. rewrite T. constructor; assumption.
    + destruct (qs q) as [[o' k'] u'] eqn:Q. inversion H; subst.
      destruct (poll_src_pend _ _ P) as [T _]. cbn. rewrite T. constructor.
      * intro I. apply Nin. eapply qs_tags; [exact Q|exact I].
      * eapply IH; [exact ND'|reflexivity].
    + destruct (qs q) as [[o' k'] u'] eqn:Q. inversion H; subst. eapply IH; [exact ND'|reflexivity].
Qed.

Lemma remf_cons : forall s q t,
  remf (s :: q) t = (if N.eqb (tag s) t then items (script s) else []) ++ remf q t.
Proof. reflexivity. Qed.

Lemma qs_remf : forall q o k u t, NoDup (map tag q) -> qs q = (o, k, u) ->
  remf q t = em o t ++ remf (k ++ u) t.
Proof.
  induction q as [|s q IH]; intros o k u t ND H; cbn in H.
  - inversion H; subst. reflexivity.
  - cbn in ND. inversion ND as [|? ? Nin ND']; subst.
    destruct (poll_src s) as [[x| |] s'] eqn:P.
    + inversion H; subst. destruct (poll_src_rdy _ _ _ P) as [a [-> [T [I _]]]].
      cbn [app]. rewrite !remf_cons. rewrite T, I. unfold em. destruct (N.eqb (tag s) t); reflexivity.
    + destruct (qs q) as [[o' k'] u'] eqn:Q. inversion H; subst.
      destruct (poll_src_pend _ _ P) as [T I].
      cbn [app]. rewrite !remf_cons. rewrite T, I. rewrite (IH _ _ _ t ND' eq_refl).
      destruct (N.eqb (tag s) t) eqn:E; [|reflexivity].
      apply N.eqb_eq in E.
      assert (Em : em o t = []).
      { destruct o as [[u0 a]| | |]; try reflexivity. cbn. destruct (N.eqb u0 t) eqn:E2; [|reflexivity].
        apply N.eqb_eq in E2. subst u0. exfalso. apply Nin. rewrite E. eapply qs_emit_tag. exact Q. }
      rewrite Em. reflexivity.
    + destruct (qs q) as [[o' k'] u'] eqn:Q. inversion H; subst.
      rewrite remf_cons. rewrite (poll_src_end _ _ P). rewrite (IH _ _ _ t ND' eq_refl).
      destruct (N.eqb (tag s) t); reflexivity.
Qed.

Lemma nodup_app_comm : forall (a b : list N), NoDup (a ++ b) -> NoDup (b ++ a).
Proof. intros a b H. eapply Permutation_NoDup; [apply Permutation_app_comm|exact H]. Qed.

(* one poll: the emitted item is the next item of its source, everything else is unchanged *)
Lemma qpoll_spec : forall q o q' t, NoDup (map tag q) -> qpoll q = (o, q') ->
  remf q t = em o t ++ remf q' t /\ NoDup (map tag q') /\
  (forall u, In u (map tag q') -> In u (map tag q)) /\
  (forall u a, o = MReady (u, a) -> In u (map tag q)).
Proof.
  intros q o q' t ND H. rewrite qpoll_qs in H. destruct (qs q) as [[o1 k] u] eqn:Q.
  inversion H; subst; clear H.
  pose proof (qs_nodup _ _ _ _ ND Q) as ND2.
  pose proof (qs_remf _ _ _ _ t ND Q) as R.
  assert (ND3 : NoDup (map tag (u ++ k))).
  { rewrite map_app. apply nodup_app_comm. rewrite <- map_app. exact ND2. }
  split; [|split; [exact ND3|split]].
  - rewrite R. rewrite (remf_comm k u t ND2).
    destruct (u ++ k) eqn:E; [|reflexivity].
    (* nothing remains: whatever o1 was, em o1 t must be justified *)
    destruct o1 as [[u0 a]| | |]; try reflexivity.
    (* a Ready result always leaves its source in the queue *)
    exfalso. clear R ND2 ND3.
    assert (K : k <> []).
    { clear E. revert k u Q. induction q as [|s q IH]; intros k u Q; cbn in Q; [discriminate|].
      destruct (poll_src s) as [[x| |] s']; [inversion Q; discriminate| |].
      - destruct (qs q) as [[o' k'] u'] eqn:Q'. inversion Q; subst. discriminate.
      - destruct (qs q) as [[o' k'] u'] eqn:Q'. inversion Q; subst.
        inversion ND; subst. eapply IH; [assumption|reflexivity]. }
    destruct u; destruct k; cbn in E; try discriminate. apply K. reflexivity.
  - intros x I. eapply qs_tags; [exact Q|]. rewrite map_app in *. apply in_app_or in I.
    apply in_or_app. tauto.
  - intros x a E. destruct (u ++ k); [discriminate|]. subst. eapply qs_emit_tag. exact Q.
Qed.

Lemma of_tag_cons : forall t x xs,
  of_tag t (x :: xs) = (if N.eqb (fst x) t then [snd x] else []) ++ of_tag t xs.
Proof. intros. unfold of_tag. cbn. destruct (N.eqb (fst x) t); reflexivity. Qed.

(* any number of polls: per source, emitted ++ remaining = the source's items (order kept,
   nothing lost, nothing duplicated, tags preserved) *)
Theorem q_order_no_loss : forall n q os q', NoDup (map tag q) -> qrun n q = (os, q') ->
  (forall t, remf q t = of_tag t (readys os) ++ remf q' t) /\
  (forall t a, In (t, a) (readys os) -> In t (map tag q)) /\
  NoDup (map tag q').
Proof.
  induction n as [|n IH]; intros q os q' ND H; cbn in H.
  - inversion H; subst. split; [reflexivity|]. split; [intros t a []|exact ND].
  - destruct (qpoll q) as [o q1] eqn:P. destruct (qrun n q1) as [os1 fin] eqn:R.
    inversion H; subst; clear H.
    assert (ND1 : NoDup (map tag q1)) by (apply (qpoll_spec q o q1 0%N ND P)).
    destruct (IH _ _ _ ND1 R) as [A [B C]].
    split; [|split; [|exact C]].
    + intros t. destruct (qpoll_spec q o q1 t ND P) as [E _]. rewrite E, A.
      destruct o as [[u a]| | |]; cbn [readys flat_map em app]; try reflexivity.
      rewrite of_tag_cons. cbn [fst snd]. rewrite <- app_assoc. reflexivity.
    + intros t a I. destruct (qpoll_spec q o q1 t ND P) as [_ [_ [S E]]].
      destruct o as [[u a0]| | |]; cbn in I.
      * destruct I as [I|I]; [inversion I; subst; eapply E; reflexivity|apply S; eapply B; exact I].
      * apply S. eapply B. exact I.
      * apply S. eapply B. exact I.
      * apply S. eapply B. exact I.
Qed.

(* ------------------------------------------------------------------ the end of the stream *)

Definition answers_end (s : src) : bool :=
  match fst (poll_src s) with PEnd => true | _ => false end.

Lemma qs_all_end : forall q, forallb answers_end q = true -> qs q = (MPending, [], []).
Proof.
  induction q as [|s q IH]; intros H; cbn in *; [reflexivity|].
  apply andb_true_iff in H. destruct H as [A B]. unfold answers_end in A.
  destruct (poll_src s) as [[x| |] s']; cbn in A; try discriminate. rewrite (IH B). reflexivity.
Qed.

Lemma qs_empty_all_end : forall q o k u, qs q = (o, k, u) -> u ++ k = [] -> forallb answers_end q = true.
Proof.
  induction q as [|s q IH]; intros o k u H E; cbn in *; [reflexivity|].
  unfold answers_end at 1.
  destruct (poll_src s) as [[x| |] s'] eqn:P; cbn.
  - inversion H; subst. apply app_eq_nil in E. destruct E as [_ E]. discriminate.
  - destruct (qs q) as [[o' k'] u']. inversion H; subst. apply app_eq_nil in E. destruct E as [_ E]. discriminate.
  - destruct (qs q) as [[o' k'] u'] eqn:Q. inversion H; subst. eapply IH; [reflexivity|exact E].
Qed.

(* Ready(None) exactly when every remaining source answers None in this poll; the queue is then
   empty, and stays so: Ready(None) forever *)
Theorem q_none_iff : forall q,
  (fst (qpoll q) = MNone <-> forallb answers_end q = true) /\
  (fst (qpoll q) = MNone -> snd (qpoll q) = []) /\
  (fst (qpoll q) <> MPanic).
Proof.
  intros q. rewrite qpoll_qs. destruct (qs q) as [[o k] u] eqn:Q. cbn [fst snd].
  assert (NP : forall q o k u, qs q = (o, k, u) -> o <> MPanic /\ o <> MNone).
  { clear. intros q. induction q as [|s q IH]; intros o k u H; cbn in H.
    - inversion H; subst. split; discriminate.
    - destruct (poll_src s) as [[x| |] s'].
      + inversion H; subst. split; discriminate.
      + destruct (qs q) as [[o' k'] u'] eqn:Q. inversion H; subst. eapply IH. reflexivity.
      + destruct (qs q) as [[o' k'] u'] eqn:Q. inversion H; subst. eapply IH. reflexivity. }
  destruct (NP _ _ _ _ Q) as [N1 N2].
  split; [split|split].
  - intros H. destruct (u ++ k) eqn:E; [|contradiction]. eapply qs_empty_all_end; eassumption.
  - intros H. rewrite (qs_all_end q H) in Q. inversion Q; subst. reflexivity.
  - intros H. destruct (u ++ k) eqn:E; [reflexivity|contradiction].
  - destruct (u ++ k); [discriminate|exact N1].
Qed.

Lemma qrun_nil : forall n, qrun n [] = (repeat MNone n, []).
Proof. induction n as [|n IH]; cbn; [reflexivity|]. rewrite IH. reflexivity. Qed.

(* ------------------------------------------------------------------ fairness *)

Lemma qs_app_ready : forall q1 q2 x k u, qs q1 = (MReady x, k, u) -> qs (q1 ++ q2) = (MReady x, k, u ++ q2).
Proof.
  induction q1 as [|s q1 IH]; intros q2 x k u H; cbn in *; [discriminate|].
  destruct (poll_src s) as [[y| |] s'].
  - inversion H; subst. reflexivity.
  - destruct (qs q1) as [[o' k'] u'] eqn:Q. inversion H; subst. rewrite (IH q2 x k' u eq_refl). reflexivity.
  - destruct (qs q1) as [[o' k'] u'] eqn:Q. inversion H; subst. rewrite (IH q2 x k u eq_refl). reflexivity.
Qed.

Lemma qs_app_pending : forall q1 q2 k u, qs q1 = (MPending, k, u) ->
  u = [] /\ qs (q1 ++ q2) = let '(o2, k2, u2) := qs q2 in (o2, k ++ k2, u2).
Proof.
  induction q1 as [|s q1 IH]; intros q2 k u H; cbn in *.
  - inversion H; subst. split; [reflexivity|]. destruct (qs q2) as [[o2 k2] u2]. reflexivity.
  - destruct (poll_src s) as [[y| |] s'].
    + inversion H.
    + destruct (qs q1) as [[o' k'] u'] eqn:Q. inversion H; subst.
      destruct (IH q2 k' u eq_refl) as [E R]. split; [exact E|]. rewrite R.
      destruct (qs q2) as [[o2 k2] u2]. reflexivity.
    + destruct (qs q1) as [[o' k'] u'] eqn:Q. inversion H; subst.
      destruct (IH q2 k u eq_refl) as [E R]. split; [exact E|]. rewrite R.
      destruct (qs q2) as [[o2 k2] u2]. reflexivity.
Qed.

Lemma qs_result_cases : forall q o k u, qs q = (o, k, u) ->
  (o = MPending) \/ (exists x, o = MReady x /\ length u < length q).
Proof.
  induction q as [|s q IH]; intros o k u H; cbn in H.
  - inversion H; subst. left. reflexivity.
  - destruct (poll_src s) as [[y| |] s'].
    + inversion H; subst. right. exists y. split; [reflexivity|cbn; lia].
    + destruct (qs q) as [[o' k'] u'] eqn:Q. inversion H; subst.
      destruct (IH _ _ _ eq_refl) as [->|[x [-> L]]]; [left; reflexivity|right; exists x; split; [reflexivity|cbn; lia]].
    + destruct (qs q) as [[o' k'] u'] eqn:Q. inversion H; subst.
      destruct (IH _ _ _ eq_refl) as [->|[x [-> L]]]; [left; reflexivity|right; exists x; split; [reflexivity|cbn; lia]].
Qed.

(* a source whose next answer is Ready, at position i of the queue: this poll returns Ready,
   and either it is that source's item or the source moves strictly closer to the head *)
Lemma q_fair_step : forall q1 s q2 a r, script s = Rdy a :: r ->
  exists x q', qpoll (q1 ++ s :: q2) = (MReady x, q') /\
    (x = (tag s, a) \/ exists j, j < length q1 /\ nth_error q' j = Some s).
Proof.
  intros q1 s q2 a r Sc. rewrite qpoll_qs.
  assert (Ps : poll_src s = (PRdy (tag s, a), mkSrc (tag s) r)) by (unfold poll_src; rewrite Sc; reflexivity).
  destruct (qs q1) as [[o1 k1] u1] eqn:Q1.
  destruct (qs_result_cases _ _ _ _ Q1) as [->|[x [-> L]]].
  - destruct (qs_app_pending q1 (s :: q2) k1 u1 Q1) as [-> R]. rewrite R. cbn [qs]. rewrite Ps.
    exists (tag s, a). exists (q2 ++ k1 ++ [mkSrc (tag s) r]). split.
    + destruct (q2 ++ k1 ++ [mkSrc (tag s) r]) eqn:E; [|reflexivity].
      destruct q2; destruct k1; discriminate.
    + left. reflexivity.
  - rewrite (qs_app_ready q1 (s :: q2) x k1 u1 Q1).
    exists x. exists ((u1 ++ s :: q2) ++ k1). split.
    + destruct ((u1 ++ s :: q2) ++ k1) eqn:E; [|reflexivity]. destruct u1; discriminate.
    + right. exists (length u1). split; [exact L|].
      rewrite <- app_assoc. rewrite nth_error_app2 by lia. rewrite Nat.sub_diag. reflexivity.
Qed.

Lemma nth_error_split' : forall (A : Type) (l : list A) i x, nth_error l i = Some x ->
  exists l1 l2, l = l1 ++ x :: l2 /\ length l1 = i.
Proof. intros. apply nth_error_split. exact H. Qed.

(* ... hence it is served within one round: after at most i <= n-1 items of other sources *)
Theorem q_fair : forall i q s a r,
  nth_error q i = Some s -> script s = Rdy a :: r ->
  exists j, j <= i /\
    nth_error (fst (qrun (S j) q)) j = Some (MReady (tag s, a)) /\
    forall m, m < j -> exists x, nth_error (fst (qrun (S j) q)) m = Some (MReady x).
Proof.
  induction i as [i IH] using lt_wf_ind. intros q s a r Nth Sc.
  destruct (nth_error_split' _ _ _ _ Nth) as [q1 [q2 [-> L]]].
  destruct (q_fair_step q1 s q2 a r Sc) as [x [q' [P [->|[j [Lj Nj]]]]]].
  - exists 0. split; [lia|]. cbn. rewrite P. cbn. split; [reflexivity|]. intros m Hm. lia.
  - assert (Lt : j < i) by lia.
    destruct (IH j Lt q' s a r Nj Sc) as [j' [Le [E1 E2]]].
    exists (S j'). split; [lia|].
    assert (U : forall n, fst (qrun (S n) (q1 ++ s :: q2)) = MReady x :: fst (qrun n q')).
    { intros n. cbn [qrun]. rewrite P. destruct (qrun n q') as [os fin]. reflexivity. }
    rewrite U. split; [exact E1|].
    intros m Hm. destruct m as [|m]; [exists x; reflexivity|]. cbn. apply E2. lia.
Qed.
