(* Engine Chan, part 3: executable model of hydro_deploy_integration::MergeSource
   (hydro_deploy/hydro_deploy_integration/src/lib.rs) over TaggedSource over scripted streams.
   Definitions only.

   MergeSource { sources: Vec<Option<Pin<Box<S>>>>, poll_cursor }.  poll_next:
     loop { len = sources.len(); source = &mut sources[cursor]; cursor = (cursor+1) % len;
            match source.unwrap().poll_next { Ready(Some) => break with it,
                                              Ready(None) => *source = None (any_removed),
                                              Pending => {} }
            if cursor == start { break } }
     retain(|s| { if s.is_none() && index < original_cursor { cursor -= 1 }; index += 1; s.is_some() })
     if cursor == sources.len() { cursor = 0 }
     if sources.is_empty() { Ready(None) } else { out }
   (`retain` only runs when any_removed; with nothing removed it is the identity, so the model
   always applies it.) *)
From Coq Require Import List Arith Bool NArith Lia.
Import ListNotations.

(* what a scripted upstream answers, one entry per poll; after the script: End *)
Inductive sstep := Rdy (a : N) | Pend | End.

Record src := mkSrc { tag : N; script : list sstep }.

Inductive pres := PRdy (x : N * N) | PPend | PEnd.

(* TaggedSource::poll_next over the scripted stream *)
Definition poll_src (s : src) : pres * src :=
  match script s with
  | [] => (PEnd, s)
  | Rdy a :: r => (PRdy (tag s, a), mkSrc (tag s) r)
  | Pend :: r => (PPend, mkSrc (tag s) r)
  | End :: r => (PEnd, mkSrc (tag s) r)
  end.

Inductive mres := MReady (x : N * N) | MPending | MNone | MPanic.

Fixpoint set_nth {A} (n : nat) (v : A) (l : list A) : list A :=
  match l, n with
  | [], _ => []
  | _ :: r, O => v :: r
  | x :: r, S k => x :: set_nth k v r
  end.

(* the polling loop; fuel = number of sources (one round at most).
   MPanic = index out of bounds, `unwrap` on a removed source, or more than one round *)
Fixpoint mloop (fuel start cur : nat) (ws : list (option src)) : mres * nat * list (option src) :=
  match fuel with
  | O => (MPanic, cur, ws)
  | S f =>
      match nth_error ws cur with
      | None => (MPanic, cur, ws)
      | Some None => (MPanic, cur, ws)
      | Some (Some s) =>
          let cur' := (cur + 1) mod (length ws) in
          match poll_src s with
          | (PRdy x, s') => (MReady x, cur', set_nth cur (Some s') ws)
          | (PPend, s') =>
              let ws' := set_nth cur (Some s') ws in
              if Nat.eqb cur' start then (MPending, cur', ws') else mloop f start cur' ws'
          | (PEnd, _) =>
              let ws' := set_nth cur None ws in
              if Nat.eqb cur' start then (MPending, cur', ws') else mloop f start cur' ws'
          end
      end
  end.

Definition is_none {A} (o : option A) : bool := match o with None => true | Some _ => false end.

Fixpoint somes {A} (l : list (option A)) : list A :=
  match l with
  | [] => []
  | Some x :: r => x :: somes r
  | None :: r => somes r
  end.

Definition count_none {A} (l : list (option A)) : nat := length (filter is_none l).

(* one poll_next of MergeSource: (result, remaining sources, cursor) *)
Definition mpoll (ss : list src) (c : nat) : mres * list src * nat :=
  let '(out, c1, ws) :=
    match ss with
    | [] => (MPending, c, [])
    | _ => mloop (length ss) c c (map Some ss)
    end in
  let c2 := c1 - count_none (firstn c1 ws) in
  let ss' := somes ws in
  let c3 := if Nat.eqb c2 (length ss') then 0 else c2 in
  match out with
  | MPanic => (MPanic, ss, c)
  | _ => (match ss' with [] => MNone | _ => out end, ss', c3)
  end.

(* n polls: the sequence of Poll values with the cursor and length after each poll *)
Fixpoint mrun (n : nat) (ss : list src) (c : nat) : list (mres * nat * nat) * (list src * nat) :=
  match n with
  | O => ([], (ss, c))
  | S k =>
      let '(o, ss', c') := mpoll ss c in
      let '(os, fin) := mrun k ss' c' in
      ((o, c', length ss') :: os, fin)
  end.

(* ------------------------------------------------------------------ reference semantics *)

(* the items a source will deliver: the Rdy answers before its first End *)
Fixpoint items (sc : list sstep) : list N :=
  match sc with
  | [] => []
  | Rdy a :: r => a :: items r
  | Pend :: r => items r
  | End :: _ => []
  end.

(* round robin as a queue: head = next source to poll.  One poll scans the queue until a
   source is ready; polled sources go to the back in order, ended ones are dropped. *)
Fixpoint qscan (q acc : list src) : mres * list src :=
  match q with
  | [] => (MPending, rev acc)
  | s :: q' =>
      match poll_src s with
      | (PRdy x, s') => (MReady x, q' ++ rev acc ++ [s'])
      | (PPend, s') => qscan q' (s' :: acc)
      | (PEnd, _) => qscan q' acc
      end
  end.

Definition qpoll (q : list src) : mres * list src :=
  let '(o, q') := qscan q [] in (match q' with [] => MNone | _ => o end, q').

Fixpoint qrun (n : nat) (q : list src) : list mres * list src :=
  match n with
  | O => ([], q)
  | S k => let '(o, q') := qpoll q in let '(os, fin) := qrun k q' in (o :: os, fin)
  end.

Definition rot {A} (c : nat) (l : list A) : list A := skipn c l ++ firstn c l.

(* tags of the sources polled by one poll, in order (observable: the harness logs every
   poll of a scripted stream) *)
Fixpoint qpolled (q : list src) : list N :=
  match q with
  | [] => []
  | s :: q' => match fst (poll_src s) with PRdy _ => [tag s] | _ => tag s :: qpolled q' end
  end.

(* ------------------------------------------------------------------ executable property *)

Definition readys (os : list mres) : list (N * N) :=
  flat_map (fun o => match o with MReady x => [x] | _ => [] end) os.

Definition of_tag (t : N) (xs : list (N * N)) : list N :=
  map snd (filter (fun x => N.eqb (fst x) t) xs).

Definition is_mnone (o : mres) : bool := match o with MNone => true | _ => false end.
Definition is_mready (o : mres) : bool := match o with MReady _ => true | _ => false end.

Fixpoint prefixb (a b : list N) : bool :=
  match a, b with
  | [], _ => true
  | x :: a', y :: b' => N.eqb x y && prefixb a' b'
  | _, _ => false
  end.

Fixpoint list_N_eqb (a b : list N) : bool :=
  match a, b with
  | [], [] => true
  | x :: a', y :: b' => N.eqb x y && list_N_eqb a' b'
  | _, _ => false
  end.

(* after the first None everything is None *)
Fixpoint none_forever (os : list mres) : bool :=
  match os with
  | [] => true
  | o :: r => if is_mnone o then forallb is_mnone r else none_forever r
  end.
