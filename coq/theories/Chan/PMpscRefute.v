(* Engine Chan: stranded_b / rx_stranded_b reflect the bad states; the refutation witness of the
   receiver-side clause on the current code (close_this_sender), and the three witnesses that
   refuted NoStrand on the code BEFORE /repo commit 904d17adb85 (model ModelMpscOld.step_old). *)
From Coq Require Import List Arith Bool NArith Lia.
From HV Require Import Chan.ModelMpsc Chan.ModelMpscOld.
Import ListNotations.

Lemma forallb_seq_iff : forall (f : nat -> bool) n,
  forallb f (seq 0 n) = true <-> (forall t, t < n -> f t = true).
Proof.
  intros f n. rewrite forallb_forall. split.
  - intros H t Ht. apply H. apply in_seq. lia.
  - intros H t Ht. apply in_seq in Ht. apply H. lia.
Qed.

Lemma existsb_seq_iff : forall (f : nat -> bool) n,
  existsb f (seq 0 n) = true <-> (exists t, t < n /\ f t = true).
Proof.
  intros f n. rewrite existsb_exists. split.
  - intros [t [Ht E]]. apply in_seq in Ht. exists t. split; [lia|exact E].
  - intros [t [Ht E]]. exists t. split; [apply in_seq; lia|exact E].
Qed.

Lemma stranded_b_iff : forall s, stranded_b s = true <-> Stranded s.
Proof.
  intro s. unfold stranded_b, Stranded.
  rewrite !andb_true_iff, forallb_seq_iff, existsb_seq_iff, negb_true_iff.
  split.
  - intros [[[A B] C] D]. repeat split; try assumption.
    intros t Ht. apply negb_true_iff. apply A. exact Ht.
  - intros [A [B [C D]]]. repeat split; try assumption.
    intros t Ht. apply negb_true_iff. apply A. exact Ht.
Qed.

(* a label sequence all of whose labels are enabled reaches the state computed by run *)
Fixpoint run_enabled (p : policy) (s : state) (ls : list label) : option state :=
  match ls with
  | [] => Some s
  | l :: ls' => match step p s l with Some (s', _) => run_enabled p s' ls' | None => None end
  end.

Lemma reachable_app : forall p s0 tr s, reachable p s0 tr s ->
  forall ls s', run_enabled p s ls = Some s' -> reachable p s0 (tr ++ ls) s'.
Proof.
  intros p s0 tr s R ls. revert tr s R.
  induction ls as [|l ls IH]; intros tr s R s' E; cbn in E.
  - inversion E; subst. rewrite app_nil_r. exact R.
  - destruct (step p s l) as [[s1 o]|] eqn:St; [|discriminate].
    replace (tr ++ l :: ls) with ((tr ++ [l]) ++ ls) by (rewrite <- app_assoc; reflexivity).
    eapply IH; [|exact E]. eapply r_snoc; eassumption.
Qed.

Lemma run_enabled_reachable : forall p s0 ls s,
  run_enabled p s0 ls = Some s -> reachable p s0 ls s.
Proof. intros p s0 ls s E. apply (reachable_app p s0 [] s0 (r_nil p s0) ls s E). Qed.

Lemma reachable_old_app : forall p s0 tr s, reachable_old p s0 tr s ->
  forall ls s', run_enabled_old p s ls = Some s' -> reachable_old p s0 (tr ++ ls) s'.
Proof.
  intros p s0 tr s R ls. revert tr s R.
  induction ls as [|l ls IH]; intros tr s R s' E; cbn in E.
  - inversion E; subst. rewrite app_nil_r. exact R.
  - destruct (step_old p s l) as [[s1 o]|] eqn:St; [|discriminate].
    replace (tr ++ l :: ls) with ((tr ++ [l]) ++ ls) by (rewrite <- app_assoc; reflexivity).
    eapply IH; [|exact E]. eapply ro_snoc; eassumption.
Qed.

Lemma run_enabled_old_reachable : forall p s0 ls s,
  run_enabled_old p s0 ls = Some s -> reachable_old p s0 ls s.
Proof. intros p s0 ls s E. apply (reachable_old_app p s0 [] s0 (ro_nil p s0) ls s E). Qed.

(* ---- the code before 904d17adb85 (wake_sender pops one waker) ---- *)

(* Witness 1 (strict executor, tasks polled only when woken).  Capacity 1.
   Task 0 fills the buffer; task 1 ("C") polls `send 3` and parks; task 2 ("T") polls its two
   joined sends `send 1`, `send 2`: its waker is registered twice.  Three receives later the
   buffer is empty, the receiver is parked, and task 1 has never been woken. *)
Definition w1_progs : list (list (list item)) := [[[9%N]]; [[3%N]]; [[1%N; 2%N]]].
Definition w1_trace : list label :=
  [Poll 0; Poll 1; Poll 2; PollRx; Poll 2; PollRx; Poll 2; PollRx; PollRx].

Lemma no_strand_refuted :
  exists s, reachable_old strict (init (Some 1) w1_progs) w1_trace s /\ Stranded s /\
            cap_ok (Some 1) = true.
Proof.
  destruct (run_enabled_old strict (init (Some 1) w1_progs) w1_trace) as [s|] eqn:E;
    [|vm_compute in E; discriminate].
  exists s. split; [apply run_enabled_old_reachable; exact E|]. split; [|reflexivity].
  apply stranded_b_iff.
  assert (H : option_map stranded_b (run_enabled_old strict (init (Some 1) w1_progs) w1_trace) = Some true)
    by (vm_compute; reflexivity).
  rewrite E in H. cbn in H. inversion H. reflexivity.
Qed.

(* Witness 2: one outstanding send per task, but task 1 is polled again without having been
   woken (what join!/select! with another future do): same stale duplicate. *)
Definition w2_progs : list (list (list item)) := [[[9%N]]; [[3%N]]; [[1%N]]].
Definition w2_trace : list label :=
  [Poll 0; Poll 1; Poll 2; Poll 2; PollRx; Poll 2; PollRx; PollRx].

Lemma no_strand_spurious_refuted :
  exists s, single_progs w2_progs = true /\
            reachable_old (mkPolicy true false) (init (Some 1) w2_progs) w2_trace s /\ Stranded s.
Proof.
  destruct (run_enabled_old (mkPolicy true false) (init (Some 1) w2_progs) w2_trace) as [s|] eqn:E;
    [|vm_compute in E; discriminate].
  exists s. split; [reflexivity|]. split; [apply run_enabled_old_reachable; exact E|].
  apply stranded_b_iff.
  assert (H : option_map stranded_b
                (run_enabled_old (mkPolicy true false) (init (Some 1) w2_progs) w2_trace) = Some true)
    by (vm_compute; reflexivity).
  rewrite E in H. cbn in H. inversion H. reflexivity.
Qed.

(* Witness 3: one outstanding send per task, polled only when woken, but the sender task that
   wake_sender has just woken is dropped before it runs: the wake-up is not passed on. *)
Definition w3_progs : list (list (list item)) := [[[9%N]]; [[3%N]]; [[1%N]]].
Definition w3_trace : list label :=
  [Poll 0; Poll 1; Poll 2; PollRx; DropSender 2; PollRx].

Lemma no_strand_cancel_refuted :
  exists s, single_progs w3_progs = true /\
            reachable_old (mkPolicy false true) (init (Some 1) w3_progs) w3_trace s /\ Stranded s.
Proof.
  destruct (run_enabled_old (mkPolicy false true) (init (Some 1) w3_progs) w3_trace) as [s|] eqn:E;
    [|vm_compute in E; discriminate].
  exists s. split; [reflexivity|]. split; [apply run_enabled_old_reachable; exact E|].
  apply stranded_b_iff.
  assert (H : option_map stranded_b
                (run_enabled_old (mkPolicy false true) (init (Some 1) w3_progs) w3_trace) = Some true)
    by (vm_compute; reflexivity).
  rewrite E in H. cbn in H. inversion H. reflexivity.
Qed.

(* ------------------------------------------------------------------ the receiver's side *)

Lemma rx_stranded_b_iff : forall s, rx_stranded_b s = true <-> RxStranded s.
Proof.
  intro s. unfold rx_stranded_b, RxStranded, all_dead.
  rewrite !andb_true_iff, orb_true_iff, !forallb_seq_iff, !negb_true_iff.
  split.
  - intros [[[[A B] C] D] E]. split; [|split; [exact B|split; [|split; [exact D|]]]].
    + intros t Ht. apply negb_true_iff. apply A. exact Ht.
    + destruct (rx s); try discriminate. reflexivity.
    + destruct E as [E|E].
      * left. destruct (buf s); [discriminate|discriminate].
      * right. intros t Ht. apply negb_true_iff. apply E. exact Ht.
  - intros [A [B [C [D E]]]]. repeat split; try assumption.
    + intros t Ht. apply negb_true_iff. apply A. exact Ht.
    + rewrite C. reflexivity.
    + destruct E as [E|E].
      * left. destruct (buf s); [exfalso; apply E; reflexivity|reflexivity].
      * right. intros t Ht. apply negb_true_iff. apply E. exact Ht.
Qed.

(* Witness 4 (the code before fdb5498e919): strict executor, one sender with one send.  The receiver parks on the empty
   channel; the (finished) sender calls close_this_sender -- what Sink::poll_close does --
   which drops the weak count without waking the receiver: it stays parked although a poll
   would now return None. *)
Definition w4_progs : list (list (list item)) := [[[1%N]]].
Definition w4_trace : list label := [Poll 0; PollRx; PollRx; CloseSender 0].

Lemma no_rx_strand_refuted :
  exists s, single_progs w4_progs = true /\
            reachable_old strict (init (Some 1) w4_progs) w4_trace s /\ RxStranded s.
Proof.
  destruct (run_enabled_old strict (init (Some 1) w4_progs) w4_trace) as [s|] eqn:E;
    [|vm_compute in E; discriminate].
  exists s. split; [reflexivity|]. split; [apply run_enabled_old_reachable; exact E|].
  apply rx_stranded_b_iff.
  assert (H : option_map rx_stranded_b (run_enabled_old strict (init (Some 1) w4_progs) w4_trace) = Some true)
    by (vm_compute; reflexivity).
  rewrite E in H. cbn in H. inversion H. reflexivity.
Qed.
