(* Engine Chan: executable form of C27 on the IMPLEMENTATION's event log, and the verdict
   code of one correspondence case (definitions only). *)
From Coq Require Import List Arith Bool NArith.
From HV Require Import Chan.Base Chan.ModelWake.
Import ListNotations.

Definition wevent_eqb (a b : wevent) : bool :=
  match a, b with
  | EPoint p, EPoint q => Nat.eqb p q
  | ETick, ETick | EPark, EPark | EOutOfFuel, EOutOfFuel | EBad, EBad => true
  | EWake i, EWake j => Nat.eqb i j
  | _, _ => false
  end.

Definition is_tick (e : wevent) : bool := match e with ETick => true | _ => false end.
Definition is_wake (i : nat) (e : wevent) : bool := match e with EWake j => Nat.eqb i j | _ => false end.

(* a tick body starts somewhere after the event EWake i *)
Fixpoint tick_after_wake (i : nat) (log : list wevent) : bool :=
  match log with
  | [] => false
  | e :: r => if is_wake i e then existsb is_tick r else tick_after_wake i r
  end.

(* C27 on a log: every wake that fired is followed by the start of a tick; every scheduled wake
   fired; the run ends parked (no runaway, nothing unexpected) *)
Definition C27_fail_mask (nwakes : nat) (log : list wevent) : N :=
  let fired i := existsb (is_wake i) log in
  (b2N (negb (forallb (fun i => negb (fired i) || tick_after_wake i log) (seq 0 nwakes))) 4 +
   b2N (negb (forallb fired (seq 0 nwakes))) 8 +
   b2N (negb (match rev log with EPark :: _ => true | _ => false end)) 16)%N.

(* bit 8 (a scheduled wake whose program point was never reached did not fire) is a property
   of the schedule, not of the code: it is compared with the model but is not a violation *)
Definition C27_holds_b (nwakes : nat) (log : list wevent) : bool :=
  N.eqb (N.land (C27_fail_mask nwakes log) 20) 0.

Definition chk27 (wakes : list (nat * nat)) (impl : list wevent) : N :=
  let mo := wsim_run wakes in
  let m := C27_fail_mask (length wakes) impl in
  (b2N (negb (list_eqb wevent_eqb mo impl)) 1 + b2N (negb (C27_holds_b (length wakes) impl)) 2 +
   N.land m 20)%N.
