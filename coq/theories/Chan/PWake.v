(* Engine Chan / WakeState: inductive invariant for ANY number of external wakes landing at any
   point, the "no missed wake-up" invariant, and progress (rank function). *)
From Coq Require Import List Arith Bool NArith Lia.
From HV Require Import Chan.ModelWake.
Import ListNotations.

Definition pc_fast (p : pc) : bool := match p with T1 | T2 | A2 => true | _ => false end.
Definition pc_idle (p : pc) : bool := match p with I2 | Parked => true | _ => false end.
Definition pc_parked (p : pc) : bool := match p with Parked => true | _ => false end.

(* J: an owed tick is announced by the flag, or the runner is already on the straight path
      store/swap -> tick;  K: while the idle load / parking is pending, the waker is registered
      or the task is already woken;  K2: parked with the flag set, a notification exists *)
Definition good (s : wstate) : bool :=
  (negb (owed s) || flag s || pc_fast (w_pc s)) &&
  (negb (pc_idle (w_pc s)) || reg s || woken s) &&
  (negb (pc_parked (w_pc s) && flag s) || woken s || Nat.ltb 0 (mid s)).

Lemma good_init : good winit = true.
Proof. reflexivity. Qed.

Lemma good_step : forall s l s' t, good s = true -> wstep s l = Some (s', t) -> good s' = true.
Proof.
  intros [p f r w m o] l s' t G St.
  destruct l; destruct p, f, r, w, o; cbn in *; try discriminate;
    try (destruct m; cbn in *; try discriminate);
    inversion St; subst; cbn in *; try reflexivity; try discriminate.
Qed.

Lemma wreach_good : forall s, wreach s -> good s = true.
Proof. intros s R. induction R; [apply good_init|eapply good_step; eassumption]. Qed.

(* Inv: a tick is owed => the runner is not (parked and unwoken with no notification pending) *)
Lemma good_not_stuck : forall s, good s = true -> owed s = true -> stuck s = false.
Proof.
  intros [p f r w m o] G O. cbn in O. subst o.
  destruct p, f, r, w; cbn in *; try reflexivity; try discriminate;
    destruct m; cbn in *; try reflexivity; try discriminate.
Qed.

Theorem never_missed : forall s, wreach s -> owed s = true -> stuck s = false.
Proof. intros s R O. apply good_not_stuck; [apply wreach_good; exact R|exact O]. Qed.

(* something can always move, and if it is the notification, the runner can move next *)
Lemma owed_enabled : forall s, good s = true -> owed s = true ->
  runner_enabled s = true \/
  (0 < mid s /\ forall s' t, wstep s WNotify = Some (s', t) -> runner_enabled s' = true).
Proof.
  intros [p f r w m o] G O. cbn in O. subst o.
  destruct p; try (left; reflexivity).
  destruct w; [left; reflexivity|right].
  destruct f, r; cbn in *; try discriminate; destruct m; cbn in *; try discriminate;
    (split; [lia|]); intros s' t H; inversion H; subst; reflexivity.
Qed.

(* ------------------------------------------------------------------ progress *)

Lemma rank_pos : forall s, 1 <= rank s.
Proof. intros [p f r w m o]. destruct p, f, w; cbn; lia. Qed.

Lemma rank_runner : forall s s' t, good s = true -> owed s = true ->
  wstep s Runner = Some (s', t) -> t = true \/ (owed s' = true /\ rank s' < rank s).
Proof.
  intros [p f r w m o] s' t G O St. cbn in O. subst o.
  destruct p, f, r, w; cbn in *; try discriminate; inversion St; subst; cbn;
    try (left; reflexivity); right; (split; [reflexivity|lia]).
Qed.

Lemma rank_ext : forall s l s' t, l <> Runner -> wstep s l = Some (s', t) ->
  t = false /\ rank s' <= rank s /\ (owed s = true -> owed s' = true).
Proof.
  intros [p f r w m o] l s' t NR St. destruct l; [contradiction| |].
  - cbn in St. inversion St; subst. cbn. split; [reflexivity|]. split; [|reflexivity].
    destruct p, f, w; cbn; lia.
  - cbn in St. destruct m; [discriminate|]. destruct r; inversion St; subst; cbn;
      (split; [reflexivity|]); (split; [|auto]); destruct p, f, w; cbn; lia.
Qed.

(* any execution fragment from a state that owes a tick and contains rank(s) <= 7 runner steps
   contains the start of a tick, whatever external steps are interleaved *)
Theorem progress : forall tr s sf t, good s = true -> owed s = true ->
  wrun s tr = Some (sf, t) -> rank s <= count_runner tr -> t = true.
Proof.
  unfold count_runner. induction tr as [|l tr IH]; intros s sf t G O R C.
  - cbn in C. pose proof (rank_pos s). lia.
  - cbn in R. destruct (wstep s l) as [[s1 t1]|] eqn:St; [|discriminate].
    destruct (wrun s1 tr) as [[sf' t2]|] eqn:R2; [|discriminate]. inversion R; subst.
    pose proof (good_step _ _ _ _ G St) as G1.
    destruct l.
    + destruct (rank_runner _ _ _ G O St) as [->|[O1 Lt]]; [reflexivity|].
      cbn in C. rewrite (IH s1 sf t2 G1 O1 R2); [apply orb_true_r|lia].
    + destruct (rank_ext s WStore s1 t1) as [-> [Le Ow]]; [discriminate|exact St|].
      cbn in C. cbn. eapply IH; [exact G1|apply Ow; exact O|exact R2|lia].
    + destruct (rank_ext s WNotify s1 t1) as [-> [Le Ow]]; [discriminate|exact St|].
      cbn in C. cbn. eapply IH; [exact G1|apply Ow; exact O|exact R2|lia].
Qed.

Lemma rank_bound : forall s, good s = true -> owed s = true -> rank s <= 7.
Proof.
  intros [p f r w m o] G O. cbn in O. subst o. destruct p, f, w; cbn in *; try lia; discriminate.
Qed.

(* ------------------------------------------------------------------ the order matters *)

(* With task_waker.wake() BEFORE can_start_tick.store(true) a wake-up is missed: the runner
   parks (7 steps); the external waker notifies (the runner is woken, data has arrived); the
   runner is polled at once: re-registers, reads the flag still false, parks again; only then
   the flag is stored.  Final state: a tick is owed, the runner is parked and not woken, no half
   of any wake is pending -- nothing will ever move again. *)
Definition nf_trace : list wlabel :=
  [Runner; Runner; Runner; Runner; Runner; Runner; Runner; WNotify; Runner; Runner; Runner; WStore].

Lemma wrun_nf_reach : forall tr s sf, wreach_nf s -> wrun_nf s tr = Some sf -> wreach_nf sf.
Proof.
  induction tr as [|l tr IH]; intros s sf R W; cbn in W.
  - inversion W; subst. exact R.
  - destruct (wstep_nf s l) as [[s1 t]|] eqn:St; [|discriminate].
    eapply IH; [eapply wrn_step; eassumption|exact W].
Qed.

Lemma notify_first_refuted :
  exists s, wreach_nf s /\ owed s = true /\ stuck s = true /\ flag s = true /\
            runner_enabled s = false /\ mid s = 0.
Proof.
  destruct (wrun_nf winit nf_trace) as [s|] eqn:E; [|vm_compute in E; discriminate].
  exists s. split; [eapply wrun_nf_reach; [apply wrn_init|exact E]|].
  vm_compute in E. injection E as Es. subst s. cbn. auto.
Qed.
