(* Engine Chan / wake path with the surrounding bookkeeping (ModelWake2.v): "pending input is
   never stranded", enabledness, and the liveness half with an explicit bound (rank function) --
   for any number of producers / wakers, all interleavings.  Invariant: PWake2a.v. *)
From Coq Require Import List Arith Bool NArith Lia.
From HV Require Import Chan.ModelWake2 Chan.PWake2a.
Import ListNotations.

(* ------------------------------------------------------------------ safety half *)

Lemma good2_not_stuck : forall s, good2 s = true -> pending s = true -> stuck2 s = false.
Proof.
  intros [pc f r w pr mi qq sr d o] G P.
  destruct pc; try reflexivity.
  destruct f, r, w, sr, d, o; destruct pr as [|pr], qq as [|qq], mi as [|mi];
    cbn in *; try reflexivity; try discriminate.
Qed.

Theorem never_missed2 : forall s, reach2 s -> pending s = true -> stuck2 s = false.
Proof. intros s R P. apply good2_not_stuck; [apply reach2_good; exact R|exact P]. Qed.

(* pending input: the flag is set / the runner is on the straight path to a tick, or a
   wake_by_ref is in progress whose store is still to come *)
Lemma pending_armed_or_store : forall s, good2 s = true -> pending s = true ->
  armed s = true \/ 0 < pre s.
Proof.
  intros [pc f r w pr mi qq sr d o] G P.
  destruct pr as [|pr]; [left|right; cbn; lia].
  destruct pc, f, r, w, sr, d, o; destruct qq as [|qq], mi as [|mi];
    cbn in *; try reflexivity; try discriminate.
Qed.

(* armed: the runner can move, or the pending notification can and then the runner can *)
Lemma armed_enabled : forall s, good2 s = true -> armed s = true ->
  runner_enabled s = true \/
  (0 < mid s /\ forall s' e, step2 s WNotify = Some (s', e) -> runner_enabled s' = true).
Proof.
  intros [pc f r w pr mi qq sr d o] G A.
  destruct pc; try (left; reflexivity).
  destruct w; [left; reflexivity|right].
  destruct f, r, sr, d, o; destruct pr as [|pr], qq as [|qq], mi as [|mi];
    cbn in *; try discriminate; (split; [lia|]); intros s' e H; inversion H; subst; reflexivity.
Qed.

(* ------------------------------------------------------------------ liveness half *)

Lemma rank2_pos : forall s, 1 <= rank2 s.
Proof. intros [pc f r w pr mi qq sr d o]. destruct pc, f, w; cbn; lia. Qed.

Lemma rank2_bound : forall s, armed s = true -> rank2 s <= 7.
Proof. intros [pc f r w pr mi qq sr d o] A. destruct pc, f, w; cbn in *; try lia; discriminate. Qed.

(* a runner step from an armed state: it is the tick start, consuming everything queued, or the
   state stays armed, keeps its queue, and the rank drops *)
Lemma rank2_runner : forall s l s' e, is_runner l = true -> armed s = true ->
  step2 s l = Some (s', e) ->
  e = ETickStart (q s) \/ (e = ENone /\ armed s' = true /\ q s' = q s /\ rank2 s' < rank2 s).
Proof.
  intros [pc f r w pr mi qq sr d o] l s' e RL A St.
  destruct l; try discriminate RL;
    destruct pc, f, r, w; cbn in *; try discriminate; inversion St; subst; cbn;
    try (left; reflexivity); right; repeat split; try reflexivity; lia.
Qed.

Lemma rank2_ext : forall s l s' e, is_runner l = false -> step2 s l = Some (s', e) ->
  e = ENone /\ rank2 s' <= rank2 s /\ q s <= q s' /\ (armed s = true -> armed s' = true).
Proof.
  intros [pc f r w pr mi qq sr d o] l s' e RL St.
  destruct l; try discriminate RL; cbn in St.
  - destruct sr; inversion St; subst; cbn; repeat split; try lia; auto.
  - inversion St; subst; cbn; repeat split; try lia; auto.
  - destruct pr; [discriminate|]. inversion St; subst; cbn. repeat split; try lia; auto.
    destruct pc, f, w; cbn; lia.
  - destruct mi; [discriminate|]. destruct r; inversion St; subst; cbn; repeat split; try lia; auto;
      destruct pc, f, w; cbn; lia.
Qed.

(* THE BOUND: from an armed state, every execution fragment (any interleaving with producers
   and wakers) that contains rank2 s <= 7 runner steps contains a tick start, and the first one
   consumes at least everything that was queued in s *)
Theorem progress2 : forall tr s sf t n, armed s = true -> n <= q s ->
  run2 s tr = Some (sf, t) -> rank2 s <= count_runner2 tr ->
  exists k, t = Some k /\ n <= k.
Proof.
  unfold count_runner2. induction tr as [|l tr IH]; intros s sf t n A N R C.
  - cbn in C. pose proof (rank2_pos s). lia.
  - cbn in R. destruct (step2 s l) as [[s1 e]|] eqn:St; [|discriminate].
    destruct (run2 s1 tr) as [[sf' t2]|] eqn:R2; [|discriminate]. inversion R; subst; clear R.
    destruct (is_runner l) eqn:RL.
    + destruct (rank2_runner _ _ _ _ RL A St) as [->|[-> [A1 [Q1 Lt]]]].
      * exists (q s). split; [reflexivity|exact N].
      * cbn [filter] in C. rewrite RL in C. cbn in C.
        destruct (IH s1 sf t2 n A1) as [k [E K]]; [lia|exact R2|lia|].
        exists k. split; [exact E|exact K].
    + destruct (rank2_ext _ _ _ _ RL St) as [-> [Le [Q1 A1]]].
      cbn [filter] in C. rewrite RL in C.
      destruct (IH s1 sf t2 n (A1 A)) as [k [E K]]; [lia|exact R2|lia|].
      exists k. split; [exact E|exact K].
Qed.
