"""C02 Merge reports change exactly when the value grows (engine E1)."""
from props.C01 import C01
from tools import vlib


class C02(C01):
    props_vo = "theories/Props/C02.vo"
    theorems = ["C02_changed", "C02_flag"]
    points = False
    pred = "C02_holds_b"
    rule = ("typed triples per registered Rust lattice type (as C01); the flag of merge(a,b) and merge(b,a) is "
            "compared with PartialEq of before/after and with partial_cmp; non-trivial = not (a=b=c) and some flag true")


def main(ctx):
    spec = C02()
    spec.ctx = ctx
    vlib.standard_check(ctx, spec)
