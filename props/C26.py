"""C26 Loop blocks iterate to a fixpoint with correct windowing (engine E7 Dfir)."""
from tools import dfir, vlib


class C26(dfir.DfirSpec):
    tag = "C26"
    props_vo = "theories/Props/C26.vo"
    theorems = ["C26_gate_semantics", "C26_fixpoint", "C26_loop_defer", "C26_selection_rules"]
    modes = ("ticks", "avail")
    level = "proof"
    assumptions = [
        "gate checks, swap lists, exit-handoff declarations, schedule list and the Tick->Loop remap are computed in Coq "
        "(ModelGraph.lower) from the graph record of the real meta_graph(); tools/dfir.py transports the record and "
        "the nesting of blocks only; bit0 includes agreement of the computed delay types with the recorded ones",
        "batch / batch_lazy / all_iterations are identities in the operator layer (their write_fn is the identity); "
        "their windowing behaviour is the entry/exit handoff and gate handling of the tick program",
        "termination is not claimed; model loops take fuel 64 and report exhaustion",
    ]
    rule = ("catalogue loop program (root loop gate, independent root loops, nested countdown to a fixpoint with "
            "per-iteration tap and all_iterations, nested defer_tick_lazy, root-level defer_tick / defer_tick_lazy, "
            "batch_lazy, stateful operator after all_iterations) x random history (1-6 steps, values < 9) x "
            "{run_tick_sync, run_available_sync}; non-trivial = some step has input and some sink recorded output")

    def n_cases(self, tier):
        return 360 if tier == "quick" else 3600

    def to_coq(self, case, res):
        if self.failed(res):
            return 3
        p = dfir.catalogue()[case["prog"]]
        e = "None" if p.expect is None else "(Some (%s))" % p.expect
        return dfir.guard(case["prog"], "c26_chk %s prog_%d %s %s %s %s %s" % (
            "true" if case["mode"] == "avail" else "false", case["prog"], e,
            dfir.g_bools(p.sinks), dfir.g_hist(case["hist"]), dfir.g_outs(res["outs"]),
            "[" + "; ".join(str(x) for x in res["obs"]) + "]"))


def main(ctx):
    dfir.run_plugin(ctx, C26())
