"""C26 Loop blocks iterate to a fixpoint with correct windowing (engine E7 Dfir)."""
from tools import dfir, vlib


class C26(dfir.DfirSpec):
    tag = "C26"
    props_vo = "theories/Props/C26.vo"
    theorems = ["C26_gate_semantics", "C26_fixpoint", "C26_loop_defer"]
    modes = ("ticks", "avail")
    level = "other"
    explanation = "Not category proof: which handoffs enter a loop's check list / swap list (non-lazy entry inputs and loop-delayed back buffers; batch_lazy excluded) is decided by the Python lowering of the real meta graph, not by a Coq function proved against a graph model; the documented release behaviour of batch/batch_lazy/all_iterations is covered by correspondence only. Proved: C26_gate_semantics, C26_fixpoint, C26_loop_defer."
    assumptions = [
        "the loop structure (gate checks, per-loop swaps, exit-handoff declarations, schedule list) is lowered from "
        "the real meta_graph() by tools/dfir.py following emit_loop_gate / as_code_with_options; validated by the cases",
        "batch / batch_lazy / all_iterations are identities in the operator layer (their write_fn is the identity); "
        "their windowing behaviour is the entry/exit handoff and gate handling of the tick program",
        "termination is not claimed; model loops take fuel 64 and report exhaustion",
    ]
    rule = ("catalogue loop program (root loop gate, independent root loops, nested countdown to a fixpoint with "
            "per-iteration tap and all_iterations, nested defer_tick_lazy, root-level defer_tick / defer_tick_lazy, "
            "batch_lazy, stateful operator after all_iterations) x random history (1-6 steps, values < 9) x "
            "{run_tick_sync, run_available_sync}; non-trivial = some step has input and some sink recorded output")

    def n_cases(self, tier):
        return 360 if tier == "quick" else 3600

    def to_coq(self, case, res):
        if self.failed(res):
            return 3
        p = dfir.catalogue()[case["prog"]]
        e = "None" if p.expect is None else "(Some (%s))" % p.expect
        return "c26_chk %s prog_%d %s %s %s %s %s" % (
            "true" if case["mode"] == "avail" else "false", case["prog"], e,
            dfir.g_bools(p.sinks), dfir.g_hist(case["hist"]), dfir.g_outs(res["outs"]),
            "[" + "; ".join(str(x) for x in res["obs"]) + "]")


def main(ctx):
    dfir.run_plugin(ctx, C26())
