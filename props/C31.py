"""C31 Slices partition streams and take monotone snapshots (engine HydroB)."""
from tools import hydrob, vlib

FLOWS = ["c31_batch", "c31_snapshot", "c31_state", "c31_two"]


class C31(vlib.Spec):
    model_vo = ["theories/HydroB/ModelSlice.vo", "theories/HydroB/SimSlice.vo", "theories/HydroB/XLoc.vo",
                "theories/HydroB/ModelRef.vo"]
    props_vo = "theories/Props/C31.vo"
    theorems = ["C31_batches_partition", "C31_production_batches", "C31_model_snapshots_monotone",
                "C31_model_hooks_same_slice", "C31_state_carries", "C31_sim_batches_partition",
                "C31_sim_batches_conserved", "C31_sim_singleton_snapshots_monotone", "C31_sim_keyed_batches_order",
                "C31_sim_snapshots_monotone", "C31_sim_keyed_snapshots_monotone", "C31_sim_hooks_same_tick",
                "C31_sim_slice_columns"]
    crate, group, binary = "h_hydro_b", "hydro", "h_hydro_b"
    imports = ("From Coq Require Import List String NArith.\nFrom HV Require Import Sim.Model HydroB.ModelSlice HydroB.SimSlice HydroB.Model HydroB.GenOps "
               "HydroB.XPartition HydroB.XLoc HydroB.ModelRef.\n"
               "Import ListNotations.\nOpen Scope string_scope.")
    level = "proof"
    explanation = (
        "Coq theorems for ALL arrival/decision scripts, over (1) engine Sim's model of the REAL simulator hooks and "
        "run_hooks: TotalOrder batches ++ queue = input as lists; for every batch hook kind (TotalOrder, NoOrder, keyed) "
        "each element is in exactly one batch or still queued; SingletonHook snapshot versions never decrease; run_hooks "
        "gives every hook of a slice exactly one decide-and-release step per tick and a hook's column is its own "
        "trajectory; (2) the production model (batch = identity) and the state hook (slice i+1 reads what slice i wrote). "
        "Tie: (a) four slice corpus flows through the PRODUCTION embedded builder under random partitions, per-slice "
        "batches/snapshots/state compared exactly; (b) slices of 1-4 hooks of random kinds on the REAL simulator hook "
        "objects under the real run_hooks (harness h_sim, scripted bolero driver) over multi-round random arrival / "
        "decision scripts, compared round by round with Sim.Model.run_hooks, and the executable clauses evaluated on the "
        "implementation's releases; all seven hook kinds (incl. PassthroughSingletonHook with the repaired "
        "re-release and KeyedSingletonHook) are generated. Residual trust: SimBuilder's wiring of hooks into tick "
        "graphs is read from source; flow.sim().exhaustive itself is not executed.")
    trusted_base = ["coqc 8.16.1 kernel (vm_compute for case evaluation only)",
                    "hand-written Gallina model coq/theories/HydroB/ModelSlice.v",
                    "harness/h_hydro_b (production embedded code generation + tick driver), tools/hydrob.py"]
    assumptions = ["one DFIR tick (`run_tick_sync`) = one slice; the driver feeds exactly the tick's items before the tick",
                   "sim hook decision procedures as transcribed from sim/runtime.rs (not executed here)"]
    rule = ("random input of 0..12 items (values < 9) split at random points into 1..7 (thorough: ..12) possibly empty "
            "ticks, for each of 4 slice flows; non-trivial = at least two non-empty ticks or an empty tick between "
            "non-empty ones")

    def n_cases(self, tier):
        return 120 if tier == "quick" else 3000

    def gen(self, rng, tier, n):
        cases = []
        for i in range(n):
            flow = FLOWS[i % len(FLOWS)]
            nt = rng.range(1, 7 if tier == "quick" else 12)
            a = hydrob.random_partition(rng, rng.range(0, 12), nt)
            ticks = [{"a": x} for x in a]
            if flow == "c31_two":
                b = hydrob.random_partition(rng, rng.range(0, 12), nt)
                for t, y in zip(ticks, b):
                    t["b"] = y
            cases.append({"flow": flow, "ticks": ticks})
        # bounded top-level collections of every kind sliced with an unbounded trigger (several
        # ticks): the emitted graph (which kinds `batch` replays) and the per-slice observations
        for f in sorted(hydrob.BOUNDED_SLICES):
            cases.append({"k": "dump", "flow": f})
            for _ in range(3 if tier == "quick" else 30):
                nt = rng.range(2, 6)
                cases.append({"flow": f, "ticks": [{"a": x} for x in hydrob.random_partition(rng, rng.range(0, 8), nt)]})
        # slices on the real simulator hooks (harness h_sim): 1..4 hooks of random kinds
        for _ in range(n // 2):
            kinds = [rng.choice(hydrob.SIM_KINDS) for _ in range(rng.range(1, 4))]
            sim = hydrob.gen_sim_tick(rng, kinds, rng.range(1, 5 if tier == "quick" else 8))
            cases.append({"k": "echo", "sim": sim})
        hydrob.sim_results(self.ctx, cases)
        return cases

    def to_coq(self, case, res):
        if case.get("k") == "dump":
            if "ir" not in res:
                return 1
            try:
                return hydrob.c41_term(res)[0]
            except hydrob.Unsupported:
                return 1
        if case.get("k") == "echo":
            return hydrob.c31_sim_term(case["sim"], hydrob.sim_result(self.ctx, case))
        return hydrob.c31_term(case, res)

    def describe(self, case, res):
        if case.get("k") == "echo":
            return {"case": case, "impl": hydrob.sim_result(self.ctx, case)}
        return {"case": case, "impl": res}

    def shrink(self, case):
        if case.get("k") == "dump":
            return []
        if case.get("k") == "echo":
            sim = case["sim"]
            out = []
            for i in range(len(sim["rounds"]) - 1, 0, -1):
                out.append({"k": "echo", "sim": dict(sim, rounds=sim["rounds"][:i])})
            return out
        return hydrob.shrink_ticks(case)

    def nontrivial(self, case, res):
        if case.get("k") == "dump":
            return True
        if case.get("k") == "echo":
            r = hydrob.sim_result(self.ctx, case).get("rounds", [])
            return sum(1 for x in r if any(x.get("emitted", []))) >= 2
        ne = [i for i, t in enumerate(case["ticks"]) if any(t.values())]
        return len(ne) >= 2

    def distribution(self, cases, results):
        d = {"by_flow": {}, "ticks": {}, "items": {}, "empty_ticks": 0, "sim_cases": 0, "sim_hook_kinds": {},
             "sim_rounds": 0, "sim_decisions": 0}
        for c in cases:
            if c.get("k") == "dump":
                d["dump_cases"] = d.get("dump_cases", 0) + 1
                continue
            if c.get("k") == "echo":
                d["sim_cases"] += 1
                for h in c["sim"]["hooks"]:
                    d["sim_hook_kinds"][h["kind"]] = d["sim_hook_kinds"].get(h["kind"], 0) + 1
                rr = hydrob.sim_result(self.ctx, c).get("rounds", [])
                d["sim_rounds"] += len(rr)
                d["sim_decisions"] += sum(len(x.get("ds_used", [])) for x in rr)
                continue
            d["by_flow"][c["flow"]] = d["by_flow"].get(c["flow"], 0) + 1
            nt = len(c["ticks"])
            d["ticks"][nt] = d["ticks"].get(nt, 0) + 1
            ni = sum(len(t.get("a", [])) for t in c["ticks"])
            d["items"][ni] = d["items"].get(ni, 0) + 1
            d["empty_ticks"] += sum(1 for t in c["ticks"] if not any(t.values()))
        return d


def main(ctx):
    spec = C31()
    spec.ctx = ctx
    vlib.standard_check(ctx, spec)
