"""C31 Slices partition streams and take monotone snapshots (engine HydroB)."""
from tools import hydrob, vlib

FLOWS = ["c31_batch", "c31_snapshot", "c31_state", "c31_two"]


class C31(vlib.Spec):
    model_vo = ["theories/HydroB/ModelSlice.vo"]
    props_vo = "theories/Props/C31.vo"
    theorems = ["C31_batches_partition_partial", "C31_production_batches", "C31_snapshots_monotone_partial",
                "C31_hooks_same_slice_partial", "C31_state_carries"]
    crate, group, binary = "h_hydro_b", "hydro", "h_hydro_b"
    imports = ("From Coq Require Import List NArith.\nFrom HV Require Import HydroB.ModelSlice.\n"
               "Import ListNotations.")
    level = "other"
    explanation = (
        "Coq theorems, each for ALL scripts of arrivals and hook decisions, about a model of the slice hooks: the "
        "batches of a TotalOrder batch hook (sim StreamHook; production = release-everything script) followed by the "
        "queue equal the input as lists; the versions released by a snapshot hook (sim SingletonHook, incl. skipping "
        "and re-release) never decrease; a slice record is the synchronous product of one release per hook; a state "
        "hook reads in slice i+1 what slice i wrote. Tie: four slice corpus flows compiled through the PRODUCTION "
        "embedded builder and driven with `run_tick_sync` on random partitions of random inputs, per-slice "
        "batches/snapshots/state recorded and compared exactly with the production model, plus the executable form "
        "of the four clauses evaluated on the implementation's outputs. NOT done (hence `other`, not `proof`): the "
        "simulator path (`flow.sim().exhaustive`) is not executed by this check -- the sim hook models are proved "
        "about but tied to sim/runtime.rs only by engine Sim (C36-C38); NoOrder and keyed hooks are not modelled here.")
    trusted_base = ["coqc 8.16.1 kernel (vm_compute for case evaluation only)",
                    "hand-written Gallina model coq/theories/HydroB/ModelSlice.v",
                    "harness/h_hydro_b (production embedded code generation + tick driver), tools/hydrob.py"]
    assumptions = ["one DFIR tick (`run_tick_sync`) = one slice; the driver feeds exactly the tick's items before the tick",
                   "sim hook decision procedures as transcribed from sim/runtime.rs (not executed here)"]
    rule = ("random input of 0..12 items (values < 9) split at random points into 1..7 (thorough: ..12) possibly empty "
            "ticks, for each of 4 slice flows; non-trivial = at least two non-empty ticks or an empty tick between "
            "non-empty ones")

    def n_cases(self, tier):
        return 240 if tier == "quick" else 4000

    def gen(self, rng, tier, n):
        cases = []
        for i in range(n):
            flow = FLOWS[i % len(FLOWS)]
            nt = rng.range(1, 7 if tier == "quick" else 12)
            a = hydrob.random_partition(rng, rng.range(0, 12), nt)
            ticks = [{"a": x} for x in a]
            if flow == "c31_two":
                b = hydrob.random_partition(rng, rng.range(0, 12), nt)
                for t, y in zip(ticks, b):
                    t["b"] = y
            cases.append({"flow": flow, "ticks": ticks})
        return cases

    def to_coq(self, case, res):
        return hydrob.c31_term(case, res)

    def shrink(self, case):
        return hydrob.shrink_ticks(case)

    def nontrivial(self, case, res):
        ne = [i for i, t in enumerate(case["ticks"]) if any(t.values())]
        return len(ne) >= 2

    def distribution(self, cases, results):
        d = {"by_flow": {}, "ticks": {}, "items": {}, "empty_ticks": 0}
        for c in cases:
            d["by_flow"][c["flow"]] = d["by_flow"].get(c["flow"], 0) + 1
            nt = len(c["ticks"])
            d["ticks"][nt] = d["ticks"].get(nt, 0) + 1
            ni = sum(len(t.get("a", [])) for t in c["ticks"])
            d["items"][ni] = d["items"].get(ni, 0) + 1
            d["empty_ticks"] += sum(1 for t in c["ticks"] if not any(t.values()))
        return d


def main(ctx):
    spec = C31()
    spec.ctx = ctx
    vlib.standard_check(ctx, spec)
