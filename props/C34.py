"""C34 Atomic acknowledgements imply read-after-write (engine HydroB)."""
from tools import hydrob, vlib


class C34(vlib.Spec):
    model_vo = ["theories/HydroB/ModelAtomic.vo"]
    props_vo = "theories/Props/C34.vo"
    theorems = ["C34_ack_implies_read_after_write", "C34_acks_are_the_writes", "C34_nonatomic_refuted"]
    crate, group, binary = "h_hydro_b", "hydro", "h_hydro_b"
    imports = ("From Coq Require Import List NArith.\nFrom HV Require Import HydroB.ModelSlice HydroB.ModelAtomic.\n"
               "Import ListNotations.")
    level = "other"
    explanation = (
        "Coq theorem on a model of an atomic region (writes batch, state update, end_atomic release and atomic "
        "snapshots of one unified tick; write and read batches chosen by arbitrary hook decisions), for ALL tick "
        "scripts: an acknowledgement observed at step i implies every atomic snapshot of steps j >= i contains the "
        "write; acknowledgements are exactly the writes that entered; a stale (non-atomic) snapshot refutes the "
        "implication. Tie: a keyed-counter flow (tutorial shape: atomic count, end_atomic acks, `use::atomic` reads) "
        "compiled through the PRODUCTION embedded builder and driven on random tick partitions of random write/read "
        "requests; per-tick acks and read responses compared (as multisets) with the model and the executable "
        "read-after-write predicate evaluated on the implementation's outputs. NOT done (hence `other`): the "
        "simulator path is not executed (no exhaustive sim runs), so the model's one-unified-tick reading of "
        "SimBuilder::begin_atomic/end_atomic is validated against production code generation only.")
    trusted_base = ["coqc 8.16.1 kernel (vm_compute for case evaluation only)",
                    "hand-written Gallina model coq/theories/HydroB/ModelAtomic.v",
                    "harness/h_hydro_b (production embedded code generation + tick driver), tools/hydrob.py"]
    assumptions = ["one DFIR tick (`run_tick_sync`) = one tick of the unified atomic tick",
                   "outputs of one tick are compared as multisets (the flow's outputs are unordered)"]
    rule = ("random scripts of 1..7 (thorough ..12) ticks, each with 0..4 write keys and 0..4 read keys from {0..3}; "
            "non-trivial = some read of a key written in the same or an earlier tick")

    def n_cases(self, tier):
        return 240 if tier == "quick" else 4000

    def gen(self, rng, tier, n):
        cases = []
        for _ in range(n):
            nt = rng.range(1, 7 if tier == "quick" else 12)
            ticks = [{"w": [rng.below(4) for _ in range(rng.below(5))],
                      "r": [rng.below(4) for _ in range(rng.below(5))]} for _ in range(nt)]
            cases.append({"flow": "c34_counter", "ticks": ticks})
        return cases

    def to_coq(self, case, res):
        return hydrob.c34_term(case, res)

    def shrink(self, case):
        return hydrob.shrink_ticks(case)

    def nontrivial(self, case, res):
        seen = set()
        for t in case["ticks"]:
            seen |= set(t.get("w", []))
            if any(k in seen for k in t.get("r", [])):
                return True
        return False

    def distribution(self, cases, results):
        d = {"ticks": {}, "writes": 0, "reads": 0, "reads_of_written_key": 0, "reads_same_tick_as_write": 0}
        for c in cases:
            nt = len(c["ticks"])
            d["ticks"][nt] = d["ticks"].get(nt, 0) + 1
            seen = set()
            for t in c["ticks"]:
                d["writes"] += len(t.get("w", []))
                d["reads"] += len(t.get("r", []))
                d["reads_same_tick_as_write"] += sum(1 for k in t.get("r", []) if k in t.get("w", []))
                seen |= set(t.get("w", []))
                d["reads_of_written_key"] += sum(1 for k in t.get("r", []) if k in seen)
        return d


def main(ctx):
    spec = C34()
    spec.ctx = ctx
    vlib.standard_check(ctx, spec)
