"""C34 Atomic acknowledgements imply read-after-write (engine HydroB)."""
from props import sim_e2e
from tools import hydrob, vlib


class C34(vlib.Spec):
    model_vo = ["theories/HydroB/ModelAtomic.vo", "theories/HydroB/SimSlice.vo"]
    props_vo = "theories/Props/C34.vo"
    theorems = ["C34_ack_implies_read_after_write", "C34_sim_ack_implies_read_after_write", "C34_acks_are_the_writes",
                "C34_nonatomic_refuted"]
    crate, group, binary = "h_hydro_b", "hydro", "h_hydro_b"
    imports = ("From Coq Require Import List NArith.\nFrom HV Require Import Sim.Model HydroB.ModelSlice HydroB.ModelAtomic HydroB.SimSlice.\n"
               "Import ListNotations.")
    level = "proof"
    explanation = (
        "Coq theorems, each the full statement on its model and for ALL arrival/decision scripts: (1) over engine "
        "Sim's model of the real simulator (SimTick [write hook; read hook] of any batch hook kinds decided by "
        "run_hooks; atomic snapshot = state after the tick's writes) and (2) over the production model: an "
        "acknowledgement released in tick i is contained in every atomic snapshot read in a tick j >= i; acks are "
        "exactly the writes that entered; a stale (non-atomic) snapshot refutes it. Tie: (a) a keyed-counter flow, an unkeyed sum flow (Singleton state) and a flow whose writes pass through `use::atomic` on the atomic stream + `yield_atomic` inside the region "
        "(atomic count, end_atomic acks, `use::atomic` reads) through the PRODUCTION embedded builder on random tick "
        "partitions, per-tick acks/read responses compared with the model; (b) the atomic tick's hooks on the REAL "
        "simulator hook objects and the real run_hooks (harness h_sim, scripted bolero driver) over multi-round "
        "random arrival/decision scripts, compared with Sim.Model.run_hooks. Residual trust: that SimBuilder wires "
        "begin_atomic as a batch hook, end_atomic as yield_from_tick and an Atomic-input batch as the identity "
        "(read from sim/builder.rs); (c) end to end through flow.sim(): a compiled simulation (harness/h_sim/e2e, "
        "program atomic_keyed: keyed writes with unordered values through .atomic(), acks from end_atomic(), state in a "
        "sliced! region fed by use::atomic, a read released after the ack) explored by the real CompiledSim::exhaustive; "
        "in every explored execution the read observed after an ack must include the acknowledged write.")
    trusted_base = ["coqc 8.16.1 kernel (vm_compute for case evaluation only)",
                    "hand-written Gallina model coq/theories/HydroB/ModelAtomic.v",
                    "harness/h_hydro_b (production embedded code generation + tick driver), tools/hydrob.py"]
    assumptions = ["one DFIR tick (`run_tick_sync`) = one tick of the unified atomic tick",
                   "outputs of one tick are compared as multisets (the flow's outputs are unordered)"]
    rule = ("random scripts of 1..7 (thorough ..12) ticks, each with 0..4 write keys and 0..4 read keys from {0..3}; "
            "non-trivial = some read of a key written in the same or an earlier tick")

    def n_cases(self, tier):
        return 120 if tier == "quick" else 3000

    def gen(self, rng, tier, n):
        cases = []
        for _ in range(n):
            nt = rng.range(1, 7 if tier == "quick" else 12)
            ticks = [{"w": [rng.below(4) for _ in range(rng.below(5))],
                      "r": [rng.below(4) for _ in range(rng.below(5))]} for _ in range(nt)]
            cases.append({"flow": ["c34_counter", "c34_sum", "c34_yield_atomic"][len(cases) % 3], "ticks": ticks})
        # the unified atomic tick on the real simulator hooks: [write hook; read hook]
        for _ in range(n // 2):
            batch_kinds = ["stream_t", "stream_n", "keyed_t", "keyed_n"]
            nw, nr = rng.range(1, 2), rng.range(1, 2)
            kinds = [rng.choice(batch_kinds) for _ in range(nw + nr)]
            sim = hydrob.gen_sim_tick(rng, kinds, rng.range(1, 5 if tier == "quick" else 8), keys=4)
            sim["nw"] = nw
            cases.append({"k": "echo", "sim": sim})
        hydrob.sim_results(self.ctx, cases)
        return cases

    def to_coq(self, case, res):
        if case.get("k") == "echo":
            return hydrob.c34_sim_term(case["sim"], hydrob.sim_result(self.ctx, case))
        if case.get("flow") in ("c34_sum", "c34_yield_atomic"):
            return hydrob.c34_sum_term(case, res)
        return hydrob.c34_term(case, res)

    def describe(self, case, res):
        if case.get("k") == "echo":
            return {"case": case, "impl": hydrob.sim_result(self.ctx, case)}
        return {"case": case, "impl": res}

    def shrink(self, case):
        if case.get("k") == "echo":
            sim = case["sim"]
            return [{"k": "echo", "sim": dict(sim, rounds=sim["rounds"][:i])} for i in range(len(sim["rounds"]) - 1, 0, -1)]
        return hydrob.shrink_ticks(case)

    def nontrivial(self, case, res):
        if case.get("k") == "echo":
            r = hydrob.sim_result(self.ctx, case).get("rounds", [])
            return sum(1 for x in r if x.get("emitted") and x["emitted"][0]) >= 1 and len(r) >= 2
        seen = set()
        for t in case["ticks"]:
            seen |= set(t.get("w", []))
            if any(k in seen for k in t.get("r", [])):
                return True
        return False

    def distribution(self, cases, results):
        d = {"ticks": {}, "writes": 0, "reads": 0, "reads_of_written_key": 0, "reads_same_tick_as_write": 0}
        d["sim_cases"] = sum(1 for c in cases if c.get("k") == "echo")
        for c in cases:
            if c.get("k") == "echo":
                continue
            nt = len(c["ticks"])
            d["ticks"][nt] = d["ticks"].get(nt, 0) + 1
            seen = set()
            for t in c["ticks"]:
                d["writes"] += len(t.get("w", []))
                d["reads"] += len(t.get("r", []))
                d["reads_same_tick_as_write"] += sum(1 for k in t.get("r", []) if k in t.get("w", []))
                seen |= set(t.get("w", []))
                d["reads_of_written_key"] += sum(1 for k in t.get("r", []) if k in seen)
        return d


def main(ctx):
    spec = C34()
    spec.ctx = ctx
    orig = vlib.finish

    def fin(c, level, coverage, assumptions, extra=None):
        # end-to-end phase: the simulator's own graph builder (SimBuilder) on a compiled atomic program
        if not c.replay:
            summary, bad = sim_e2e.run_c34(c)
            coverage.update(summary)
            for case, res, v in bad[:2]:
                path = vlib.write_replay(c, {"property": c.prop, "kind": "e2e read-after-ack violated",
                                             "case": case, "impl": res, "verdict": v})
                c.violations.append((path, "" if v & 2 else "no-failing-input-found"))
        return orig(c, level, coverage, assumptions, extra)

    vlib.finish = fin
    vlib.standard_check(ctx, spec)
