"""C14 Sink adaptors route every item to the right sink, once, in order (engine Push, sinktools part)."""
from tools import push, vlib



class C14(vlib.Spec):
    model_vo = ["theories/Push/SinkRun.vo"]
    props_vo = "theories/Props/C14.vo"
    theorems = ["C14_filter_map", "C14_map", "C14_filter", "C14_flat_map", "C14_flatten",
                "C14_unzip", "C14_lazy", "C14_for_each", "C14_try_for_each", "C14_send_iter",
                "C14_lazy_init_once_partial"]
    level = "proof"
    crate, group, binary = "h_push", "light", "h_push"
    shrink_rounds = 20
    imports = ("From Coq Require Import List NArith.\nImport ListNotations.\n"
               "From HV Require Import Push.SinkModel Push.Run Push.SinkRun.")
    trusted_base = ["coqc 8.16.1 kernel (vm_compute used for case evaluation only)",
                    "hand transcription of sinktools/src/*.rs into coq/theories/Push/SinkModel.v",
                    "harness/h_push/src/sinks.rs (scripted logging futures::Sink downstreams, initializer future, "
                    "driver loop with a no-op waker) + tools/push.py"]
    assumptions = ["model validated against sinktools only on the generated cases (exact call histories)",
                   "downstream scripts are finite Ready/Pending/Err prefixes followed by Ready(Ok) forever",
                   "the driver stops at the first error it sees (sink failed permanently)",
                   "relative order of calls on different downstream sinks is not observed"]
    rule = ("case = adaptor x closure codes x item sequence x (poll_ready, start_send, poll_flush, poll_close) scripts "
            "per downstream sink (Ready/Pending/Err) x initializer (pend count, ok/fail) for lazy sinks x driver fuel; "
            "thorough: every placement of <=3 Pending over reachable script positions (sampled above the cap) plus an "
            "error sweep; non-trivial = at least one item offered and at least one scripted Pending or Err consumed")

    def gen(self, rng, tier, n):
        return push.gen_sink_cases(rng, tier, n)

    def n_cases(self, tier):
        return 840 if tier == "quick" else 24000

    def to_coq(self, case, res):
        return push.sink_term(case, res, "chk14")

    def shrink(self, case):
        return push.shrink_sink(case)

    def nontrivial(self, case, res):
        logs = res.get("logs", [])
        return any(e[0] == "s" for l in logs for e in l) and (
            any(e[0] in "rfc" and e[1] != 0 for l in logs for e in l) or
            any(e[0] == "s" and not e[2] for l in logs for e in l) or
            (case["comb"] == "lazy" and case["init_pends"] > 0))

    def distribution(self, cases, results):
        return push.sink_distribution(cases, results)


def main(ctx):
    spec = C14()
    spec.ctx = ctx
    vlib.standard_check(ctx, spec)
