"""C17 Graph ordering and subgraph-merging algorithms are correct (engine GraphAlg)."""
from tools import graphalg, vlib


class C17(vlib.Spec):
    model_vo = ["theories/GraphAlg/Check.vo"]
    props_vo = "theories/Props/C17.vo"
    theorems = ["C17_topo_sort_ok", "C17_topo_sort_ok_perm", "C17_topo_sort_cycle", "C17_topo_sort_fuel",
                "C17_topo_sort_adj_total", "C17_topo_sort_ok_iff_acyclic",
                "C17_uf_find_terminates", "C17_uf_reachable_inv", "C17_uf_same_set_spec",
                "C17_uf_find_correct", "C17_uf_union_keeps_first_root",
                "C17_sm_new_inv", "C17_sm_new_cycle", "C17_sm_new_total",
                "C17_sm_group_order", "C17_sm_try_merge_exact", "C17_sm_try_merge_cycle_refused",
                "C17_sm_try_merge_true_safe", "C17_sm_try_merge_preserves", "C17_sm_merge_phase_refines",
                "C17_sm_try_merge_false_sound", "C17_sm_try_merge_enemy_refused",
                "C17_sm_try_merge_same_group",
                "C17_is_cycle_b_spec", "C17_topo_order_b_sound", "C17_uf_model_satisfies_property"]
    crate, group, binary = "h_graphalg", "dfir", "h_graphalg"
    imports = "From Coq Require Import List NArith.\nFrom HV Require Import GraphAlg.Model GraphAlg.Check.\nImport ListNotations."
    level = "proof"
    trusted_base = ["coqc 8.16.1 kernel (vm_compute used for case evaluation only)",
                    "hand-written Gallina model coq/theories/GraphAlg/Model.v of graph_algorithms.rs and union_find.rs",
                    "executable property forms and oracles coq/theories/GraphAlg/Check.v",
                    "correspondence harness harness/h_graphalg + tools/graphalg.py"]
    assumptions = ["model validated against dfir_lang only on the generated graphs / merge sequences",
                   "slotmap keys are modelled as N (key order = insertion order, all versions equal)",
                   "HashSet/HashMap iteration order is not observable in these functions (sets modelled as sorted lists)",
                   "SubgraphMerge preconditions: every predecessor is a key, merge arguments are keys, enemy pairs are distinct keys",
                   "path compression inside the window re-sort closure is modelled by the pure root function"]
    rule = ("corpus first; every directed graph on <=3 nodes (quick) / <=3 nodes with self loops and <=4 nodes without "
            "(thorough) as topo_sort case, every DAG among them as SubgraphMerge case with random enemy pairs and random "
            "merge-attempt sequences (<=15, biased to edges); thorough: every 2-step merge sequence on every 3-node DAG with "
            "<=1 enemy pair; random graphs on <=12 nodes (mostly DAGs along a random permutation, some back edges, "
            "self loops, multi-edges, duplicated / unlisted nodes for topo_sort), validate_topo_sort on valid and perturbed "
            "orders, random union/find/same_set sequences; non-trivial = >=2 nodes and an edge (topo/validate), a union of "
            "distinct keys (uf), a merge that joined two groups or was refused or new() returned a cycle (sm)")

    def gen(self, rng, tier, n):
        return graphalg.gen(rng, tier, n)

    def n_cases(self, tier):
        return 500 if tier == "quick" else 6000

    def to_coq(self, case, res):
        return graphalg.term(case, res)

    def shrink(self, case):
        return graphalg.shrink(case)

    def nontrivial(self, case, res):
        return graphalg.nontrivial(case, res)

    def distribution(self, cases, results):
        return graphalg.distribution(cases, results)


EXPLANATION = (
    "Coq 8.16.1 proofs about a branch-by-branch Gallina model + per-run correspondence with dfir_lang. Every statement "
    "of C17 is proved in full on the model (all graphs / parent maps / histories / SMInv states, axiom-free): topo_sort "
    "order, cycle, Ok <=> acyclic, fuel; union-find termination, same_set = equivalence closure, first root survives; "
    "SMInv after new; group-order lemma; total correctness of the window-pruned DFS; try_merge = false <=> distinct "
    "groups and (enemy conflict or cycle through the merged group); true answers are safe; SMInv is preserved by every "
    "merge attempt with no panic and no fuel exhaustion (the successful merge is the refinement theorem "
    "merge_phase_refines_proved). What the proofs do not cover is the tie between the model and the Rust code: that is "
    "the correspondence check of this run (model/implementation agreement + SMInv_b and independent oracles on the "
    "implementation's outputs).")


def main(ctx):
    spec = C17()
    spec.ctx = ctx
    spec.explanation = EXPLANATION
    spec.coverage_extra = {
        "partial_theorems": [t for t in spec.theorems if t.endswith("_partial")],
        "exhaustive_scopes": ("topo_sort: all digraphs on <=3 nodes (quick) / <=4 nodes incl. self loops (thorough); "
                              "SubgraphMerge: every DAG in those scopes with random enemies/merges, thorough: all 2-step "
                              "merge sequences x <=1 enemy pair on all 3-node DAGs; keys are never created in "
                              "topological order on purpose (random key permutation)"),
    }
    vlib.standard_check(ctx, spec)
