"""C17 Graph ordering and subgraph-merging algorithms are correct (engine GraphAlg)."""
from tools import graphalg, vlib


class C17(vlib.Spec):
    model_vo = ["theories/GraphAlg/Check.vo"]
    props_vo = "theories/Props/C17.vo"
    theorems = ["C17_topo_sort_ok", "C17_topo_sort_ok_perm", "C17_topo_sort_cycle", "C17_topo_sort_fuel",
                "C17_topo_sort_adj_total", "C17_topo_sort_ok_iff_acyclic",
                "C17_uf_find_terminates", "C17_uf_reachable_inv", "C17_uf_same_set_spec",
                "C17_uf_find_correct", "C17_uf_union_keeps_first_root",
                "C17_sm_new_inv", "C17_sm_new_cycle", "C17_sm_new_total",
                "C17_sm_group_order", "C17_sm_try_merge_exact", "C17_sm_try_merge_cycle_refused",
                "C17_sm_try_merge_true_safe", "C17_sm_try_merge_preserves_modulo_partial",
                "C17_sm_try_merge_false_sound_partial", "C17_sm_try_merge_enemy_refused_partial",
                "C17_sm_try_merge_same_group_partial",
                "C17_is_cycle_b_spec", "C17_topo_order_b_sound", "C17_uf_model_satisfies_property"]
    crate, group, binary = "h_graphalg", "dfir", "h_graphalg"
    imports = "From Coq Require Import List NArith.\nFrom HV Require Import GraphAlg.Model GraphAlg.Check.\nImport ListNotations."
    # topo_sort and union-find statements are proved in full; the SubgraphMerge try_merge clauses are
    # shipped as _partial (see EXPLANATION), so by DESIGN.md 2.6 the claimed level is "other"
    level = "other"
    trusted_base = ["coqc 8.16.1 kernel (vm_compute used for case evaluation only)",
                    "hand-written Gallina model coq/theories/GraphAlg/Model.v of graph_algorithms.rs and union_find.rs",
                    "executable property forms and oracles coq/theories/GraphAlg/Check.v",
                    "correspondence harness harness/h_graphalg + tools/graphalg.py"]
    assumptions = ["model validated against dfir_lang only on the generated graphs / merge sequences",
                   "slotmap keys are modelled as N (key order = insertion order, all versions equal)",
                   "HashSet/HashMap iteration order is not observable in these functions (sets modelled as sorted lists)",
                   "SubgraphMerge preconditions: every predecessor is a key, merge arguments are keys, enemy pairs are distinct keys",
                   "path compression inside the window re-sort closure is modelled by the pure root function"]
    rule = ("corpus first; every directed graph on <=3 nodes (quick) / <=3 nodes with self loops and <=4 nodes without "
            "(thorough) as topo_sort case, every DAG among them as SubgraphMerge case with random enemy pairs and random "
            "merge-attempt sequences (<=15, biased to edges); thorough: every 2-step merge sequence on every 3-node DAG with "
            "<=1 enemy pair; random graphs on <=12 nodes (mostly DAGs along a random permutation, some back edges, "
            "self loops, multi-edges, duplicated / unlisted nodes for topo_sort), validate_topo_sort on valid and perturbed "
            "orders, random union/find/same_set sequences; non-trivial = >=2 nodes and an edge (topo/validate), a union of "
            "distinct keys (uf), a merge that joined two groups or was refused or new() returned a cycle (sm)")

    def gen(self, rng, tier, n):
        return graphalg.gen(rng, tier, n)

    def n_cases(self, tier):
        return 500 if tier == "quick" else 6000

    def to_coq(self, case, res):
        return graphalg.term(case, res)

    def shrink(self, case):
        return graphalg.shrink(case)

    def nontrivial(self, case, res):
        return graphalg.nontrivial(case, res)

    def distribution(self, cases, results):
        return graphalg.distribution(cases, results)


EXPLANATION = (
    "Coq 8.16.1 proofs about a branch-by-branch Gallina model + per-run correspondence with dfir_lang. "
    "PROVED IN FULL (all graphs / all parent maps / all histories / all SMInv states, axiom-free): topo_sort Ok => "
    "duplicate-free order containing every node with every predecessor strictly earlier (Permutation of the nodes on "
    "closed graphs); Err => non-empty duplicate-free genuine cycle reachable from the nodes; Ok <=> no reachable cycle; "
    "fuel bounds. Union-find: find terminates on every parent map; on every history same_set = equivalence closure of the "
    "unions; compression is invisible; the first argument's root survives union. SubgraphMerge: SMInv holds after new; "
    "new's Err is a genuine cycle; new never panics on closed inputs; group-order lemma (quotient edges go forward in "
    "the group index ranges); the window-pruned DFS is totally correct (terminates within its fuel, never panics, "
    "finds a cycle through the merged group iff one exists); try_merge = false <=> distinct groups and (enemy conflict "
    "or cycle through the merged group) [C17_sm_try_merge_exact, both directions]; refusals and same-group merges "
    "preserve SMInv; a true answer is safe: no enemy conflict, no cycle, and the merged partition keeps an acyclic "
    "quotient and no enemy pair inside a group. "
    "PARTIAL: SMInv preservation / absence of panics for ALL merge attempts is proved modulo one explicitly stated "
    "obligation, merge_phase_refines (the representation refinement of a successful merge: window re-sort, rebuild, "
    "reindex, predecessor/length/enemy map bookkeeping) [C17_sm_try_merge_preserves_modulo_partial]. That obligation "
    "is NOT proved; it is covered only by the correspondence check: on every generated case the real SubgraphMerge is "
    "run, its subgraphs()/find() are compared with the model's, and SMInv_b, the partition bookkeeping and an "
    "independent refusal oracle are evaluated on its outputs (exhaustive on <=4-node digraphs in the thorough tier). "
    "Hence level other, not proof.")


def main(ctx):
    spec = C17()
    spec.ctx = ctx
    spec.explanation = EXPLANATION
    spec.coverage_extra = {
        "partial_theorems": [t for t in spec.theorems if t.endswith("_partial")],
        "unproved_obligation": "GraphAlg/PSmMerge.v: merge_phase_refines",
        "exhaustive_scopes": ("topo_sort: all digraphs on <=3 nodes (quick) / <=4 nodes incl. self loops (thorough); "
                              "SubgraphMerge: every DAG in those scopes with random enemies/merges, thorough: all 2-step "
                              "merge sequences x <=1 enemy pair on all 3-node DAGs; keys are never created in "
                              "topological order on purpose (random key permutation)"),
    }
    vlib.standard_check(ctx, spec)
