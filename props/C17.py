"""C17 Graph ordering and subgraph-merging algorithms are correct (engine GraphAlg)."""
from tools import graphalg, vlib


class C17(vlib.Spec):
    model_vo = ["theories/GraphAlg/Check.vo"]
    props_vo = "theories/Props/C17.vo"
    theorems = ["C17_topo_sort_ok", "C17_topo_sort_ok_perm", "C17_topo_sort_cycle", "C17_topo_sort_fuel",
                "C17_topo_sort_adj_total", "C17_topo_sort_ok_iff_acyclic",
                "C17_uf_find_terminates", "C17_uf_reachable_inv", "C17_uf_same_set_spec",
                "C17_uf_find_correct", "C17_uf_union_keeps_first_root",
                "C17_sm_new_inv", "C17_sm_new_cycle", "C17_sm_new_total",
                "C17_sm_group_order", "C17_sm_try_merge_exact", "C17_sm_try_merge_cycle_refused",
                "C17_sm_try_merge_false_sound_partial", "C17_sm_try_merge_enemy_refused_partial",
                "C17_sm_try_merge_same_group_partial",
                "C17_is_cycle_b_spec", "C17_topo_order_b_sound", "C17_uf_model_satisfies_property"]
    crate, group, binary = "h_graphalg", "dfir", "h_graphalg"
    imports = "From Coq Require Import List NArith.\nFrom HV Require Import GraphAlg.Model GraphAlg.Check.\nImport ListNotations."
    # topo_sort and union-find statements are proved in full; the SubgraphMerge try_merge clauses are
    # shipped as _partial (see EXPLANATION), so by DESIGN.md 2.6 the claimed level is "other"
    level = "other"
    trusted_base = ["coqc 8.16.1 kernel (vm_compute used for case evaluation only)",
                    "hand-written Gallina model coq/theories/GraphAlg/Model.v of graph_algorithms.rs and union_find.rs",
                    "executable property forms and oracles coq/theories/GraphAlg/Check.v",
                    "correspondence harness harness/h_graphalg + tools/graphalg.py"]
    assumptions = ["model validated against dfir_lang only on the generated graphs / merge sequences",
                   "slotmap keys are modelled as N (key order = insertion order, all versions equal)",
                   "HashSet/HashMap iteration order is not observable in these functions (sets modelled as sorted lists)",
                   "SubgraphMerge preconditions: every predecessor is a key, merge arguments are keys, enemy pairs are distinct keys",
                   "path compression inside the window re-sort closure is modelled by the pure root function"]
    rule = ("corpus first; every directed graph on <=3 nodes (quick) / <=3 nodes with self loops and <=4 nodes without "
            "(thorough) as topo_sort case, every DAG among them as SubgraphMerge case with random enemy pairs and random "
            "merge-attempt sequences (<=15, biased to edges); thorough: every 2-step merge sequence on every 3-node DAG with "
            "<=1 enemy pair; random graphs on <=12 nodes (mostly DAGs along a random permutation, some back edges, "
            "self loops, multi-edges, duplicated / unlisted nodes for topo_sort), validate_topo_sort on valid and perturbed "
            "orders, random union/find/same_set sequences; non-trivial = >=2 nodes and an edge (topo/validate), a union of "
            "distinct keys (uf), a merge that joined two groups or was refused or new() returned a cycle (sm)")

    def gen(self, rng, tier, n):
        return graphalg.gen(rng, tier, n)

    def n_cases(self, tier):
        return 500 if tier == "quick" else 6000

    def to_coq(self, case, res):
        return graphalg.term(case, res)

    def shrink(self, case):
        return graphalg.shrink(case)

    def nontrivial(self, case, res):
        return graphalg.nontrivial(case, res)

    def distribution(self, cases, results):
        return graphalg.distribution(cases, results)


EXPLANATION = (
    "Coq 8.16.1 proofs about a branch-by-branch Gallina model + per-run correspondence with dfir_lang. "
    "PROVED IN FULL (all graphs / all parent maps / all histories, axiom-free): topo_sort Ok => duplicate-free order "
    "containing every node with every predecessor strictly earlier (Permutation of the nodes on closed graphs); Err => "
    "non-empty duplicate-free genuine cycle reachable from the nodes; Ok <=> no reachable cycle; fuel bounds (never "
    "out of fuel). Union-find: find terminates on every parent map; on every history same_set = equivalence closure of "
    "the unions; find returns the representative and compression is invisible; the first argument's root survives union. "
    "SubgraphMerge: SMInv (order is a topological permutation of the keys, groups contiguous with representative first, "
    "subgraph_preds = quotient predecessors, quotient acyclic, enemies symmetric over representatives, no enemy pair "
    "inside a group) holds after new; new's Err is a genuine cycle; new never panics on closed inputs. "
    "PARTIAL (names end in _partial): try_merge = false => distinct groups and (enemy conflict or a cycle through the "
    "merged group) and SMInv is preserved; an enemy conflict is always refused; same-group merges are no-ops answering "
    "true. MISSING as theorems: completeness of the window-pruned DFS (would-create-cycle => false) and preservation of "
    "SMInv by a successful merge (window re-sort and idx/len/preds/enemies bookkeeping, absence of panics). These are "
    "covered only by the correspondence check: on every generated case the real SubgraphMerge is run and SMInv_b, the "
    "partition bookkeeping and an independent refusal oracle (enemy pair across the groups, or quotient graph with the "
    "two groups merged is cyclic by source-stripping) are evaluated on its outputs, and outputs are compared with the model.")


def main(ctx):
    spec = C17()
    spec.ctx = ctx
    orig = vlib.finish

    def finish(ctx_, level, coverage, assumptions, extra=None):
        coverage["explanation"] = EXPLANATION
        coverage["partial_theorems"] = [t for t in spec.theorems if t.endswith("_partial")]
        coverage["exhaustive_scopes"] = ("topo_sort: all digraphs on <=3 nodes (quick) / <=4 nodes incl. self loops "
                                         "(thorough); SubgraphMerge: every DAG in those scopes with random enemies/merges, "
                                         "thorough: all 2-step merge sequences x <=1 enemy pair on all 3-node DAGs")
        return orig(ctx_, level, coverage, assumptions, extra)

    vlib.finish = finish
    try:
        vlib.standard_check(ctx, spec)
    finally:
        vlib.finish = orig
