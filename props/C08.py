"""C08 Generalized hash tries behave as sets of tuples (engine E2 Coll)."""
from tools import coll, vlib


class C08(vlib.Spec):
    model_vo = ["theories/Coll/ModelGHT2.vo"]
    props_vo = "theories/Props/C08.vo"
    theorems = ["C08_history", "C08_insert", "C08_contains", "C08_iter_nodup", "C08_merge", "C08_pcmp", "C08_pcmp_rel", "C08_eq",
                "C08_prefix", "C08_find_leaf", "C08_join", "C08_join_nodup", "C08_cart", "C08_force", "C08_holds_b_sound",
                "C08_multiset_insert", "C08_multiset_merge", "C08_multiset_force_drain",
                "C08_colt_get", "C08_colt_history",
                "C08_pcmp_any_children", "C08_eq_any_children", "C08_merge_any_children", "C08_wf_is_weak"]
    crate, group, binary = "h_coll", "light", "h_coll"
    imports = "From HV Require Import Coll.ModelGHT2."
    harness_shards = 4
    trusted_base = ["coqc 8.16.1 kernel (vm_compute used for case evaluation only)",
                    "hand-written Gallina model coq/theories/Coll/ModelGHT.v (+ ModelVC.v for the leaf storage); "
                    "HashMap children are an association list in insertion order",
                    "correspondence harness harness/h_coll + tools/coll.py"]
    assumptions = ["model validated against lattices::ght only on the generated histories",
                   "hash iteration order abstracted: row lists are compared as multisets",
                   "set storage (VariadicHashSetStd) in the leaves; COLT force_drain / ColtGet / `forced` flag not covered (force is)"]
    rule = ("operation histories (1-40 ops) over two tries of one GhtType! shape (6 shapes: 0-3 key columns, "
            "0-2 value columns), tuple domain {0..3}^k: insert, merge_node / Merge::merge of the other trie, contains, "
            "recursive_iter, prefix_iter (every prefix length), find_containing_leaf, partial_cmp, ==, height, is_bot, deep join (DeepJoinLatticeBimorphism) and root cartesian product (GhtCartesianProductBimorphism) of the two tries, COLT force on the root-leaf shape; "
            "every observation compared with the Coq model and with the abstract set of rows; non-trivial = at least "
            "one insert and one other op; distinct = distinct case JSON")

    def coverage_extra(self, cases, results):
        exh = [c for c in cases if c.get("src") == "exh" and c.get("k") == "ght"]
        d = {"exhaustive_pairs_of_tries": len(exh),
             "exhaustive_colt_forests": len([c for c in cases if c.get("src") == "exh" and c.get("k") == "colt"])}
        if exh:
            d["exhaustive_scope"] = ("all pairs of tries over {0,1}^arity: every subset for shapes k1v1/k2v0/k0v2, "
                                     "subsets of size <= 2 for k2v1/k1v2; cmp both ways, ==, is_bot, join, merge + flag")
        return d

    def gen(self, rng, tier, n):
        shapes = vlib.run_harness(self.ctx, self.bin, [{"k": "shapes"}], name="shapes")[0]
        got = {s["shape"]: {"nk": s["nk"], "arity": s["arity"], "nko": s["nko"]} for s in shapes}
        if got != coll.GHT_SHAPES:
            raise RuntimeError("harness shapes differ from tools/coll.py: %r" % got)
        return coll.gen_c08(rng, tier, n)

    def n_cases(self, tier):
        return 400 if tier == "quick" else 6000

    def to_coq(self, case, res):
        return coll.c08_term(case, res)

    def shrink(self, case):
        return coll.shrink_c08(case)

    def finding_key(self, case, res):
        # no open finding for C08: every property failure is reported (the state-based class of a
        # deviation is still computed in Coq, ModelGHT2.cause, and would be matched here)
        if case.get("k") != "ght2":
            return None
        return coll.X_KEYS.get(self.recorder.klass(case))

    def nontrivial(self, case, res):
        return coll.c08_nontrivial(case, res)

    def describe(self, case, res):
        c = dict(case)
        if len(c["ops"]) > 12:
            c = dict(c, ops=c["ops"][:12], ops_truncated_from=len(case["ops"]))
        r = res if "ans" not in res else {"ans": res["ans"][:12]}
        return {"case": c, "impl": r}

    def distribution(self, cases, results):
        return coll.c08_distribution(cases, results)


def main(ctx):
    spec = C08()
    spec.ctx = ctx
    spec.recorder = coll.VerdictRecorder(vlib)
    vlib.standard_check(ctx, spec)
