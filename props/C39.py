"""C39 Quorum collection is batching-independent and fires once per key (engine E10 Proto)."""
import glob
import json
import os

from tools import proto, vlib


class C39(vlib.Spec):
    model_vo = ["theories/Proto/QuorumCheck.vo"]
    props_vo = "theories/Props/C39.vo"
    theorems = ["C39_collect_quorum", "C39_collect_quorum_once", "C39_collect_quorum_reported_iff",
                "C39_errors_passthrough", "C39_with_response", "C39_with_response_min_eq_max_batching_independent",
                "C39_with_response_batching_dependent_refuted", "C39_join_responses"]
    crate, group, binary = "h_quorum", "hydro", "h_quorum"
    imports = "From HV Require Import Proto.QuorumCheck."
    level = "proof"
    trusted_base = ["coqc 8.16.1 kernel (vm_compute used for case evaluation only)",
                    "hand-written per-batch step model of hydro_std/src/quorum.rs and request_response.rs: coq/theories/Proto/QuorumModel.v",
                    "hydro_lang's production embedded code generator + DFIR runtime (the real helpers are compiled through it "
                    "and driven with one run_tick_sync per batch by harness/h_quorum)",
                    "tools/proto.py (generators, printers)"]
    assumptions = ["precondition of the theorems: 1 <= min <= max and at most max responses per key (documented usage); "
                   "beyond it the check only compares model and implementation",
                   "a `sliced!` body is modelled as one step per tick over the tick's batch with the two `state_null` "
                   "variables carried over; validated against the production DFIR code on the generated batchings only",
                   "min/max are staged constants: the instances (1,1),(2,2),(3,3),(1,2),(1,3),(2,3),(2,4) are compiled",
                   "the simulator (`sim().exhaustive`) is not used; batchings are enumerated by the harness itself"]
    rule = ("response sequences over 1-3 keys with <= max responses per key (10% beyond), shuffled; ALL batchings "
            "(compositions) of sequences up to length 5 (7 thorough), 10/26 random batchings above, with occasional empty "
            "ticks; join_responses tick scripts. non-trivial = some key reaches its quorum / some response is joined")

    def gen(self, rng, tier, n):
        cases = []
        for f in sorted(glob.glob(os.path.join(vlib.ROOT, "corpus", "C39", "*.json"))):
            cases.append(proto.with_harness_fields(json.load(open(f))))
        while len(cases) < n:
            cases.append(proto.gen_join(rng, tier) if rng.chance(1, 5) else proto.gen_quorum(rng, tier))
        return cases

    def n_cases(self, tier):
        return 500 if tier == "quick" else 4000

    def to_coq(self, case, res):
        return proto.quorum_term(case, res)

    def shrink(self, case):
        return proto.shrink_quorum(case)

    def finding_key(self, case, res):
        return proto.quorum_finding_key(case, res)

    def nontrivial(self, case, res):
        if case["k"] == "join":
            return any(t["out"] for t in res.get("ticks", []))
        return any(t["ok"] for r in res.get("runs", []) for t in r["ticks"])

    def describe(self, case, res):
        c = {k: v for k, v in case.items() if k not in ("runs",)}
        if "batchings" in c:
            c = dict(c, batchings=c["batchings"][:3], n_batchings=len(case["batchings"]))
        r = dict(res)
        if "runs" in r:
            r["runs"] = r["runs"][:3]
        return {"case": c, "impl": r}

    def distribution(self, cases, results):
        d = {"by_fn": {}, "by_min_max": {}, "batchings_total": 0, "ticks_total": 0, "seq_len": {}, "beyond_max": 0,
             "keys_reaching_quorum": 0, "join_cases": 0, "join_outputs": 0, "all_batchings_enumerated": 0}
        for c, r in zip(cases, results):
            if c["k"] == "join":
                d["join_cases"] += 1
                d["join_outputs"] += sum(len(t["out"]) for t in r.get("ticks", []))
                continue
            d["by_fn"][c["fn"]] = d["by_fn"].get(c["fn"], 0) + 1
            mm = "%d,%d" % (c["mn"], c["mx"])
            d["by_min_max"][mm] = d["by_min_max"].get(mm, 0) + 1
            d["batchings_total"] += len(c["batchings"])
            d["ticks_total"] += sum(len(b) for b in c["batchings"])
            ln = str(len(c["seq"]))
            d["seq_len"][ln] = d["seq_len"].get(ln, 0) + 1
            d["all_batchings_enumerated"] += len(c["batchings"]) == (1 << max(0, len(c["seq"]) - 1))
            cnt = {}
            for k, _, _ in c["seq"]:
                cnt[k] = cnt.get(k, 0) + 1
            d["beyond_max"] += any(v > c["mx"] for v in cnt.values())
            if r.get("runs"):
                d["keys_reaching_quorum"] += len({(x if c["fn"] == "cq" else x[0]) for t in r["runs"][0]["ticks"] for x in t["ok"]})
        return d


def main(ctx):
    spec = C39()
    spec.ctx = ctx
    vlib.standard_check(ctx, spec)
