"""C28 Safe top-level Hydro code is eventually deterministic (engine E8 Hydro)."""
from tools import hydro, vlib


class C28(vlib.Spec):
    model_vo = ["theories/Hydro/ModelFlows.vo"]
    props_vo = "theories/Props/C28.vo"
    theorems = ["C28_partition_independent_modelled_ir", "C28_final_is_denotation_modelled_ir",
                "C28_join_delta_tickinv", "C28_join_half_tickinv", "C28_generator_tickinv",
                "C28_network_o2o_deterministic", "C28_holds_b_correct",
                "C28_translated_terms_wf_check_sound"]
    crate, group, binary = "h_hydro", "hydro", "h_hydro"
    imports = "From HV Require Import Hydro.Model Hydro.ModelTick Hydro.ModelFlows."
    level = "proof"
    fn = "chk28"
    prop = "C28"
    trusted_base = ["coqc 8.16.1 kernel (vm_compute used for case evaluation only)",
                    "hand-written Gallina IR + emitted-semantics model coq/theories/Hydro/Model.v "
                    "(transcribed from HydroNode::emit_core / ProdDfirBuilder and the DFIR operators it emits)",
                    "hand transcription of the corpus flows and their closures (Hydro/ModelFlows.v <-> harness/h_hydro_flows)",
                    "harness/h_hydro (build.rs drives FlowBuilder -> generate_embedded; main.rs drives run_tick_sync) + tools/hydro.py",
                    "rustc enforces the staged API's ordering/boundedness typing (modelled as wf_s / wf_a)"]
    assumptions = ["the theorems quantify over the modelled IR only (see coverage.ir_coverage); networking, "
                   "atomics, futures, scan/generator based operators and cycles at top level are not modelled",
                   "DFIR operator state machines are validated against the real operators only through the corpus runs",
                   "hash iteration order abstracted: unordered / keyed outputs compared as multisets per tick",
                   "top-level singletons are observed through snapshot(..).all_ticks() (identities in production)"]
    rule = ("corpus flow x input: small inputs (<= 4 items quick / <= 5 thorough) under ALL partitions into "
            "<= 3 (4) ticks, large inputs (<= 40 items, <= 12 per side for join/cross flows) under random "
            "partitions into 1..8 ticks incl. empty ticks; + per flow the SAME item arriving in consecutive ticks and with "
            "empty ticks in between (replay / multiset_delta pattern); + one emission-table case per flow; "
            "non-trivial = >= 2 ticks, >= 2 items and some output")

    def flows(self):
        return [f for f, s in hydro.FLOWS.items() if self.prop in s["props"] and not s.get("net")]

    def all_flows(self):
        return self.flows() + hydro.net_flows(self.prop)

    def translate(self):
        """translate the corpus flows from the builder's IR dump (once per run) and make the
        generated definitions available to every Coq case file"""
        if not hasattr(self, "tr"):
            self.tr = hydro.Translated(self.ctx, self.bin, self.all_flows() if hasattr(self, "all_flows") else self.flows())
            self.imports = self.imports + "\nOpen Scope N_scope.\n" + self.tr.defs + "\nClose Scope N_scope.\n"
            for f in self.tr.failed:
                self.ctx.log("IR-TRANSLATION:", f, self.tr.report[f].get("why"))
        return self.tr

    def gen(self, rng, tier, n):
        self.translate()
        fl = self.flows()
        return (hydro.corpus_cases(self.prop) + hydro.emit_cases(fl) + hydro.gen_net_cases(rng, tier, self.prop)
                + hydro.gen_repeat_cases(rng, tier, fl) + hydro.gen_partition_cases(rng, tier, fl))

    def n_cases(self, tier):
        return 0

    def to_coq(self, case, res):
        tr = self.translate()
        flow = case["flow"]
        if hydro.FLOWS.get(flow, {}).get("net"):
            return hydro.net_term(tr, case, res)
        if case.get("k") == "syntax":
            if flow in tr.failed:
                return 1
            t = hydro.emit_term_named(flow, tr.name(flow), res,
                                      extras=tr.report.get(flow, {}).get("shared_extra", ()))
            w = tr.wf_term(flow)
            return t if (w is None or isinstance(t, int)) else "(N.lor %s %s)" % (t, w)
        if hydro.broken(res) or len(res["ticks"]) != len(case["ticks"]):
            return 3
        term = "(%s %s %s %s)" % (self.fn, tr.name(flow), hydro.g_ticks(case), hydro.g_impl(res))
        return tr.wrap(flow, case, term)

    def shrink(self, case):
        return hydro.shrink_ticks(case)

    def nontrivial(self, case, res):
        return hydro.nontrivial_partition(case, res)

    def distribution(self, cases, results):
        return hydro.distribution(cases, results)

    def extra(self):
        cov = hydro.node_coverage()
        return {
            "explanation": ("Coq theorems (Props/C28.v, closed under the global context) prove tick-partition "
                            "independence for EVERY program of a modelled IR (all closures, inputs, partitions) whose "
                            "per-tick semantics is the DFIR fragment HydroNode::emit_core produces; the model is tied "
                            "to the code by running %d corpus flows through the production embedded builder under "
                            "explicit tick partitions and comparing per-tick outputs and the emitted operator table. "
                            "The IR covers %d of %d HydroNode variants, so this is not a proof of the full statement."
                            % (len(self.flows()), cov["modelled"], cov["hydro_node_variants"])),
            "ir_coverage": cov,
            "ir_translation": self.tr.summary() if hasattr(self, "tr") else {},
            "programs": len(self.flows()),
        }


def main(ctx):
    spec = C28()
    spec.ctx = ctx
    hydro.run_standard(ctx, spec, spec.extra)
