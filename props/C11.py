"""C11 Pull combinators match iterator semantics under any pending schedule (engine E4 Pull)."""
import glob
import json
import os

from tools import pull, vlib


class C11(vlib.Spec):
    model_vo = ["theories/Pull/Corr.vo", "theories/Pull/CorrX.vo", "theories/Pull/CorrP.vo"]
    props_vo = "theories/Props/C11.vo"
    theorems = ['C11_map', 'C11_inspect', 'C11_filter', 'C11_filter_map', 'C11_flat_map', 'C11_flatten', 'C11_take_while', 'C11_skip_while', 'C11_take', 'C11_skip', 'C11_enumerate', 'C11_fuse', 'C11_chain', 'C11_zip', 'C11_zip_longest', 'C11_cross_singleton', 'C11_run_deterministic', 'C11_run_fuel_iff', 'C11_source_truthful', 'C11_compose', 'C11_beh_replays', 'C11_compose_fused', 'C11_checker_sound', 'C11_checker_complete', 'C11_compose_hints', 'C11_relay', 'C11_flat_map_stream', 'C11_filter_map_async', 'C11_stream_ready', 'C11_consume', 'C11_collect', 'C11_send', 'C11_send_protocol', 'C11_pipeline_model', 'C11_pipeline_model_any_depth', 'C11_gen_ok_sound', 'C11_adaptors_checker_complete', 'C11_binary_pipeline_model', 'C11_next']
    crate, group, binary = "h_pull", "light", "h_pull"
    imports = "From HV Require Import Pull.Corr Pull.CorrX Pull.CorrP."
    trusted_base = ["coqc 8.16.1 kernel (vm_compute used for case evaluation only)",
                    "hand-written Gallina model coq/theories/Pull/Model.v of dfir_pipes/src/pull/*.rs",
                    "correspondence harness harness/h_pull (scripted Pull source) + tools/pull.py"]
    assumptions = ["model validated against dfir_pipes only on the generated scripts",
                   "upstream size hints are truthful (scripted source reports rem-lo / rem+hi)",
                   "Meta is () and the task Context is a no-op waker: wake-ups are not modelled"]
    rule = ("one combinator over scripted sources (Rdy/Pend/End answers, End in mid-script = non-fused "
            "source); polled until Ended plus 1-4 polls; compared: exact PullStep sequence and size_hint "
            "before every poll; non-trivial = at least one Ready and one Pending or End-marker in the inputs")
    harness_shards = 4

    def corpus(self):
        out = []
        for f in sorted(glob.glob(os.path.join(vlib.ROOT, "corpus", "C11", "*.json"))):
            out.append(json.load(open(f)))
        return out

    def gen(self, rng, tier, n):
        cases = pull.gen_c11(rng, tier, n, self.corpus())
        # the rest of dfir_pipes::pull (stream adaptors, either, consuming futures)
        if tier == "thorough":
            cases += pull.exhaustive_xcases()
        nx = n // 3
        cases += [pull.rand_xcase(rng, pull.XCOMBS[i % len(pull.XCOMBS)]) for i in range(nx)]
        # pipelines: a source under 2-3 unary combinators, against the composed model
        cases += [pull.rand_pipe(rng) for _ in range(n // 3 if tier == "quick" else n)]
        # a binary combinator (zip, chain, zip_longest, cross_singleton) over two pipelines
        cases += [pull.rand_bpipe(rng) for _ in range(n // 4 if tier == "quick" else n)]
        return cases

    def n_cases(self, tier):
        return 960 if tier == "quick" else 4000

    def to_coq(self, case, res):
        if case.get("k") == "c11x":
            return pull.c11x_term(case, res)
        if case.get("k") == "c11p":
            return pull.c11b_term(case, res) if case.get("bin") else pull.c11p_term(case, res)
        return pull.c11_term(case, res)

    def shrink(self, case):
        if case.get("k") == "c11p":
            return pull.shrink_bpipe(case) if case.get("bin") else pull.shrink_pipe(case)
        return pull.shrink_c11(case) if case.get("k") == "c11" else pull.shrink_x(case)

    def nontrivial(self, case, res):
        tr = res.get("trace", []) if isinstance(res, dict) else []
        has_ready = any(isinstance(x[2], list) for x in tr)
        sched = any(x in ("P", "E") for i in case["ins"] for x in i["s"] if isinstance(x, str))
        return has_ready and sched

    def finding_key(self, case, res):
        return None

    def distribution(self, cases, results):
        a = [(c, r) for c, r in zip(cases, results) if c.get("k") == "c11"]
        d = pull.dist_c11([c for c, _ in a], [r for _, r in a])
        d["adaptors_and_futures"] = {}
        for c in cases:
            if c.get("k") == "c11x":
                d["adaptors_and_futures"][c["comb"]] = d["adaptors_and_futures"].get(c["comb"], 0) + 1
        d["pipelines"] = {"count": 0, "depth": {}, "stage": {}}
        for c in cases:
            if c.get("k") == "c11p":
                d["pipelines"]["count"] += 1
                if c.get("bin"):
                    d["pipelines"].setdefault("binary_top", {})
                    d["pipelines"]["binary_top"][c["bin"]] = d["pipelines"]["binary_top"].get(c["bin"], 0) + 1
                k = str(len(c["stages"]) + (1 if c.get("bin") else 0))
                d["pipelines"]["depth"][k] = d["pipelines"]["depth"].get(k, 0) + 1
                for st in c["stages"]:
                    d["pipelines"]["stage"][st["op"]] = d["pipelines"]["stage"].get(st["op"], 0) + 1
        return d


def main(ctx):
    spec = C11()
    spec.ctx = ctx
    vlib.standard_check(ctx, spec)
