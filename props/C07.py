"""C07 Shipped lattice morphisms distribute over merge (engine E1)."""
from tools import lat, morph, vlib



class C07(vlib.Spec):
    model_vo = ["theories/Lattice/Morph.vo", "theories/Lattice/MorphGHT.vo"]
    props_vo = "theories/Props/C07.vo"
    theorems = ["C07_distributes", "C07_respects_eq", "C07_keyed_parametric", "C07_all_shapes",
                "C07_cartesian_is_product", "C07_ght_cartesian", "C07_ght_valtype_product",
                "C07_ght_deep_join_rows_partial", "C07_ght_deep_join", "C07_ght_inputs_wf", "C07_holds_b_sound"]
    crate, group, binary = "h_morph", "light", "h_morph"
    imports = "From HV Require Import Lattice.MorphGHT.\nFrom HV Require Import Lattice.Univ Lattice.Morph."
    trusted_base = ["coqc 8.16.1 kernel (vm_compute used for case evaluation only)",
                    "hand-written Gallina model coq/theories/Lattice/{Model,Univ,Morph}.v",
                    "correspondence harness harness/h_morph + tools/morph.py + tools/lat.py"]
    assumptions = ["model validated against the lattices crate only on the generated (a, da, b, db)",
                   "hash/btree iteration order abstracted by sorting outputs",
                   "tuples of the cartesian product are encoded into N by the Cantor pairing (proved injective) "
                   "on both sides",
                   "GHT bimorphisms on e2-coll's trie model (Coll/ModelGHT.v): GhtCartesianProduct and GhtValTypeProduct "
                   "proved with the crate's ==; DeepJoin/GhtNodeKeyed towers proved with the crate's == for tries "
                   "built by the public API (C07_ght_deep_join, under the no-empty-child invariant PGHT.wf preserved by "
                   "insert/merge)"]
    explanation = ("CartesianProductBimorphism, PairBimorphism and KeyedBimorphism (parametric in any wrapped bimorphism; "
                   "every shape by induction) are proved to distribute "
                   "over merge in each argument on the model; GHT cartesian / value-type product likewise; the GHT deep join "
                   "(node-keyed towers) is proved to distribute with the crate's structural == for inputs built by "
                   "insert/merge (C07_ght_deep_join; the outputs may hold empty children, whose key structure is "
                   "proved to coincide on both sides); KeyedBimorphism is proved a bimorphism for ANY wrapped bimorphism (every nesting "
                   "over Cartesian / Pair); the former finding on KeyedBimorphism<_, PairBimorphism> is fixed in "
                   "/repo (77f6722ffe1) and its witness is a corpus case.")
    rule = ("one case = (bimorphism instance, a, da, b, db) for 22 registered instances of 6 shapes (5 of them with the deltas in singleton / array / vec / option backed representations); da/db random "
            "perturbations of a/b, sprinkled with bottom-valued map entries; plus GHT cases: 6 GhtType! shapes x "
            "{deep join, cartesian product} on row sets over small key domains; non-trivial = a delta changes the output")

    def types(self):
        if not hasattr(self, "_types"):
            self._types = vlib.run_harness(self.ctx, self.bin, [{"k": "types"}], name="types")[0]
        return self._types

    def ght_shapes(self):
        if not hasattr(self, "_gshapes"):
            self._gshapes = vlib.run_harness(self.ctx, self.bin, [{"k": "ght_shapes"}], name="gshapes")[0]
        return self._gshapes

    def gen(self, rng, tier, n):
        cases = morph.gen_cases(rng, self.types(), tier, n)
        return cases + morph.gen_ght_cases(rng, self.ght_shapes(), tier, n // 3)

    def n_cases(self, tier):
        return 680 if tier == "quick" else 6800

    def to_coq(self, case, res):
        return morph.case_term(case, res)

    def shrink(self, case):
        return morph.shrink(case)

    def nontrivial(self, case, res):
        if "ab" not in res:
            return True
        return res["l"] != res["ab"] or res["r"] != res["ab"]

    def distribution(self, cases, results):
        return morph.distribution(cases, results)


def main(ctx):
    spec = C07()
    spec.ctx = ctx
    vlib.standard_check(ctx, spec)
