"""C20 Graph rewrites and meta-graph serialization preserve the dataflow (engine Partition)."""
import os

from tools import partition as P
from tools import vlib


FINDING_SERDE_REFS = "serde/handoff-reference-tokens-lost"


def ids(g):
    return [n["id"] for n in g["nodes"]]


def unary_union_tee(g):
    return sorted(n["id"] for n in g["nodes"]
                  if n["k"] == "op" and n["name"] in ("union", "tee") and n["has_inst"]
                  and len(n["preds"]) == 1 and len(n["succs"]) == 1 and n["preds"][0][1] != n["id"])


class C20(vlib.Spec):
    model_vo = ["theories/Partition/Rewrite.vo"]
    props_vo = "theories/Props/C20.vo"
    theorems = ["C20_remove_intermediate_contracts_partial", "C20_remove_intermediate_spec_partial",
                "C20_eliminate_preserves_wiring", "C20_remove_module_boundary_preserves_wiring",
                "C20_merge_modules_preserves_wiring"]
    crate, group, binary = "h_partition", "dfir", "h_partition"
    imports = ("From Coq Require Import List String NArith.\n"
               "From HV Require Import Partition.Base Partition.Model Partition.Rewrite.\n"
               "Import ListNotations.\nOpen Scope string_scope.")
    level = "other"
    trusted_base = ["coqc 8.16.1 kernel (vm_compute evaluates same_dataflow_b / graph_eqb)",
                    "Partition/Rewrite.v: wiring = (src, src port, dst, dst port); pass-through semantics of removed nodes",
                    "harness/h_partition dumps through DfirGraph's public accessors; serde_json itself is exercised, not modelled"]
    assumptions = ["module boundaries are inserted by the harness with DfirGraph::insert_node/insert_edge (the parser no longer "
                   "creates them: FlatGraphBuilder.module_boundary_nodes is never set in this code base)",
                   "operator arguments are compared as token text"]
    rule = ("generated DFIR programs; per program: random groups of edges routed through fresh ModuleBoundary nodes "
            "(numbered / named / elided ports) -> merge_modules; random remove_intermediate_node calls; "
            "eliminate_extra_unions_tees; partition_graph (handoff insertion); serde_json dump/load + insert_node_op_insts_all "
            "+ as_code/mermaid/surface renderings of the loaded graph; non-trivial = at least one rewrite changed the graph")
    search_budget_s = 60

    def gen(self, rng, tier, n):
        out = []
        for c in P.gen_programs(rng, tier, n, corpus="C20"):
            r = rng.fork()
            groups = []
            for _ in range(r.range(0, 3)):
                groups.append({"edges": [r.below(14) for _ in range(r.range(1, 3))],
                               "named": bool(r.below(2)), "input": bool(r.below(2))})
            rm = [r.range(1, 16) for _ in range(r.range(0, 3))]
            out.append(dict(c, k="rewrite", mb=groups, rm=rm))
        return out

    def n_cases(self, tier):
        return 200 if tier == "quick" else 1500

    def to_coq(self, case, res):
        if not isinstance(res, dict) or "before" not in res:
            if isinstance(res, dict) and ("parse_err" in res or "build_err" in res):
                return 0
            return 3
        pieces = []
        py_bits = 0
        G = P.g_graph
        pan = res.get("rm_panic") or res.get("elim_panic")
        if pan:
            # a rewrite panicked.  Known class: the removed node is a 1-in 1-out node whose only edge is a
            # self loop (the model's remove_mid answers None = "panics" there too).
            g = pan["graph"]
            if "node" in pan:
                victims = [pan["node"]]
            else:
                victims = unary_union_tee(g)
            selfloop = [v for v in victims if any(e["src"] == v and e["dst"] == v for e in g["edges"])]
            terms = ["(match remove_mid (g_edges %s) %d 0 with None => 0 | Some _ => 1 end)" % (G(g), v) for v in selfloop]
            term = "0"
            for t in terms:
                term = "N.lor (%s) (%s)" % (t, term)
            return "N.lor (%s) 2" % term  # no rewrite may panic any more (cf4f5db4389)
        # merge_modules
        mbs = [n["id"] for n in res["with_mb"]["nodes"] if n["k"] == "mb"]
        if res["merge"] == "ok":
            pieces.append("c20_rewrite %s %s %s" % (G(res["with_mb"]), vlib.g_list("%d" % x for x in mbs), G(res["after_mm"])))
            # the sequential model of merge_modules (one remove_module_boundary per boundary, node order)
            pieces.append("c20_mb_model %s %s %s" % (G(res["with_mb"]), vlib.g_list("%d" % x for x in mbs), G(res["after_mm"])))
        else:
            py_bits |= 2  # the harness only builds port-consistent boundaries
        # explicit remove_intermediate_node calls
        prev = res["after_mm"]
        for step in res["rm_log"]:
            pieces.append("c20_rewrite %s [%d] %s" % (G(prev), step["node"], G(step["after"])))
            pieces.append("c20_rm_model %s %d %s" % (G(prev), step["node"], G(step["after"])))
            prev = step["after"]
        # eliminate_extra_unions_tees removes exactly the unary unions and tees
        be, ae = res["before_elim"], res["after_elim"]
        removed = sorted(set(ids(be)) - set(ids(ae)))
        if removed != unary_union_tee(be) or set(ids(ae)) - set(ids(be)):
            py_bits |= 2
        pieces.append("c20_rewrite %s %s %s" % (G(be), vlib.g_list("%d" % x for x in removed), G(ae)))
        # the multi-step model (unary unions first, then unary tees, in node order) predicts the result
        order = [n["id"] for nm in ("union", "tee") for n in be["nodes"]
                 if n["k"] == "op" and n["name"] == nm and n["has_inst"] and len(n["preds"]) == 1 and len(n["succs"]) == 1
                 and n["preds"][0][1] != n["id"]]
        pieces.append("c20_elim_model %s %s %s" % (G(be), vlib.g_list("%d" % x for x in order), G(ae)))
        rt = res["roundtrip"]
        if isinstance(rt, dict) and "orig" in rt:
            orig = rt["orig"]
            new = sorted(set(ids(orig)) - set(ids(ae)))
            if any(n["k"] != "hoff" for n in orig["nodes"] if n["id"] in new) or set(ids(ae)) - set(ids(orig)):
                py_bits |= 2
            pieces.append("c20_rewrite %s %s %s" % (G(orig), vlib.g_list("%d" % x for x in new), G(ae)))
            pieces.append("c20_roundtrip %s %s" % (G(orig), G(rt["loaded"])))
            pieces.append("c20_roundtrip %s %s" % (G(orig), G(rt["bare"])))
            flags = ["json_same", "json_same_after_insts", "mermaid_same", "surface_same", "code_some"]
            if not all(rt.get(f) for f in flags) or rt.get("insts_diags"):
                py_bits |= 2
            if not rt.get("code_same_noloc"):
                # known class only when some operator carries `#var` references (bit 3 marks it)
                has_refs = any(n["refs"] for n in orig["nodes"])
                py_bits |= (2 | 8) if has_refs and not (py_bits & 2) else 2
            # operator text / varnames survive the round trip
            for a, b in zip(orig["nodes"], rt["loaded"]["nodes"]):
                if (a["tokens"], a["pretty"], a["varname"], a["has_inst"], a["color"]) != \
                        (b["tokens"], b["pretty"], b["varname"], b["has_inst"], b["color"]):
                    py_bits |= 2
        elif isinstance(rt, dict) and "load_err" in rt:
            py_bits |= 2
        term = "0"
        for pce in pieces:
            term = "N.lor (%s) (%s)" % (pce, term)
        # bit 4: some Coq-side comparison failed (distinguishes it from plug-in side flags)
        return "(let v := %s in N.lor (N.lor v (if N.eqb v 0 then 0 else 16)) %d)" % (term, py_bits)

    def finding_key(self, case, res):
        v = self.verdicts.get(vlib.case_hash(case))
        return FINDING_SERDE_REFS if v == (2 | 8) else None

    def shrink(self, case):
        out = []
        if case.get("mb"):
            out.append(dict(case, mb=[]))
            out += [dict(case, mb=case["mb"][:i] + case["mb"][i + 1:]) for i in range(len(case["mb"]))]
        if case.get("rm"):
            out.append(dict(case, rm=[]))
        return out + P.shrink_program(case)

    def nontrivial(self, case, res):
        if not (isinstance(res, dict) and "before" in res):
            return False
        if "after_elim" not in res:
            return True
        return bool(res["mb_log"] or res["rm_log"] or len(res["before_elim"]["nodes"]) != len(res["after_elim"]["nodes"])
                    or (isinstance(res["roundtrip"], dict) and "orig" in res["roundtrip"]
                        and len(res["roundtrip"]["orig"]["nodes"]) != len(res["after_elim"]["nodes"])))

    def describe(self, case, res):
        d = {"src": case["src"], "mb": case.get("mb"), "rm": case.get("rm")}
        if isinstance(res, dict) and "before" in res and "after_elim" not in res:
            d["panic"] = (res.get("rm_panic") or res.get("elim_panic") or {}).get("msg")
        elif isinstance(res, dict) and "before" in res:
            d["module_boundaries"] = len(res["mb_log"])
            d["removed_by_eliminate"] = sorted(set(ids(res["before_elim"])) - set(ids(res["after_elim"])))
            rt = res["roundtrip"]
            d["roundtrip"] = {k: rt.get(k) for k in ("json_same", "code_same", "code_same_noloc", "json_len", "json_keys", "part_err", "panic")} \
                if isinstance(rt, dict) else rt
        return d

    def distribution(self, cases, results):
        d = {"programs": 0, "with_module_boundaries": 0, "mb_edges": 0, "explicit_removals": 0,
             "eliminated_nodes": 0, "roundtrips": 0, "partition_rejected_or_panicked": 0, "front_end_rejected": 0}
        keys = set()
        for r in results:
            if not (isinstance(r, dict) and "before" in r):
                d["front_end_rejected"] += 1
                continue
            d["programs"] += 1
            if "after_elim" not in r:
                d["rewrite_panicked"] = d.get("rewrite_panicked", 0) + 1
                continue
            d["with_module_boundaries"] += 1 if r["mb_log"] else 0
            d["mb_edges"] += len(r["mb_log"])
            d["explicit_removals"] += len(r["rm_log"])
            d["eliminated_nodes"] += len(r["before_elim"]["nodes"]) - len(r["after_elim"]["nodes"])
            rt = r["roundtrip"]
            if isinstance(rt, dict) and "orig" in rt:
                d["roundtrips"] += 1
                keys |= set(rt.get("json_keys", []))
            else:
                d["partition_rejected_or_panicked"] += 1
        d["serialized_fields"] = sorted(keys)
        return d


def main(ctx):
    spec = C20()
    spec.ctx = ctx
    orig_finish = vlib.finish

    def finish(ctx_, level, coverage, assumptions, extra=None):
        coverage["explanation"] = (
            "Decided per run on real before/after graphs, not by a general proof: for merge_modules, explicit "
            "remove_intermediate_node calls, eliminate_extra_unions_tees and partition_graph's handoff insertion the Coq "
            "function same_dataflow_b checks that the end-to-end port wiring through the removed/inserted nodes equals the "
            "wiring of the other graph and that surviving nodes (operator, loop, references) are unchanged; the serde_json "
            "round trip (dump, load, insert_node_op_insts_all) is checked with graph_eqb on every serialised field the model "
            "keeps plus byte equality of re-dumped JSON, generated code, mermaid and surface syntax. Proved: a single "
            "remove_intermediate_node step equals contraction of the node (for all edge lists). Not proved: the multi-step "
            "and merge_modules statements; serde is exercised, not modelled. Fields serialised but not in the model: "
            "operator_tag, node_varnames (compared as text by the plug-in), root_loops/loop_children (dumped, compared via JSON equality only).")
        orig_finish(ctx_, level, coverage, assumptions, extra)
    vlib.finish = finish
    spec.verdicts = {}
    orig_evaluate = vlib.evaluate

    def evaluate(ctx_, spec_, binary, cases):
        results, verd = orig_evaluate(ctx_, spec_, binary, cases)
        for c, v in zip(cases, verd):
            spec_.verdicts[vlib.case_hash(c)] = v
        return results, verd
    vlib.evaluate = evaluate
    vlib.standard_check(ctx, spec)
