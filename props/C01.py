"""C01 Lattice merge is associative, commutative and idempotent (engine E1)."""
import os

from tools import lat, vlib


class C01(vlib.Spec):
    model_vo = ["theories/Lattice/Univ.vo"]
    props_vo = "theories/Props/C01.vo"
    theorems = ["C01_laws", "C01_congruence", "C01_dom_needs_total_refuted"]
    crate, group, binary = "h_lattices", "light", "h_lattices"
    imports = "From HV Require Import Lattice.Univ."
    pred = "C01_holds_b"
    trusted_base = ["coqc 8.16.1 kernel (vm_compute used for case evaluation only)",
                    "hand-written Gallina model coq/theories/Lattice/{Model,Univ}.v",
                    "correspondence harness harness/h_lattices + tools/lat.py"]
    assumptions = ["model validated against lattices crate only on the generated triples",
                   "hash/btree iteration order abstracted by sorting"]
    rule = ("typed triples (a,b,c) per registered Rust lattice type; b,c random, equal to, or small "
            "perturbations of a; non-trivial = not (a=b=c) and at least one merge changed or a comparison is None")

    def types(self):
        if not hasattr(self, "_types"):
            self._types = vlib.run_harness(self.ctx, self.bin, [{"k": "types"}], name="types")[0]
        return self._types

    def pick(self, t):
        return True

    def gen(self, rng, tier, n):
        return lat.gen_triples(rng, self.types(), tier, n, self.pick)

    def n_cases(self, tier):
        return 1600 if tier == "quick" else 12000

    def to_coq(self, case, res):
        # DomPair over a key lattice that is not totally ordered is outside C01's statement:
        # such types are still compared with the model (bit 0) but the law predicate is off
        pred = self.pred if lat.key_total(lat.parse_type(case["ty"])) else "Ctrue_b"
        return lat.triple_term(pred, case, res)

    def shrink(self, case):
        return lat.shrink_triple(case)

    def nontrivial(self, case, res):
        if "ab" not in res:
            return True
        return not (case["a"] == case["b"] == case["c"]) and (
            res["ab"][1] or res["ba"][1] or res["cmp_ab"] is None or res["ab_c"][1])

    def distribution(self, cases, results):
        return lat.triple_distribution(cases, results)


def main(ctx):
    spec = C01()
    spec.ctx = ctx
    vlib.standard_check(ctx, spec)
