"""C01 Lattice merge is associative, commutative and idempotent (engine E1)."""
import os

from tools import lat, vlib


class C01(vlib.Spec):
    model_vo = ["theories/Lattice/Univ.vo", "theories/Lattice/Point.vo"]
    props_vo = "theories/Props/C01.vo"
    theorems = ["C01_laws", "C01_congruence", "C01_dom_needs_total_refuted", "C01_point"]
    crate, group, binary = "h_lattices", "light", "h_lattices"
    imports = "From HV Require Import Lattice.Univ Lattice.Point."
    pred = "C01_holds_b"
    trusted_base = ["coqc 8.16.1 kernel (vm_compute used for case evaluation only)",
                    "hand-written Gallina model coq/theories/Lattice/{Model,Univ}.v",
                    "correspondence harness harness/h_lattices + tools/lat.py"]
    assumptions = ["model validated against lattices crate only on the generated triples",
                   "hash/btree iteration order abstracted by sorting"]
    rule = ("typed triples (a,b,c) per registered Rust lattice type; b,c random, equal to, or small "
            "perturbations of a; non-trivial = not (a=b=c) and at least one merge changed or a comparison is None")

    def types(self):
        if not hasattr(self, "_types"):
            self._types = vlib.run_harness(self.ctx, self.bin, [{"k": "types"}], name="types")[0]
        return self._types

    def pick(self, t):
        return True

    points = True  # C01 also covers the point lattice (merge of inequal values panics)

    def gen(self, rng, tier, n):
        cases = lat.gen_triples(rng, self.types(), tier, n, self.pick)
        if self.points:
            for _ in range(40):
                a = rng.below(4)
                b = a if rng.chance(1, 2) else rng.below(4)
                cases.append({"k": "point", "a": a, "b": b, "src": "rnd"})
        return cases

    def n_cases(self, tier):
        return 1600 if tier == "quick" else 12000

    def to_coq(self, case, res):
        if case["k"] == "point":
            if "eq" not in res:
                return 3
            m = res["merge"]
            impl = "None" if m is None else "(Some (%d, %s))" % (m[0], "true" if m[1] else "false")
            ok_cmp = (res["cmp"] == "Eq") if case["a"] == case["b"] else (res["cmp"] is None)
            return "(chk_point %d %d %s)" % (case["a"], case["b"], impl) if ok_cmp else 3
        # DomPair over a key lattice that is not totally ordered is outside C01's statement:
        # such types are still compared with the model (bit 0) but the law predicate is off
        pred = self.pred if lat.key_total(lat.parse_type(case["ty"])) else "Ctrue_b"
        return lat.triple_term(pred, case, res)

    def shrink(self, case):
        if case["k"] != "triple":
            return []
        return lat.shrink_triple(case)

    def nontrivial(self, case, res):
        if case["k"] == "point":
            return case["a"] != case["b"]
        if "ab" not in res:
            return True
        return not (case["a"] == case["b"] == case["c"]) and (
            res["ab"][1] or res["ba"][1] or res["cmp_ab"] is None or res["ab_c"][1])

    def distribution(self, cases, results):
        return lat.triple_distribution(cases, results)


def main(ctx):
    spec = C01()
    spec.ctx = ctx
    vlib.standard_check(ctx, spec)
