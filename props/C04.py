"""C04 Each lattice type implements its mathematical model (engine E1).

Two case streams: typed triples (the implementation's merge(a,b) must be the join of a and b
in the documented order, decided by `C04_join_b`, proved sound in Props/C04.v) and
heterogeneous pairs (Merge<Other>/PartialOrd<Other>/PartialEq<Other>/LatticeFrom<Other>/IsBot
across representations must agree with the homogeneous operations after conversion)."""
from props.C01 import C01
from tools import lat, vlib


class HetMixin:
    """adds the cross-representation stream to a triple-based lattice check"""

    def het_types(self):
        if not hasattr(self, "_het"):
            self._het = vlib.run_harness(self.ctx, self.bin, [{"k": "het_types"}], name="hettypes")[0]
        return self._het

    def gen(self, rng, tier, n):
        cases = lat.gen_triples(rng, self.types(), tier, n // 2, self.pick)
        return cases + lat.gen_het(rng, self.het_types(), n // 2)

    def shrink(self, case):
        if case["k"] == "triple":
            return lat.shrink_triple(case)
        return lat.shrink_het(case)

    def nontrivial(self, case, res):
        if "ab" not in res:
            return True
        if case["k"] == "triple":
            return C01.nontrivial(self, case, res)
        return case["a"] != case["b"] and (res["ab"][1] or res["cmp_ab"] != "Eq")

    def distribution(self, cases, results):
        tri = [(c, r) for c, r in zip(cases, results) if c["k"] == "triple"]
        d = lat.triple_distribution([c for c, _ in tri], [r for _, r in tri])
        het, hcmp = {}, {}
        for c, r in zip(cases, results):
            if c["k"] == "het":
                het[c["ty"]] = het.get(c["ty"], 0) + 1
                k = str(r.get("cmp_ab"))
                hcmp[k] = hcmp.get(k, 0) + 1
        d["het_per_pair"] = het
        d["het_cmp_ab"] = hcmp
        return d


class C04(HetMixin, C01):
    points = False
    model_vo = ["theories/Lattice/Het.vo"]
    props_vo = "theories/Props/C04.vo"
    theorems = ["C04_merge_is_join", "C04_join_test_sound", "C04_set", "C04_map", "C04_max_min", "C04_conflict",
                "C04_withbot_withtop", "C04_pair_dom", "C04_vec"]
    imports = "From HV Require Import Lattice.Het."
    rule = ("typed triples per registered Rust lattice type (join test on the implementation's merge result) and "
            "cross-representation pairs (self <- other) per registered pair of Rust types; non-trivial = a and b "
            "differ and the merge changed the receiver or the comparison is not Eq")
    assumptions = C01.assumptions + [
        "union-find (lattices/src/union_find.rs) is covered by Props/C04uf.v once its engine is merged",
        "representations share one carrier in the model; LatticeFrom is the identity there"]

    def to_coq(self, case, res):
        if case["k"] == "het":
            return lat.het_term(case, res)
        if "ab" not in res or not res.get("owned_ok", True):
            return 3
        t = lat.parse_type(case["ty"])
        if not lat.key_total(t):
            return lat.triple_term("Ctrue_b", case, res)
        return "(chk_join %s %s %s %s %s)" % (lat.coq_ty(t), lat.coq_val(t, case["a"]), lat.coq_val(t, case["b"]),
                                              lat.coq_val(t, case["c"]), lat.coq_obs(t, res))


def main(ctx):
    spec = C04()
    spec.ctx = ctx
    vlib.standard_check(ctx, spec)
