"""C04 Each lattice type implements its mathematical model (engine E1).

Two case streams: typed triples (the implementation's merge(a,b) must be the join of a and b
in the documented order, decided by `C04_join_b`, proved sound in Props/C04.v) and
heterogeneous pairs (Merge<Other>/PartialOrd<Other>/PartialEq<Other>/LatticeFrom<Other>/IsBot
across representations must agree with the homogeneous operations after conversion)."""
from props.C01 import C01
from tools import lat, vlib


class HetMixin:
    """adds the cross-representation stream to a triple-based lattice check"""

    def het_types(self):
        if not hasattr(self, "_het"):
            self._het = vlib.run_harness(self.ctx, self.bin, [{"k": "het_types"}], name="hettypes")[0]
        return self._het

    def gen(self, rng, tier, n):
        cases = lat.gen_triples(rng, self.types(), tier, n // 2, self.pick)
        return cases + lat.gen_het(rng, self.het_types(), n // 2)

    def shrink(self, case):
        if case["k"] == "triple":
            return lat.shrink_triple(case)
        return lat.shrink_het(case)

    def nontrivial(self, case, res):
        if "ab" not in res:
            return True
        if case["k"] == "triple":
            return C01.nontrivial(self, case, res)
        return case["a"] != case["b"] and (res["ab"][1] or res["cmp_ab"] != "Eq")

    def distribution(self, cases, results):
        tri = [(c, r) for c, r in zip(cases, results) if c["k"] == "triple"]
        d = lat.triple_distribution([c for c, _ in tri], [r for _, r in tri])
        het, hcmp = {}, {}
        for c, r in zip(cases, results):
            if c["k"] == "het":
                het[c["ty"]] = het.get(c["ty"], 0) + 1
                k = str(r.get("cmp_ab"))
                hcmp[k] = hcmp.get(k, 0) + 1
        d["het_per_pair"] = het
        d["het_cmp_ab"] = hcmp
        return d


class C04(HetMixin, C01):
    points = False
    model_vo = ["theories/Lattice/Het.vo"]
    props_vo = "theories/Props/C04.vo"
    theorems = ["C04_merge_is_join", "C04_join_test_sound", "C04_set", "C04_map", "C04_max_min", "C04_conflict",
                "C04_withbot_withtop", "C04_pair_dom", "C04_vec"]
    imports = "From HV Require Import Lattice.Het."
    rule = ("typed triples per registered Rust lattice type (join test on the implementation's merge result) and "
            "cross-representation pairs (self <- other) per registered pair of Rust types; non-trivial = a and b "
            "differ and the merge changed the receiver or the comparison is not Eq")
    assumptions = C01.assumptions + [
        "union-find (lattices/src/union_find.rs) is covered by Props/C04uf.v once its engine is merged",
        "representations share one carrier in the model; LatticeFrom is the identity there"]

    def to_coq(self, case, res):
        if case["k"] == "het":
            return lat.het_term(case, res)
        if "ab" not in res or not res.get("owned_ok", True):
            return 3
        t = lat.parse_type(case["ty"])
        if not lat.key_total(t):
            return lat.triple_term("Ctrue_b", case, res)
        return "(chk_join %s %s %s %s %s)" % (lat.coq_ty(t), lat.coq_val(t, case["a"]), lat.coq_val(t, case["b"]),
                                              lat.coq_val(t, case["c"]), lat.coq_obs(t, res))


class C04UF(vlib.Spec):
    """the union-find part (lattices/src/union_find.rs): engine files Lattice/{UF,PUF}.v,
    harness h_uf, generator tools/uf.py"""
    from tools import uf as _uf
    model_vo = _uf.MODEL_VO
    props_vo = _uf.PROPS_VO
    theorems = _uf.THEOREMS
    crate, group, binary = _uf.CRATE, _uf.GROUP, _uf.BINARY
    imports = _uf.IMPORTS
    harness_env = _uf.HARNESS_ENV
    trusted_base = C01.trusted_base + ["Gallina model Lattice/UF.v (find is fuelled), harness h_uf, tools/uf.py"]
    assumptions = ["union-find: parent maps reachable from Default by unions/merges (forest); a rho-shaped map makes "
                   "the real find loop forever (documented precondition, C04_uf_find_rho_diverges_refuted)"]
    rule = ("union-find: histories of union / same / merge / compare ops on hash, btree and vec backed maps, answers "
            "compared with the model and with an independent equivalence-closure oracle")

    def n_cases(self, tier):
        return 500 if tier == "quick" else 4000

    def gen(self, rng, tier, n):
        return self._uf.gen_cases(rng, tier, n)

    def to_coq(self, case, res):
        return self._uf.to_coq(case, res)

    def shrink(self, case):
        return self._uf.shrink(case)

    def nontrivial(self, case, res):
        return self._uf.nontrivial(case, res)

    def describe(self, case, res):
        return self._uf.describe(case, res)

    def coverage_extra(self, cases, results):
        return {"uf_distribution": self._uf.distribution(cases, results)}


def main(ctx):
    # part 1: union-find (own harness and model); its coverage is carried into part 2
    ctx.defer = True
    vlib.standard_check(ctx, C04UF())
    ctx.defer = False
    spec = C04()
    spec.ctx = ctx
    vlib.standard_check(ctx, spec)
