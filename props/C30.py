"""C30 Tick-scoped collections behave like finite batches (engine E8 Hydro)."""
from props.C28 import C28
from tools import hydro, vlib


class C30(C28):
    props_vo = "theories/Props/C30.vo"
    theorems = ["C30_batch_functions_modelled_ir", "C30_tick_state_does_not_leak",
                "C30_defer_one_tick_later", "C30_cycle_carry",
                "C30_across_ticks_stream_modelled_ir", "C30_across_ticks_aggregate_modelled_ir"]
    imports = "From HV Require Import Hydro.Model Hydro.ModelTick Hydro.ModelFlows."
    fn = "chk30"
    prop = "C30"
    rule = ("tick corpus flow x history of batches: small inputs (<= 4/5 items) cut into batches in ALL ways over "
            "<= 3 (4) ticks, large inputs (<= 40 items, <= 12 per side for join/cross) cut randomly over 1..8 ticks "
            "incl. empty ticks; the implementation's per-tick outputs are compared with the emitted 'tick state "
            "machines (bit0) and with the per-batch list functions / one-tick shift (bit1); + one emission-table "
            "case per flow; non-trivial = >= 2 ticks, >= 2 items and some output")
    assumptions = ["the theorems quantify over the modelled tick IR only (see coverage.ir_coverage); the body of across_ticks is a "
                   "program of the top-level IR; other atomic regions and keyed generators are not modelled",
                   "a tick cycle is modelled by the iteration loop_run (correspondence on the t_cycle flow)",
                   "hash iteration order abstracted: keyed outputs compared as multisets per tick",
                   "ticks are driven explicitly with run_tick_sync; batch() is an identity in production"]

    def to_coq(self, case, res):
        if case["flow"] == "t_cycle":
            if case.get("k") == "syntax":
                if not isinstance(res, dict) or "syntax" not in res:
                    return 1
                return "(chk_toks t_cycle_emit [%s])" % "; ".join(
                    vlib.g_string(t) + "%string" for t in hydro.op_tokens(res["syntax"]))
            if hydro.broken(res) or len(res["ticks"]) != len(case["ticks"]):
                return 3
            return "(chk30_loop t_cycle_body %s %s)" % (hydro.g_ticks(case), hydro.g_impl(res))
        tr = self.translate()
        flow = case["flow"]
        if case.get("k") == "syntax":
            if flow.startswith("x_"):
                return 1 if flow in tr.failed else hydro.emit_term_named(flow, tr.name(flow), res)
            return 1 if flow in tr.failed else hydro.emit_term_named(flow, tr.name(flow), res, fn="chk_bemit")
        if hydro.broken(res) or len(res["ticks"]) != len(case["ticks"]):
            return 3
        fn = "chk30_across" if flow.startswith("x_") else self.fn
        term = "(%s %s %s %s)" % (fn, tr.name(flow), hydro.g_ticks(case), hydro.g_impl(res))
        return tr.wrap(flow, case, term)

    def extra(self):
        e = super().extra()
        e["explanation"] = ("Coq theorems (Props/C30.v): for every program of the modelled tick IR and every history of "
                            "batches the emitted 'tick DFIR state machines compute exactly the per-batch list functions "
                            "(fold/reduce/count/max/min/first/last/limit/sort/enumerate/unique/chain/join/cross/anti_join/or/reduce_watermark/"
                            "cross_singleton/keyed folds), 'tick state never leaks, defer_tick is a shift by exactly one tick, "
                            "a tick cycle reads exactly what the previous tick completed. Tied to the code by running %d tick "
                            "flows through the production embedded builder on explicit batch histories. Modelled subset: %d of "
                            "%d HydroNode variants." % (len(self.flows()), e["ir_coverage"]["modelled"],
                                                        e["ir_coverage"]["hydro_node_variants"]))
        return e


def main(ctx):
    spec = C30()
    spec.ctx = ctx
    hydro.run_standard(ctx, spec, spec.extra)
