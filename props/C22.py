"""C22 Results do not depend on pull/push placement or subgraph shape (engine E7 Dfir)."""
import json
import os
import re

from tools import dfir, vlib



class C22(dfir.DfirSpec):
    tag = "C22"
    props_vo = "theories/Props/C22.vo"
    theorems = ["C22_perturbation_operators", "C22_identity_insert", "C22_pull_push", "C22_realisation_is_model", "C22_partition_shape", "C22_gadgets", "C22_splice_preserves", "C22_rename_preserves_run", "C22_cycles_preserved", "C22_compile_agreement", "C22_reduce_no_replay_pull_push"]
    modes = ("ticks", "avail")
    level = "proof"
    assumptions = [
        "the operator models do not distinguish the pull and push realisations of a write_fn; equality of the two "
        "realisations and of different partitions is tested (variant against variant, and each variant against the "
        "model interpreting its real partition), not proved",
        "perturbation grammar: identity chains, tee()+null() in front of every input (operator pushed / handoff in "
        "front of pull-only operators), union()+null() behind the output (operator pulled), tee then union in "
        "front (forced handoff), identity-tee-union behind the output (output crosses a handoff)",
        "compile/fail agreement: theorem on engine E6's partitioner model for loop-free, reference-free flat graphs "
        "(C22_compile_agreement via C19); observed on every run: every variant of every group is in the compiled "
        "harness (bit 0 otherwise) and the formerly rejected variant is a regression probe",
    ]
    rule = ("group of 6 shape variants of one operator x persistence program (32 operators) x one random history, run "
            "under run_tick_sync or run_available_sync; non-trivial = some tick has input and some sink recorded output")

    def n_cases(self, tier):
        return 320 if tier == "quick" else 3200

    def gen(self, rng, tier, n):
        if not hasattr(self, "low"):
            self.prepare()
        groups = dfir.c22_groups()
        cases = []
        for c in self.corpus():
            if "group" in c and c["group"] in groups:
                c = dict(c)
                c["progs"] = groups[c["group"]]
                cases.append(c)
        per = max(1, n // len(groups))
        for g in sorted(groups):
            ids = groups[g]
            p = dfir.catalogue()[ids[0]]
            for j in range(per):
                cases.append({"progs": ids, "group": g, "mode": self.modes[j % 2],
                              "hist": dfir.gen_hist(rng, p.srcs, tier)})
        return cases

    def failed(self, res):
        if "runs" not in res:
            return True
        return any(dfir.DfirSpec.failed(self, r) for r in res["runs"])

    def nontrivial(self, case, res):
        if self.failed(res):
            return True
        return any(items for step in case["hist"] for items in step) and any(res["runs"][0]["outs"])

    def describe(self, case, res):
        return {"group": case["group"], "variants": [dfir.catalogue()[i].name for i in case["progs"]],
                "case": case, "impl": res}

    def compiled(self):
        """compile/fail agreement, observed: the base and every gadget-spliced variant of every group
        were accepted by the real partitioner and rustc -- they are all in the built harness binary"""
        if not hasattr(self, "_compiled"):
            r = vlib.run_harness(self.ctx, self.bin, [{"k": "list"}], name="list")[0]
            self._compiled = set(r.get("progs", []))
        return self._compiled

    def to_coq(self, case, res):
        if any(dfir.catalogue()[i].name not in self.compiled() for i in case["progs"]):
            return 1
        if self.failed(res):
            return 3
        p = dfir.catalogue()[case["progs"][0]]
        runs = "[" + "; ".join("(prog_%d, (%s, [%s]))" % (i, dfir.g_outs(r["outs"]), "; ".join(str(x) for x in r["obs"]))
                               for i, r in zip(case["progs"], res["runs"])) + "]"
        ok = " && ".join("delays_agree graph_%d" % i for i in case["progs"])
        return "vand (%s) (c22_chk %s %s %s %s)" % (ok, "true" if case["mode"] == "avail" else "false",
                                                    dfir.g_bools(p.sinks), dfir.g_hist(case["hist"]), runs)

    def distribution(self, cases, results):
        d = {"groups": {}, "modes": {}, "ticks": {}, "variants_per_group": {}, "impl_failures": 0,
             "subgraphs_per_variant": {}, "handoffs_per_variant": {}}
        for c, r in zip(cases, results):
            d["groups"][c["group"]] = d["groups"].get(c["group"], 0) + 1
            d["modes"][c["mode"]] = d["modes"].get(c["mode"], 0) + 1
            k = str(len(c["hist"]))
            d["ticks"][k] = d["ticks"].get(k, 0) + 1
            k = str(len(c["progs"]))
            d["variants_per_group"][k] = d["variants_per_group"].get(k, 0) + 1
            if self.failed(r):
                d["impl_failures"] += 1
        for i, lo in getattr(self, "low", {}).items():
            k = str(lo.n_subgraphs)
            d["subgraphs_per_variant"][k] = d["subgraphs_per_variant"].get(k, 0) + 1
            k = str(lo.n_handoffs)
            d["handoffs_per_variant"][k] = d["handoffs_per_variant"].get(k, 0) + 1
        return d

    def shrink(self, case):
        for c in dfir.shrink_hist(case):
            yield c
        if len(case["progs"]) > 2:
            for j in range(1, len(case["progs"])):
                c = dict(case)
                c["progs"] = case["progs"][:j] + case["progs"][j + 1:]
                yield c


def compile_probes(ctx):
    """variants of compiling programs that rustc rejects: a compile/fail disagreement between
    placements is a violation of the property unless it is a recorded finding"""
    for (name, variant), binname in sorted(dfir.C22_PROBES.items()):
        cdir = os.path.join(vlib.ROOT, "harness", "h_dfir")
        rc, out = vlib.run(["cargo", "build", "--offline", "--features", "probe", "--bin", binname],
                           cwd=cdir, env=vlib.cargo_env("dfir"), timeout=1500)
        if rc == 0:
            ctx.log("probe %s compiles" % binname)
            ctx.notes.append("probe %s compiles" % binname)
            continue
        if True:
            path = vlib.write_replay(ctx, {"property": ctx.prop, "kind": "variant-does-not-compile",
                                           "base": "v_%s__base (compiles, in the catalogue)" % name,
                                           "variant": variant, "probe": binname,
                                           "replay_cmd": "cd harness/h_dfir && cargo build --offline --features probe --bin " + binname,
                                           "rustc": out[-3000:]})
            ctx.violations.append((path, ""))


def main(ctx):
    spec = C22()
    changed = dfir.regenerate()
    if changed:
        ctx.log("generated harness sources differed from the committed files, rewritten:", changed)
    if not ctx.replay:
        compile_probes(ctx)
    spec.ctx = ctx
    vlib.standard_check(ctx, spec)
