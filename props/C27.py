"""C27 A running dataflow never misses an external wake-up (engine Chan/Wake)."""
from tools import chan, vlib


class C27(vlib.Spec):
    model_vo = ["theories/Chan/ModelWakeChk.vo", "theories/Chan/ModelWake2Chk.vo"]  # definitions only
    props_vo = "theories/Props/C27.vo"
    theorems = ["C27_never_missed", "C27_owed_enabled", "C27_progress", "C27_notify_first_refuted",
                "C27_pending_never_stuck", "C27_pending_armed_or_store", "C27_armed_enabled",
                "C27_liveness_bound"]
    crate, group, binary = "h_chan", "dfir", "h_chan"
    imports = ("From Coq Require Import List NArith.\nImport ListNotations.\n"
               "From HV Require Import Chan.Base Chan.ModelWake Chan.ModelWakeChk.\n"
               "From HV Require Chan.ModelWake2 Chan.ModelWake2Chk.")
    level = "proof"
    trusted_base = ["coqc 8.16.1 kernel (vm_compute used for case evaluation only)",
                    "hand-written Gallina transition systems coq/theories/Chan/ModelWake.v and ModelWake2.v (with the external "
                    "event queue, source waker registration and defer_tick self-wake) of WakeState / Dfir::run / "
                    "run_available / run_tick (dfir_rs/src/scheduled/context.rs)",
                    "correspondence harness harness/h_chan (manual executor, cfg(hydro_verif) verif_point hook) + tools/chan.py"]
    assumptions = ["PARTIAL: every step is sequentially consistent; the code uses Ordering::Relaxed and reorderings "
                   "between the flag and AtomicWaker's own state on weakly ordered hardware are not modelled",
                   "AtomicWaker::register / wake are atomic steps (its internal REGISTERING/WAKING protocol is trusted)",
                   "tokio is not modelled: the executor is 'a task whose waker fired is polled again'; yield_now is "
                   "executed outside a runtime (wakes immediately); the tick body does not suspend",
                   "the harness is single-threaded: the only interleaving of the runner with the inside of wake_by_ref "
                   "that it produces on the real code is the inline executor's poll inside task_waker.wake(); other "
                   "separations of store and notify are covered by the model only"]
    rule = ("schedules firing the external waker the k-th time (k<3) the runner reaches one of 10 program points "
            "(the 9 hook points between the atomic operations + executor idle): all 30 single placements, all "
            "unordered pairs (k<2: 210 quick; k<3: 465 thorough), random 3-5 wake schedules; for the wider model: producer pushes into a real tokio channel "
            "polled by the tick body (as source_stream does) / raw wakes at 11 points x 2 occurrences, ticks that "
            "call schedule_subgraph(true) (defer_tick), random 2-5 action schedules; each also with an executor whose task waker polls the runner inline "
            "inside wake() (then at least one wake fires while the executor is idle); non-trivial = at least one wake fired and at least 2 ticks "
            "ran; distinct by case hash")

    def gen(self, rng, tier, n):
        return chan.gen_wake(rng, tier, n) + chan.gen_wake2(rng, tier, n)

    def n_cases(self, tier):
        return 150

    def to_coq(self, case, res):
        return chan.wake2_term(case, res) if case["k"] == "wake2" else chan.wake_term(case, res)

    def shrink(self, case):
        return chan.shrink_wake2(case) if case["k"] == "wake2" else chan.shrink_wake(case)

    def nontrivial(self, case, res):
        log = res.get("log", [])
        return any(e[0] == "w" for e in log) and sum(1 for e in log if e[0] == "t") >= 2

    def distribution(self, cases, results):
        return chan.wake_distribution(cases, results)

    def coverage_extra(self, cases, results):
        return {"exhaustive": False,
                "exhaustive_part": "all single placements (10 points x 3 occurrences) and all unordered pair placements (x2 occurrences quick, x3 thorough) are enumerated completely"}


def main(ctx):
    spec = C27()
    spec.ctx = ctx
    vlib.standard_check(ctx, spec)
