"""C05 Tombstone lattices never resurrect deleted items (engine E1)."""
from tools import tomb, vlib


class C05(vlib.Spec):
    model_vo = ["theories/Lattice/Tomb.vo"]
    props_vo = "theories/Props/C05.vo"
    theorems = ["C05_set_laws", "C05_map_laws", "C05_any_merge_tree", "C05_any_merge_order",
                "C05_set_tree", "C05_set_history", "C05_set_no_resurrect", "C05_set_no_resurrect_tree",
                "C05_map_tree", "C05_map_visible", "C05_map_no_resurrect",
                "C05_set_flag_needs_disjoint_refuted", "C05_map_flag_needs_disjoint_refuted",
                "C05_set_holds_b_sound", "C05_set_holds_b_model", "C05_map_holds_b_model"]
    crate, group, binary = "h_tomb", "light", "h_tomb"
    imports = "From HV Require Import Lattice.Tomb."
    trusted_base = ["coqc 8.16.1 kernel (vm_compute used for case evaluation only)",
                    "hand-written Gallina model coq/theories/Lattice/Tomb.v (one model for the hash, roaring and "
                    "fst tombstone backends; roaring / fst internals are exercised only through the correspondence)",
                    "correspondence harness harness/h_tomb + tools/tomb.py"]
    assumptions = ["model validated against the lattices crate only on the generated histories / merge trees",
                   "hash iteration order abstracted by sorting the revealed contents",
                   "items mapped into the roaring backend by n -> ((n mod 3) << 33) | n and into the fst backend "
                   "by n -> \"<name>-<n>\" (fixed, injective)"]
    rule = ("merge histories (2-6 replica states quick, 2-9 thorough, items/keys from {0..5}; set / map over Max<u8> / "
            "map over SetUnion<u8>) plus a random merge tree over the same states, run on the hash, roaring and fst "
            "backends (maps also: hash receiver absorbing b-tree deltas, a deterministic visiting order); the "
            "executable property includes the changed flags (flag == receiver no longer equal to its old value); ~1/8 of the cases contain states violating live/tombstone disjointness (correspondence only); "
            "non-trivial = some item is live in one replica state and tombstoned in another and some merge changed")

    def gen(self, rng, tier, n):
        return tomb.gen_cases(rng, tier, n)

    def n_cases(self, tier):
        return 900 if tier == "quick" else 9000

    def to_coq(self, case, res):
        return tomb.to_coq(case, res)

    def shrink(self, case):
        return tomb.shrink(case)

    def nontrivial(self, case, res):
        return tomb.nontrivial(case, res)

    def describe(self, case, res):
        return tomb.describe(case, res)

    def distribution(self, cases, results):
        return tomb.distribution(cases, results)


def main(ctx):
    spec = C05()
    spec.ctx = ctx
    vlib.standard_check(ctx, spec)
