"""C09 Algebraic law checkers report exactly the laws that hold (engine E3 Algebra)."""
from tools import algebra, vlib

# Coq's Print Assumptions lists the kernel's primitive float / int63 operations (used only by
# the ConfidenceScore / FuzzyLogic models) as "Axioms"; they are primitives, not logical axioms.
PRIMS = ["float", "PrimFloat.float", "mul", "PrimFloat.mul", "ltb", "PrimFloat.ltb", "leb", "PrimFloat.leb",
         "eqb", "PrimFloat.eqb", "PrimFloat.compare", "compare", "classify", "PrimFloat.classify",
         "normfr_mantissa", "PrimFloat.normfr_mantissa", "frshiftexp", "PrimFloat.frshiftexp",
         "abs", "PrimFloat.abs", "div", "PrimFloat.div", "opp", "PrimFloat.opp",
         "of_uint63", "PrimFloat.of_uint63", "ldshiftexp", "PrimFloat.ldshiftexp",
         "PrimInt63.int", "PrimInt63.lsr", "PrimInt63.lsl", "PrimInt63.land", "PrimInt63.lor",
         "PrimInt63.eqb", "PrimInt63.ltb", "PrimInt63.leb", "PrimInt63.sub", "PrimInt63.add",
         "PrimInt63.mul", "PrimInt63.compare"]


class C09(vlib.Spec):
    model_vo = ["theories/Algebra/Model.vo"]
    props_vo = "theories/Props/C09.vo"
    theorems = algebra.THEOREMS
    allowed_axioms = PRIMS
    crate, group, binary = "h_algebra", "light", "h_algebra"
    imports = "From HV Require Import Algebra.Model.\nFrom Coq Require Import List NArith Floats.\nImport ListNotations."
    trusted_base = ["coqc 8.16.1 kernel (vm_compute for case evaluation; primitive floats for ConfidenceScore/FuzzyLogic)",
                    "hand-written Gallina model coq/theories/Algebra/Model.v of lattices/src/algebra.rs, "
                    "test.rs::cartesian_power and semiring_application.rs",
                    "correspondence harness harness/h_algebra + tools/algebra.py (JSON -> Gallina printers)",
                    "hook commit checks/hook_commits/C09_semiring_accessors.txt (raw accessors, cfg(hydro_verif))"]
    assumptions = ["model validated against the lattices crate only on the generated cases",
                   "operations are total tables over {0..n-1}, n <= 5; items lists of length <= 7 (harness dispatches &[S; N] for N <= 7)",
                   "harness built with the dev profile: `a + b` in Cost::mul panics on u32 overflow (it wraps in release builds)",
                   "-0.0 and NaN are not generated as semiring values (f64::max/min unspecified on signed zeros)"]
    rule = ("operation tables over carriers {0..n-1}: exhaustive for n=2 (and n=3 for the single-operation checkers in "
            "the thorough tier), library structures (Z_n, max/min, projections, xor/and/or, GF(4)) with isomorphic "
            "copies and one-cell/one-constant perturbations, random tables n<=5; cartesian_power arities 0..4; "
            "semiring value triples incl. u32 overflow boundaries; non-trivial = carrier and items have >= 2 distinct "
            "elements (checkers), >= 2 items and arity >= 1 (cpow), not all three values equal (sr); distinct = "
            "distinct case JSON")

    def gen(self, rng, tier, n):
        return algebra.gen(rng, tier, n)

    def n_cases(self, tier):
        return 400 if tier == "quick" else 2400

    def to_coq(self, case, res):
        return algebra.chk_term(case, res)

    def shrink(self, case):
        return algebra.shrink(case)

    def finding_key(self, case, res):
        return algebra.finding_key(case, res)

    def nontrivial(self, case, res):
        return algebra.nontrivial(case, res)

    def distribution(self, cases, results):
        return algebra.distribution(cases, results)


def main(ctx):
    spec = C09()
    spec.ctx = ctx
    vlib.standard_check(ctx, spec)
