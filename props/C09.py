"""C09 Algebraic law checkers report exactly the laws that hold (engine E3 Algebra).

Standard pipeline (vlib.standard_check) on the dev-profile harness, preceded by a *release
probe*: the same harness crate built with `--release` (no integer overflow checks) runs the
semiring cases again, compared with the model (`CSrRel`; since /repo eb5e08fe819 Cost::mul panics on overflow in
every profile, so the semantics equal the dev profile's).  Probe verdicts use the same logic: bit 1 => known finding or VIOLATION."""
import json
import os

from tools import algebra, vlib

# Coq's Print Assumptions lists the kernel's primitive float / int63 operations (used only by
# the ConfidenceScore / FuzzyLogic models) as "Axioms"; they are primitives, not logical axioms.
PRIMS = ["float", "PrimFloat.float", "mul", "PrimFloat.mul", "ltb", "PrimFloat.ltb", "leb", "PrimFloat.leb",
         "eqb", "PrimFloat.eqb", "PrimFloat.compare", "compare", "classify", "PrimFloat.classify",
         "normfr_mantissa", "PrimFloat.normfr_mantissa", "frshiftexp", "PrimFloat.frshiftexp",
         "abs", "PrimFloat.abs", "div", "PrimFloat.div", "opp", "PrimFloat.opp",
         "of_uint63", "PrimFloat.of_uint63", "ldshiftexp", "PrimFloat.ldshiftexp",
         "PrimInt63.int", "PrimInt63.lsr", "PrimInt63.lsl", "PrimInt63.land", "PrimInt63.lor",
         "PrimInt63.eqb", "PrimInt63.ltb", "PrimInt63.leb", "PrimInt63.sub", "PrimInt63.add",
         "PrimInt63.mul", "PrimInt63.compare"]
# Coq.Floats.FloatAxioms (standard library): specification of the primitive comparisons by
# SpecFloat; used only by C09_fuzzy_semiring.
FLOAT_AXIOMS = ["ltb_spec", "leb_spec", "eqb_spec", "FloatAxioms.ltb_spec", "FloatAxioms.leb_spec", "FloatAxioms.eqb_spec"]


class C09(vlib.Spec):
    model_vo = ["theories/Algebra/Model.vo"]
    props_vo = "theories/Props/C09.vo"
    theorems = algebra.THEOREMS
    allowed_axioms = PRIMS + FLOAT_AXIOMS
    crate, group, binary = "h_algebra", "light", "h_algebra"
    imports = "From HV Require Import Algebra.Model.\nFrom Coq Require Import List NArith Floats.\nImport ListNotations."
    trusted_base = ["coqc 8.16.1 kernel (vm_compute for case evaluation; primitive floats for ConfidenceScore/FuzzyLogic)",
                    "Coq.Floats.FloatAxioms ltb_spec/leb_spec/eqb_spec (C09_fuzzy_semiring only)",
                    "hand-written Gallina model coq/theories/Algebra/Model.v of lattices/src/algebra.rs, "
                    "test.rs::cartesian_power and semiring_application.rs",
                    "correspondence harness harness/h_algebra + tools/algebra.py (JSON -> Gallina printers)",
                    "hook commit checks/hook_commits/C09_semiring_accessors.txt (raw accessors, cfg(hydro_verif))"]
    assumptions = ["model validated against the lattices crate only on the generated cases",
                   "operations are total tables over {0..n-1}, n <= 5; items lists of length <= 7 (harness dispatches &[S; N] for N <= 7)",
                   "semiring cases also run on the same crate built with --release (release probe); Cost::mul panics on u32 overflow in both profiles since /repo eb5e08fe819",
                   "-0.0 and NaN are not generated as semiring values (f64::max/min unspecified on signed zeros)"]
    rule = ("operation tables over carriers {0..n-1}: exhaustive for n=2 (and n=3 for the single-operation checkers in "
            "the thorough tier), library structures (Z_n, max/min, projections, xor/and/or, GF(4)) with isomorphic "
            "copies and one-cell/one-constant perturbations, random tables n<=5; cartesian_power arities 0..4; "
            "semiring value triples incl. u32 overflow boundaries; non-trivial = carrier and items have >= 2 distinct "
            "elements (checkers), >= 2 items and arity >= 1 (cpow), not all three values equal (sr); distinct = "
            "distinct case JSON")

    def gen(self, rng, tier, n):
        return algebra.gen(rng, tier, n)

    def n_cases(self, tier):
        return 400 if tier == "quick" else 2400

    def to_coq(self, case, res):
        return algebra.chk_term(case, res)

    def shrink(self, case):
        return algebra.shrink(case)

    def finding_key(self, case, res):
        return algebra.finding_key(case, res)

    def nontrivial(self, case, res):
        return algebra.nontrivial(case, res)

    def coverage_extra(self, cases, results):
        return {"release_probe": getattr(self, "release_summary", None)}

    def distribution(self, cases, results):
        d = algebra.distribution(cases, results)
        d["release_probe"] = getattr(self, "release_summary", None)
        return d


def release_probe(ctx, spec, cases=None):
    """run semiring cases on the release build of the harness; verdicts into ctx"""
    summ = {"built": False, "cases": 0, "agree_and_hold": 0, "property_failures": 0,
            "correspondence_disagreements": 0, "known": []}
    spec.release_summary = summ
    ok, out = vlib.coq_make(spec.model_vo)
    if not ok:
        return  # standard_check reports the framework error
    cdir = os.path.join(vlib.ROOT, "harness", spec.crate)
    for f in ("Cargo.lock", "rust-toolchain.toml"):
        if not os.path.exists(os.path.join(cdir, f)):
            import shutil
            shutil.copy(os.path.join(vlib.REPO, f), os.path.join(cdir, f))
    ctx.log("building harness %s (release profile)" % spec.crate)
    rc, out = vlib.run(["cargo", "build", "--offline", "--release"], cwd=cdir,
                       env=vlib.cargo_env(spec.group), timeout=3600)
    if rc != 0:
        ctx.log("release build failed:\n" + out[-2000:])
        return  # the dev build in standard_check reports a harness that no longer builds
    summ["built"] = True
    binary = os.path.join(vlib.CACHE, "target-" + spec.group, "release", spec.binary)
    if cases is None:
        cases = (algebra.split_profile(algebra.corpus("C09"))[1]
                 + algebra.gen_sr_release(ctx.rng.fork(), 40 if ctx.tier == "quick" else 400))
    results = vlib.run_harness(ctx, binary, cases, name="release")
    verd = vlib.coq_eval(ctx, spec.imports, [algebra.chk_term(c, r) for c, r in zip(cases, results)])
    known = vlib.load_known(ctx.prop)
    summ["cases"] = len(cases)
    reported = 0
    for c, r, v in zip(cases, results, verd):
        if v == 0:
            summ["agree_and_hold"] += 1
            continue
        if v & 2:
            summ["property_failures"] += 1
            key = algebra.finding_key(c, r)
            hit = [t for k, t in known if k == key]
            if key is not None and hit:
                if key not in summ["known"]:
                    summ["known"].append(key)
                    ctx.known.append("%s (%s)" % (hit[0], key))
                continue
            if reported < 3:
                reported += 1
                path = vlib.write_replay(ctx, {"property": ctx.prop, "kind": "property-fails-on-implementation",
                                               "profile": "release", "case": c, "impl": r, "verdict": v,
                                               "finding_key": key})
                ctx.violations.append((path, ""))
        else:
            summ["correspondence_disagreements"] += 1
            if reported < 3:
                reported += 1
                path = vlib.write_replay(ctx, {"property": ctx.prop, "kind": "no-failing-input-found",
                                               "profile": "release", "case": c, "impl": r, "verdict": v,
                                               "correspondence": "release-profile harness output differs from the "
                                                                 "release-profile model (CSrRel)"})
                ctx.violations.append((path, "no-failing-input-found"))


def main(ctx):
    spec = C09()
    spec.ctx = ctx
    if ctx.replay:
        payload = json.load(open(ctx.replay))
        rc = payload["cases"] if "cases" in payload else [payload["case"]]
        if rc and all(c.get("profile") == "release" for c in rc):
            release_probe(ctx, spec, rc)
            vlib.finish(ctx, spec.level, {"evaluations": len(rc), "distinct_nontrivial": len(rc),
                                          "rule": "replay of release-profile cases", "samples": rc[:3],
                                          "release_probe": spec.release_summary,
                                          "explanation": "replay only"}, spec.assumptions)
    else:
        release_probe(ctx, spec)
    vlib.standard_check(ctx, spec)
