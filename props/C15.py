"""C15 Merged network sources keep per-sender order and lose nothing (engine Chan/Merge)."""
from tools import chan, vlib


class C15(vlib.Spec):
    model_vo = ["theories/Chan/ModelMergeChk.vo"]  # definitions only
    props_vo = "theories/Props/C15.vo"
    theorems = ["C15_refines_round_robin", "C15_order_no_loss", "C15_ends_iff_all_ended",
                "C15_cursor_in_bounds", "C15_fair_within_one_round"]
    crate, group, binary = "h_merge", "hydro", "h_merge"
    imports = ("From Coq Require Import List NArith.\nImport ListNotations.\n"
               "From HV Require Import Chan.Base Chan.ModelMerge Chan.ModelMergeChk.")
    level = "proof"
    trusted_base = ["coqc 8.16.1 kernel (vm_compute used for case evaluation only)",
                    "hand-written Gallina model coq/theories/Chan/ModelMerge.v of MergeSource::poll_next / TaggedSource",
                    "correspondence harness harness/h_merge (scripted streams, cfg(hydro_verif) constructor hook) + tools/chan.py"]
    assumptions = ["model validated against hydro_deploy_integration::MergeSource only on the generated scripts",
                   "upstream sources are scripted streams (one Ready/Pending/None answer per poll); tags are distinct",
                   "the two copies of the same round-robin loop in multi_connection.rs (which need real sockets) are not driven"]
    rule = ("0-5 tagged sources with distinct tags and per-poll scripts over {Ready(item), Pending, None} of length "
            "<= 6, polled until past the end; non-trivial = at least 2 sources and (a source ended while others "
            "remained or some poll returned Pending); distinct by case hash")

    def gen(self, rng, tier, n):
        return chan.gen_merge(rng, tier, n)

    def n_cases(self, tier):
        return 2500 if tier == "quick" else 6000

    def to_coq(self, case, res):
        return chan.merge_term(case, res)

    def shrink(self, case):
        return chan.shrink_merge(case)

    def nontrivial(self, case, res):
        obs = res.get("obs", [])
        if len(case["srcs"]) < 2:
            return False
        prev, mid = len(case["srcs"]), False
        for o in obs:
            if 0 < o["len"] < prev or o["r"][0] == "pend":
                mid = True
            prev = o["len"]
        return mid

    def distribution(self, cases, results):
        return chan.merge_distribution(cases, results)


def main(ctx):
    spec = C15()
    spec.ctx = ctx
    vlib.standard_check(ctx, spec)
