"""C06 Atomization splits a lattice value into mergeable atoms (engine E1)."""
from tools import atom, lat, vlib


class C06(vlib.Spec):
    model_vo = ["theories/Lattice/Atom.vo", "theories/Lattice/AtomUF.vo"]
    props_vo = "theories/Props/C06.vo"
    theorems = ["C06_atoms_nonbot", "C06_empty_iff_bot", "C06_remerge", "C06_default_is_bot",
                "C06_remerge_into", "C06_atoms_lub", "C06_holds_b_sound",
                "C06_uf_atoms_nonbot", "C06_uf_empty_iff_bot", "C06_uf_remerge", "C06_uf_remerge_partition",
                "C06_uf_remerge_into"]
    crate, group, binary = "h_atom", "light", "h_atom"
    imports = "From HV Require Import Lattice.AtomUF.\nFrom HV Require Import Lattice.Univ Lattice.Atom."
    trusted_base = ["coqc 8.16.1 kernel (vm_compute used for case evaluation only)",
                    "hand-written Gallina model coq/theories/Lattice/{Model,Univ,Atom}.v",
                    "correspondence harness harness/h_atom + tools/atom.py + tools/lat.py"]
    assumptions = ["model validated against the lattices crate only on the generated values",
                   "hash/btree iteration order abstracted: atoms compared as multisets, results after sorting; "
                   "the theorems hold for every merge order (Permutation)",
                   "atoms (singleton set/map, WithBot/WithTop of atoms) are modelled in the carrier of the "
                   "lattice they come from; the heterogeneous Merge<Atom> is the carrier's merge",
                   "UnionFind: model of union_find.rs is e1-uf-tomb's Lattice/UF.v; partitions observed through "
                   "same() on items 0..7; inputs built with UnionFind::new from explicit parent maps: forests, and maps "
                   "with pure-cycle components (lengths 2..4, which find closes on the fly); rho shapes (a tail "
                   "into a cycle, on which find diverges) are excluded; the UnionFind theorems are stated for forests "
                   "-- on the cyclic values the property is evaluated on the implementation's atoms and the model "
                   "is compared, not proved"]
    rule = ("one case = (type, value a, accumulator acc) for 24 registered atomizable Rust types; a random / "
            "sprinkled with bottom-valued entries and Some(bottom) / bottom-but-not-Default; plus UnionFind<HashMap/BTreeMap> "
            "parent maps over items 0..7 (forests; about 40% with pure-cycle components); "
            "non-trivial = a has at least one atom, or a is bottom without being Default")

    def types(self):
        if not hasattr(self, "_types"):
            self._types = vlib.run_harness(self.ctx, self.bin, [{"k": "types"}], name="types")[0]
        return self._types

    def gen(self, rng, tier, n):
        return atom.gen_cases(rng, self.types(), tier, n) + atom.gen_uf_cases(rng, tier, max(60, n // 6))

    def n_cases(self, tier):
        return 700 if tier == "quick" else 8000

    def to_coq(self, case, res):
        return atom.case_term(case, res)

    def shrink(self, case):
        return atom.shrink(case)

    def nontrivial(self, case, res):
        if "atoms" not in res:
            return True
        if case.get("k") == "uf":
            return len(res["atoms"]) > 0 or len(case["a"]) > 0
        return len(res["atoms"]) > 0 or case["a"] != res["dflt"]

    def distribution(self, cases, results):
        return atom.distribution(cases, results)


def main(ctx):
    spec = C06()
    spec.ctx = ctx
    vlib.standard_check(ctx, spec)
