"""C12 Push combinators deliver the right items and honour the push protocol (engine Push)."""
from tools import push, vlib



class C12(vlib.Spec):
    model_vo = ["theories/Push/Run.vo"]
    props_vo = "theories/Props/C12.vo"
    theorems = ["C12_map", "C12_map_terminates", "C12_filter", "C12_filter_terminates",
                "C12_filter_map", "C12_filter_map_terminates",
                "C12_flat_map", "C12_flatten", "C12_flat_map_terminates", "C12_flatten_terminates",
                "C12_inspect", "C12_unzip_fixed", "C12_fanout_fixed", "C12_fanout_fixed_terminates",
                "C12_unzip_fixed_terminates", "C12_demux_fixed", "C12_demux_fixed_terminates",
                "C12_compose_base", "C12_compose_forwarding", "C12_compose_map", "C12_compose_filter",
                "C12_compose_flat_map", "C12_compose_flatten",
                "C12_stage_accumulate", "C12_stage_sort", "C12_stage_keyed", "C12_stage_persist",
                "C12_stage_resolve", "C12_stage_fanout", "C12_stage_unzip", "C12_stage_inspect", "C12_stage_demux",
                "C12_stage_for_each",
                "C12_accumulate", "C12_pipeline_map_flatmap_filter", "C12_pipeline_filter_fanout_fold"]
    crate, group, binary = "h_push", "light", "h_push"
    shrink_rounds = 20
    level = "proof"
    imports = "From Coq Require Import List NArith.\nImport ListNotations.\nFrom HV Require Import Push.Model Push.Run."
    trusted_base = ["coqc 8.16.1 kernel (vm_compute used for case evaluation only)",
                    "hand transcription of dfir_pipes/src/push/*.rs into coq/theories/Push/Model.v",
                    "harness/h_push (scripted logging downstreams, driver loop) + tools/push.py"]
    assumptions = ["model validated against dfir_pipes only on the generated cases (exact call histories)",
                   "downstream scripts are finite Done/Pend prefixes followed by Done forever",
                   "closures are pure; item type u64 with small values (no overflow)",
                   "relative order of calls on different downstreams is not observed (per-downstream logs)"]
    rule = ("case = combinator x closure codes x item sequence x (poll_ready script, poll_finalize script) per "
            "downstream x driver fuel; thorough: every placement of <=3 Pend over all reachable script positions "
            "(sampled when the space exceeds the cap, see distribution.src); non-trivial = at least one item "
            "delivered and at least one scripted Pend actually consumed by the run")

    def gen(self, rng, tier, n):
        return push.gen_push_cases(rng, tier, n)

    def n_cases(self, tier):
        return 1470 if tier == "quick" else 42000

    def to_coq(self, case, res):
        return push.push_term(case, res, "chk12")

    def shrink(self, case):
        return push.shrink_push(case)

    def nontrivial(self, case, res):
        logs = res.get("logs", [])
        return any(k == "s" for l in logs for k, _ in l) and any(k in "rf" and not v for l in logs for k, v in l)

    def describe(self, case, res):
        return {"case": case, "impl": res}

    def distribution(self, cases, results):
        return push.push_distribution(cases, results)


def main(ctx):
    spec = C12()
    spec.ctx = ctx
    vlib.standard_check(ctx, spec)
