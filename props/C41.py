"""C41 Every well-typed Hydro flow compiles to a valid dataflow (engine HydroB)."""
import os

from tools import hydrob, vlib

EXPLANATION = (
    "Coq theorems about an executable model of the Hydro->DFIR emitter (emit_core with the production "
    "builder + FlatGraphBuilder link resolution) for a fragment of HydroNode: for ALL flows of the fragment and "
    "all rankings of cycle ids, `guarded` (synchronous dependencies between cycles acyclic) implies the emitted "
    "same-tick dependency graph is acyclic, i.e. the partitioner's acceptance criterion; Tick::cycle-only flows are "
    "always guarded; every operator the emitter writes, and every node of every emitted graph, respects the input arity ranges of the operator table "
    "regenerated from /repo on every run. The property's full statement is REFUTED on the model and on the code "
    "(three known findings, re-derived each run; the third -- a run-time panic of generated code -- is found by driving, not modelled). Tie: for each corpus flow (typed API, rustc-checked) the IR, the flat "
    "graph emitted by the real emit(), FlatGraphBuilder::build and the real partition_graph verdict are compared with "
    "the model's emit (exact node order, edge multiset, delay flags, arities, predicted verdict), engine Partition's executable model of the partitioner accepts the emitted graph of every guarded flow (theorem, from Partition's C19_acyclic_accepted) and is also run per flow against the real verdict; generated code of "
    "every accepted flow is compiled by rustc into the harness and driven on random tick scripts. Not a proof of: the "
    "Rust type system (no typing judgement), rustc accepting generated code (sampled); the out-degree of cycle `identity` operators is the number of uses of the cycle variable (1 by Rust ownership, checked per corpus flow). "
    "Random well-typed programs are limited to seeded pipelines of 13 typed stages (rebuilt when the seed changes).")


class C41(vlib.Spec):
    model_vo = ["theories/HydroB/PC41.vo", "theories/HydroB/XLoc.vo", "theories/HydroB/ModelRef.vo"]
    props_vo = "theories/Props/C41.vo"
    theorems = ["C41_guarded_accepted_partial", "C41_guarded_accepted_by_partitioner_model", "C41_tick_cycles_accepted_partial",
                "C41_emitter_arities_partial", "C41_emitted_in_arities_partial", "C41_emitted_arities", "C41_refuted_sync_forward_ref", "C41_refuted_unimplemented"]
    crate, group, binary = "h_hydro_b", "hydro", "h_hydro_b"
    imports = ("From Coq Require Import List String NArith.\n"
               "From HV Require Import HydroB.Model HydroB.GenOps HydroB.XPartition HydroB.XLoc HydroB.ModelRef.\nImport ListNotations.\nOpen Scope string_scope.")
    level = "other"
    trusted_base = ["coqc 8.16.1 kernel (vm_compute for case evaluation and the finite fragment/arity check)",
                    "hand-written Gallina model coq/theories/HydroB/Model.v of hydro_lang emit_core (fragment)",
                    "tools/hydrob.py IR-JSON -> Gallina conversion; harness/h_hydro_b build.rs dump",
                    "coq/theories/HydroB/GenOps.v regenerated from dfir_lang OPERATORS each run"]
    assumptions = ["partition_accepts = no cycle among non-delayed pipe edges (flows without handoff references / loops); "
                   "the partitioner itself is engine Partition's subject (C19)",
                   "the typed API is represented only by the corpus (every flow is type-checked by rustc when the harness builds)",
                   "closures, lifetimes and element types are not modelled (operator names, ports, edges only)"]
    rule = ("one 'dump' case per corpus flow of harness/h_hydro_b_flows -- hand-written typed flows, two-process network "
            "flows, and 8 random compositions (2-5 stages, fresh or shared ticks) of 13 typed stages regenerated from "
            "VERIF_SEED -- (IR + emitted flat graph per location + partition verdict), "
            "non-trivial = the IR has a tee, a cycle or a tick-level node; plus 'drive' cases (random tick scripts over "
            "the generated production code of each accepted flow), non-trivial = some output item produced")
    case_timeout = 600

    def __init__(self):
        self.info = {}
        self.dumps = {}
        self.table = hydrob.flows_table()

    def gen(self, rng, tier, n):
        flows = vlib.run_harness(self.ctx, self.bin, [{"k": "flows"}], name="flows")[0]
        names = [f for f in flows.get("flows", []) if f.startswith("c41_")]
        compiled = set(flows.get("compiled", []))
        cases = [{"k": "dump", "flow": f, "gen_seed": self.gen_seed} if f.startswith("c41_gen_")
                 else {"k": "dump", "flow": f} for f in names]
        reps = 3 if tier == "quick" else 40
        for f in names:
            if f in compiled and f in self.table:
                for _ in range(reps):
                    nt = rng.range(1, 5 if tier == "quick" else 9)
                    cases.append({"flow": f, "ticks": hydrob.rand_ticks(rng, self.table[f][0], nt, 4)})
        return cases

    def n_cases(self, tier):
        return 0

    def to_coq(self, case, res):
        if case.get("k") == "dump":
            if "flow" not in res or "ir" not in res:
                return 1
            self.dumps[case["flow"]] = res
            if res.get("flow_panic"):
                # the typed API itself panicked while the (well-typed) flow was being built
                self.info[case["flow"]] = {"flow_panic": res["flow_panic"]}
                return 2
            try:
                term, info = hydrob.c41_term(res)
            except hydrob.Unsupported as e:
                self.info[case["flow"]] = {"unsupported": str(e)}
                failed = res.get("emit_panic") or any(l.get("build") != "ok" or l.get("partition") != "ok"
                                                      for l in res.get("locations", []))
                return 2 if failed else 1
            self.info[case["flow"]] = info
            self.dumps[case["flow"]] = res
            return term
        # drive case: generated code must run every tick without panic / hang
        if "ticks" in res and len(res["ticks"]) == len(case["ticks"]):
            return 0
        return 2

    def finding_key(self, case, res):
        if case.get("k") != "dump":
            # generated code panicking at run time: the captured handle of a singleton that a
            # top-level bounded (no-replay) aggregate fills only in its first tick
            if "Option::unwrap()" in str(res.get("panic", "")) and len(case.get("ticks", [])) >= 2:
                d = self.dumps.get(case.get("flow")) or {}
                for loc in d.get("locations", []):
                    g = loc.get("flat") or {}
                    nodes = g.get("nodes", [])
                    for s_, sp, dst, dp, dl in g.get("edges", []):
                        if nodes[dst] == "#handoff" and nodes[s_] in ("fold_no_replay", "reduce_no_replay") \
                                and any(r and any(x[0] == dst for x in r) for r in g.get("refs", [])):
                            return "singleton_ref/top-level-no-replay-unwrap-on-later-tick"
            return None
        if res.get("emit_panic") and "not yet implemented" in str(res["emit_panic"]):
            return "emit/todo-top-level-bounded-keyed-aggregate"
        fp = str(res.get("flow_panic") or "")
        if "left == right" in fp and "Bounded" in fp and "Unbounded" in fp and "filter_not_in" in case.get("flow", ""):
            return "filter_not_in/metadata-bounded-on-unbounded-input"
        if any("`partition` must have at least 2 output" in " ".join(l.get("diagnostics") or [])
               for l in res.get("locations", [])):
            return "partition/unused-side"
        info = self.info.get(case["flow"]) or {}
        cyc = [l for l in res.get("locations", []) if l.get("partition") == "err"
               and "Cyclical dataflow within a tick" in l.get("diagnostic", "")]
        if cyc and info.get("rank", 0) is None:
            return "forward_ref/synchronous-cycle"
        return None

    def nontrivial(self, case, res):
        if case.get("k") == "dump":
            f = (self.info.get(case["flow"]) or {}).get("features") or {}
            return bool(f.get("tees") or f.get("cycles") or f.get("tick_nodes"))
        return any(v for t in res.get("ticks", []) for v in t.values())

    def describe(self, case, res):
        if case.get("k") == "dump":
            return {"case": case, "stages": getattr(self, "gen_descr", {}).get(case["flow"]),
                    "features": (self.info.get(case["flow"]) or {}).get("features"),
                    "impl": {"locations": [{k: v for k, v in l.items() if k != "flat_elim"} for l in res.get("locations", [])],
                             "codegen": res.get("codegen"), "emit_panic": res.get("emit_panic")}}
        return {"case": case, "impl": res}

    def distribution(self, cases, results):
        d = {"dump_cases": 0, "drive_cases": 0, "flows_codegen_compiled": 0, "partition_err": 0, "emit_panic": 0,
             "ops_emitted": {}, "features_sum": {}, "ticks_driven": 0}
        for c, r in zip(cases, results):
            if c.get("k") == "dump":
                d["dump_cases"] += 1
                d["flows_codegen_compiled"] += 1 if r.get("codegen") else 0
                d["emit_panic"] += 1 if r.get("emit_panic") else 0
                for l in r.get("locations", []):
                    if l.get("partition") == "err":
                        d["partition_err"] += 1
                    for op in (l.get("flat") or {}).get("nodes", []):
                        d["ops_emitted"][op] = d["ops_emitted"].get(op, 0) + 1
                for k, v in ((self.info.get(c["flow"]) or {}).get("features") or {}).items():
                    d["features_sum"][k] = d["features_sum"].get(k, 0) + v
            else:
                d["drive_cases"] += 1
                d["ticks_driven"] += len(c["ticks"])
        return d


def main(ctx):
    # seeded compositions of typed stages: regenerate the generated flows from the seed (or from
    # the replay file's seed) before the harness is built
    gen_seed = ctx.seed
    if ctx.replay:
        import json
        gen_seed = json.load(open(ctx.replay)).get("gen_seed", ctx.seed)
    descr, changed = hydrob.write_compositions(gen_seed)
    ctx.log("generated compositions for seed %d%s" % (gen_seed, " (rewritten)" if changed else ""))
    spec = C41()
    spec.ctx = ctx
    spec.gen_descr = descr
    spec.gen_seed = gen_seed
    # the operator table is regenerated from /repo before the Coq build
    ok, bindir, blog = vlib.cargo_build(spec.crate, spec.group)
    if ok:
        okr, msg = hydrob.regen_ops(ctx, os.path.join(bindir, spec.binary))
        ctx.log(msg)
    else:
        ctx.log("harness build failed before table regeneration; keeping the committed GenOps.v")
    spec.explanation = EXPLANATION
    spec.coverage_extra = lambda cases, results: {"programs": len(spec.info), "exhaustive": False}
    vlib.standard_check(ctx, spec)
