"""C36 Simulator decisions are sound (engine E9 Sim)."""
import copy
import glob
import json
import os

from tools import sim, vlib


class SimSpec(vlib.Spec):
    """shared by C36 (and reused by C37/C38 for the correspondence part)"""
    model_vo = ["theories/Sim/Run.vo", "theories/Sim/ModelTop.vo"]
    crate, group, binary = "h_sim", "hydro", "h_sim"
    imports = ("From Coq Require Import List NArith.\nFrom HV Require Import Sim.Model Sim.Run Sim.ModelTop.\n"
               "Import ListNotations.")
    harness_shards = 4
    prop_id = "C36"

    # ------------------------------------------------------------------ harness helpers
    def probe_orders(self, hooks):
        """iteration order of each keyed hook's map in the implementation (the order oracle)"""
        cases = [{"k": "hook", "hook": h, "rounds": [{"ds": [], "force": False}]} for h in hooks]
        res = vlib.run_harness(self.ctx, self.bin, cases, name="probe")
        out = []
        for h, r in zip(hooks, res):
            try:
                out.append(sim.order_of(r["rounds"][0]["before"]))
            except Exception:
                out.append(None)
        return out

    def ordered(self, hooks):
        """hook descriptions with maps merged and presented in the implementation's order
        (for script enumeration only)"""
        hs = []
        for h in hooks:
            if h["kind"] in sim.KEYED:
                h = dict(h)
                h["m"] = sim.full_map(h)
            hs.append(h)
        keyed = [h for h in hs if h["kind"] in sim.KEYED]
        orders = iter(self.probe_orders(keyed)) if keyed else iter([])
        return [sim.reorder_hook(h, next(orders)) if h["kind"] in sim.KEYED else h for h in hs]

    # ------------------------------------------------------------------ generation
    def corpus(self):
        out = []
        for f in sorted(glob.glob(os.path.join(vlib.ROOT, "corpus", self.prop_id, "*.json"))):
            c = json.load(open(f))
            out.append(c["case"] if "case" in c else c)
        return out

    def gen(self, rng, tier, n):
        thorough = tier == "thorough"
        maxlen = 4 if thorough else 3
        cases = self.corpus()
        # 1. every decision string of every small configuration of every hook kind
        hooks = []
        for kind in sim.KINDS:
            hooks += sim.small_hooks(kind, maxlen)
        ordered = self.ordered(hooks)
        cap = 4000 if thorough else 300
        for h, ho in zip(hooks, ordered):
            for force in (False, True):
                scripts = sim.hook_scripts(ho, force, cap)
                for ds in scripts:
                    cases.append({"k": "hook", "hook": h, "src": "exh",
                                  "rounds": [{"push": [], "force": force, "ds": ds}]})
                for ds in scripts[:3]:
                    cases.append({"k": "hook", "hook": h, "src": "mut",
                                  "rounds": [{"push": [], "force": force, "ds": sim.mutate_script(rng, ds)}]})
        # 1b. top-level (observation) hooks and inline hooks: every decision string
        tl = 4 if thorough else 3
        tops = []
        for ql in range(tl + 1):
            q = [10 * (i + 1) for i in range(ql)]
            tops.append({"kind": "top_order", "q": q, "tr": None})
            tops.append({"kind": "top_fold", "q": q, "tr": None})
            for n2 in range(3):
                if ql <= 2:
                    tops.append({"kind": "top_merge", "q": q, "q2": [7 * (i + 1) for i in range(n2)]})
        tops.append({"kind": "top_fold", "q": [1, 1, 2], "tr": None})
        ktops = []
        for kind in ("top_keyed_order", "top_partial"):
            for m in ([], [[1, [10]]], [[1, [10, 11]], [2, [20]]], [[1, [10, 11, 12]], [2, []], [7, [70, 71]]],
                      [[3, [1, 1]], [100, [5]], [65536, [6, 7]]]):
                ktops.append({"kind": kind, "m": m, "tr": None})
        for m, m2 in (([], []), ([[1, [10]]], []), ([], [[1, [10, 11]]]), ([[1, [10, 11]], [2, [20]]], [[1, [5]], [3, []]]),
                      ([[7, [70]], [100, [1, 2]]], [[7, [71, 72]], [65536, [9]]])):
            ktops.append({"kind": "top_kmerge", "m": m, "m2": m2, "tr": None})
        probes = [{"k": "hook", "hook": h, "rounds": [{"ds": [], "force": False}]} for h in ktops]
        pres = vlib.run_harness(self.ctx, self.bin, probes, name="probe_top")
        for h, r in zip(ktops, pres):
            try:
                tops.append(sim.in_impl_order(h, r["rounds"][0]["before"]))
            except Exception:
                tops.append(h)
        for h in tops:
            for force in (False, True):
                scripts = sim.top_scripts(h, force, cap)
                for ds in scripts:
                    cases.append({"k": "hook", "hook": h, "src": "top",
                                  "rounds": [{"push": [], "force": force, "ds": ds}]})
                for ds in scripts[:2]:
                    cases.append({"k": "hook", "hook": h, "src": "mut",
                                  "rounds": [{"push": [], "force": force, "ds": sim.mutate_script(rng, ds)}]})
        inl = []
        for ql in range(tl + 2):
            inl.append({"k": "inline", "kind": "shuffle", "input": [10 * (i + 1) for i in range(ql)]})
        inl.append({"k": "inline", "kind": "shuffle", "input": [1, 1, 2]})
        for a in range(4):
            for b in range(3):
                inl.append({"k": "inline", "kind": "merge", "first": [10 * (i + 1) for i in range(a)],
                            "second": [7 * (i + 1) for i in range(b)]})
        kin = [[[1, 10], [2, 20], [1, 11]], [[1, 10], [1, 11], [1, 12]], [[3, 1], [100, 2], [3, 3], [65536, 4], [100, 5]], [],
               [[7, 1]]]
        if thorough:
            kin.append([[1, 10], [2, 20], [1, 11], [2, 21], [3, 30], [1, 12]])
        kinl = []
        for inp in kin:
            kinl.append({"k": "inline", "kind": "kshuffle", "input": inp})
            kinl.append({"k": "inline", "kind": "partial", "input": inp})
        for a, b in (([], []), ([[1, 10]], [[1, 20]]), ([[1, 10], [2, 30], [1, 11]], [[2, 40], [1, 20], [3, 50]]),
                     ([[1, 1], [1, 2]], [[1, 3], [1, 4]])):
            kinl.append({"k": "inline", "kind": "kmerge", "first": a, "second": b})
        pres = vlib.run_harness(self.ctx, self.bin, [dict(c, ds=[]) for c in kinl], name="probe_inl")
        for c, r in zip(kinl, pres):
            if c["kind"] == "kshuffle":
                c["_order"] = r.get("group_order")
        inl += kinl
        for c in inl:
            scripts = sim.inline_scripts(c, cap)
            for ds in scripts:
                cases.append(dict(c, ds=ds, src="inline"))
            for ds in scripts[:2]:
                cases.append(dict(c, ds=sim.mutate_script(rng, ds), src="mut"))
        for _ in range(n // 6):
            if rng.chance(1, 2):
                cases.append({"k": "inline", "kind": "shuffle", "src": "rnd", "ds": [], "seed": rng.next() >> 11,
                              "input": [rng.below(9) for _ in range(rng.below(9))]})
            else:
                cases.append({"k": "inline", "kind": "merge", "src": "rnd", "ds": [], "seed": rng.next() >> 11,
                              "first": [rng.below(9) for _ in range(rng.below(7))],
                              "second": [rng.below(9) for _ in range(rng.below(7))]})
        # 2. every decision string of run_hooks on small ticks
        ticks = [
            [{"kind": "stream_t", "q": [10, 20], "tr": None}, {"kind": "stream_n", "q": [1, 2], "tr": None}],
            [{"kind": "stream_t", "q": [], "tr": None}, {"kind": "stream_n", "q": [1, 2, 3], "tr": None}],
            [{"kind": "stream_n", "q": [1, 2], "tr": None}, {"kind": "stream_t", "q": [], "tr": None}],
            [{"kind": "stream_t", "q": [], "tr": None}, {"kind": "stream_n", "q": [], "tr": None}],
            [{"kind": "single", "q": [1, 2], "tr": None, "last": 5},
             {"kind": "keyed_t", "m": [[1, [10]], [2, [20, 21]]], "tr": None}],
            [{"kind": "single", "q": [], "tr": None, "last": 5}, {"kind": "stream_t", "q": [10, 20], "tr": None}],
            [{"kind": "single", "q": [], "tr": None, "last": None}, {"kind": "stream_t", "q": [10], "tr": None}],
            [{"kind": "pass", "q": [1, 2], "tr": None}, {"kind": "stream_t", "q": [], "tr": None}],
            [{"kind": "pass", "q": [], "tr": None}, {"kind": "stream_t", "q": [10], "tr": None}],
            [{"kind": "stream_t", "q": [10], "tr": None}, {"kind": "pass", "q": [], "tr": None}],
            [{"kind": "pass", "q": [], "tr": None, "last": 7}, {"kind": "stream_t", "q": [10], "tr": None}],
            [{"kind": "stream_n", "q": [10, 20], "tr": None}, {"kind": "pass", "q": [], "tr": None, "last": 7}],
            [{"kind": "ksingle", "m": [[1, [10, 11]], [2, [20]]], "tr": None, "last": [[1, 9]]},
             {"kind": "keyed_n", "m": [[1, [10, 11]], [2, []]], "tr": None}],
            [{"kind": "stream_n", "q": [1], "tr": None}, {"kind": "stream_n", "q": [2], "tr": None},
             {"kind": "stream_t", "q": [3], "tr": None}],
            [{"kind": "stream_t", "q": [10, 20], "tr": [7]}, {"kind": "stream_n", "q": [1], "tr": None}],
            [{"kind": "stream_t", "q": [10], "tr": []}],
        ]
        for _ in range(24 if thorough else 8):
            ticks.append([sim.rand_hook(rng, maxlen=2, maxkeys=2) for _ in range(1 + rng.below(3))])
        flat = [h for t in ticks for h in t]
        flat_o = iter(self.ordered(flat))
        for t in ticks:
            to = [next(flat_o) for _ in t]
            if any(h.get("tr") is not None for h in t):
                cases.append({"k": "tick", "hooks": t, "src": "manual", "rounds": [{"push": [], "seed": 7}]})
                continue
            for ds in sim.tick_scripts(to, 1500 if thorough else 150):
                cases.append({"k": "tick", "hooks": t, "src": "exh", "rounds": [{"push": [], "ds": ds}]})
        # 2b. keyed-singleton version histories: a key gets >= 2 versions released in successive
        #     rounds, then a round in which only an unrelated key (or nothing of that key) is
        #     pending, so the key is re-released unchanged -- it must be the LATEST version
        for i in range(60 if thorough else 24):
            k1, k2 = rng.sample([1, 2, 3, 7, 100, 65536], 2)
            v = 10 + rng.below(5)
            rounds = [{"push": [], "force": True, "ds": [], "seed": rng.next() >> 11}]
            for _ in range(1 + rng.below(3)):
                v += 1 + rng.below(3)
                rounds.append({"push": [[k1, v]], "force": True, "ds": [], "seed": rng.next() >> 11})
            rounds.append({"push": [[k2, 50 + rng.below(9)]], "force": True, "ds": [], "seed": rng.next() >> 11})
            rounds.append({"push": [[k1, v + 5], [k1, v + 6], [k2, 70]], "force": rng.chance(1, 2), "ds": [],
                           "seed": rng.next() >> 11})
            rounds.append({"push": [[k2, 71]], "force": True, "ds": [], "seed": rng.next() >> 11})
            h = {"kind": "ksingle", "m": [[k1, [v - 100 if v > 100 else 9]]], "tr": None, "last": []}
            if i % 3 == 2:
                hs = [h, {"kind": "stream_t", "q": [1], "tr": None}]
                trs = [{"push": [[0, k, x] for k, x in r["push"]] + ([[1, 0, 2]] if j % 2 else []), "ds": [],
                        "seed": r["seed"]} for j, r in enumerate(rounds)]
                cases.append({"k": "tick", "hooks": hs, "src": "kshist", "rounds": trs})
            else:
                cases.append({"k": "hook", "hook": h, "src": "kshist", "rounds": rounds})
        # 3. random multi-round histories (seeded driver continuation; the decisions actually
        #    returned are reported by the harness and replayed on the model)
        nr = n
        for _ in range(nr):
            if rng.chance(1, 2):
                h = sim.rand_hook(rng, maxlen=6 if thorough else 4)
                rounds = []
                for _ in range(1 + rng.below(4)):
                    push = [[rng.choice([1, 2, 3, 7, 9]), 30 + rng.below(60)] for _ in range(rng.below(4))]
                    rounds.append({"push": push, "force": rng.chance(1, 3), "ds": [], "seed": rng.next() >> 11})
                cases.append({"k": "hook", "hook": h, "src": "rnd", "rounds": rounds})
            else:
                hs = [sim.rand_hook(rng, maxlen=4) for _ in range(1 + rng.below(4))]
                rounds = []
                for _ in range(1 + rng.below(4)):
                    push = [[rng.below(len(hs)), rng.choice([1, 2, 3, 7, 9]), 30 + rng.below(60)]
                            for _ in range(rng.below(5))]
                    rounds.append({"push": push, "ds": [], "seed": rng.next() >> 11})
                cases.append({"k": "tick", "hooks": hs, "src": "rnd", "rounds": rounds})
        return cases

    def n_cases(self, tier):
        return 300 if tier == "quick" else 4000

    # ------------------------------------------------------------------ evaluation
    def to_coq(self, case, res):
        if case["k"] == "inline":
            return sim.case_term(case, res)
        if "rounds" not in res:
            return 3
        return sim.case_term(case, res)

    def shrink(self, case):
        return sim.shrink_case(case)

    def nontrivial(self, case, res):
        """some round actually released something"""
        if case["k"] == "inline":
            return bool(res.get("ds_used"))
        for r in res.get("rounds", []):
            em = r.get("emitted")
            if em and (any(em) if case["k"] == "tick" else True):
                return True
        return False

    def describe(self, case, res):
        return {"case": case, "impl": res}

    def distribution(self, cases, results):
        d = {"by_kind": {}, "by_src": {}, "hook_kinds": {}, "outcomes": {}, "script_len": {}, "queue_len": {}}

        def inc(t, k):
            t[str(k)] = t.get(str(k), 0) + 1

        for c, r in zip(cases, results):
            inc(d["by_kind"], c["k"])
            inc(d["by_src"], c.get("src", "corpus"))
            if c["k"] == "inline":
                inc(d["hook_kinds"], "inline_" + c["kind"])
                inc(d["outcomes"], "bad_script" if r.get("bad") else ("panic" if "panic" in r else "ok"))
                inc(d["script_len"], len(r.get("ds_used", [])))
                continue
            for h in ([c["hook"]] if c["k"] == "hook" else c["hooks"]):
                inc(d["hook_kinds"], h["kind"])
                inc(d["queue_len"], len(h["q"]) if "q" in h else sum(len(q) for _, q in h["m"]))
            for rr in r.get("rounds", []):
                inc(d["outcomes"], "bad_script" if rr.get("bad") else ("panic%s" % rr["panic"] if "panic" in rr else "ok"))
                inc(d["script_len"], len(rr.get("ds_used", [])))
        return d


class C36(SimSpec):
    props_vo = "theories/Props/C36.vo"
    theorems = ["C36_total_prefix", "C36_noorder_subsequence", "C36_keyed_total_per_key",
                "C36_keyed_noorder_per_key", "C36_single_monotone", "C36_single_versions",
                "C36_pass_latest", "C36_ksingle_per_key", "C36_run_hooks_releases_new",
                "C36_can_run_iff", "C36_run_hooks_no_panic", "C36_top_order_sound",
                "C36_top_fold_sound", "C36_top_merge_sound", "C36_inline_shuffle_perm",
                "C36_inline_merge_interleaves", "C36_top_keyed_sound", "C36_top_kmerge_sound",
                "C36_inline_kshuffle_sound", "C36_inline_partial_sound", "C36_inline_kmerge_sound"]
    trusted_base = ["coqc 8.16.1 kernel (vm_compute used for case evaluation only)",
                    "hand-written Gallina model coq/theories/Sim/Model.v of sim/runtime.rs hooks and compiled.rs run_hooks",
                    "correspondence harness harness/h_sim (scripted bolero DynDriver) + tools/sim.py",
                    "/repo hook commits: cfg(hydro_verif) verif_run_hooks / verif_can_run re-exports"]
    assumptions = [
        "bolero driver modelled as 'returns any value of the requested range' (scripted DynDriver in the harness)",
        "FxHashMap iteration order is an oracle: read from the implementation per round and fed to the model",
        "usize underflow modelled as panic (debug-profile overflow checks)",
        "verif_can_run re-states SimTick::can_run on a bare hook list (SimTick needs a DFIR); a change to can_run itself is not seen",
        "tick-level property assumes idle hooks, can_run, and (keyed singleton) that a key with an empty queue was released before",
        "run_hooks is also driven on ticks that can_run reports NOT runnable (the scheduler never does): the explicit 'No input and no last released item' panics there are modelled and compared, not property failures",
        "all 18 hook kinds of sim/runtime.rs are modelled (7 batch, 6 top-level observation, 5 inline)",
    ]
    rule = ("hook or tick (list of hooks under run_hooks) + rounds of (push, force, decision script); exhaustive: every "
            "decision string of every small configuration (queue length <= 3 quick / 4 thorough) per hook kind and of "
            "small ticks, plus mutated invalid scripts, plus random multi-round histories; non-trivial = some round "
            "released at least one item")


def main(ctx):
    spec = C36()
    spec.ctx = ctx
    vlib.standard_check(ctx, spec)
