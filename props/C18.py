"""C18 Subgraph partitioning produces a schedulable, well-formed graph (engine Partition).

Translation-validation style: the Coq checker WellFormed_b (proved sound for the Prop-level
WellFormed) is evaluated by vm_compute on EVERY partitioned graph the real partition_graph
returns for generated DFIR programs; bit 0 compares that whole output (subgraphs, member order,
toposort, handoff placement, delay marks) with the executable model of all of partition_graph
(Partition/Full.v, built on GraphAlg's SubgraphMerge model), modulo the ids of inserted handoffs."""
import copy
import os

from tools import partition as P
from tools import vlib




def mutants(part):
    """corrupted copies of a real partitioned graph, each violating one clause of the property"""
    out = []
    g = part
    hoffs = [n for n in g["nodes"] if n["k"] == "hoff"]
    byid = {n["id"]: n for n in g["nodes"]}
    # 1. reversed subgraph order, if some non-delayed handoff orders two subgraphs
    if any(h["delay"] is None and h["preds"] and h["succs"] for h in hoffs) and len(g["toposort"]) >= 2:
        m = copy.deepcopy(g)
        m["toposort"] = list(reversed(m["toposort"]))
        out.append(("reversed-order", m))
    # 2. delay mark cleared
    for h in hoffs:
        if h["delay"] is not None:
            m = copy.deepcopy(g)
            [n for n in m["nodes"] if n["id"] == h["id"]][0]["delay"] = None
            out.append(("mark-cleared", m))
            break
    # 3. handoff removed: a -> h -> c becomes a -> c (cross-subgraph edge without handoff)
    for h in hoffs:
        if len(h["preds"]) == 1 and len(h["succs"]) == 1 and not any(
                r["t"] == h["id"] for n in g["nodes"] for r in n["refs"]):
            m = copy.deepcopy(g)
            ein = [e for e in m["edges"] if e["dst"] == h["id"]][0]
            eout = [e for e in m["edges"] if e["src"] == h["id"]][0]
            m["edges"] = [e for e in m["edges"] if e is not ein and e is not eout]
            m["edges"].append({"id": ein["id"], "src": ein["src"], "dst": eout["dst"], "sp": ein["sp"], "dp": eout["dp"]})
            m["nodes"] = [n for n in m["nodes"] if n["id"] != h["id"]]
            out.append(("handoff-dropped", m))
            break
    # 4. two subgraphs fused
    if len(g["subgraphs"]) >= 2:
        m = copy.deepcopy(g)
        a, b = m["subgraphs"][0], m["subgraphs"][1]
        a["nodes"] = a["nodes"] + b["nodes"]
        for n in m["nodes"]:
            if n["sg"] == b["id"]:
                n["sg"] = a["id"]
        m["subgraphs"] = [s for s in m["subgraphs"] if s["id"] != b["id"]]
        m["toposort"] = [s for s in m["toposort"] if s != b["id"]]
        out.append(("subgraphs-fused", m))
    return out


class C18(vlib.Spec):
    model_vo = ["theories/Partition/WF.vo", "theories/Partition/Full.vo", "theories/Gen/OpsTable.vo"]
    props_vo = "theories/Props/C18.vo"
    theorems = ["C18_WellFormed_b_sound_partial", "C18_checker_rejects_misordered_reference",
                "C18_W1_all_graphs_partial", "C18_W2_all_graphs_partial", "C18_W5_all_graphs_partial", "C18_W4_edges_all_graphs_partial", "C18_user_handoff_separates_partial",
                "C18_progress_loop_total_partial"]
    crate, group, binary = "h_partition", "dfir", "h_partition"
    imports = ("From Coq Require Import List String NArith.\n"
               "From HV Require Import Partition.Base Partition.Model Partition.WF Partition.Full Gen.OpsTable.\n"
               "Import ListNotations.\nOpen Scope string_scope.")
    level = "translation_validation"
    trusted_base = ["coqc 8.16.1 kernel (vm_compute evaluates the checker)",
                    "Partition/WF.v: the Prop-level definition WellFormed is the reading of the property",
                    "harness/h_partition graph dump + tools/partition.py Gallina printer",
                    "coq/theories/Gen/OpsTable.v regenerated from OPERATORS each run"]
    assumptions = ["WellFormed is established per output (checker proved sound), not for all graphs",
                   "the harness dump faithfully reflects the DfirGraph (public accessors only)"]
    rule = ("DFIR programs from tools/partition.py (unions, tees, joins, blocking folds/sorts, handoff references with "
            "access groups, defer_tick(_lazy), nested loops, planted cycles); every program the real partition_graph "
            "accepts yields one partitioned graph that is checked; non-trivial = partitioned with >= 2 subgraphs or >= 1 handoff")
    search_budget_s = 60

    def gen(self, rng, tier, n):
        return [dict(c, k="compile") for c in P.gen_programs(rng, tier, n, corpus="C18")]

    def n_cases(self, tier):
        return 200 if tier == "quick" else 2500

    def to_coq(self, case, res):
        if not isinstance(res, dict) or "flat" not in res:
            if isinstance(res, dict) and ("parse_err" in res or "build_err" in res):
                return 0
            return 3
        part = res["part"]
        if "ok" not in part:
            # rejected / panicked (C19's business): the full model must not produce a graph either
            return "full_check ops_table %s None" % P.g_graph(res["flat"])
        # bit 0: the executable model of the WHOLE partition_graph (Partition/Full.v) predicts this output
        # (modulo the ids of inserted handoffs / edges); bit 1: the output is not well formed
        pg = P.g_graph(part["ok"])
        return "full_check ops_table %s (Some %s) + c18_check ops_table %s" % (P.g_graph(res["flat"]), pg, pg)

    def shrink(self, case):
        return P.shrink_program(case)

    def nontrivial(self, case, res):
        if not (isinstance(res, dict) and "part" in res and "ok" in res["part"]):
            return False
        g = res["part"]["ok"]
        return len(g["subgraphs"]) >= 2 or any(n["k"] == "hoff" for n in g["nodes"])

    def describe(self, case, res):
        d = {"src": case["src"], "feat": case.get("feat")}
        if isinstance(res, dict) and "part" in res and "ok" in res["part"]:
            g = res["part"]["ok"]
            d["subgraphs"] = g["subgraphs"]
            d["toposort"] = g["toposort"]
            d["handoffs"] = [(n["id"], n["delay"]) for n in g["nodes"] if n["k"] == "hoff"]
        return d

    def distribution(self, cases, results):
        parts = [r["part"]["ok"] for r in results if isinstance(r, dict) and "part" in r and "ok" in r["part"]]
        nsg = sorted(len(g["subgraphs"]) for g in parts)
        nh = sorted(sum(1 for n in g["nodes"] if n["k"] == "hoff") for g in parts)
        marks = {}
        for g in parts:
            for n in g["nodes"]:
                if n["k"] == "hoff":
                    marks[str(n["delay"])] = marks.get(str(n["delay"]), 0) + 1
        # negative controls: the checker must reject corrupted copies of real outputs
        terms, kinds = [], []
        for g in parts[:20]:
            for kind, m in mutants(g):
                terms.append("wf_code ops_table %s" % P.g_graph(m))
                kinds.append(kind)
        neg = {}
        if terms:
            verd = vlib.coq_eval(self.ctx, self.imports, terms)
            for k, v in zip(kinds, verd):
                e = neg.setdefault(k, {"tried": 0, "rejected": 0})
                e["tried"] += 1
                e["rejected"] += 1 if v != 0 else 0
        self.negative = neg
        return {"partitioned_graphs": len(parts),
                "subgraphs_min_med_max": [nsg[0], nsg[len(nsg) // 2], nsg[-1]] if nsg else [],
                "handoffs_min_med_max": [nh[0], nh[len(nh) // 2], nh[-1]] if nh else [],
                "handoff_delay_marks": marks,
                "with_loops": sum(1 for g in parts if g["loops"]),
                "with_references": sum(1 for g in parts if any(n["refs"] for n in g["nodes"])),
                "negative_controls": neg}


def main(ctx):
    spec = C18()
    spec.ctx = ctx
    ok, bindir, blog = vlib.cargo_build(spec.crate, spec.group)
    if ok:
        P.regen_optable(ctx, os.path.join(bindir, spec.binary))
    # translation_validation evidence keys
    orig_finish = vlib.finish

    def finish(ctx_, level, coverage, assumptions, extra=None):
        d = coverage.get("distribution", {})
        coverage["programs"] = d.get("partitioned_graphs", 0)
        coverage["disagreements_checked"] = coverage.get("correspondence_disagreements", 0) + \
            coverage.get("property_failures_on_impl", 0)
        coverage["explanation"] = (
            "Per-output validation: WellFormed_b (Coq, proved sound w.r.t. the Prop WellFormed = the property's clauses) "
            "is evaluated on every partitioned graph returned by the real partition_graph. The all-graphs theorem "
            "`WellFormed (partition_model g)` is NOT proved (no model of the try_merge progress loop / handoff insertion / "
            "make_loops_contiguous here); negative controls show the checker rejects corrupted outputs.")
        neg = d.get("negative_controls", {})
        weak = [k for k, v in neg.items() if v["rejected"] < v["tried"]]
        if weak:
            coverage["negative_controls_not_all_rejected"] = weak
        orig_finish(ctx_, level, coverage, assumptions, extra)
    vlib.finish = finish
    # keep the verdict codes (bits >= 2 carry the failing clauses) for finding_key
    spec.verdicts = {}
    orig_evaluate = vlib.evaluate

    def evaluate(ctx_, spec_, binary, cases):
        results, verd = orig_evaluate(ctx_, spec_, binary, cases)
        for c, v in zip(cases, verd):
            spec_.verdicts[vlib.case_hash(c)] = v
        return results, verd
    vlib.evaluate = evaluate
    vlib.standard_check(ctx, spec)
