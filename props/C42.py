"""C42 Code generation is deterministic (engine Partition).

Decided mostly by replay: every generated DFIR program is compiled (`build_dfir_code`, the whole
pipeline: parse -> flat graph -> merge_modules -> eliminate -> partition -> as_code) 4x inside one
process (fresh RandomState per HashMap, perturbed allocator) and again in 3 separate processes
(fresh process-wide hash keys, ASLR, different environment size); graph JSON, generated token
stream text, mermaid, dot and surface-syntax renderings must be byte-identical.  A source scan
for HashMap/HashSet *iteration* in dfir_lang/src is compared with the committed list of sites
that the Coq model treats through an order oracle (Partition/Oracle.v)."""
import json
import os
import sys
import time

from tools import partition as P
from tools import vlib

PROPS_VO = "theories/Props/C42.vo"
THEOREMS = ["C42_enemy_merge_oracle_independent_partial", "C42_enemy_merge_closed_form",
            "C42_partition_model_oracle_independent", "C42_model_output_function_of_input"]
CRATE, GROUP, BIN = "h_partition", "dfir", "h_partition"
NPROC = 3


def run_all(ctx, binary, cases):
    """in-process x4 result + NPROC more processes; returns (first_results, verdicts, detail)"""
    hc = [{"k": "c42", "src": c["src"], "reps": 4} for c in cases]
    runs = []
    for j in range(NPROC + 1):
        env = {"HV_PAD": "x" * (977 * j + 13), "HV_RUN": str(j)}
        runs.append(vlib.run_harness(ctx, binary, hc, env=env, name="c42_p%d" % j, timeout=1200))
    verd, detail = [], []
    for i in range(len(cases)):
        r0 = runs[0][i]
        v = 0
        why = []
        if not isinstance(r0, dict) or "same" not in r0:
            v |= 2
            why.append("no result: %s" % str(r0)[:200])
        else:
            if not r0["same"]:
                v |= 2
                why.append("in-process repetitions differ in %s" % r0.get("diff_keys"))
            for j in range(1, NPROC + 1):
                rj = runs[j][i]
                if rj != r0:
                    v |= 2
                    ks = [k for k in (r0.get("first") or {}) if (rj.get("first") or {}).get(k) != r0["first"].get(k)] \
                        if isinstance(rj, dict) and isinstance(r0.get("first"), dict) else ["?"]
                    why.append("process %d differs from process 0 in %s" % (j, ks))
        verd.append(v)
        detail.append(why)
    return runs[0], verd, detail


def hydro_replay(ctx, nproc=3):
    """Hydro level: the build script of harness/h_hydro_b IS a Hydro compiler process -- for every corpus
    flow of h_hydro_b_flows it runs the production path FlowBuilder -> finalize -> IR (serde JSON) ->
    compile::ir::emit -> FlatGraphBuilder -> eliminate -> partition_graph -> generate_embedded (Rust code,
    prettyplease text).  Run that executable in `nproc` separate processes (fresh hash seeds, ASLR,
    different environment size) into separate OUT_DIRs and require byte-identical files."""
    import glob
    import hashlib
    import shutil
    info = {"status": "skipped"}
    try:
        ok, bindir, blog = vlib.cargo_build("h_hydro_b", "hydro", timeout=2400)
    except Exception as e:  # the crate belongs to another engine
        info["reason"] = "cargo_build failed: %s" % str(e)[:200]
        return info, []
    if not ok:
        info["reason"] = "harness/h_hydro_b does not build"
        return info, []
    cands = glob.glob(os.path.join(os.path.dirname(bindir), "debug", "build", "h_hydro_b-*", "build-script-build"))
    if not cands:
        info["reason"] = "no build-script executable found"
        return info, []
    exe = max(cands, key=os.path.getmtime)
    # the working directory only has to exist (flows_table.rs is included at compile time); the copy under
    # work/harness_alt may be removed concurrently by another seedcheck run
    cdir = os.path.join(vlib.ROOT, "harness", "h_hydro_b")
    outs = []
    for j in range(nproc):
        od = os.path.join(ctx.workdir, "hydro_out_%d" % j)
        shutil.rmtree(od, ignore_errors=True)
        os.makedirs(od)
        env = {"OUT_DIR": od, "CARGO_MANIFEST_DIR": cdir, "CARGO_PKG_NAME": "h_hydro_b",
               "CARGO_CRATE_NAME": "build_script_build", "CARGO_PKG_VERSION": "0.0.0",
               "TARGET": "x86_64-unknown-linux-gnu", "HOST": "x86_64-unknown-linux-gnu", "PROFILE": "debug",
               "HV_PAD": "y" * (1231 * j + 7)}
        rc, out = vlib.run([exe], cwd=cdir, env=env, timeout=900)
        if rc != 0:
            info["reason"] = "flow compiler process %d exited rc=%s" % (j, rc)
            return info, []
        files = {}
        for f in sorted(os.listdir(od)):
            files[f] = hashlib.sha1(open(os.path.join(od, f), "rb").read()).hexdigest()
        outs.append(files)
    diffs = []
    for j in range(1, nproc):
        for f in sorted(set(outs[0]) | set(outs[j])):
            if outs[0].get(f) != outs[j].get(f):
                diffs.append({"process": j, "file": f})
    info = {"status": "ran", "processes": nproc, "files_per_process": len(outs[0]),
            "generated_flow_code_files": len([f for f in outs[0] if f.endswith(".rs") and f not in
                                              ("mods.rs", "drivers.rs", "dumps.rs")]),
            "differences": len(diffs), "sha1_of_dumps_rs": outs[0].get("dumps.rs")}
    return info, diffs


def main(ctx):
    proof_fail = ["hygiene: " + p for p in vlib.hygiene()]
    ok, out = vlib.coq_make(["theories/Partition/Oracle.vo", "theories/Partition/FullO.vo"])
    if not ok:
        print(out[-3000:])
        print("FRAMEWORK-ERROR: model does not build")
        sys.exit(2)
    pr = vlib.coq_props(ctx, PROPS_VO, THEOREMS, ())
    if not pr["ok"]:
        proof_fail += pr["failures"]
        for f in pr["failures"]:
            ctx.log("PROOF-FAILURE:", f)
    ctx.log("building harness", CRATE)
    ok, bindir, blog = vlib.cargo_build(CRATE, GROUP)
    binary = os.path.join(bindir, BIN)
    if ok:
        # private copy: the shared alternative-checkout target dir can be rebuilt by a concurrent run
        import shutil
        mine = os.path.join(ctx.workdir, "h_partition_bin")
        shutil.copy2(binary, mine)
        binary = mine
    corr_fail = []
    cases, results, verd, detail = [], [], [], []
    # source scan
    scan = P.scan_hash_iteration()
    committed = json.load(open(os.path.join(vlib.ROOT, "corpus", "C42", "hash_iteration_sites.json")))["sites"]
    key = lambda s: (s["file"], s["name"], s["text"])
    new_sites = [s for s in scan if key(s) not in {key(x) for x in committed}]
    gone_sites = [s for s in committed if key(s) not in {key(x) for x in scan}]
    if new_sites or gone_sites:
        corr_fail.append("hash-iteration sites changed: new=%s gone=%s" % (new_sites, gone_sites))
    if not ok:
        ctx.log("harness build failed:\n" + blog[-3000:])
        corr_fail.append("harness crate %s no longer builds against /repo" % CRATE)
    else:
        if ctx.replay:
            payload = json.load(open(ctx.replay))
            cases = payload["cases"] if "cases" in payload else [payload["case"]]
        else:
            cases = P.gen_programs(ctx.rng, ctx.tier, 220 if ctx.tier == "quick" else 1500, corpus="C18")
        ctx.log("compiling %d programs x4 in-process, x%d processes" % (len(cases), NPROC + 1))
        results, verd, detail = run_all(ctx, binary, cases)
    if ctx.replay:
        hydro_info, hydro_diffs = {"status": "skipped", "reason": "replay mode"}, []
    else:
        try:
            hydro_info, hydro_diffs = hydro_replay(ctx)
        except Exception as e:  # never let the secondary replay take the check down
            hydro_info, hydro_diffs = {"status": "skipped", "reason": "exception: %s" % str(e)[:200]}, []
    ctx.log("hydro-level replay:", hydro_info)
    if hydro_diffs:
        path = vlib.write_replay(ctx, {"property": "C42", "kind": "property-fails-on-implementation",
                                       "why": "Hydro flow compiler processes produced different files",
                                       "differences": hydro_diffs, "hydro": hydro_info})
        ctx.violations.append((path, ""))
    bad = [i for i, v in enumerate(verd) if v & 2]
    for i in bad[:3]:
        # shrink: keep "still differs"
        cur = cases[i]
        for _ in range(10):
            cands = P.shrink_program(cur)[:60]
            if not cands:
                break
            _, cv, _ = run_all(ctx, binary, cands)
            nxt = [c for c, v in zip(cands, cv) if v & 2]
            if not nxt:
                break
            cur = nxt[0]
        r, v, d = run_all(ctx, binary, [cur])
        path = vlib.write_replay(ctx, {"property": "C42", "kind": "property-fails-on-implementation",
                                       "case": cur, "why": d[0], "impl": r[0], "original_case": cases[i]})
        ctx.violations.append((path, ""))
    if not ctx.violations and (corr_fail or proof_fail):
        found = None
        if ok and not ctx.replay:
            t_end = time.time() + 120
            while time.time() < t_end and found is None:
                extra = P.gen_programs(ctx.rng.fork(), "thorough", 400)
                er, ev, ed = run_all(ctx, binary, extra)
                for c, r, v, d in zip(extra, er, ev, ed):
                    if v & 2:
                        found = (c, r, d)
                        break
        if found:
            path = vlib.write_replay(ctx, {"property": "C42", "kind": "property-fails-on-implementation",
                                           "case": found[0], "why": found[2], "impl": found[1],
                                           "found_by": "search after broken proof/correspondence",
                                           "broken": (proof_fail + corr_fail)[:5]})
            ctx.violations.append((path, ""))
        else:
            path = vlib.write_replay(ctx, {"property": "C42", "kind": "no-failing-input-found",
                                           "proof_failures": proof_fail, "correspondence_failures": corr_fail})
            ctx.violations.append((path, "no-failing-input-found"))

    def outcome(r):
        f = r.get("first") if isinstance(r, dict) else None
        if not isinstance(f, dict):
            return "none"
        if "json" in f:
            return "compiled"
        if "parse_err" in f:
            return "parse_err"
        if "panic" in f:
            return "panic"
        return "rejected"
    dist = {}
    nontriv = set()
    sizes = []
    for c, r in zip(cases, results):
        o = outcome(r)
        dist[c["feat"] + "/" + o] = dist.get(c["feat"] + "/" + o, 0) + 1
        if o == "compiled":
            g = json.loads(r["first"]["json"])
            nn = len(g.get("nodes", []))
            sizes.append(nn)
            if len(g.get("subgraph_nodes", [])) >= 2 or nn >= 4:
                nontriv.add(P.sha(r["first"]["json"] + r["first"]["code"]))
    samples = [{"src": c["src"], "outcome": outcome(r),
                "code_sha1": P.sha(r["first"].get("code", "")) if isinstance(r.get("first"), dict) else None,
                "json_len": len(r["first"].get("json", "")) if isinstance(r.get("first"), dict) else None}
               for c, r in list(zip(cases, results))[17:20]]
    coverage = {
        "explanation": ("Determinism of the Rust compiler pipeline is decided by replay comparison, not by proof: "
                        "each program compiled 4x in one process and in %d further processes, all renderings "
                        "(graph JSON, generated token-stream text, mermaid, dot, surface syntax, diagnostics) "
                        "byte-identical.  The Coq part proves the mechanism: the source scan finds a single hash-iteration "
                        "site (try_merge's enemy-set merge); with its iteration order chosen by an arbitrary oracle the "
                        "WHOLE executable partition model (the one C18 compares with every real output) returns the same "
                        "graph (C42_partition_model_oracle_independent); all other hash containers are keyed-access only "
                        "(scan compared with corpus/C42/hash_iteration_sites.json). as_code is not modelled. "
                        "Hydro level: the h_hydro_b flow compiler (FlowBuilder -> IR -> emit -> partition -> generate_embedded) "
                        "is run in 3 processes on its 30 corpus flows and all emitted files must be byte-identical "
                        "(skipped, and reported as such, if that harness does not build). Not covered: the content-hash "
                        "naming of trybuild crates; memory-layout independence is only sampled through ASLR/allocator perturbation.") % NPROC,
        "obligations": pr["obligations"], "discharged": pr["discharged"],
        "checker_cmd": "make -C coq %s (coqc 8.16.1) + Print Assumptions allow-list" % PROPS_VO,
        "trusted_base": ["coqc 8.16.1 kernel", "harness/h_partition + tools/partition.py (comparison is byte equality of harness output)",
                         "regex source scan for hash iteration (heuristic)"],
        "theorems": THEOREMS, "assumptions_reported": pr.get("assumptions", {}),
        "evaluations": len(cases) * (4 + NPROC),
        "programs": len(cases),
        "distinct_nontrivial": len(nontriv),
        "traces_validated_against_impl": len([v for v in verd if v == 0]),
        "rule": ("random DFIR programs (tools/partition.py: unions, tees, joins, folds, defer_tick, planted cycles, "
                 "handoff references, nested loops) + hand-written corner cases; non-trivial = compiled successfully "
                 "with >= 4 graph nodes or >= 2 subgraphs, distinct by sha1 of graph JSON + code text"),
        "samples": samples,
        "distribution": {"outcome_by_feature": dist,
                         "graph_nodes_min_med_max": [min(sizes), sorted(sizes)[len(sizes) // 2], max(sizes)] if sizes else []},
        "property_failures_on_impl": len(bad),
        "hash_iteration_sites": scan,
        "processes": NPROC + 1, "in_process_repetitions": 4,
        "hydro_level_replay": hydro_info,
        "proof_failures": proof_fail, "correspondence_failures": corr_fail,
    }
    vlib.finish(ctx, "other", coverage,
                ["std RandomState gives every HashMap a different key within a process and across processes",
                 "ASLR is enabled on the check machine (addresses differ between processes)",
                 "Hydro-level determinism is sampled on the fixed 30-flow corpus of harness/h_hydro_b only (IR JSON, flat graphs, embedded code)"])
