"""End-to-end phase shared by C37 and C38: real compiled Hydro simulations (harness/h_sim/e2e),
compiled once and cached under /verif/.cache/target-hydro-e2e."""
import json
import os

from tools import sim, vlib

IMPORTS = ("From Coq Require Import List NArith.\nFrom HV Require Import Sim.Model Sim.Run Sim.Exh Sim.E2E.\n"
           "Import ListNotations.")


PROBE_TIMEOUT_MS = 300000   # a warmed cache answers in ~20 s; a cold one needs many minutes
if vlib.REPO != "/repo":
    # alternative checkout (seeded-change run): its generated crates are compiled from cold
    PROBE_TIMEOUT_MS = 2400 * 1000


def build(ctx):
    """(binary, None) or (None, reason)"""
    try:
        ok, bindir, log = vlib.cargo_build("h_sim/e2e", "hydro-e2e", timeout=900)
    except Exception as e:  # noqa: BLE001
        return None, "harness build raised %r" % (e,)
    if not ok:
        tail = log.strip().split("\n")[-1][:200] if log.strip() else ""
        return None, "harness build failed or timed out (%s)" % tail
    return os.path.join(bindir, "h_sim_e2e"), None


def env_failure(r, key):
    """a result that is not an answer of the simulator but a failure of the environment
    (generated crate not compiled in time, cargo lock contention, dylib not loadable, crash)"""
    if key in r:
        return None
    return json.dumps(r)[:200]


def run_cases(ctx, binary, cases, key, name):
    """probe with the first case (bounded wait), then the rest; returns (results, skip_reason)"""
    env = sim.e2e_env()
    env["HV_CASE_TIMEOUT_MS"] = str(PROBE_TIMEOUT_MS)
    first = vlib.run_harness(ctx, binary, cases[:1], env=env, name=name + "_probe", timeout=PROBE_TIMEOUT_MS // 1000 + 60)
    why = env_failure(first[0], key)
    if why:
        return None, "first program did not answer within %ds (cache cold or cargo busy): %s" % (
            PROBE_TIMEOUT_MS // 1000, why)
    rest = vlib.run_harness(ctx, binary, cases[1:], env=env, name=name, timeout=len(cases) * 330) if cases[1:] else []
    res = first + rest
    for c, r in zip(cases, res):
        why = env_failure(r, key)
        if why:
            return None, "program %s did not answer: %s" % (c["prog"], why)
    return res, None


def skipped(ctx, reason):
    ctx.log("e2e phase skipped:", reason)
    return {"e2e_phase": "e2e phase skipped: " + reason}, []


def exh_cases(tier):
    # every program costs one cargo invocation of the simulator (~20 s quiet): the quick tier runs
    # three (the single-tick TotalOrder program is subsumed by two_ticks / two_hooks)
    cs = [{"k": "exh", "prog": "batch_noorder", "a": [1, 2, 3], "b": []},
          {"k": "exh", "prog": "two_ticks", "a": [1, 2], "b": [7]},
          {"k": "exh", "prog": "two_hooks", "a": [1, 2], "b": [7]}]
    if tier == "thorough":
        cs += [{"k": "exh", "prog": "batch_total", "a": [1, 2, 3], "b": []},
               {"k": "exh", "prog": "batch_total", "a": [1, 2, 3, 4, 5], "b": []},
               {"k": "exh", "prog": "batch_noorder", "a": [1, 2], "b": []},
               {"k": "exh", "prog": "two_ticks", "a": [1, 2], "b": [7, 8]},
               {"k": "exh", "prog": "two_ticks", "a": [1, 2, 3], "b": [7]},
               {"k": "exh", "prog": "two_hooks", "a": [1, 2], "b": [7, 8]},
               {"k": "exh", "prog": "two_hooks", "a": [], "b": [7, 8, 9]}]
    return cs


def run_exhaustive(ctx):
    """C37: outcome set and execution count of CompiledSim::exhaustive vs the model of the
    scheduler loop + run_hooks, and vs the independently enumerated demanded outcomes.
    Returns (summary dict, list of (case, result, verdict) with verdict != 0)."""
    binary, why = build(ctx)
    if binary is None:
        return skipped(ctx, why)
    cases = exh_cases(ctx.tier)
    res, why = run_cases(ctx, binary, cases, "outcomes", "e2e")
    if res is None:
        return skipped(ctx, why)
    terms = [sim.e2e_term(c, r) for c, r in zip(cases, res)]
    fixed = {i: t for i, t in enumerate(terms) if isinstance(t, int)}
    verd = vlib.coq_eval(ctx, IMPORTS, [("0" if isinstance(t, int) else t) for t in terms])
    for i, t in fixed.items():
        verd[i] = t
    bad = [(c, r, v) for c, r, v in zip(cases, res, verd) if v]
    summary = {"e2e_phase": "run", "e2e_programs": len(cases), "e2e_real_executions": sum(r.get("executions", 0) for r in res),
               "e2e_distinct_outcomes": sum(r.get("distinct", 0) for r in res),
               "e2e_samples": [{"case": c, "executions": r.get("executions"), "outcomes": r.get("outcomes", [])[:4]}
                               for c, r in list(zip(cases, res))[:2]]}
    return summary, bad


def run_replay(ctx, rng):
    """C38: the same decision bytes replayed with CompiledSim::fuzz_repro twice in one process
    and once in a fresh process: decision log and outputs must be identical."""
    binary, why = build(ctx)
    if binary is None:
        return skipped(ctx, why)
    progs = [("batch_total", [1, 2, 3, 4], []), ("batch_noorder", [1, 2, 3], []), ("two_ticks", [1, 2], [7, 8]),
             ("two_hooks", [1, 2, 3], [7, 8])]
    n = 2 if ctx.tier == "quick" else 16
    off = rng.below(len(progs))
    cases = []
    for i in range(n):
        p, a, b = progs[(off + 2 * i + i // 2) % len(progs)]
        cases.append({"k": "bytes", "prog": p, "a": a, "b": b, "reps": 2,
                      "bytes": [rng.below(256) for _ in range(24 + rng.below(40))]})
    first, why = run_cases(ctx, binary, cases, "runs", "e2e_a")
    if first is None:
        return skipped(ctx, why)
    fresh, why = run_cases(ctx, binary, cases, "runs", "e2e_b")
    if fresh is None:
        return skipped(ctx, why)
    bad = []
    ok_runs = 0
    for c, r1, r2 in zip(cases, first, fresh):
        runs = (r1.get("runs") or []) + (r2.get("runs") or [])[:1]
        logs = [json.dumps(x, sort_keys=True) for x in runs]
        if len(runs) < 3 or any(l != logs[0] for l in logs):
            bad.append((c, {"first": r1, "fresh": r2}, 2))
        elif "result" in runs[0]:
            ok_runs += 1
    # the log of each normally completed replay against the model: its notes (per tick run) and its
    # outcome must be those of some valid decision string of the model (Sim/E2ELog.v)
    log_cases = [(c, (r1.get("runs") or [{}])[0]) for c, r1 in zip(cases, first)]
    log_cases = [(c, run) for c, run in log_cases if "result" in run and "log" in run]
    if log_cases:
        imports = ("From Coq Require Import List NArith String.\nFrom HV Require Import Sim.Model Sim.Run Sim.E2E "
                   "Sim.E2ELog.\nImport ListNotations.")
        verd = vlib.coq_eval(ctx, imports, [sim.e2e_log_term(c, run) for c, run in log_cases])
        for (c, run), v in zip(log_cases, verd):
            if v:
                bad.append((c, {"run": run, "note": "log/outcome of the compiled run is not a run of the model"}, 1))
    summary = {"e2e_phase": "run", "e2e_logs_matched_against_model": len(log_cases), "e2e_instances": len(cases), "e2e_instances_completed_normally": ok_runs,
               "e2e_sample": {"case": cases[0], "run": (first[0].get("runs") or [None])[0]}}
    return summary, bad


def run_c34(ctx):
    """C34 (atomic acknowledgements imply read-after-write) on a real compiled simulation: keyed
    writes with unordered values enter .atomic(), acks leave through end_atomic(), the state is
    kept in a sliced! region fed by use::atomic of that keyed atomic stream, and a read is sent
    only after the ack was observed.  Predicate, on every execution CompiledSim::exhaustive
    explores: the read includes the acknowledged write.  Returns (summary, bad_cases) like
    run_exhaustive; environmental failures skip the phase (coverage note), never a violation."""
    binary, why = build(ctx)
    if binary is None:
        return skipped(ctx, why)
    cases = [{"k": "exh", "prog": "atomic_keyed", "a": [7, 5], "b": []}]
    if ctx.tier == "thorough":
        cases.append({"k": "exh", "prog": "atomic_keyed", "a": [4000000000, 3], "b": []})
    res, why = run_cases(ctx, binary, cases, "outcomes", "e2e_c34")
    if res is None:
        return skipped(ctx, why)
    bad = []
    for c, r in zip(cases, res):
        inc = c["a"][1]
        stale = [o for o in r["outcomes"] if o < inc]
        if stale or r.get("executions", 0) < 1 or r.get("observed", 0) < 1:
            bad.append((c, dict(r, clause="a read observed after an acknowledgement must include the "
                                          "acknowledged write", stale_reads=stale), 2))
    summary = {"e2e_phase": "run", "e2e_c34_programs": len(cases),
               "e2e_c34_real_executions": sum(r.get("executions", 0) for r in res),
               "e2e_c34_reads_checked": sum(r.get("observed", 0) for r in res),
               "e2e_c34_sample": {"case": cases[0], "result": res[0]}}
    return summary, bad
