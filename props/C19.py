"""C19 The partitioner rejects exactly the graphs with same-tick cycles (engine Partition)."""
import os
import sys

from tools import partition as P
from tools import vlib

FINDING_ACCESS = "panic/access-group-self-conflict"


def impl_res(part):
    if "ok" in part:
        return "IOk", "ok"
    if "err" in part:
        names = P.parse_cycle(part["err"])
        if names is None:
            return "IPanicOther", "err-unparsed"
        return "(ICycle %s)" % vlib.g_list(vlib.g_string(s) for s in names), "cycle"
    msg = str(part.get("panic", part))
    if "encounted conflicted or cyclical handoff references" in msg:
        return "IPanicAccess", "panic-access"
    if "no-merge pair must not contain the same node twice" in msg:
        return "IPanicEnemy", "panic-enemy"
    return "IPanicOther", "panic-other"


class C19(vlib.Spec):
    model_vo = ["theories/Partition/Model.vo", "theories/Gen/OpsTable.vo"]
    props_vo = "theories/Props/C19.vo"
    theorems = ["C19_reported_cycle_is_real", "C19_rejects_iff_cycle", "C19_acyclic_accepted", "C19_oracle_correct",
                "C19_refuted_access_conflict"]
    crate, group, binary = "h_partition", "dfir", "h_partition"
    imports = ("From Coq Require Import List String NArith.\n"
               "From HV Require Import Partition.Base Partition.Model Gen.OpsTable.\n"
               "Import ListNotations.\nOpen Scope string_scope.")
    level = "proof"
    trusted_base = ["coqc 8.16.1 kernel (vm_compute for case evaluation)",
                    "hand-written Gallina model coq/theories/Partition/Model.v of flat_to_partitioned.rs (front part) "
                    "on top of GraphAlg/Model.v (topo_sort, SubgraphMerge::new)",
                    "coq/theories/Gen/OpsTable.v regenerated from dfir_lang's OPERATORS on every run",
                    "harness/h_partition + tools/partition.py"]
    assumptions = ["input_delaytype_fn of every operator is port independent (checked on sampled ports each run: table_ok)",
                   "the cycle in the diagnostic is compared by node names (to_pretty_string), which need not be unique",
                   "phases after SubgraphMerge::new never fail: checked by correspondence only (no panic observed)"]
    rule = ("DFIR programs from tools/partition.py (unions/tees/joins/folds, defer_tick(_lazy) chains, planted back edges "
            "with and without a delay, handoff references with access groups, nested loops) compiled through the real "
            "parser+FlatGraphBuilder+merge_modules+eliminate+partition_graph; non-trivial = the flat graph was built "
            "(front end accepted) and has >= 3 nodes; distinct by flat-graph structure")
    search_budget_s = 60

    def gen(self, rng, tier, n):
        return [dict(c, k="compile") for c in P.gen_programs(rng, tier, n, corpus="C19")]

    def n_cases(self, tier):
        return 500 if tier == "quick" else 4000

    def to_coq(self, case, res):
        if not isinstance(res, dict) or "flat" not in res:
            if isinstance(res, dict) and ("parse_err" in res or "build_err" in res):
                return 0
            return 3  # harness crashed / hang: neither comparable nor acceptable
        flat = res["flat"]
        ir, _ = impl_res(res["part"])
        names = vlib.g_list("(%d, %s)" % (n["id"], vlib.g_string(n["pretty"])) for n in flat["nodes"])
        return "c19_check ops_table %s %s %s" % (P.g_graph(flat), names, ir)

    def shrink(self, case):
        return P.shrink_program(case)

    def finding_key(self, case, res):
        if isinstance(res, dict) and "part" in res:
            _, k = impl_res(res["part"])
            if k == "panic-access":
                return FINDING_ACCESS
        return None

    def nontrivial(self, case, res):
        return isinstance(res, dict) and "flat" in res and len(res["flat"]["nodes"]) >= 3

    def describe(self, case, res):
        d = {"src": case["src"], "feat": case.get("feat")}
        if isinstance(res, dict) and "part" in res:
            d["impl"] = impl_res(res["part"])[1]
            if "err" in res["part"]:
                d["diagnostic"] = res["part"]["err"]
        else:
            d["impl"] = "front-end-rejected" if isinstance(res, dict) else "crash"
        return d

    def distribution(self, cases, results):
        dist, sizes, defer, refs, loops = {}, [], 0, 0, 0
        for c, r in zip(cases, results):
            if isinstance(r, dict) and "part" in r:
                k = impl_res(r["part"])[1]
                f = r["flat"]
                sizes.append(len(f["nodes"]))
                defer += any(e["dd"] for e in f["edges"])
                refs += any(n["refs"] for n in f["nodes"])
                loops += bool(f["loops"])
            elif isinstance(r, dict) and "parse_err" in r:
                k = "parse_err"
            elif isinstance(r, dict) and "build_err" in r:
                k = "front-end-rejected"
            else:
                k = "crash"
            key = c.get("feat", "?") + "/" + k
            dist[key] = dist.get(key, 0) + 1
        sizes.sort()
        return {"outcome_by_feature": dist,
                "flat_nodes_min_med_max": [sizes[0], sizes[len(sizes) // 2], sizes[-1]] if sizes else [],
                "graphs_with_delay_edges": defer, "graphs_with_references": refs, "graphs_with_loops": loops}


def main(ctx):
    spec = C19()
    spec.ctx = ctx
    ok, bindir, blog = vlib.cargo_build(spec.crate, spec.group)
    if ok:
        tab, changed = P.regen_optable(ctx, os.path.join(bindir, spec.binary))
        if changed:
            ctx.log("Gen/OpsTable.v regenerated (operator table changed)")
    vlib.standard_check(ctx, spec)
