"""C33 Monotonicity and bounded-value annotations are truthful (engine E8 Hydro)."""
from props.C28 import C28
from tools import hydro, vlib

KINDS = {"f_count": "MonoSingle", "f_union_unique_count": "MonoSingle", "f_max": None,
         "f_fold_keyed": "MonoKeys", "f_reduce_keyed": "MonoKeys", "f_keyed_max": "MonoValue",
         "m_value_counts": "MonoValue", "m_keyed_first": "first",
         "c_union_map_unique_count": "MonoSingle", "c_filter_map_keyed_fold": "MonoKeys",
         # round 8: the promise comes from the bound the builder RECORDED for the observed node
         "m_vc_map": "recorded", "m_vc_map_with_key": "recorded", "m_fold_mono_map_with_key": "recorded",
         "m_fold_mono": "recorded", "m_mk_map_with_key": "recorded", "m_count_map": "recorded"}


class C33(C28):
    props_vo = "theories/Props/C33.vo"
    theorems = ["C33_monotone_fold_modelled_ir", "C33_count_monotone", "C33_keys_never_disappear_fold",
                "C33_keys_never_disappear_reduce", "C33_monotone_keyed_fold_modelled_ir",
                "C33_value_counts_monotone", "C33_bounded_value_first", "C33_bound_judgement_sound"]
    prop = "C33"
    rule = ("flows producing monotone / bounded-value collections (count, unique-count, keyed fold / reduce, keyed max, "
            "value_counts, keyed first), snapshotted after every tick: small inputs under ALL partitions into <= 3 (4) "
            "ticks, large inputs (<= 40 items) under random partitions incl. empty ticks; bit1 = every snapshot is related "
            "to the next one as the bound promises (value >=, keys kept, values >= / unchanged per key); "
            "non-trivial = >= 2 ticks, >= 2 items and some output")
    assumptions = ["the theorems are about the emitted semantics of the modelled IR; the mapping API -> SingletonBound / "
                   "KeyedSingletonBound is Rust trait resolution and only compared as a table scanned from the signatures",
                   "KeyedStream::first is emitted through fold_early_stop (scan); it is specified as a keyed reduce that keeps "
                   "its accumulator and validated by correspondence on the m_keyed_first flow",
                   "snapshots are taken with snapshot(..).all_ticks() after every driver tick"]

    def flows(self):
        return [f for f, k in KINDS.items() if k]

    def all_flows(self):
        return self.flows()

    def to_coq(self, case, res):
        flow = case["flow"]
        if flow == "m_keyed_first":
            if case.get("k") == "syntax":
                if not isinstance(res, dict) or "syntax" not in res:
                    return 1
                return "(chk_toks m_keyed_first_emit [%s])" % "; ".join(
                    vlib.g_string(t) + "%string" for t in hydro.op_tokens(res["syntax"]))
            if hydro.broken(res) or len(res["ticks"]) != len(case["ticks"]):
                return 3
            return "(chk33_first %s %s)" % (hydro.g_ticks(case), hydro.g_impl(res))
        tr = self.translate()
        if case.get("k") == "syntax":
            return 1 if flow in tr.failed else hydro.emit_term_named(flow, tr.name(flow), res)
        if hydro.broken(res) or len(res["ticks"]) != len(case["ticks"]):
            return 3
        # bit1: the promise of the RECORDED bound must hold on the implementation's snapshots; where the
        # table above names a (possibly stronger) kind it is checked as well
        kinds = []
        rp = tr.root_promise(flow)
        if rp is not None:
            kinds.append(rp)
        if KINDS[flow] not in (None, "recorded"):
            kinds.append(KINDS[flow])
        term = None
        for kd in kinds:
            t = "(chk33 %s %s %s %s)" % (kd, tr.name(flow), hydro.g_ticks(case), hydro.g_impl(res))
            term = t if term is None else "(N.lor %s %s)" % (term, t)
        return tr.wrap(flow, case, term)

    def extra(self):
        e = super().extra()
        rows, problems = hydro.bound_check()
        e["bound_table"] = rows
        e["bound_table_problems"] = problems
        e["explanation"] = ("Coq theorems (Props/C33.v): on the emitted semantics of the modelled IR, consecutive per-tick "
                            "snapshots of a top-level fold with a monotone closure (count) never decrease, keys of keyed folds / "
                            "reduces never disappear, keyed values evolve along the promised relation (>= for a monotone closure, "
                            "= for per-key first), for every input history and partition. Tied to the code by snapshotting %d "
                            "flows after every tick through the production embedded builder. The API -> bound mapping is a scanned "
                            "table (%d entries), not proved. Modelled subset: %d of %d HydroNode variants."
                            % (len(self.flows()), len(rows), e["ir_coverage"]["modelled"],
                               e["ir_coverage"]["hydro_node_variants"]))
        return e


def main(ctx):
    spec = C33()
    spec.ctx = ctx
    rows, problems = hydro.bound_check()
    if problems:
        for p in problems:
            ctx.log("BOUND-TABLE:", p)
        path = vlib.write_replay(ctx, {"property": "C33", "kind": "no-failing-input-found",
                                       "correspondence_failures": problems})
        ctx.violations.append((path, "no-failing-input-found"))
    hydro.run_standard(ctx, spec, spec.extra)
