"""C23 Blocking inputs see the tick's complete input (engine E7 Dfir)."""
from tools import dfir, vlib


class C23(dfir.DfirSpec):
    tag = "C23"
    props_vo = "theories/Props/C23.vo"
    theorems = ["C23_handoff_complete", "C23_same_tick_delivery", "C23_partitioned_eq_flat", "C23_transparency"]
    modes = ("ticks", "avail")
    level = "proof"
    assumptions = [
        "denotation of the flat graph = the same Coq interpreter run on one block holding every operator in the same "
        "order with the handoffs as plain wires (ModelFlat.flat_of, computed in Coq from the lowered real partition)",
        "that all producers of a handoff run before its consumer is property C18 (partitioner), not proved here",
        "inside a subgraph operators are applied to complete per-tick lists (eager drain of blocking inputs is "
        "part of the list-level operator transcription)",
    ]
    rule = ("blocking operator (anti_join/difference negative side, fold, reduce, sort, fold_keyed, persist, join, "
            "cross_join, zip) whose blocking input passes a same-tick pipeline of depth 0/2/4/6 made of identity, "
            "map(id), tee+null and union+null stages (the last two force handoffs and subgraph splits) x random "
            "history; non-trivial = some tick has input and some sink recorded output")

    def n_cases(self, tier):
        return 384 if tier == "quick" else 3840

    def to_coq(self, case, res):
        if self.failed(res):
            return 3
        p = dfir.catalogue()[case["prog"]]
        return dfir.guard(case["prog"], "c23_chk %s prog_%d %s %s %s %s" % (
            "true" if case["mode"] == "avail" else "false", case["prog"],
            dfir.g_bools(p.sinks), dfir.g_hist(case["hist"]), dfir.g_outs(res["outs"]),
            "[" + "; ".join(str(x) for x in res["obs"]) + "]"))

    def distribution(self, cases, results):
        d = dfir.DfirSpec.distribution(self, cases, results)
        d["pipeline_depth"] = {}
        for c in cases:
            k = str(getattr(dfir.catalogue()[c["prog"]], "depth", "?"))
            d["pipeline_depth"][k] = d["pipeline_depth"].get(k, 0) + 1
        return d


def main(ctx):
    dfir.run_plugin(ctx, C23())
