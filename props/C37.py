"""C37 Exhaustive simulation covers every distinct schedule (engine E9 Sim)."""
from props import sim_e2e
from props.C36 import SimSpec
from tools import sim, vlib

EXPLANATION = (
    "Proved in Coq for all queues (Props/C37.v, suffix _partial): every prefix is produced by exactly one decision "
    "(TotalOrder); every sub-sequence with its complement is produced by some valid decision string and, for "
    "distinguishable items, by at most one (NoOrder min_index pruning loses no subset and explores no schedule "
    "twice); every pending snapshot version and the unchanged re-release are reachable (SingletonHook); every per-key "
    "combination for the keyed stream hooks and the keyed singleton, for every iteration order; uniformly every demanded "
    "schedule of every modelled hook kind (C37_every_hook_schedule); run_hooks reaches every combination of per-hook "
    "schedules that is not all-trivial (C37_run_hooks_every_combination); a model of LaunchedSim::step's choice reaches "
    "every ready tick/observation by exactly one value and every order of independent ready ticks by exactly one string. "
    "Not proved: (1) that bolero's exhaustive driver enumerates every value of every requested range - an external "
    "crate, checked on every run only by comparing, on tiny configurations, the outcome SET (and the number of "
    "executions) reached by the real bolero exhaustive engine (same call sequence as CompiledSim::exhaustive) with "
    "the set the Coq model reaches by brute force over all decision strings, and with an independently enumerated "
    "set of demanded schedules (spec_outcomes / spec_tick_outcomes in Sim/Exh.v); (2) (uniqueness of the decision string is proved for every modelled hook kind, "
    "run_hooks as a whole and the scheduler choice, and cross-checked by execution counts); "
    "(3) TopLevel*/inline hooks have only partial completeness theorems. End-to-end tie: small Hydro programs (one tick/one "
    "hook TotalOrder and NoOrder, two independent ticks, one tick with two hooks) are compiled by the real pipeline "
    "(FlowBuilder -> sim() -> trybuild dylib, cached) and run under CompiledSim::exhaustive; the set of outcomes AND the "
    "number of executions must equal those of the Coq model of the scheduler loop (choice among ready ticks) around "
    "run_hooks (+ in-tick shuffle), and contain the independently enumerated demanded outcomes (compositions / ordered "
    "set partitions).")


def legit(h, force):
    k = h["kind"]
    can = sim.can_nt(h)
    if force and not can:
        return False
    if k in ("single", "pass"):
        return can or h.get("last") is not None
    if k == "ksingle":
        last = set(kk for kk, _ in (h.get("last") or []))
        return all(q or kk in last for kk, q in sim.full_map(h))
    return True


def bounds(h):
    """(largest value a decision can take, longest decision string) for brute force"""
    k = h["kind"]
    if k in sim.KEYED:
        qs = [q for _, q in sim.full_map(h)]
    else:
        qs = [h["q"]]
    alpha = max([len(q) for q in qs] + [1])
    if k == "stream_t":
        ln = 1
    elif k == "stream_n":
        ln = 2 * len(h["q"])
    elif k == "keyed_t":
        ln = len(qs)
    elif k == "keyed_n":
        ln = 2 * sum(len(q) for q in qs)
    elif k == "single":
        ln = 2
    elif k == "pass":
        ln = 0
    else:
        ln = 3 * len(qs)
    return alpha, ln


class C37(SimSpec):
    prop_id = "C37"
    model_vo = ["theories/Sim/Exh.vo", "theories/Sim/E2E.vo"]
    props_vo = "theories/Props/C37.vo"
    imports = ("From Coq Require Import List NArith.\nFrom HV Require Import Sim.Model Sim.Run Sim.Exh.\n"
               "Import ListNotations.")
    theorems = ["C37_total_every_prefix_partial", "C37_noorder_every_subset_partial",
                "C37_noorder_no_duplicate_partial", "C37_single_every_version_partial",
                "C37_keyed_total_every_combination", "C37_keyed_noorder_every_combination",
                "C37_ksingle_every_combination", "C37_keyed_no_duplicate", "C37_ksingle_no_duplicate",
                "C37_every_hook_no_duplicate", "C37_run_hooks_no_duplicate", "C37_every_hook_schedule",
                "C37_run_hooks_every_combination", "C37_scheduler_every_choice",
                "C37_scheduler_every_order", "C37_top_order_every_element",
                "C37_inline_merge_every_interleaving", "C37_top_keyed_every_item", "C37_top_kmerge_every_front",
                "C37_inline_partial_every_interleaving", "C37_inline_kmerge_every_interleaving",
                "C37_top_merge_no_duplicate", "C37_positional_hooks_duplicate_refuted"]
    level = "other"
    harness_shards = 4
    trusted_base = ["coqc 8.16.1 kernel (vm_compute used for the brute-force enumeration only)",
                    "hand-written Gallina model coq/theories/Sim/Model.v; spec enumerators coq/theories/Sim/Exh.v",
                    "harness h_sim running bolero::test(..).exhaustive().run_with_replay on the real hooks",
                    "bolero-hydro 0.13.7 exhaustive driver (external; its exhaustiveness is what is being sampled)"]
    assumptions = [
        "bolero's exhaustive driver enumerates every value of every requested range: NOT proved, compared per run on tiny configurations only",
        "tiny configurations: queue length <= 3 (4 in the thorough tier), <= 3 keys, ticks of <= 3 hooks",
        "keyed hooks: the model is given the implementation's map iteration order",
        "order of ready ticks/observations and end-to-end programs not covered",
    ]
    rule = ("tiny hook configurations (every kind, force on/off) and tiny ticks under run_hooks; per configuration the real "
            "bolero exhaustive engine enumerates all executions and the outcome set + execution count are compared with the "
            "model's brute-force enumeration over all decision strings and with the independently enumerated demanded "
            "schedules; non-trivial = the configuration has more than one distinct outcome")

    def gen(self, rng, tier, n):
        thorough = tier == "thorough"
        cases = self.corpus()
        maxlen = 3
        for kind in sim.KINDS:
            for h in sim.small_hooks(kind, maxlen):
                for force in (False, True):
                    if not legit(h, force):
                        continue
                    a, ln = bounds(h)
                    if (a + 1) ** ln > (400000 if thorough else 20000):
                        continue
                    cases.append({"k": "exh", "hook": h, "force": force, "src": "small"})
        if thorough:
            cases.append({"k": "exh", "hook": {"kind": "stream_n", "q": [10, 20, 30, 40], "tr": None}, "force": False,
                          "src": "small"})
            cases.append({"k": "exh", "hook": {"kind": "stream_t", "q": [10, 20, 30, 40, 50], "tr": None},
                          "force": True, "src": "small"})
        ticks = [
            [{"kind": "stream_t", "q": [10, 20], "tr": None}, {"kind": "stream_n", "q": [1, 2], "tr": None}],
            [{"kind": "stream_t", "q": [], "tr": None}, {"kind": "stream_n", "q": [1, 2], "tr": None}],
            [{"kind": "stream_n", "q": [1, 2], "tr": None}, {"kind": "stream_t", "q": [], "tr": None}],
            [{"kind": "stream_t", "q": [10], "tr": None}, {"kind": "single", "q": [1, 2], "tr": None, "last": 5}],
            [{"kind": "single", "q": [], "tr": None, "last": 5}, {"kind": "stream_t", "q": [10, 20], "tr": None}],
            [{"kind": "single", "q": [1], "tr": None, "last": None},
             {"kind": "keyed_t", "m": [[1, [10]], [2, [20]]], "tr": None}],
            [{"kind": "pass", "q": [1, 2], "tr": None}, {"kind": "stream_t", "q": [7], "tr": None}],
            [{"kind": "stream_n", "q": [1], "tr": None}, {"kind": "stream_n", "q": [2], "tr": None},
             {"kind": "stream_t", "q": [3], "tr": None}],
            [{"kind": "ksingle", "m": [[1, [10]], [2, [20]]], "tr": None, "last": [[1, 9]]},
             {"kind": "stream_t", "q": [3], "tr": None}],
            [{"kind": "keyed_n", "m": [[1, [10, 11]], [2, [20]]], "tr": None}],
        ]
        for _ in range(n):
            t = [sim.rand_hook(rng, maxlen=2, maxkeys=2) for _ in range(1 + rng.below(3))]
            ticks.append(t)
        for t in ticks:
            if not all(legit(h, False) for h in t):
                continue
            a = max(bounds(h)[0] for h in t)
            ln = sum(bounds(h)[1] for h in t)
            if (a + 1) ** ln > (400000 if thorough else 20000):
                continue
            cases.append({"k": "exh", "hooks": t, "src": "tick"})
        return cases

    def n_cases(self, tier):
        return 12 if tier == "quick" else 60

    @staticmethod
    def g_outcome_hook(o):
        return "(%s, %s)" % (sim.g_kv(o["emitted"]), sim.g_map(o["after"]))

    @staticmethod
    def g_outcome_tick(o):
        em = [p for e in o["emitted"] for p in e]
        af = [e for a in o["after"] for e in a]
        return "(%s, %s)" % (sim.g_kv(em), sim.g_map(af))

    def to_coq(self, case, res):
        if "outcomes" not in res:
            return 3
        if any("panic" in o or "harness_panic" in o for o in res["outcomes"]):
            return 3
        if "hooks" in case:
            hs = [sim.reorder_hook(dict(h, m=sim.full_map(h)), sim.order_of(b)) if h["kind"] in sim.KEYED else h
                  for h, b in zip(case["hooks"], res["before"])]
            a = max(bounds(h)[0] for h in hs)
            ln = sum(bounds(h)[1] for h in hs)
            return "(exh_tick_verdict %s %s %s %s %s)" % (
                vlib.g_list([sim.g_hook(h) for h in hs]), sim.g_nat(a), sim.g_nat(ln),
                vlib.g_list([self.g_outcome_tick(o) for o in res["outcomes"]]), sim.g_nat(res["executions"]))
        h = case["hook"]
        if h["kind"] in sim.KEYED:
            h = sim.reorder_hook(dict(h, m=sim.full_map(h)), sim.order_of(res["before"]))
        a, ln = bounds(h)
        return "(exh_verdict %s %s %s %s %s %s)" % (
            sim.g_hook(h), vlib.g_bool(case["force"]), sim.g_nat(a), sim.g_nat(ln),
            vlib.g_list([self.g_outcome_hook(o) for o in res["outcomes"]]), sim.g_nat(res["executions"]))

    def shrink(self, case):
        return []

    def nontrivial(self, case, res):
        return res.get("distinct", 0) > 1

    def describe(self, case, res):
        return {"case": case, "executions": res.get("executions"), "distinct": res.get("distinct"),
                "outcomes": res.get("outcomes", [])[:6]}

    def distribution(self, cases, results):
        d = {"hook_kinds": {}, "executions": {}, "by_src": {}, "total_executions": 0}
        for c, r in zip(cases, results):
            for h in ([c["hook"]] if "hook" in c else c["hooks"]):
                d["hook_kinds"][h["kind"]] = d["hook_kinds"].get(h["kind"], 0) + 1
            e = r.get("executions", 0)
            b = "1" if e <= 1 else "2-4" if e <= 4 else "5-16" if e <= 16 else "17-64" if e <= 64 else ">64"
            d["executions"][b] = d["executions"].get(b, 0) + 1
            d["by_src"][c.get("src", "corpus")] = d["by_src"].get(c.get("src", "corpus"), 0) + 1
            d["total_executions"] += e
        return d


def main(ctx):
    spec = C37()
    spec.ctx = ctx
    orig = vlib.finish

    def fin(c, level, coverage, assumptions, extra=None):
        coverage["explanation"] = EXPLANATION
        coverage["exhaustive"] = False
        # end-to-end phase: real compiled simulations under the real exhaustive driver
        if not c.replay:
            summary, bad = sim_e2e.run_exhaustive(c)
            coverage.update(summary)
            for case, res, v in bad[:2]:
                path = vlib.write_replay(c, {"property": c.prop, "kind": "e2e outcome set / execution count differs"
                                             if v & 1 and not v & 2 else "e2e demanded outcome missing",
                                             "case": case, "impl": res, "verdict": v})
                c.violations.append((path, "" if v & 2 else "no-failing-input-found"))
        return orig(c, level, coverage, assumptions, extra)

    vlib.finish = fin
    vlib.standard_check(ctx, spec)
