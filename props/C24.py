"""C24 Ticks advance one at a time and deferred data lands in the next tick (engine E7 Dfir)."""
from tools import dfir, vlib


class C24(dfir.DfirSpec):
    tag = "C24"
    props_vo = "theories/Props/C24.vo"
    theorems = ["C24_tick_counter", "C24_double_buffer", "C24_delivery", "C24_run_available", "C24_state_lifetimes"]
    modes = ("ticks", "avail", "avail")
    level = "proof"
    assumptions = [
        "external wake-ups are a script parameter of the model's run_available; the harness never produces one (it only "
        "sends between calls and run_available_sync clears the flag first); wake-ups racing a running tick are C27",
        "the program structure (subgraphs, order, handoffs, delay marks, swap and schedule lists) is lowered by "
        "tools/dfir.py from the real meta_graph() following as_code_with_options; only validated by the cases",
        "the end-to-end delivery theorem covers tick programs without loop blocks; its hypotheses (one sending block, "
        "one receiving block, the others buf_free / back_free for the handoff) are what the lowering of a real "
        "partitioned graph yields for every handoff (one producer edge, one consumer edge)",
    ]
    rule = ("catalogue program (defer_tick/defer_tick_lazy chains of length 0-4 with taps, stateful operators "
            "beside a defer, a countdown cycle through defer_tick, a 'static join fed through a defer) x random "
            "history (1-6 steps) x {run_tick_sync per step, run_available_sync per step}; "
            "non-trivial = some step has input and some sink recorded output")

    def n_cases(self, tier):
        return 600 if tier == "quick" else 6000

    def to_coq(self, case, res):
        if self.failed(res):
            return 3
        p = dfir.catalogue()[case["prog"]]
        defers = "[" + "; ".join("{| d_before := %d; d_after := %d; d_lazy := %s |}" % (a, b, "true" if l else "false")
                                 for a, b, l in p.defers) + "]"
        checks = "[" + "; ".join("(%d%%nat, %s)" % (k, sp) for k, sp in p.checks) + "]"
        return dfir.guard(case["prog"], "c24_chk %s prog_%d %s %s %s %s %s %s" % (
            "true" if case["mode"] == "avail" else "false", case["prog"], defers, checks,
            dfir.g_bools(p.sinks), dfir.g_hist(case["hist"]), dfir.g_outs(res["outs"]),
            "[" + "; ".join(str(x) for x in res["obs"]) + "]"))


def main(ctx):
    dfir.run_plugin(ctx, C24())
