"""C24 Ticks advance one at a time and deferred data lands in the next tick (engine E7 Dfir)."""
from tools import dfir, vlib


class C24(dfir.DfirSpec):
    tag = "C24"
    props_vo = "theories/Props/C24.vo"
    theorems = ["C24_tick_counter", "C24_double_buffer", "C24_run_available", "C24_state_lifetimes"]
    modes = ("ticks", "avail", "avail")
    level = "other"
    explanation = "Not category proof: the end-to-end delivery statement (items pushed in tick t are exactly what the consumer drains in tick t+1) is shipped as three proved lemmas (producer clear, swap, consumer drain) without the frame theorem that no other subgraph touches the handoff's buffers between them; external wake-ups during a tick are not in the model (C27); the lowering of the real meta graph to the model program (schedule list excludes lazy handoffs, swap placement) is Python validated by correspondence only."
    assumptions = [
        "external wake-ups are absent from the model (the harness only sends between calls; run_available_sync "
        "clears the flag first); wake-ups racing a running tick are property C27",
        "the program structure (subgraphs, order, handoffs, delay marks, swap and schedule lists) is lowered by "
        "tools/dfir.py from the real meta_graph() following as_code_with_options; only validated by the cases",
        "the delivery statement is proved as three lemmas (producer clears buf, end-of-tick swap back'=buf, "
        "consumer reads exactly back and empties it); the frame condition that no other subgraph touches a "
        "handoff's buffers holds by construction of handoffs (one producer, one consumer) and is not a theorem",
    ]
    rule = ("catalogue program (defer_tick/defer_tick_lazy chains of length 0-4 with taps, stateful operators "
            "beside a defer, a countdown cycle through defer_tick, a 'static join fed through a defer) x random "
            "history (1-6 steps) x {run_tick_sync per step, run_available_sync per step}; "
            "non-trivial = some step has input and some sink recorded output")

    def n_cases(self, tier):
        return 600 if tier == "quick" else 6000

    def to_coq(self, case, res):
        if self.failed(res):
            return 3
        p = dfir.catalogue()[case["prog"]]
        defers = "[" + "; ".join("{| d_before := %d; d_after := %d; d_lazy := %s |}" % (a, b, "true" if l else "false")
                                 for a, b, l in p.defers) + "]"
        checks = "[" + "; ".join("(%d%%nat, %s)" % (k, sp) for k, sp in p.checks) + "]"
        return "c24_chk %s prog_%d %s %s %s %s %s %s" % (
            "true" if case["mode"] == "avail" else "false", case["prog"], defers, checks,
            dfir.g_bools(p.sinks), dfir.g_hist(case["hist"]), dfir.g_outs(res["outs"]),
            "[" + "; ".join(str(x) for x in res["obs"]) + "]")


def main(ctx):
    dfir.run_plugin(ctx, C24())
